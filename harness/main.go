package main

import (
	"fmt"
	"os"
	"runtime"
	"strconv"
)

func usage() {
	fmt.Fprintln(os.Stderr, "usage: vharness <tables|plan|...> args")
	os.Exit(2)
}

func envInt(name string, def int64) int64 {
	if v := os.Getenv(name); v != "" {
		if n, err := strconv.ParseInt(v, 10, 64); err == nil {
			return n
		}
	}
	return def
}

func main() {
	if len(os.Args) < 2 {
		usage()
	}
	_ = runtime.NumCPU
	cmd, args := os.Args[1], os.Args[2:]
	switch cmd {
	case "tables":
		cmdTables(args)
	case "plan":
		cmdPlan(args)
	default:
		if f, ok := commands[cmd]; ok {
			f(args)
			return
		}
		usage()
	}
}

var commands = map[string]func([]string){}
