package main

// C04 correspondence for topk/bottomk: the real kAggregate against Topk.v in Coq.
// The operand stream comes from the engine's own operator tree for the operand
// (series list, step vectors with sample IDs), the expected output from the
// engine's result for the whole query. Cases in which a group sees a tie at some
// step (equal values, two NaN) are skipped: the real heap's choice among equal
// roots depends on its layout, which the model does not mirror.

import (
	"flag"
	"fmt"
	"math"
	"math/rand"
	"os"
	"runtime"
	"sort"
	"strings"
	"time"

	"github.com/prometheus/prometheus/model/labels"
	"github.com/prometheus/prometheus/promql/parser"

	"github.com/thanos-community/promql-engine/logicalplan"
)

func groupKey(l labels.Labels, without bool, grouping []string) string {
	var lb labels.Labels
	if without {
		drop := map[string]bool{labels.MetricName: true}
		for _, n := range grouping {
			drop[n] = true
		}
		for _, x := range l {
			if !drop[x.Name] {
				lb = append(lb, x)
			}
		}
	} else {
		for _, n := range grouping {
			if v := l.Get(n); v != "" {
				lb = append(lb, labels.Label{Name: n, Value: v})
			}
		}
		sort.Sort(lb)
	}
	return lb.String()
}

func cmdTopkCases(args []string) {
	fs := flag.NewFlagSet("topkcases", flag.ExitOnError)
	seed := fs.Int64("seed", 1, "seed")
	from := fs.Int("from", 0, "first")
	to := fs.Int("to", 100, "last+1")
	out := fs.String("out", "", "output .v file")
	must(fs.Parse(args))
	o := genOptsFor("selector")
	o.MaxSeries = 12
	o.NoTies = true
	var cases []string
	stats := map[string]int{}
	for id := *from; id < *to; id++ {
		c := genCase(*seed, id, o)
		r := rand.New(rand.NewSource(*seed*104729 + int64(id)))
		g := &qgen{r: r, w: c.Window, o: o}
		opName := pick(r, []string{"topk", "bottomk"})
		mod := ""
		switch r.Intn(3) {
		case 0:
			mod = " by (" + g.labelList() + ")"
		case 1:
			mod = " without (" + g.labelList() + ")"
		}
		kStr := pick(r, []string{"0", "1", "1", "2", "2", "3", "5", "2.7", "-1", "100"})
		sel := pick(r, []string{"foo", "bar", `{__name__=~"foo|bar"}`, `{__name__=~".+"}`, `{__name__=~".+",a!="y"}`, g.freshSelector()})
		c.Query = fmt.Sprintf("%s%s (%s, %s%s)", opName, mod, kStr, sel, g.modifiers())
		expr, err := parser.ParseExpr(c.Query)
		if err != nil {
			stats["unparsable"]++
			continue
		}
		w := c.Window
		pend := w.End
		if w.Instant() {
			pend = w.Start
		}
		lp := logicalplan.New(expr, time.UnixMilli(w.Start), time.UnixMilli(pend)).Optimize(logicalplan.NoOptimizers).Expr()
		agg, ok := lp.(*parser.AggregateExpr)
		if !ok {
			stats["not-an-aggregation-plan"]++
			continue
		}
		num, ok := agg.Param.(*parser.NumberLiteral)
		if !ok {
			stats["parameter-not-literal"]++
			continue
		}
		runtime.GOMAXPROCS(c.Procs)
		cfg := c.Cfg()
		cfg.Optimizers = logicalplan.NoOptimizers
		impl, path := runQuery(newImpl(cfg), NewStore(c.Data), cfg, c.Query, c.Window)
		if path != "native" || impl.Kind == "error" {
			stats["not-native-or-error"]++
			continue
		}
		os_, ok := operandStream(agg.Expr, c)
		if !ok {
			stats["operand-stream-unavailable"]++
			continue
		}
		// ties?
		tie := false
		for _, st := range os_.steps {
			seen := map[string]map[uint64]bool{}
			nans := map[string]int{}
			for i, sid := range st.ids {
				k := groupKey(os_.series[sid], agg.Without, agg.Grouping)
				if math.IsNaN(st.vals[i]) {
					nans[k]++
					if nans[k] > 1 {
						tie = true
					}
					continue
				}
				if seen[k] == nil {
					seen[k] = map[uint64]bool{}
				}
				b := math.Float64bits(st.vals[i] + 0) // -0 and +0 compare equal
				if st.vals[i] == 0 {
					b = 0
				}
				if seen[k][b] {
					tie = true
				}
				seen[k][b] = true
			}
		}
		if tie {
			stats["skipped-tie"]++
			continue
		}
		k := 0
		if num.Val >= 1 {
			k = int(num.Val)
			if k > 1000 {
				k = 1000
			}
		}
		u := NewUniverse()
		u.AddExpr(lp)
		for _, l := range os_.series {
			u.AddLabels(l)
		}
		for _, s := range impl.Series {
			u.AddLabels(s.Labels)
		}
		sers := make([]string, len(os_.series))
		for i, l := range os_.series {
			sers[i] = u.labels(l)
		}
		steps := make([]string, len(os_.steps))
		for i, st := range os_.steps {
			vs := make([]string, len(st.ids))
			for j := range st.ids {
				vs[j] = fmt.Sprintf("(%d, %s)", st.ids[j], coqFloat(st.vals[j]))
			}
			steps[i] = fmt.Sprintf("(%s, %s)", coqZ(st.t), coqList(vs))
		}
		byT := map[int64][]string{}
		for _, s := range impl.Series {
			for _, p := range s.Points {
				byT[p.T] = append(byT[p.T], fmt.Sprintf("(%s, %s)", u.labels(s.Labels), coqFloat(p.V)))
			}
		}
		exp := make([]string, len(os_.steps))
		for i, st := range os_.steps {
			exp[i] = fmt.Sprintf("(%s, %s)", coqZ(st.t), coqList(byT[st.t]))
			delete(byT, st.t)
		}
		if len(byT) != 0 {
			stats["result-points-off-operand-steps"]++
			exp = append(exp, "((-1)%Z, [])")
		}
		if impl.NonTrivial() {
			stats["nontrivial"]++
		}
		stats["k="+fmt.Sprint(k)]++
		cases = append(cases, fmt.Sprintf("  mkTC %d%%N %s %d %s %s %s %s %s", id, coqBool(opName == "bottomk"), k, coqBool(agg.Without),
			u.nameList(agg.Grouping), coqList(sers), coqList(steps), coqList(exp)))
	}
	var sb strings.Builder
	sb.WriteString("From Coq Require Import List ZArith NArith Floats.\nFrom Verif Require Import Base Bin BinCases TopkCases.\nImport ListNotations.\n")
	sb.WriteString("Definition cases : list topk_case := [\n" + strings.Join(cases, ";\n") + "\n].\n")
	sb.WriteString("Definition bad := Eval vm_compute in topk_mismatches cases.\nPrint bad.\n")
	must(os.WriteFile(*out, []byte(sb.String()), 0o644))
	stats["cases"] = len(cases)
	keys := make([]string, 0, len(stats))
	for k := range stats {
		keys = append(keys, k)
	}
	sort.Strings(keys)
	parts := make([]string, len(keys))
	for i, k := range keys {
		parts[i] = fmt.Sprintf("%q: %d", k, stats[k])
	}
	fmt.Printf("{%s}\n", strings.Join(parts, ", "))
}

func init() { commands["topkcases"] = cmdTopkCases }
