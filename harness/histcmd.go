package main

// C06 correspondence for histogram_quantile: the real histogramOperator (le
// parsing, grouping of the bucket series, per-step buckets, bucketQuantile with
// its sort, coalescing and monotonicity repair) against Bucket.v on primitive
// floats in Coq. The operand streams (bucket series, scalar argument) come from
// the engine's own operator trees, the expected output from the engine's result
// for the whole query.

import (
	"flag"
	"fmt"
	"math"
	"math/rand"
	"os"
	"runtime"
	"sort"
	"strconv"
	"strings"
	"time"

	"github.com/prometheus/prometheus/model/labels"
	"github.com/prometheus/prometheus/promql/parser"

	"github.com/thanos-community/promql-engine/logicalplan"
)

var histLes = []string{"0.1", "0.5", "1", "1.0", "2.5", "5", "10", "1e3", "+Inf", "Inf", "inf", "-1", "0", "-Inf", "many", ""}

func genHistCase(seed int64, id int) *Case {
	r := rand.New(rand.NewSource(seed*1_000_003 + int64(id)))
	c := &Case{ID: id, Seed: seed}
	c.Window = genWindow(r)
	c.Lookback = pick(r, []int64{300_000, 60_000, 20_000})
	c.Procs = pick(r, []int{1, 2, 8, 16})
	i := 0
	for _, name := range []string{"foo", "bar"} {
		for _, a := range []string{"x", "y"} {
			if r.Intn(4) == 0 {
				continue
			}
			// the buckets of this histogram
			n := 1 + r.Intn(6)
			les := map[string]bool{}
			if r.Intn(6) != 0 {
				les[pick(r, []string{"+Inf", "+Inf", "Inf", "inf"})] = true
			}
			for len(les) < n {
				les[pick(r, histLes)] = true
			}
			var ls []string
			for l := range les {
				ls = append(ls, l)
			}
			sort.Strings(ls)
			r.Shuffle(len(ls), func(x, y int) { ls[x], ls[y] = ls[y], ls[x] })
			style := r.Intn(6) // 0-2 cumulative; 3 arbitrary quarters; 4 with zeros; 5 with NaN/Inf counts
			for k, le := range ls {
				ub, err := strconv.ParseFloat(le, 64)
				if err != nil {
					ub = 0
				}
				var smp []Sample
				for t := c.Window.Start - 100_000; t <= c.Window.End+10_000; t += 15_000 {
					if r.Intn(12) == 0 {
						continue
					}
					var v float64
					switch style {
					case 0, 1, 2:
						// roughly cumulative in the upper bound, with an occasional dip
						rank := 0.0
						switch {
						case math.IsInf(ub, 1):
							rank = 40
						case math.IsInf(ub, -1):
							rank = 0
						default:
							rank = math.Min(30, math.Max(0, 5+ub*3))
						}
						v = math.Floor(rank*float64(1+i%3)) + float64(t/15_000%5)
						if r.Intn(10) == 0 {
							v = float64(r.Intn(8))
						}
					case 3:
						v = quarter(r)
					case 4:
						v = float64(r.Intn(3)) * float64(r.Intn(2))
					default:
						v = []float64{math.NaN(), math.Inf(1), math.Inf(-1), 0, 3, 7.5, 12, -2}[r.Intn(8)]
					}
					if r.Intn(30) == 0 {
						v = StaleNaN
					}
					smp = append(smp, Sample{T: t + int64(k%2), V: v})
				}
				kv := []string{"__name__", name, "a", a}
				if le != "" {
					kv = append(kv, "le", le)
				}
				if r.Intn(5) == 0 {
					kv = append(kv, "b", pick(r, []string{"1", "2"}))
				}
				c.Data = append(c.Data, SeriesData{Labels: labels.FromStrings(kv...), Samples: smp})
				i++
			}
		}
	}
	// the quantile as a series, for scalar(q)
	var qs []Sample
	for t := c.Window.Start - 100_000; t <= c.Window.End+10_000; t += 15_000 {
		if r.Intn(8) == 0 {
			continue
		}
		qs = append(qs, Sample{T: t, V: float64(r.Intn(11)) / 8})
	}
	c.Data = append(c.Data, SeriesData{Labels: labels.FromStrings("__name__", "q"), Samples: qs})
	r.Shuffle(len(c.Data), func(x, y int) { c.Data[x], c.Data[y] = c.Data[y], c.Data[x] })
	return c
}

func cmdHistCases(args []string) {
	fs := flag.NewFlagSet("histcases", flag.ExitOnError)
	seed := fs.Int64("seed", 1, "seed")
	from := fs.Int("from", 0, "first")
	to := fs.Int("to", 100, "last+1")
	out := fs.String("out", "", "output .v file")
	must(fs.Parse(args))
	var cases []string
	stats := map[string]int{}
	for id := *from; id < *to; id++ {
		c := genHistCase(*seed, id)
		r := rand.New(rand.NewSource(*seed*32452843 + int64(id)))
		sel := pick(r, []string{"foo", "bar", `{__name__=~"foo|bar"}`, `foo{a="x"}`, `{__name__=~"foo|bar",a="y"}`, `{le!=""}`, `{__name__=~"foo|bar",b=""}`})
		if r.Intn(5) == 0 {
			sel += pick(r, []string{" offset 30s", " offset -15s"})
		}
		qs := pick(r, []string{"0.5", "0.9", "0", "1", "0.25", "0.999", "-0.5", "1.5", "NaN", "scalar(q)", "scalar(q)", "scalar(q) * 1.2 - 0.1"})
		c.Query = fmt.Sprintf("histogram_quantile(%s, %s)", qs, sel)
		expr, err := parser.ParseExpr(c.Query)
		if err != nil {
			stats["unparsable"]++
			continue
		}
		w := c.Window
		pend := w.End
		if w.Instant() {
			pend = w.Start
		}
		lp := logicalplan.New(expr, time.UnixMilli(w.Start), time.UnixMilli(pend)).Optimize(logicalplan.NoOptimizers).Expr()
		call, ok := lp.(*parser.Call)
		if !ok || len(call.Args) != 2 {
			stats["not-a-call-plan"]++
			continue
		}
		runtime.GOMAXPROCS(c.Procs)
		cfg := c.Cfg()
		cfg.Optimizers = logicalplan.NoOptimizers
		impl, path := runQuery(newImpl(cfg), NewStore(c.Data), cfg, c.Query, c.Window)
		if path != "native" || impl.Kind == "error" {
			stats["not-native-or-error"]++
			continue
		}
		qstream, ok1 := operandStream(call.Args[0], c)
		vstream, ok2 := operandStream(call.Args[1], c)
		if !ok1 || !ok2 || len(qstream.steps) != len(vstream.steps) {
			stats["operand-stream-unavailable"]++
			continue
		}
		skip := ""
		for i := range vstream.steps {
			if qstream.steps[i].t != vstream.steps[i].t {
				skip = "operand-streams-misaligned"
			}
			if len(qstream.steps[i].vals) == 0 {
				// a scalar operand without a sample at a step (no scalar operator produces that)
				skip = "scalar-without-sample"
			}
		}
		u := NewUniverse()
		u.AddExpr(lp)
		u.Names.Add("le")
		for _, l := range vstream.series {
			u.AddLabels(l)
		}
		for _, s := range impl.Series {
			u.AddLabels(s.Labels)
		}
		ins := make([]string, len(vstream.series))
		for i, l := range vstream.series {
			ub := "None"
			if v, err := strconv.ParseFloat(l.Get("le"), 64); err == nil {
				switch {
				case math.IsNaN(v):
					skip = "nan-upper-bound"
				case math.IsInf(v, 1):
					ub = "(Some None)"
					stats["bucket-series-inf"]++
				default:
					ub = "(Some (Some " + coqFloat(v) + "))"
					stats["bucket-series-finite"]++
				}
			} else {
				stats["bucket-series-invalid-le"]++
			}
			ins[i] = fmt.Sprintf("(%s, %s)", u.labels(l), ub)
		}
		if skip != "" {
			stats[skip]++
			continue
		}
		steps := make([]string, len(vstream.steps))
		for i, st := range vstream.steps {
			vs := make([]string, len(st.ids))
			for j := range st.ids {
				vs[j] = fmt.Sprintf("(%d, %s)", st.ids[j], coqFloat(st.vals[j]))
			}
			steps[i] = fmt.Sprintf("(%s, %s, %s)", coqZ(st.t), coqFloat(qstream.steps[i].vals[0]), coqList(vs))
		}
		byT := map[int64][]string{}
		npoints := 0
		for _, s := range impl.Series {
			for _, p := range s.Points {
				byT[p.T] = append(byT[p.T], fmt.Sprintf("(%s, %s)", u.labels(s.Labels), coqFloat(p.V)))
				npoints++
				switch {
				case math.IsNaN(p.V):
					stats["out-nan"]++
				case math.IsInf(p.V, 0):
					stats["out-inf"]++
				default:
					stats["out-number"]++
				}
			}
		}
		exp := make([]string, len(vstream.steps))
		for i, st := range vstream.steps {
			exp[i] = fmt.Sprintf("(%s, %s)", coqZ(st.t), coqList(byT[st.t]))
			delete(byT, st.t)
		}
		if len(byT) != 0 {
			stats["result-points-off-operand-steps"]++
			exp = append(exp, "((-1)%Z, [])")
		}
		if npoints > 0 {
			stats["nontrivial"]++
		}
		if os.Getenv("VERIF_LIST") != "" {
			fmt.Fprintf(os.Stderr, "%d\t%s\n", id, c.Query)
		}
		cases = append(cases, fmt.Sprintf("  mkHC %d%%N %s %s %s %s", id, coqN(u.Names.ID("le")), coqList(ins), coqList(steps), coqList(exp)))
	}
	var sb strings.Builder
	sb.WriteString("From Coq Require Import List ZArith NArith Floats.\nFrom Verif Require Import Base Bin BinCases BucketCases.\nImport ListNotations.\n")
	sb.WriteString("Definition cases : list hist_case := [\n" + strings.Join(cases, ";\n") + "\n].\n")
	sb.WriteString("Definition bad := Eval vm_compute in hist_mismatches cases.\nPrint bad.\n")
	must(os.WriteFile(*out, []byte(sb.String()), 0o644))
	stats["cases"] = len(cases)
	keys := make([]string, 0, len(stats))
	for k := range stats {
		keys = append(keys, k)
	}
	sort.Strings(keys)
	parts := make([]string, len(keys))
	for i, k := range keys {
		parts[i] = fmt.Sprintf("%q: %d", k, stats[k])
	}
	fmt.Printf("{%s}\n", strings.Join(parts, ", "))
}

func init() { commands["histcases"] = cmdHistCases }
