package main

// C03 correspondence: count_over_time / last_over_time over generated range
// selectors on the real engine against Range.v (incremental windows) in Coq.

import (
	"flag"
	"fmt"
	"math/rand"
	"os"
	"runtime"
	"strings"
	"time"

	"github.com/prometheus/prometheus/model/labels"
	"github.com/prometheus/prometheus/promql/parser"

	"github.com/thanos-community/promql-engine/logicalplan"
)

func cmdRngCases(args []string) {
	fs := flag.NewFlagSet("rngcases", flag.ExitOnError)
	seed := fs.Int64("seed", 1, "seed")
	from := fs.Int("from", 0, "first")
	to := fs.Int("to", 100, "last+1")
	out := fs.String("out", "", "output .v file")
	must(fs.Parse(args))
	o := genOptsFor("selector")
	o.MaxSeries = 10
	var cases []string
	nontriv, overlap, disjoint := 0, 0, 0
	for id := *from; id < *to; id++ {
		c := genCase(*seed, id, o)
		r := rand.New(rand.NewSource(*seed*7919 + int64(id)))
		g := &qgen{r: r, w: c.Window, o: o}
		kind := r.Intn(2)
		fn := []string{"count_over_time", "last_over_time"}[kind]
		c.Query = fmt.Sprintf("%s(%s[%s]%s)", fn, g.freshSelector(), g.dur(), g.modifiers())
		expr, err := parser.ParseExpr(c.Query)
		if err != nil {
			continue
		}
		start, end := time.UnixMilli(c.Window.Start), time.UnixMilli(c.Window.End)
		lp := logicalplan.New(expr, start, end).Optimize(logicalplan.DefaultOptimizers).Expr()
		pinned := false
		if si, ok := lp.(*parser.StepInvariantExpr); ok {
			pinned = true
			lp = si.Expr
		}
		call, ok := lp.(*parser.Call)
		if !ok {
			continue
		}
		ms, ok := call.Args[0].(*parser.MatrixSelector)
		if !ok {
			continue
		}
		vs := ms.VectorSelector.(*parser.VectorSelector)
		idx := matchSeries(c.Data, vs.LabelMatchers)
		runtime.GOMAXPROCS(c.Procs)
		st := NewStore(c.Data)
		cfg := c.Cfg()
		impl, path := runQuery(newImpl(cfg), st, cfg, c.Query, c.Window)
		if path != "native" || impl.Kind == "error" || hasDuplicateSeries(impl) {
			continue
		}
		byKey := map[string][]CPoint{}
		for _, s := range impl.Series {
			byKey[s.Key] = s.Points
		}
		// result label set: name dropped except for last_over_time
		sers := make([]string, len(idx))
		exp := make([]string, len(idx))
		dup := map[string]bool{}
		bad := false
		for k, i := range idx {
			l := c.Data[i].Labels
			key := l.String()
			if kind == 0 {
				key = labels.NewBuilder(l).Del("__name__").Labels(nil).String()
			}
			if dup[key] {
				bad = true
			}
			dup[key] = true
			sers[k] = coqSamples(c.Data[i].Samples)
			pts := byKey[key]
			ps := make([]string, len(pts))
			for j, p := range pts {
				if kind == 0 {
					ps[j] = fmt.Sprintf("(%s, %s)", coqZ(p.T), coqZ(int64(p.V)))
				} else {
					ps[j] = fmt.Sprintf("(%s, %s)", coqZ(p.T), coqFloatBits(p.V))
				}
			}
			exp[k] = coqList(ps)
			if len(pts) > 0 {
				nontriv++
			}
		}
		if bad {
			continue
		}
		if ms.Range.Milliseconds() > c.Window.Step {
			overlap++
		} else {
			disjoint++
		}
		cases = append(cases, fmt.Sprintf("  mkRngCase %d%%N %s %s %s %s %d %s %s", id, coqWindow(c.Window), coqZ(ms.Range.Milliseconds()),
			coqZ(vs.Offset.Milliseconds()), coqBool(pinned), kind, coqList(sers), coqList(exp)))
	}
	var sb strings.Builder
	sb.WriteString("From Coq Require Import List ZArith NArith.\nFrom Verif Require Import Base CasesLib.\nImport ListNotations.\n")
	sb.WriteString("Definition cases : list rng_case := [\n" + strings.Join(cases, ";\n") + "\n].\n")
	sb.WriteString("Definition bad := Eval vm_compute in rng_mismatches cases.\nPrint bad.\n")
	must(os.WriteFile(*out, []byte(sb.String()), 0o644))
	fmt.Printf("{\"cases\": %d, \"series_with_points\": %d, \"range_gt_step\": %d, \"range_le_step\": %d}\n", len(cases), nontriv, overlap, disjoint)
}

func init() { commands["rngcases"] = cmdRngCases }
