package main

// C05 correspondence: the real vector/vector operator against Bin.v in Coq.
// For a query `L op R` over two selectors the operand streams are taken from the
// engine's own operator trees for L and R (series lists in the engine's order,
// step vectors with their sample IDs), the expected output from the engine's
// result for the whole query; the model runs the join and the table on the
// operand streams inside Coq (values are primitive floats).

import (
	"context"
	"flag"
	"fmt"
	"math"
	"math/rand"
	"os"
	"runtime"
	"sort"
	"strconv"
	"strings"
	"time"

	"github.com/prometheus/prometheus/model/labels"
	"github.com/prometheus/prometheus/promql/parser"

	"github.com/thanos-community/promql-engine/logicalplan"
)

func coqFloat(v float64) string {
	switch {
	case math.IsNaN(v):
		return "nan"
	case math.IsInf(v, 1):
		return "infinity"
	case math.IsInf(v, -1):
		return "neg_infinity"
	}
	return "(" + strconv.FormatFloat(v, 'x', -1, 64) + ")%float"
}

type sideStream struct {
	series []labels.Labels
	steps  []sideStep
}

type sideStep struct {
	t    int64
	ids  []uint64
	vals []float64
}

// operandStream runs the engine's operator tree for one operand on its own.
func operandStream(e parser.Expr, c *Case) (s sideStream, ok bool) {
	defer func() {
		if recover() != nil {
			ok = false
		}
	}()
	cfg := c.Cfg()
	w := c.Window
	start, end, step := time.UnixMilli(w.Start), time.UnixMilli(w.End), time.Duration(w.Step)*time.Millisecond
	if w.Instant() {
		end, step = start, 0
	}
	lb := cfg.Lookback
	if cfg.QueryLookback != 0 {
		lb = cfg.QueryLookback
	}
	if lb == 0 {
		lb = 5 * time.Minute
	}
	op, err := newOperatorTree(e, NewStore(c.Data), start, end, step, lb)
	if err != nil {
		return s, false
	}
	ctx, cancel := context.WithTimeout(context.Background(), 20*time.Second)
	defer cancel()
	series, err := op.Series(ctx)
	if err != nil {
		return s, false
	}
	s.series = series
	for {
		batch, err := op.Next(ctx)
		if err != nil {
			return s, false
		}
		if batch == nil {
			break
		}
		for _, v := range batch {
			s.steps = append(s.steps, sideStep{t: v.T, ids: append([]uint64(nil), v.SampleIDs...), vals: append([]float64(nil), v.Samples...)})
		}
	}
	return s, true
}

var binOps = []string{"+", "-", "*", "/", "==", "!=", ">", "<", ">=", "<="}

func opCode(t parser.ItemType) int {
	for i, s := range binOps {
		if parser.ItemTypeStr[t] == s {
			return i
		}
	}
	return -1
}

func cmdBinCases(args []string) {
	fs := flag.NewFlagSet("bincases", flag.ExitOnError)
	seed := fs.Int64("seed", 1, "seed")
	from := fs.Int("from", 0, "first")
	to := fs.Int("to", 100, "last+1")
	out := fs.String("out", "", "output .v file")
	must(fs.Parse(args))
	o := genOptsFor("selector")
	o.MaxSeries = 12
	var cases []string
	stats := map[string]int{}
	for id := *from; id < *to; id++ {
		c := genCase(*seed, id, o)
		r := rand.New(rand.NewSource(*seed*7919 + int64(id)))
		g := &qgen{r: r, w: c.Window, o: o}
		var expr parser.Expr
		var opIdx int
		for try := 0; try < 8 && expr == nil; try++ {
			opIdx = r.Intn(len(binOps))
			opStr := binOps[opIdx]
			if opIdx >= 4 && r.Intn(3) == 0 {
				opStr += " bool"
			}
			match := ""
			switch r.Intn(6) {
			case 0:
			case 1, 2:
				match = " on (" + g.labelList() + ")"
			default:
				match = " ignoring (" + g.labelList() + ")"
			}
			if match != "" {
				switch r.Intn(5) {
				case 0:
					match += " group_left"
				case 1:
					match += " group_left (" + g.labelList() + ")"
				case 2:
					match += " group_right"
				case 3:
					match += " group_right (" + g.labelList() + ")"
				}
			}
			var side func() string
			nested := 0
			side = func() string {
				if nested == 0 && r.Intn(6) == 0 {
					// an operand that is itself a join: the operator under test then consumes
					// the stream of another vector/vector operator
					nested++
					inner := pick(r, []string{"+ on (a, b)", "* ignoring (c)", "- on (a) group_left", "> bool ignoring (b, c)", "/ on (a, b, c)"})
					return fmt.Sprintf("(%s %s %s)", side(), inner, side())
				}
				if r.Intn(3) == 0 {
					return g.freshSelector()
				}
				return pick(r, []string{"foo", "bar", `{__name__=~"foo|bar"}`, `{__name__=~".+"}`, `foo{a!=""}`, `bar{b!="2"}`, `{__name__=~".+",c=""}`, `foo{a="x"}`, `{a="x"}`})
			}
			lhsS, rhsS := side(), side()
			lm, rm := g.modifiers(), g.modifiers()
			if strings.HasPrefix(lhsS, "(") {
				lm = ""
			}
			if strings.HasPrefix(rhsS, "(") {
				rm = ""
			}
			if nested > 0 {
				stats["nested-operand"]++
			}
			c.Query = fmt.Sprintf("(%s%s) %s%s (%s%s)", lhsS, lm, opStr, match, rhsS, rm)
			e, err := parser.ParseExpr(c.Query)
			if err == nil {
				expr = e
			}
		}
		if expr == nil {
			stats["unparsable"]++
			continue
		}
		w := c.Window
		pend := w.End
		if w.Instant() {
			pend = w.Start
		}
		lp := logicalplan.New(expr, time.UnixMilli(w.Start), time.UnixMilli(pend)).Optimize(logicalplan.NoOptimizers).Expr()
		b, ok := lp.(*parser.BinaryExpr)
		if !ok || b.VectorMatching == nil {
			stats["not-a-binary-plan"]++
			continue
		}
		runtime.GOMAXPROCS(c.Procs)
		cfg := c.Cfg()
		cfg.Optimizers = logicalplan.NoOptimizers
		impl, path := runQuery(newImpl(cfg), NewStore(c.Data), cfg, c.Query, c.Window)
		if path != "native" {
			stats["not-native"]++
			continue
		}
		if impl.Kind == "error" && impl.Err != "many-to-many" {
			stats["other-error"]++
			continue
		}
		ls, ok1 := operandStream(b.LHS, c)
		rs, ok2 := operandStream(b.RHS, c)
		if !ok1 || !ok2 || len(ls.steps) != len(rs.steps) {
			stats["operand-stream-unavailable"]++
			continue
		}
		if nestedOperand(b) && len(b.VectorMatching.Include) > 0 && oneSideSignatureCollision(b, ls.series, rs.series) {
			// The series of an operand that is itself a join are numbered in Go map order, anew for every
			// instantiation: the stream recorded here and the operand of the query executed above may list
			// them differently. The included labels are copied from the first "one"-side series of a
			// signature, so with two such series of one signature the expected result is not a function
			// of the recorded streams.
			stats["nested-operand-order-dependent"]++
			continue
		}
		aligned := true
		for i := range ls.steps {
			if ls.steps[i].t != rs.steps[i].t {
				aligned = false
			}
		}
		if !aligned {
			stats["operand-streams-misaligned"]++
			continue
		}
		u := NewUniverse()
		u.AddExpr(lp)
		for _, l := range ls.series {
			u.AddLabels(l)
		}
		for _, l := range rs.series {
			u.AddLabels(l)
		}
		for _, s := range impl.Series {
			u.AddLabels(s.Labels)
		}
		for _, n := range b.VectorMatching.Include {
			u.Names.Add(n)
		}
		lbls := func(xs []labels.Labels) string {
			out := make([]string, len(xs))
			for i, l := range xs {
				out[i] = u.labels(l)
			}
			return coqList(out)
		}
		vec := func(s sideStep) string {
			out := make([]string, len(s.ids))
			for i := range s.ids {
				out[i] = fmt.Sprintf("(%d, %s)", s.ids[i], coqFloat(s.vals[i]))
			}
			return coqList(out)
		}
		steps := make([]string, len(ls.steps))
		for i := range ls.steps {
			steps[i] = fmt.Sprintf("(%s, %s, %s)", coqZ(ls.steps[i].t), vec(ls.steps[i]), vec(rs.steps[i]))
		}
		expected := "None"
		if impl.Kind != "error" {
			byT := map[int64][]string{}
			for _, s := range impl.Series {
				for _, p := range s.Points {
					byT[p.T] = append(byT[p.T], fmt.Sprintf("(%s, %s)", u.labels(s.Labels), coqFloat(p.V)))
				}
			}
			exp := make([]string, len(ls.steps))
			for i, st := range ls.steps {
				exp[i] = fmt.Sprintf("(%s, %s)", coqZ(st.t), coqList(byT[st.t]))
				delete(byT, st.t)
			}
			if len(byT) != 0 {
				// points at timestamps the operands never produced: keep them visible as a mismatch
				var ts []int64
				for t := range byT {
					ts = append(ts, t)
				}
				sort.Slice(ts, func(i, j int) bool { return ts[i] < ts[j] })
				for _, t := range ts {
					exp = append(exp, fmt.Sprintf("(%s, %s)", coqZ(t), coqList(byT[t])))
				}
			}
			expected = "(Some " + coqList(exp) + ")"
			stats["output_points"] += len(impl.Series)
		} else {
			stats["expected-many-to-many"]++
		}
		card := map[parser.VectorMatchCardinality]string{parser.CardOneToOne: "OneToOne", parser.CardManyToOne: "ManyToOne", parser.CardOneToMany: "OneToMany"}[b.VectorMatching.Card]
		if card == "" {
			stats["set-operator"]++
			continue
		}
		stats["card-"+card]++
		if len(b.VectorMatching.Include) > 0 {
			stats["with-include"]++
		}
		if impl.NonTrivial() {
			stats["nontrivial"]++
		}
		cases = append(cases, fmt.Sprintf("  mkBC %d%%N %s %s %s %s %s %d%%N %s %s %s %s", id, coqBool(b.VectorMatching.On),
			u.nameList(b.VectorMatching.MatchingLabels), u.nameList(b.VectorMatching.Include), card, coqBool(b.ReturnBool), opCode(b.Op),
			lbls(ls.series), lbls(rs.series), coqList(steps), expected))
	}
	var sb strings.Builder
	sb.WriteString("From Coq Require Import List ZArith NArith Floats.\nFrom Verif Require Import Base Bin BinCases.\nImport ListNotations.\n")
	sb.WriteString("Definition cases : list bin_case := [\n" + strings.Join(cases, ";\n") + "\n].\n")
	sb.WriteString("Definition bad := Eval vm_compute in bin_mismatches cases.\nPrint bad.\n")
	must(os.WriteFile(*out, []byte(sb.String()), 0o644))
	stats["cases"] = len(cases)
	keys := make([]string, 0, len(stats))
	for k := range stats {
		keys = append(keys, k)
	}
	sort.Strings(keys)
	parts := make([]string, len(keys))
	for i, k := range keys {
		parts[i] = fmt.Sprintf("%q: %d", k, stats[k])
	}
	fmt.Printf("{%s}\n", strings.Join(parts, ", "))
}

func nestedOperand(b *parser.BinaryExpr) bool {
	for _, side := range []parser.Expr{b.LHS, b.RHS} {
		nested := false
		parser.Inspect(side, func(n parser.Node, _ []parser.Node) error {
			if _, ok := n.(*parser.BinaryExpr); ok {
				nested = true
			}
			return nil
		})
		if nested {
			return true
		}
	}
	return false
}

func oneSideSignatureCollision(b *parser.BinaryExpr, lhs, rhs []labels.Labels) bool {
	for i, side := range [][]labels.Labels{lhs, rhs} {
		if !mustBeUnique(b.VectorMatching.Card, i) {
			continue
		}
		seen := map[string]string{}
		for _, l := range side {
			sg := sigOf(l, b.VectorMatching)
			if prev, dup := seen[sg]; dup && prev != l.String() {
				return true
			}
			seen[sg] = l.String()
		}
	}
	return false
}

func init() { commands["bincases"] = cmdBinCases }
