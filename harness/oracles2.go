package main

import (
	"fmt"
	"math/rand"
	"runtime"
	"sort"
	"strings"
	"time"

	"github.com/prometheus/prometheus/promql"
	"github.com/prometheus/prometheus/promql/parser"

	"github.com/thanos-community/promql-engine/api"
	"github.com/thanos-community/promql-engine/engine"
	"github.com/thanos-community/promql-engine/logicalplan"
)

func selectKey(r SelectRecord) string {
	ms := append([]string(nil), r.Matchers...)
	sort.Strings(ms)
	g := append([]string(nil), r.Hints.Grouping...)
	sort.Strings(g) // the grouping hint is compared as a set of label names
	return fmt.Sprintf("{%s} start=%d end=%d step=%d range=%d func=%q grouping=%v by=%v", strings.Join(ms, ","),
		r.Hints.Start, r.Hints.End, r.Hints.Step, r.Hints.Range, r.Hints.Func, g, r.Hints.By)
}

func selectSet(rs []SelectRecord) []string {
	m := map[string]bool{}
	for _, r := range rs {
		m[selectKey(r)] = true
	}
	out := make([]string, 0, len(m))
	for k := range m {
		out = append(out, k)
	}
	sort.Strings(out)
	return out
}

// oracleHints (C16): the engine's storage selects (no plan rewrites) carry the
// reference engine's matchers, time range and hints; and the hinted range is
// sufficient under every optimizer set.
func oracleHints(c *Case) CaseResult {
	runtime.GOMAXPROCS(c.Procs)
	cfg := c.Cfg()
	cfg.Optimizers = logicalplan.NoOptimizers
	st := NewStore(c.Data)
	impl, path := runQuery(newImpl(cfg), st, cfg, c.Query, c.Window)
	res := CaseResult{Path: path, NonTriv: impl.NonTrivial()}
	if path != "native" {
		res.Skipped = "not evaluated natively"
		return res
	}
	implSel := selectSet(st.Selects)
	st2 := NewStore(c.Data)
	ref, _ := runQuery(newRef(cfg), st2, cfg, c.Query, c.Window)
	refSel := selectSet(st2.Selects)
	if impl.Kind != "error" && ref.Kind != "error" && !sameStrings(implSel, refSel) {
		res.Fail = "storage selects differ from the reference engine's"
		res.Impl, res.Ref = trunc(strings.Join(implSel, " ; "), 700), trunc(strings.Join(refSel, " ; "), 700)
		if unpinnedInStepInvariant(c) {
			res.Tags = append(res.Tags, "unpinned-selector-in-step-invariant")
		}
		return res
	}
	// sufficiency of the hinted range, with and without rewrites
	for name, opts := range map[string][]logicalplan.Optimizer{"none": logicalplan.NoOptimizers, "default": logicalplan.DefaultOptimizers, "all": logicalplan.AllOptimizers} {
		cfg2 := cfg
		cfg2.Optimizers = opts
		opts := opts
		c.baseMaker = func(x EngineCfg) queryMaker { x.Optimizers = opts; return newImpl(x) }
		full, _ := runQuery(newImpl(cfg2), NewStore(c.Data), cfg2, c.Query, c.Window)
		clipStore := NewStore(c.Data)
		clipStore.ClipToHints = true
		clipped, _ := runQuery(newImpl(cfg2), clipStore, cfg2, c.Query, c.Window)
		if d := diffSelf(clipped, full); d != "" {
			res.Fail = "result changes when the storage omits samples outside [hints.Start, hints.End] (optimizers " + name + "): " + d
			res.Impl, res.Ref = trunc(clipped.String(), 500), trunc(full.String(), 500)
			res.Tags = selfTags(c, clipped, full)
			return res
		}
	}
	return res
}

// unpinnedInStepInvariant: PreprocessExpr decides step invariance of an
// aggregation from its operand only, so a parameter without @ can end up inside
// a step-invariant subtree (quantile(scalar(foo), bar @ 10)).
func unpinnedInStepInvariant(c *Case) bool {
	expr, err := parser.ParseExpr(c.Query)
	if err != nil {
		return false
	}
	lp := logicalplan.New(expr, time.UnixMilli(c.Window.Start), time.UnixMilli(c.Window.End)).Expr()
	found := false
	var walk func(e parser.Expr, inside bool)
	walk = func(e parser.Expr, inside bool) {
		walkCustomShallow(e, func(x parser.Expr) bool {
			switch n := x.(type) {
			case *parser.StepInvariantExpr:
				walk(n.Expr, true)
				return false
			case *parser.VectorSelector:
				if inside && n.Timestamp == nil {
					found = true
				}
			case *parser.Call:
				if _, unsafe := promql.AtModifierUnsafeFunctions[n.Func.Name]; inside && unsafe {
					found = true // e.g. time() in the parameter of a pinned aggregation
				}
			}
			return true
		})
	}
	walk(lp, false)
	return found
}

type localRemote struct {
	eng   *engineWrap
	store *Store
}

type engineWrap struct{ q queryMaker }

// oracleDist (C10): distributed execution over a disjoint partition of the
// series equals central execution over the union.
func oracleDist(c *Case) CaseResult {
	runtime.GOMAXPROCS(c.Procs)
	cfg := c.Cfg()
	union := NewStore(c.Data)
	central, path := runQuery(newImpl(cfg), union, cfg, c.Query, c.Window)
	res := CaseResult{Path: path, NonTriv: central.NonTrivial()}
	if central.Err == "create" {
		res.Skipped = "rejected at creation"
		return res
	}
	r := rand.New(rand.NewSource(c.Seed*4057 + int64(c.ID)))
	k := 1 + r.Intn(4)
	parts := make([][]SeriesData, k)
	for _, s := range c.Data {
		i := r.Intn(k)
		if r.Intn(6) == 0 {
			i = 0 // skew: leaves some partitions empty
		}
		parts[i] = append(parts[i], s)
	}
	opts := engine.Opts{EngineOpts: promOpts(cfg)}
	ropts := opts
	if c.ID%3 == 2 {
		// remote engines configured with another lookback than the query's: they must use the query's
		rcfg := cfg
		rcfg.Lookback = otherLookback(c)
		ropts = engine.Opts{EngineOpts: promOpts(rcfg)}
	}
	var remotes []api.RemoteEngine
	for _, p := range parts {
		remotes = append(remotes, engine.NewLocalEngine(ropts, NewStore(p)))
	}
	dist := engine.NewDistributedEngine(opts, api.NewStaticEndpoints(remotes))
	got, _ := runQuery(dist, NewStore(c.Data), cfg, c.Query, c.Window)
	if d := diffSelf(got, central); d != "" {
		res.Fail = fmt.Sprintf("distributed (%d partitions) vs central: %s", k, d)
		res.Impl, res.Ref = trunc(got.String(), 500), trunc(central.String(), 500)
		res.Tags = selfTags(c, got, central)
	}
	return res
}

// pinnedOutsideStepInvariant: the parameter of an aggregation is not visited by
// PreprocessExpr, so a selector with @ (or start()/end()) in it is not wrapped
// as step invariant; its offset is fixed for the window's start and the
// selector is evaluated at T + (t - start) at step t - by the reference engine
// as well (topk(scalar(foo @ 700), bar)).
func pinnedOutsideStepInvariant(c *Case) bool {
	expr, err := parser.ParseExpr(c.Query)
	if err != nil {
		return false
	}
	lp := logicalplan.New(expr, time.UnixMilli(c.Window.Start), time.UnixMilli(c.Window.End)).Expr()
	found := false
	var walk func(e parser.Expr, inside bool)
	walk = func(e parser.Expr, inside bool) {
		walkCustomShallow(e, func(x parser.Expr) bool {
			switch n := x.(type) {
			case *parser.StepInvariantExpr:
				walk(n.Expr, true)
				return false
			case *parser.VectorSelector:
				if !inside && (n.Timestamp != nil || n.StartOrEnd != 0) {
					found = true
				}
			}
			return true
		})
	}
	walk(lp, false)
	return found
}

var _ = promql.ErrValidationAtModifierDisabled
