package main

// C03 correspondence for the range functions' kernels: function.Funcs[name] of
// the real engine is called on generated point lists; RangeFns.range_fn
// evaluates the same kernel inside Coq on primitive floats.

import (
	"flag"
	"fmt"
	"math"
	"math/rand"
	"os"
	"sort"
	"strings"

	"github.com/prometheus/prometheus/promql"

	"github.com/thanos-community/promql-engine/execution/function"
)

var kernelNames = []string{"sum_over_time", "max_over_time", "min_over_time", "avg_over_time", "stddev_over_time", "stdvar_over_time",
	"count_over_time", "last_over_time", "present_over_time", "changes", "resets", "deriv", "irate", "idelta", "rate", "delta", "increase"}

func cmdKernelCases(args []string) {
	fs := flag.NewFlagSet("kernelcases", flag.ExitOnError)
	seed := fs.Int64("seed", 1, "seed")
	from := fs.Int("from", 0, "first")
	to := fs.Int("to", 100, "last+1")
	out := fs.String("out", "", "output .v file")
	must(fs.Parse(args))
	var cases []string
	stats := map[string]int{}
	for id := *from; id < *to; id++ {
		r := rand.New(rand.NewSource(*seed*86028121 + int64(id)))
		fn := r.Intn(len(kernelNames))
		n := []int{0, 1, 2, 2, 3, 5, 8, 20}[r.Intn(8)]
		stepTime := int64(600_000 + r.Intn(600_000))
		selRange := []int64{30_000, 60_000, 300_000, 7_300}[r.Intn(4)]
		offset := []int64{0, 0, 30_000, -15_000}[r.Intn(4)]
		t := stepTime - offset - selRange + int64(r.Intn(5))
		kind := r.Intn(6) // value shapes
		var pts []promql.Point
		v := float64(r.Intn(100)) / 4
		for i := 0; i < n; i++ {
			switch kind {
			case 0: // counter with occasional resets
				if r.Intn(5) == 0 {
					v = float64(r.Intn(8)) / 4
				} else {
					v += float64(r.Intn(40)) / 4
				}
			case 1: // gauge
				v = float64(r.Intn(2000)-1000) / 8
			case 2: // constant
			case 3: // special values
				v = []float64{math.NaN(), math.Inf(1), math.Inf(-1), 0, -0.0, 1e308, -1e308, 5e-324, 1, 1}[r.Intn(10)]
			case 4: // nearly equal values
				v = 1 + float64(r.Intn(5))*1e-9
			default:
				v = (r.Float64() - 0.3) * math.Pow(10, float64(r.Intn(12)-3))
			}
			pts = append(pts, promql.Point{T: t, V: v})
			t += []int64{1, 1_000, 5_000, 15_000, 15_001, 30_000}[r.Intn(6)]
			if r.Intn(10) == 0 {
				t-- // at most the same millisecond is never produced by the selector; keep strictly increasing
				t++
			}
		}
		name := kernelNames[fn]
		res := function.Funcs[name](function.FunctionArgs{Points: pts, StepTime: stepTime, SelectRange: selRange, Offset: offset})
		exp := "None"
		if res.Point != function.InvalidSample.Point {
			exp = "(Some " + coqFloat(res.V) + ")"
			stats["some"]++
		}
		ps := make([]string, len(pts))
		for i, p := range pts {
			ps[i] = fmt.Sprintf("(%s, %s)", coqZ(p.T), coqFloat(p.V))
		}
		stats[name]++
		cases = append(cases, fmt.Sprintf("  mkKC %d%%N %d%%N %s %s %s %s %s", id, fn, coqList(ps), coqZ(stepTime), coqZ(selRange), coqZ(offset), exp))
	}
	var sb strings.Builder
	sb.WriteString("From Coq Require Import List ZArith NArith Floats.\nFrom Verif Require Import RangeFns.\nImport ListNotations.\n")
	sb.WriteString("Definition cases : list kernel_case := [\n" + strings.Join(cases, ";\n") + "\n].\n")
	sb.WriteString("Definition bad := Eval vm_compute in kernel_mismatches cases.\nPrint bad.\n")
	must(os.WriteFile(*out, []byte(sb.String()), 0o644))
	stats["cases"] = len(cases)
	keys := make([]string, 0, len(stats))
	for k := range stats {
		keys = append(keys, k)
	}
	sort.Strings(keys)
	parts := make([]string, len(keys))
	for i, k := range keys {
		parts[i] = fmt.Sprintf("%q: %d", k, stats[k])
	}
	fmt.Printf("{%s}\n", strings.Join(parts, ", "))
}

func init() { commands["kernelcases"] = cmdKernelCases }
