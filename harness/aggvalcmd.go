package main

// C04 correspondence for the value accumulators: sum, max, min, count, avg,
// group, stddev, stdvar [by (non-empty list) | without (list)] (selector) on the
// real engine (scalar tables) against Agg.aggregate instantiated with the float
// accumulators of AggFloat.v. The operand stream comes from the engine's own
// operator tree for the selector.

import (
	"flag"
	"fmt"
	"math/rand"
	"os"
	"runtime"
	"sort"
	"strings"
	"time"

	"github.com/prometheus/prometheus/promql/parser"

	"github.com/thanos-community/promql-engine/logicalplan"
)

var aggValOps = []string{"sum", "max", "min", "count", "avg", "group", "stddev", "stdvar", "quantile"}

func cmdAggValCases(args []string) {
	fs := flag.NewFlagSet("aggvalcases", flag.ExitOnError)
	seed := fs.Int64("seed", 1, "seed")
	from := fs.Int("from", 0, "first")
	to := fs.Int("to", 100, "last+1")
	out := fs.String("out", "", "output .v file")
	must(fs.Parse(args))
	o := genOptsFor("selector")
	o.MaxSeries = 12
	var cases []string
	stats := map[string]int{}
	for id := *from; id < *to; id++ {
		c := genCase(*seed, id, o)
		r := rand.New(rand.NewSource(*seed*122949829 + int64(id)))
		g := &qgen{r: r, w: c.Window, o: o}
		fn := r.Intn(len(aggValOps))
		mod := ""
		vectorized := fn <= 5 && r.Intn(4) == 0
		if vectorized {
			// no grouping labels: the engine's vectorized table (gonum floats.Max/Min, len, 1, and since
			// fix 7b93a09 a sum in the order of the samples): its result is the scalar accumulator's
			mod = pick(r, []string{"", " by ()"})
			stats["vectorized-table"]++
		} else if r.Intn(2) == 0 {
			mod = " without (" + g.labelList() + ")"
		} else {
			l := g.labelList()
			if l == "" {
				l = pick(r, []string{"a", "b", "c", "zz", "a, b"})
			}
			mod = " by (" + l + ")"
		}
		sel := pick(r, []string{"foo", "bar", `{__name__=~"foo|bar"}`, `{__name__=~".+"}`, `{__name__=~".+",a!="y"}`, g.freshSelector()})
		param := 0.0
		if aggValOps[fn] == "quantile" {
			ps := pick(r, []string{"0", "0.5", "0.9", "1", "0.25", "-1", "2", "NaN", "0.999"})
			pe, _ := parser.ParseExpr(ps)
			switch n := pe.(type) {
			case *parser.NumberLiteral:
				param = n.Val
			case *parser.UnaryExpr:
				param = -n.Expr.(*parser.NumberLiteral).Val
			}
			c.Query = fmt.Sprintf("quantile%s (%s, %s%s)", mod, ps, sel, g.modifiers())
		} else {
			c.Query = fmt.Sprintf("%s%s (%s%s)", aggValOps[fn], mod, sel, g.modifiers())
		}
		expr, err := parser.ParseExpr(c.Query)
		if err != nil {
			stats["unparsable"]++
			continue
		}
		w := c.Window
		pend := w.End
		if w.Instant() {
			pend = w.Start
		}
		lp := logicalplan.New(expr, time.UnixMilli(w.Start), time.UnixMilli(pend)).Optimize(logicalplan.NoOptimizers).Expr()
		agg, ok := lp.(*parser.AggregateExpr)
		if !ok {
			stats["not-an-aggregation-plan"]++
			continue
		}
		runtime.GOMAXPROCS(c.Procs)
		cfg := c.Cfg()
		cfg.Optimizers = logicalplan.NoOptimizers
		impl, path := runQuery(newImpl(cfg), NewStore(c.Data), cfg, c.Query, c.Window)
		if path != "native" || impl.Kind == "error" {
			stats["not-native-or-error"]++
			continue
		}
		os_, ok := operandStream(agg.Expr, c)
		if !ok {
			stats["operand-stream-unavailable"]++
			continue
		}
		u := NewUniverse()
		u.AddExpr(lp)
		for _, l := range os_.series {
			u.AddLabels(l)
		}
		for _, s := range impl.Series {
			u.AddLabels(s.Labels)
		}
		sers := make([]string, len(os_.series))
		for i, l := range os_.series {
			sers[i] = u.labels(l)
		}
		steps := make([]string, len(os_.steps))
		for i, st := range os_.steps {
			vs := make([]string, len(st.ids))
			for j := range st.ids {
				vs[j] = fmt.Sprintf("(%d, %s)", st.ids[j], coqFloat(st.vals[j]))
			}
			steps[i] = fmt.Sprintf("(%s, %s)", coqZ(st.t), coqList(vs))
		}
		byT := map[int64][]string{}
		for _, s := range impl.Series {
			for _, p := range s.Points {
				byT[p.T] = append(byT[p.T], fmt.Sprintf("(%s, %s)", u.labels(s.Labels), coqFloat(p.V)))
			}
		}
		exp := make([]string, len(os_.steps))
		for i, st := range os_.steps {
			exp[i] = fmt.Sprintf("(%s, %s)", coqZ(st.t), coqList(byT[st.t]))
			delete(byT, st.t)
		}
		if len(byT) != 0 {
			stats["result-points-off-operand-steps"]++
			exp = append(exp, "((-1)%Z, [])")
		}
		if impl.NonTrivial() {
			stats["nontrivial"]++
		}
		if hasDuplicateSeries(impl) {
			stats["duplicate-output-labels"]++
		}
		stats[aggValOps[fn]]++
		cases = append(cases, fmt.Sprintf("  mkAVC %d%%N %d%%N %s %s %s %s %s %s", id, fn, coqFloat(param), coqBool(agg.Without), u.nameList(agg.Grouping),
			coqList(sers), coqList(steps), coqList(exp)))
	}
	var sb strings.Builder
	sb.WriteString("From Coq Require Import List ZArith NArith Floats.\nFrom Verif Require Import Base Bin BinCases AggFloat.\nImport ListNotations.\n")
	sb.WriteString("Definition cases : list aggval_case := [\n" + strings.Join(cases, ";\n") + "\n].\n")
	sb.WriteString("Definition bad := Eval vm_compute in aggval_mismatches cases.\nPrint bad.\n")
	must(os.WriteFile(*out, []byte(sb.String()), 0o644))
	stats["cases"] = len(cases)
	keys := make([]string, 0, len(stats))
	for k := range stats {
		keys = append(keys, k)
	}
	sort.Strings(keys)
	parts := make([]string, len(keys))
	for i, k := range keys {
		parts[i] = fmt.Sprintf("%q: %d", k, stats[k])
	}
	fmt.Printf("{%s}\n", strings.Join(parts, ", "))
}

func init() { commands["aggvalcases"] = cmdAggValCases }
