package main

// Generators: datasets, evaluation windows and typed PromQL expressions. Every
// random choice derives from one PRNG state (VERIF_SEED + case index), so a
// case replays exactly.

import (
	"fmt"
	"math"
	"math/rand"
	"sort"
	"strings"
	"time"

	"github.com/prometheus/prometheus/model/labels"
)

type Case struct {
	ID        int          `json:"id"`
	Seed      int64        `json:"seed"`
	Query     string       `json:"query"`
	Window    Window       `json:"window"`
	Lookback  int64        `json:"lookback_ms"`       // engine-wide
	QLookback int64        `json:"query_lookback_ms"` // per query, 0 = unset
	Procs     int          `json:"gomaxprocs"`
	Data      []SeriesData `json:"-"`

	// how the baseline of a self-comparison was computed (nil: newImpl with Cfg()); the guards
	// that re-run the baseline on perturbed data use it
	baseMaker func(EngineCfg) queryMaker
}

func (c *Case) Cfg() EngineCfg {
	// a third of the queries without a lookback of their own carry query options that leave it unset
	return EngineCfg{Lookback: time.Duration(c.Lookback) * time.Millisecond, QueryLookback: time.Duration(c.QLookback) * time.Millisecond,
		EmptyQueryOpts: c.QLookback == 0 && c.ID%3 == 1}
}

// EffLookback is the lookback the query must be evaluated with.
func (c *Case) EffLookback() int64 {
	if c.QLookback > 0 {
		return c.QLookback
	}
	if c.Lookback > 0 {
		return c.Lookback
	}
	return 300_000
}

type GenOpts struct {
	MaxSeries    int
	MaxDepth     int
	NoTies       bool   // make all values at one timestamp pairwise distinct
	IntValues    bool   // only exactly summable values (k/4), no NaN/Inf
	Specials     int    // one sample in Specials (default 10) is NaN, +Inf, -Inf or 0, a quarter each
	OnlyNaN      bool   // ... is NaN
	UpperLabel   bool   // series also carry a label whose name starts with an upper-case letter (it sorts before __name__)
	Vocabulary   string // "" = full native vocabulary; "model" = the fragment modelled in Coq
	NoAt         bool
	NoStartEnd   bool
	Fallbacks    bool // also functions the engine does not implement (answered through the fallback)
	SelectorOnly bool
	Focus        string // "" | range | agg | bin | func : construct forced at the top of the expression
	Epoch        bool   // shift the window so that one of its steps is at -1ms (times around and before the epoch)
}

var metricNames = []string{"foo", "bar"}
var labelVals = map[string][]string{"a": {"x", "y"}, "b": {"1", "2"}, "c": {"p", "q", "r"}, "Z": {"u", "v"}}

func pick[T any](r *rand.Rand, xs []T) T { return xs[r.Intn(len(xs))] }

func genWindow(r *rand.Rand) Window {
	base := int64(600_000 + r.Intn(20)*7_000)
	if r.Intn(5) == 0 {
		return Window{Start: base + int64(r.Intn(300_000)), End: 0, Step: 0}.fixInstant()
	}
	steps := []int64{1_000, 5_000, 10_000, 15_000, 30_000, 60_000, 7_300, 33_333}
	st := pick(r, steps)
	var n int
	switch r.Intn(10) {
	case 0:
		n = 1
	case 1:
		n = 101
	case 2:
		n = 250
	default:
		n = 1 + r.Intn(35)
	}
	if st >= 30_000 && n > 60 {
		n = 60
	}
	s := base + int64(r.Intn(5))*st/3 + int64(r.Intn(3))
	e := s + int64(n-1)*st
	if r.Intn(3) == 0 {
		e += int64(r.Intn(int(st)))
	}
	return Window{Start: s, End: e, Step: st}
}

func (w Window) fixInstant() Window { w.End = w.Start; w.Step = 0; return w }

func genLabels(r *rand.Rand, used map[string]bool, upperLabel bool) labels.Labels {
	for try := 0; try < 200; try++ {
		var kv []string
		if r.Intn(12) != 0 {
			kv = append(kv, "__name__", pick(r, metricNames))
		}
		for _, n := range []string{"a", "b", "c"} {
			p := 3
			if n == "c" {
				p = 2
			}
			if r.Intn(p) != 0 {
				kv = append(kv, n, pick(r, labelVals[n]))
			}
		}
		if upperLabel && r.Intn(3) != 0 {
			kv = append(kv, "Z", pick(r, labelVals["Z"]))
		}
		l := labels.FromStrings(kv...)
		if len(l) == 0 || used[l.String()] {
			continue
		}
		used[l.String()] = true
		return l
	}
	return nil
}

func quarter(r *rand.Rand) float64 { return float64(r.Intn(441)-40) / 4 }

// genData places samples irregularly and boundary-biased relative to the
// window's grid, the lookback delta and typical ranges.
func genData(r *rand.Rand, w Window, lb int64, o GenOpts) []SeriesData {
	n := 0
	switch r.Intn(10) {
	case 0:
		n = 0
	case 1:
		n = 1
	default:
		n = 1 + r.Intn(o.MaxSeries)
	}
	used := map[string]bool{}
	grid := w.Grid()
	var out []SeriesData
	for i := 0; i < n; i++ {
		l := genLabels(r, used, o.UpperLabel)
		if l == nil {
			break
		}
		lo := w.Start - 2*lb - 120_000
		hi := w.End + lb/2 + 30_000
		if hi-lo > 3_000_000 {
			lo = hi - 3_000_000
		}
		switch r.Intn(6) {
		case 0: // starts late
			lo = w.Start + (w.End-w.Start)/2 - int64(r.Intn(20_000))
		case 1: // ends early
			hi = w.Start + (w.End-w.Start)/2 + int64(r.Intn(20_000))
		case 2: // entirely before the window, maybe within lookback
			hi = w.Start - int64(r.Intn(int(lb)+2_000))
		}
		if lo < 1 {
			lo = 1
		}
		interval := pick(r, []int64{5_000, 10_000, 15_000, 30_000, 3_700, 61_000})
		ts := map[int64]bool{}
		for t := lo + int64(r.Intn(int(interval))); t <= hi; {
			ts[t] = true
			jitter := int64(r.Intn(int(interval/5)+1)) - interval/10
			gap := interval + jitter
			if r.Intn(15) == 0 {
				gap += lb + int64(r.Intn(60_000)) // gap longer than lookback
			}
			if gap < 1 {
				gap = 1
			}
			t += gap
		}
		// boundary-biased placement around grid points
		for k := 0; k < 6 && len(grid) > 0; k++ {
			g := pick(r, grid)
			d := pick(r, []int64{0, -1, 1, -lb, -lb - 1, -lb + 1, -60_000, -60_001, -59_999, -30_000, -30_001})
			if t := g + d; t > 0 {
				ts[t] = true
			}
		}
		var tl []int64
		for t := range ts {
			tl = append(tl, t)
		}
		sort.Slice(tl, func(a, b int) bool { return tl[a] < tl[b] })
		counter := r.Intn(3) == 0
		cur := quarter(r)
		if counter {
			cur = math.Abs(cur)
		}
		var smp []Sample
		for _, t := range tl {
			var v float64
			if counter {
				if r.Intn(12) == 0 {
					cur = float64(r.Intn(8)) / 4 // reset
				} else {
					cur += float64(r.Intn(40)) / 4
				}
				v = cur
			} else {
				v = quarter(r)
			}
			if !o.IntValues {
				sp := 10
				if o.Specials > 0 {
					sp = o.Specials
				}
				k := r.Intn(4 * sp)
				if o.OnlyNaN && k < 4 {
					k = 0
				}
				switch k {
				case 0:
					v = math.NaN()
				case 1:
					v = math.Inf(1)
				case 2:
					v = math.Inf(-1)
				case 3:
					v = 0
					if len(smp)%2 == 1 {
						v = math.Copysign(0, -1) // every other one a negative zero (no extra random draw)
					}
				}
			}
			if r.Intn(25) == 0 {
				v = StaleNaN
			}
			smp = append(smp, Sample{T: t, V: v})
		}
		out = append(out, SeriesData{Labels: l, Samples: smp})
	}
	if o.NoTies {
		// make values pairwise distinct across series at every timestamp: add a
		// per-series offset far below the quarter grid.
		for i := range out {
			for j := range out[i].Samples {
				v := out[i].Samples[j].V
				if !math.IsNaN(v) && !math.IsInf(v, 0) {
					out[i].Samples[j].V = v + float64(i+1)/1024 + float64(j%7)/65536
				}
			}
		}
	}
	// random storage order
	r.Shuffle(len(out), func(a, b int) { out[a], out[b] = out[b], out[a] })
	return out
}

// ---------------------------------------------------------------------------
// expression generator

type qgen struct {
	r       *rand.Rand
	w       Window
	o       GenOpts
	lastSel string // the last generated selector (matchers), reused now and then
}

func (g *qgen) dur() string {
	return pick(g.r, []string{"30s", "1m", "45s", "2m", "90s", "15s", "1500ms", "61s", "5m", "10s", "7300ms"})
}

func (g *qgen) matchers() string {
	var ms []string
	switch g.r.Intn(30) {
	case 0:
		ms = append(ms, `__name__=~"foo|bar"`)
	case 1:
		ms = append(ms, `__name__!="foo"`, `a=~".+"`)
	case 2:
		ms = append(ms, `__name__=~".*"`, `b!=""`)
	case 3:
		ms = append(ms, `__name__="bar"`)
	default:
	}
	for _, n := range []string{"a", "b", "c"} {
		switch g.r.Intn(9) {
		case 0:
			ms = append(ms, fmt.Sprintf(`%s="%s"`, n, pick(g.r, labelVals[n])))
		case 1:
			ms = append(ms, fmt.Sprintf(`%s!="%s"`, n, pick(g.r, labelVals[n])))
		case 2:
			ms = append(ms, fmt.Sprintf(`%s=~"%s|%s"`, n, labelVals[n][0], labelVals[n][1]))
		case 3:
			ms = append(ms, fmt.Sprintf(`%s=""`, n))
		}
	}
	return strings.Join(ms, ",")
}

func (g *qgen) selector() string {
	if g.lastSel != "" && g.r.Intn(4) == 0 {
		return g.lastSel // the same select twice in one query (with other modifiers)
	}
	s := g.freshSelector()
	g.lastSel = s
	return s
}

func (g *qgen) freshSelector() string {
	ms := g.matchers()
	name := ""
	if !strings.Contains(ms, "__name__") {
		name = pick(g.r, metricNames)
	}
	s := name
	if ms != "" {
		s += "{" + ms + "}"
	}
	return s
}

func (g *qgen) modifiers() string {
	s := ""
	if !g.o.NoAt && g.r.Intn(6) == 0 {
		switch k := g.r.Intn(5); {
		case k == 0 && !g.o.NoStartEnd:
			s += " @ start()"
		case k == 1 && !g.o.NoStartEnd:
			s += " @ end()"
		default:
			t := g.w.Start + int64(g.r.Intn(int(g.w.End-g.w.Start)+120_000)) - 60_000
			s += fmt.Sprintf(" @ %d.%03d", t/1000, t%1000)
		}
	}
	if g.r.Intn(4) == 0 {
		s += " offset " + pick(g.r, []string{"30s", "1m", "-30s", "5m", "1ms", "-1ms", "17s"})
	}
	return s
}

func (g *qgen) vecSelector() string { return g.selector() + g.modifiers() }

// forcedModifiers always shifts the selector (offset and/or @).
func (g *qgen) forcedModifiers() string {
	for {
		if m := g.modifiers(); m != "" {
			return m
		}
	}
}

var rangeFuncs = []string{"rate", "increase", "delta", "irate", "idelta", "deriv", "changes", "resets",
	"sum_over_time", "avg_over_time", "min_over_time", "max_over_time", "count_over_time", "last_over_time",
	"present_over_time", "stddev_over_time", "stdvar_over_time"}

var simpleFuncs = []string{"abs", "ceil", "floor", "sqrt", "exp", "ln", "log2", "log10", "sin", "cos", "tan", "asin", "acos",
	"atan", "sinh", "cosh", "tanh", "asinh", "acosh", "atanh", "rad", "deg"}

// functions of the reference engine that the engine leaves to the fallback
var fallbackFuncs = []string{"round", "sgn", "hour", "minute", "month", "year", "day_of_month", "day_of_week", "days_in_month", "sort"}

var modelFuncs = []string{"abs", "sqrt", "ceil", "floor"}

var arithOps = []string{"+", "-", "*", "/", "%", "^", "atan2"}
var cmpOps = []string{"==", "!=", ">", "<", ">=", "<="}

func (g *qgen) labelList() string {
	var ls []string
	for _, n := range []string{"a", "b", "c", "__name__", "zz"} {
		if g.r.Intn(3) == 0 {
			ls = append(ls, n)
		}
	}
	if g.o.UpperLabel && g.r.Intn(2) == 0 {
		ls = append(ls, "Z")
	}
	return strings.Join(ls, ", ")
}

func (g *qgen) vec(d int) string {
	if d <= 0 || g.o.SelectorOnly {
		return g.vecSelector()
	}
	switch k := g.r.Intn(20); {
	case k < 3:
		return g.vecSelector()
	case k < 6:
		return fmt.Sprintf("%s(%s[%s]%s)", pick(g.r, rangeFuncs), g.selector(), g.dur(), g.modifiers())
	case k < 8:
		fs := simpleFuncs
		if g.o.Vocabulary == "model" {
			fs = modelFuncs
		}
		if g.o.Fallbacks && g.r.Intn(2) == 0 {
			fs = fallbackFuncs
		}
		return fmt.Sprintf("%s(%s)", pick(g.r, fs), g.vec(d-1))
	case k == 8:
		switch g.r.Intn(4) {
		case 0:
			return fmt.Sprintf("clamp(%s, %s, %s)", g.vec(d-1), g.scal(d-1), g.scal(d-1))
		case 1:
			return fmt.Sprintf("clamp_min(%s, %s)", g.vec(d-1), g.scal(d-1))
		case 2:
			return fmt.Sprintf("clamp_max(%s, %s)", g.vec(d-1), g.scal(d-1))
		default:
			return fmt.Sprintf("vector(%s)", g.scal(d-1))
		}
	case k < 13:
		op := pick(g.r, []string{"sum", "min", "max", "avg", "count", "group", "stddev", "stdvar", "sum", "max"})
		mod := ""
		switch g.r.Intn(3) {
		case 0:
			mod = " by (" + g.labelList() + ")"
		case 1:
			mod = " without (" + g.labelList() + ")"
		}
		switch g.r.Intn(8) {
		case 0:
			return fmt.Sprintf("%s%s (%s, %s)", pick(g.r, []string{"topk", "bottomk"}), mod, g.kparam(d-1), g.vec(d-1))
		case 1:
			return fmt.Sprintf("quantile%s (%s, %s)", mod, g.qparam(d-1), g.vec(d-1))
		}
		return fmt.Sprintf("%s%s (%s)", op, mod, g.vec(d-1))
	case k < 17:
		return g.binary(d)
	case k == 17:
		if g.r.Intn(4) == 0 {
			return fmt.Sprintf("histogram_quantile(%s, %s)", g.qparam(d-1), g.vec(d-1))
		}
		return pick(g.r, []string{"-", "-", "+"}) + g.paren(g.vec(d-1))
	case k == 18:
		return "(" + g.vec(d-1) + ")"
	default:
		if g.o.Vocabulary == "model" || g.r.Intn(4) != 0 {
			return g.vecSelector()
		}
		return fmt.Sprintf("timestamp(%s)", g.vec(d-1))
	}
}

func (g *qgen) paren(s string) string { return "(" + s + ")" }

func (g *qgen) kparam(d int) string {
	switch g.r.Intn(10) {
	case 0:
		return "0"
	case 1:
		return "-1"
	case 2:
		return g.scal(d)
	case 3:
		return "2.7"
	}
	return fmt.Sprint(1 + g.r.Intn(4))
}

func (g *qgen) qparam(d int) string {
	// parameters inside [0,1] that vary from step to step within a batch
	if g.r.Intn(4) == 0 {
		return pick(g.r, []string{"((time() % 97) / 97)", "((time() % 13) / 13)", "(scalar(sum(foo)) % 1)", "((time() % 7) / 5 - 0.2)"})
	}
	switch g.r.Intn(8) {
	case 0:
		return "-0.5"
	case 1:
		return "1.5"
	case 2:
		return g.scal(d)
	case 3:
		return "NaN"
	}
	return pick(g.r, []string{"0", "0.25", "0.5", "0.9", "1"})
}

func (g *qgen) matching() string {
	mod := ""
	switch g.r.Intn(4) {
	case 0:
		mod = " on (" + g.labelList() + ")"
	case 1:
		mod = " ignoring (" + g.labelList() + ")"
	}
	switch g.r.Intn(6) {
	case 0:
		if mod == "" {
			mod = " on (a)"
		}
		mod += " group_left"
		if g.r.Intn(2) == 0 {
			mod += " (" + pick(g.r, []string{"b", "c", "b, c", "a", "__name__", "c, __name__"}) + ")"
		}
	case 1:
		if mod == "" {
			mod = " ignoring (b)"
		}
		mod += " group_right"
		if g.r.Intn(2) == 0 {
			mod += " (" + pick(g.r, []string{"b", "c", "zz", "__name__"}) + ")"
		}
	}
	return mod
}

func (g *qgen) binary(d int) string {
	cmp := g.r.Intn(3) == 0
	op := pick(g.r, arithOps)
	if g.o.Vocabulary == "model" {
		op = pick(g.r, []string{"+", "-", "*", "/"})
	}
	if cmp {
		op = pick(g.r, cmpOps)
		if g.r.Intn(2) == 0 {
			op += " bool"
		}
	}
	switch g.r.Intn(4) {
	case 0:
		return fmt.Sprintf("%s %s %s", g.paren(g.vec(d-1)), op, g.scalAtom(d-1))
	case 1:
		return fmt.Sprintf("%s %s %s", g.scalAtom(d-1), op, g.paren(g.vec(d-1)))
	}
	return fmt.Sprintf("%s %s%s %s", g.paren(g.vec(d-1)), op, g.matching(), g.paren(g.vec(d-1)))
}

func (g *qgen) scalAtom(d int) string {
	s := g.scal(d)
	if strings.ContainsAny(s, " -") {
		return "(" + s + ")"
	}
	return s
}

func (g *qgen) scal(d int) string {
	if d <= 0 {
		return pick(g.r, []string{"1", "2", "0.5", "0", "10", "100", "3"})
	}
	switch g.r.Intn(10) {
	case 0:
		return "time()"
	case 1:
		return "pi()"
	case 2:
		return fmt.Sprintf("scalar(%s)", g.vec(d-1))
	case 3:
		op := pick(g.r, []string{"+", "-", "*", "/"})
		return fmt.Sprintf("(%s %s %s)", g.scal(d-1), op, g.scal(d-1))
	case 4:
		return "-" + g.scalAtom(d-1)
	case 5:
		return pick(g.r, []string{"NaN", "Inf", "-Inf", "1e300"})
	case 6:
		return fmt.Sprintf("(%s %s bool %s)", g.scal(d-1), pick(g.r, cmpOps), g.scal(d-1))
	}
	return pick(g.r, []string{"1", "2", "0.5", "0", "10", "100", "3", "-2"})
}

func (g *qgen) aggOf(d int) string {
	op := pick(g.r, []string{"sum", "min", "max", "avg", "count", "group", "stddev", "stdvar"})
	mod := ""
	switch g.r.Intn(3) {
	case 0:
		mod = " by (" + g.labelList() + ")"
	case 1:
		mod = " without (" + g.labelList() + ")"
	}
	switch g.r.Intn(5) {
	case 0:
		return fmt.Sprintf("%s%s (%s, %s)", pick(g.r, []string{"topk", "bottomk"}), mod, g.kparam(d-1), g.vec(d-1))
	case 1:
		return fmt.Sprintf("quantile%s (%s, %s)", mod, g.qparam(d-1), g.vec(d-1))
	}
	operand := g.vec(d - 1)
	if g.r.Intn(10) == 0 {
		// a sign between the aggregation and its operand (the grouping hint must not pass through it)
		operand = pick(g.r, []string{"+", "+", "-"}) + g.paren(operand)
	}
	return fmt.Sprintf("%s%s (%s)", op, mod, operand)
}

func (g *qgen) funcOf(d int) string {
	switch g.r.Intn(12) {
	case 0:
		return fmt.Sprintf("clamp(%s, %s, %s)", g.vec(d-1), g.scal(d-1), g.scal(d-1))
	case 1:
		return fmt.Sprintf("clamp_min(%s, %s)", g.vec(d-1), g.scal(d-1))
	case 2:
		return fmt.Sprintf("clamp_max(%s, %s)", g.vec(d-1), g.scal(d-1))
	case 3:
		return fmt.Sprintf("vector(%s)", g.scal(d))
	case 4:
		return g.scal(d)
	case 5:
		return "-" + g.paren(g.vec(d-1))
	case 6:
		return fmt.Sprintf("scalar(%s)", g.vec(d-1))
	case 7:
		return fmt.Sprintf("%s %s %s", g.scalAtom(d), pick(g.r, []string{"+", "-", "*", "/", "%", "^", "== bool", "> bool"}), g.scalAtom(d))
	case 8:
		return fmt.Sprintf("histogram_quantile(%s, %s)", g.qparam(d-1), g.vec(d-1))
	}
	if g.o.Fallbacks && g.r.Intn(6) == 0 {
		// functions that are not evaluated series by series: over all series at once, or over vector(time())
		switch g.r.Intn(3) {
		case 0:
			return fmt.Sprintf("absent(%s)", g.vecSelector())
		case 1:
			return fmt.Sprintf("absent_over_time(%s[%s])", g.selector(), g.dur())
		}
		return pick(g.r, []string{"hour()", "year()", "minute()", "day_of_week()", "days_in_month()", "month()", "day_of_month()"})
	}
	if g.o.Fallbacks && g.r.Intn(2) == 0 {
		return fmt.Sprintf("%s(%s)", pick(g.r, fallbackFuncs), g.vec(d-1))
	}
	return fmt.Sprintf("%s(%s)", pick(g.r, simpleFuncs), g.vec(d-1))
}

func genQuery(r *rand.Rand, w Window, o GenOpts) string {
	g := &qgen{r: r, w: w, o: o}
	d := 1 + r.Intn(o.MaxDepth)
	switch o.Focus {
	case "selpair":
		sel := g.freshSelector()
		op := pick(g.r, []string{"-", "+", "*", "/"})
		return fmt.Sprintf("(%s%s) %s (%s%s)", sel, g.modifiers(), op, sel, g.forcedModifiers())
	case "range":
		if r.Intn(6) == 0 {
			// one selector under one function with two ranges (the two selects differ in their start only)
			fn, sel, mods := pick(g.r, rangeFuncs), g.selector(), g.modifiers()
			return fmt.Sprintf("%s(%s[%s]%s) %s %s(%s[%s]%s)", fn, sel, g.dur(), mods, pick(g.r, []string{"-", "+", "/", "== bool"}), fn, sel, g.dur(), mods)
		}
		q := fmt.Sprintf("%s(%s[%s]%s)", pick(g.r, rangeFuncs), g.selector(), g.dur(), g.modifiers())
		if r.Intn(4) == 0 {
			q = "sum by (a) (" + q + ")"
		}
		return q
	case "agg":
		if r.Intn(10) == 0 {
			// a selector reached from the aggregation through signs and parentheses only
			sign := pick(r, []string{"+", "+", "-", "+(+", "(+"})
			closing := strings.Repeat(")", strings.Count(sign, "("))
			sel := g.vecSelector()
			switch r.Intn(3) {
			case 0:
				return fmt.Sprintf("%s by (%s) (%s%s%s)", pick(r, []string{"sum", "max", "count", "avg"}), g.labelList(), sign, sel, closing)
			case 1:
				return fmt.Sprintf("%s without (%s) (%s%s%s)", pick(r, []string{"sum", "min", "count", "stddev"}), g.labelList(), sign, sel, closing)
			}
			return fmt.Sprintf("%s by (%s) (%d, %s%s%s)", pick(r, []string{"topk", "bottomk"}), g.labelList(), 1+r.Intn(3), sign, sel, closing)
		}
		return g.aggOf(d)
	case "bin":
		if r.Intn(6) == 0 {
			// a filtering comparison whose "one" side has several series in a match group: whether the
			// step is ambiguous must not depend on which of them passes the comparison, or comes first
			lhs := pick(r, []string{"sum by (a) (foo)", "min by (a) (bar)", "max by (a, b) (foo)", `foo{b="1",c="p"}`, "sum by (a) (last_over_time(bar[1m]))"})
			rhs := pick(r, []string{"foo", "bar", `bar{c=~"p|q"}`, `foo{b!=""}`, "foo offset 15s"})
			on := pick(r, []string{"a", "a", "a, b", "b"})
			gl := pick(r, []string{"", "", " group_left", " group_left ()"})
			return fmt.Sprintf("(%s) %s on (%s)%s (%s)", lhs, pick(r, []string{">", "<", ">=", "<=", "==", "!="}), on, gl, rhs)
		}
		return g.binary(d)
	case "func":
		if !o.NoAt && r.Intn(8) == 0 {
			// a function whose vector argument is pinned by @ (computed once, handed to every step) and
			// whose scalar argument moves with the step
			t := g.w.Start + int64(r.Intn(int(g.w.End-g.w.Start)+120_000)) - 60_000
			vec := fmt.Sprintf("%s @ %d.%03d", g.selector(), t/1000, t%1000)
			sc := pick(r, []string{"time() / 10", "(time() % 7)", "time() - 600", "scalar(bar{a=\"x\",b=\"1\"})", "(time() % 50) - 10"})
			switch r.Intn(4) {
			case 0:
				return fmt.Sprintf("clamp_max(%s, %s)", vec, sc)
			case 1:
				return fmt.Sprintf("clamp_min(%s, %s)", vec, sc)
			case 2:
				return fmt.Sprintf("clamp(%s, %s, %s + 20)", vec, sc, sc)
			}
			return fmt.Sprintf("(%s) %s %s", vec, pick(r, []string{"*", "+", ">", "- "}), sc)
		}
		return g.funcOf(d)
	}
	if r.Intn(8) == 0 && !o.SelectorOnly {
		return g.scal(d)
	}
	return g.vec(d)
}

func genCase(seed int64, id int, o GenOpts) *Case {
	r := rand.New(rand.NewSource(seed*1_000_003 + int64(id)))
	c := &Case{ID: id, Seed: seed}
	if o.Focus == "hist" {
		// histogram_quantile over classic histogram buckets of one or two metrics
		c.Window = genWindow(r)
		c.Lookback = 300_000
		c.Procs = pick(r, []int{2, 8, 16})
		i := 0
		variant := r.Intn(8) // 7 several buckets with bounds below or at zero; 0-2 regular; 3 no +Inf bucket for foo{a="y"}; 4 non-monotonic counts; 5 gaps and a non-numeric le; 6 steps at which only the +Inf bucket has a sample
		if variant == 6 {
			c.Lookback = 20_000
		}
		for _, name := range []string{"foo", "bar"} {
			for _, a := range []string{"x", "y"} {
				les := []string{"0.1", "1", "+Inf"}
				if variant == 3 && name == "foo" && a == "y" {
					les = []string{"0.1", "1", "5"}
				}
				if variant == 5 && name == "bar" && a == "x" {
					les = []string{"0.1", "1", "+Inf", "many"}
				}
				if variant == 7 {
					les = []string{"-5", "-1", "0", "1", "+Inf"}
				}
				for k, le := range les {
					var smp []Sample
					for t := c.Window.Start - 200_000; t <= c.Window.End+10_000; t += 15_000 {
						v := float64((k+1)*(3+i%4)) + float64(t/15_000%7)
						if variant == 4 && k == 1 && (t/15_000)%3 == 0 {
							v = 1 // below the previous bucket: non-monotonic
						}
						if variant == 5 && (t/15_000+int64(i))%5 == 0 {
							continue // this bucket is missing around t
						}
						if variant == 6 && le != "+Inf" && (t/15_000)%4 < 2 {
							continue // only the +Inf bucket has samples around t
						}
						smp = append(smp, Sample{T: t + int64(i%2), V: v})
					}
					c.Data = append(c.Data, SeriesData{Labels: labels.FromStrings("__name__", name, "a", a, "le", le), Samples: smp})
					i++
				}
			}
		}
		sel := pick(r, []string{"foo", "bar", `{__name__=~"foo|bar"}`, `foo{a="x"}`, `{__name__=~"foo|bar",a="y"}`, "sum by (le, a) (foo)", "sum by (le) (rate(foo[1m]))"})
		c.Query = fmt.Sprintf("histogram_quantile(%s, %s)", pick(r, []string{"0.5", "0.9", "0", "1", "scalar(foo{le=\"1\",a=\"x\"}) / 100", "-0.5", "1.5", "NaN", "0.999"}), sel)
		return c
	}
	if o.Focus == "pairs" {
		// the exhaustive space of C09: case id enumerates (selector a, selector b, template)
		c.Window = Window{Start: 900_000, End: 1_200_000, Step: 30_000}
		if id%7 == 0 {
			c.Window = Window{Start: 1_000_000, End: 1_000_000, Step: 0}
		}
		c.Lookback = 300_000
		c.Procs = pick(r, []int{2, 8, 16})
		c.Data = pairData(c.Window)
		// scattered over the whole space (a bijection of the case ids modulo its size), so that a
		// short sweep already sees every template and both ends of the selector list
		c.Query = pairQuery(r, int((int64(id)*1_000_003+seed*7919)%int64(pairSpaceSize())))
		return c
	}
	if o.Focus == "subpairs" {
		c.Window = Window{Start: 900_000, End: 1_200_000, Step: 30_000}
		if id%5 == 0 {
			c.Window = Window{Start: 1_000_000, End: 1_000_000, Step: 0}
		}
		c.Lookback = pick(r, []int64{300_000, 60_000})
		c.Procs = pick(r, []int{2, 8, 16})
		c.Data = pairData(c.Window)
		c.Query = subpairQuery(r)
		return c
	}
	c.Window = genWindow(r)
	if o.Epoch {
		k := int64(0)
		if c.Window.Step > 0 {
			k = int64(r.Intn(int((c.Window.End-c.Window.Start)/c.Window.Step) + 1))
		}
		d := -1 - (c.Window.Start + k*c.Window.Step)
		c.Window.Start += d
		c.Window.End += d
	}
	c.Lookback = pick(r, []int64{0, 0, 30_000, 300_000, 90_000, 1_000})
	if r.Intn(6) == 0 {
		c.QLookback = pick(r, []int64{45_000, 10_000, 600_000})
	}
	c.Procs = pick(r, []int{1, 2, 4, 6, 8, 10, 12, 14, 16})
	c.Data = genData(r, c.Window, c.EffLookback(), o)
	c.Query = genQuery(r, c.Window, o)
	return c
}
