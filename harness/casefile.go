package main

// Explicit, generator-independent case files (witnesses of known findings,
// corpus of minimised failures, replays).

import (
	"encoding/json"
	"math"
	"os"
	"sort"
	"strconv"

	"github.com/prometheus/prometheus/model/labels"
)

type CaseFileSeries struct {
	Labels  map[string]string `json:"labels"`
	Samples [][2]string       `json:"samples"` // [timestamp ms, value]: value is a float literal, "stale", or "bits:<uint64>"
}

type CaseFile struct {
	Query     string `json:"query"`
	Window    Window `json:"window"`
	Lookback  int64  `json:"lookback_ms"`
	QLookback int64  `json:"query_lookback_ms"`
	Procs     int    `json:"gomaxprocs"`
	// the generator's coordinates: some oracles derive choices from them (the partition of the
	// distributed oracle, whether the storage trims to the selected range), so a replay needs them
	ID     int              `json:"id,omitempty"`
	Seed   int64            `json:"seed,omitempty"`
	Series []CaseFileSeries `json:"series"`
}

func fmtVal(v float64) string {
	if math.Float64bits(v) == math.Float64bits(StaleNaN) {
		return "stale"
	}
	if math.IsNaN(v) {
		return "NaN"
	}
	return strconv.FormatFloat(v, 'g', -1, 64)
}

func parseVal(s string) float64 {
	switch s {
	case "stale":
		return StaleNaN
	case "NaN":
		return math.NaN()
	}
	if len(s) > 5 && s[:5] == "bits:" {
		u, _ := strconv.ParseUint(s[5:], 10, 64)
		return math.Float64frombits(u)
	}
	v, err := strconv.ParseFloat(s, 64)
	if err != nil {
		fatal(err)
	}
	return v
}

func (c *Case) ToFile() CaseFile {
	cf := CaseFile{Query: c.Query, Window: c.Window, Lookback: c.Lookback, QLookback: c.QLookback, Procs: c.Procs, ID: c.ID, Seed: c.Seed}
	for _, s := range c.Data {
		fs := CaseFileSeries{Labels: s.Labels.Map()}
		for _, p := range s.Samples {
			fs.Samples = append(fs.Samples, [2]string{strconv.FormatInt(p.T, 10), fmtVal(p.V)})
		}
		cf.Series = append(cf.Series, fs)
	}
	return cf
}

func (cf CaseFile) ToCase() *Case {
	c := &Case{Query: cf.Query, Window: cf.Window, Lookback: cf.Lookback, QLookback: cf.QLookback, Procs: cf.Procs, ID: cf.ID, Seed: cf.Seed}
	if c.Procs == 0 {
		c.Procs = 4
	}
	for _, s := range cf.Series {
		sd := SeriesData{Labels: labels.FromMap(s.Labels)}
		for _, p := range s.Samples {
			t, _ := strconv.ParseInt(p[0], 10, 64)
			sd.Samples = append(sd.Samples, Sample{T: t, V: parseVal(p[1])})
		}
		sort.Slice(sd.Samples, func(i, j int) bool { return sd.Samples[i].T < sd.Samples[j].T })
		c.Data = append(c.Data, sd)
	}
	return c
}

func loadCaseFile(path string) *Case {
	b, err := os.ReadFile(path)
	must(err)
	var cf CaseFile
	must(json.Unmarshal(b, &cf))
	return cf.ToCase()
}

func writeCaseFile(path string, c *Case) {
	b, _ := json.MarshalIndent(c.ToFile(), "", " ")
	must(os.WriteFile(path, b, 0o644))
}
