package main

// C16 correspondence: the selects recorded by the instrumented storage while
// the real engine (no optimizers) executes a query, against Hints.eng_selects.

import (
	"flag"
	"fmt"
	"os"
	"runtime"
	"sort"
	"strings"
	"time"

	"github.com/prometheus/prometheus/promql/parser"

	"github.com/thanos-community/promql-engine/logicalplan"
)

func cmdHintCases(args []string) {
	fs := flag.NewFlagSet("hintcases", flag.ExitOnError)
	seed := fs.Int64("seed", 1, "seed")
	from := fs.Int("from", 0, "first")
	to := fs.Int("to", 100, "last+1")
	out := fs.String("out", "", "output .v file")
	must(fs.Parse(args))
	o := genOptsFor("")
	o.MaxSeries = 4
	var cases []string
	nsel := 0
	for id := *from; id < *to; id++ {
		c := genCase(*seed, id, o)
		expr, err := parser.ParseExpr(c.Query)
		if err != nil {
			continue
		}
		runtime.GOMAXPROCS(c.Procs)
		cfg := c.Cfg()
		cfg.Optimizers = logicalplan.NoOptimizers
		cfg.NoFallback = true
		st := NewStore(c.Data)
		impl, path := runQuery(newImpl(cfg), st, cfg, c.Query, c.Window)
		if path != "native" || impl.Kind == "error" {
			continue
		}
		start, end := time.UnixMilli(c.Window.Start), time.UnixMilli(c.Window.End)
		lp := logicalplan.New(expr, start, end).Expr()
		u := NewUniverse()
		u.AddExpr(lp)
		seen := map[string]bool{}
		var obs []string
		for _, r := range st.Selects {
			k := selectKey(r)
			if seen[k] {
				continue
			}
			seen[k] = true
			g := append([]string(nil), r.Hints.Grouping...)
			sort.Strings(g)
			for _, n := range g {
				u.Names.Add(n)
			}
		}
		seen = map[string]bool{}
		for _, r := range st.Selects {
			k := selectKey(r)
			if seen[k] {
				continue
			}
			seen[k] = true
			obs = append(obs, fmt.Sprintf("mkSel %s %s %s %s %s %s %s %s", u.matchers(r.Raw), coqZ(r.Hints.Start), coqZ(r.Hints.End),
				coqZ(r.Hints.Step), coqZ(r.Hints.Range), coqStr(r.Hints.Func), u.nameList(r.Hints.Grouping), coqBool(r.Hints.By)))
		}
		nsel += len(obs)
		cases = append(cases, fmt.Sprintf("  mkHC %d%%N %s %s %s %s", id, u.Expr(lp, nil), coqWindow(c.Window), coqLookback(c, cfg), coqList(obs)))
	}
	var sb strings.Builder
	sb.WriteString("From Coq Require Import List String ZArith NArith.\nFrom Verif Require Import Ast Base Hints CasesLib Lookback.\nImport ListNotations.\nOpen Scope string_scope.\n")
	sb.WriteString("Definition cases : list hint_case := [\n" + strings.Join(cases, ";\n") + "\n].\n")
	sb.WriteString("Definition bad := Eval vm_compute in hint_mismatches cases.\nPrint bad.\n")
	must(os.WriteFile(*out, []byte(sb.String()), 0o644))
	fmt.Printf("{\"cases\": %d, \"selects\": %d}\n", len(cases), nsel)
}

// coqLookback: the lookback of the case's query as Lookback.v computes it from the engine's
// configuration and the query's options (as makeQuery passes them)
func coqLookback(c *Case, cfg EngineCfg) string {
	opts := "None"
	if cfg.QueryLookback != 0 {
		opts = "(Some " + coqZ(cfg.QueryLookback.Milliseconds()) + ")"
	} else if cfg.EmptyQueryOpts {
		opts = "(Some 0%Z)"
	}
	return fmt.Sprintf("(query_lookback %s %s)", coqZ(cfg.Lookback.Milliseconds()), opts)
}

func init() { commands["hintcases"] = cmdHintCases }
