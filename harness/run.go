package main

// Running queries on the engine under test and on the reference engine, and
// canonical, comparison-safe projections of their results.

import (
	"context"
	"errors"
	"fmt"
	"math"
	"os"
	"sort"
	"strings"
	"time"

	"github.com/prometheus/prometheus/model/labels"
	"github.com/prometheus/prometheus/promql"
	"github.com/prometheus/prometheus/promql/parser"
	"github.com/prometheus/prometheus/storage"

	"github.com/thanos-community/promql-engine/engine"
	"github.com/thanos-community/promql-engine/logicalplan"
)

func fatal(err error) {
	fmt.Fprintln(os.Stderr, "vharness: fatal:", err)
	os.Exit(2)
}

func must(err error) {
	if err != nil {
		fatal(err)
	}
}

type CPoint struct {
	T int64
	V float64
}

type CSeries struct {
	Labels labels.Labels
	Key    string
	Points []CPoint
}

// Canon is the canonical projection of a promql.Result.
type Canon struct {
	Kind   string // matrix | vector | scalar | string | error
	Err    string // error class when Kind == error
	ErrMsg string
	Series []CSeries // sorted by Key (stable): duplicates stay adjacent
	RawErr error
}

func errClass(err error) string {
	if err == nil {
		return ""
	}
	msg := err.Error()
	switch {
	case errors.Is(err, context.Canceled) || strings.Contains(msg, "context canceled") || strings.Contains(msg, "query was canceled"):
		return "ctx-canceled"
	case errors.Is(err, context.DeadlineExceeded) || strings.Contains(msg, "deadline exceeded") || strings.Contains(msg, "query timed out"):
		return "ctx-deadline"
	case errors.Is(err, ErrInjected) || strings.Contains(msg, "verif: injected storage failure"):
		return "storage"
	case strings.Contains(msg, "many-to-many matching not allowed"):
		return "many-to-many"
	case strings.Contains(msg, "multiple matches for labels"):
		return "multiple-matches"
	case strings.Contains(msg, "vector cannot contain metrics with the same labelset"):
		return "same-labelset"
	case strings.Contains(msg, "overflows int64"):
		return "k-overflow"
	case strings.Contains(msg, "unexpected error") || strings.Contains(msg, "runtime error") || strings.Contains(msg, "verif: injected panic") || strings.Contains(msg, "injected runtime error"):
		return "panic"
	}
	return "other"
}

func canonResult(r *promql.Result) Canon {
	if r.Err != nil {
		return Canon{Kind: "error", Err: errClass(r.Err), ErrMsg: r.Err.Error(), RawErr: r.Err}
	}
	var c Canon
	switch v := r.Value.(type) {
	case promql.Matrix:
		c.Kind = "matrix"
		for _, s := range v {
			cs := CSeries{Labels: s.Metric.Copy(), Key: s.Metric.String()}
			for _, p := range s.Points {
				cs.Points = append(cs.Points, CPoint{p.T, p.V})
			}
			c.Series = append(c.Series, cs)
		}
	case promql.Vector:
		c.Kind = "vector"
		for _, s := range v {
			c.Series = append(c.Series, CSeries{Labels: s.Metric.Copy(), Key: s.Metric.String(), Points: []CPoint{{s.T, s.V}}})
		}
	case promql.Scalar:
		c.Kind = "scalar"
		c.Series = []CSeries{{Key: "", Points: []CPoint{{v.T, v.V}}}}
	case promql.String:
		c.Kind = "string"
		c.Series = []CSeries{{Key: v.V, Points: []CPoint{{v.T, 0}}}}
	default:
		c.Kind = fmt.Sprintf("unknown(%T)", r.Value)
	}
	sort.SliceStable(c.Series, func(i, j int) bool { return c.Series[i].Key < c.Series[j].Key })
	return c
}

func floatEq(a, b float64, exact bool) bool {
	if math.IsNaN(a) || math.IsNaN(b) {
		return math.IsNaN(a) && math.IsNaN(b)
	}
	if a == b {
		return true
	}
	if exact || math.IsInf(a, 0) || math.IsInf(b, 0) {
		return false
	}
	d := math.Abs(a - b)
	m := math.Max(math.Abs(a), math.Abs(b))
	return d <= 1e-9*m || d < 1e-300
}

// diffCanon returns "" when a and b are equivalent, else a short description.
// exact=false grants the floating-point summation-order tolerance.
func diffCanon(a, b Canon, exact bool) string {
	if a.Kind != b.Kind {
		return fmt.Sprintf("kind %s(%s) vs %s(%s)", a.Kind, a.Err, b.Kind, b.Err)
	}
	if a.Kind == "error" {
		return "" // error parity; classes compared by the caller where needed
	}
	if len(a.Series) != len(b.Series) {
		return fmt.Sprintf("series count %d vs %d", len(a.Series), len(b.Series))
	}
	for i := range a.Series {
		x, y := a.Series[i], b.Series[i]
		if x.Key != y.Key {
			return fmt.Sprintf("series %d labels %s vs %s", i, x.Key, y.Key)
		}
		if len(x.Points) != len(y.Points) {
			return fmt.Sprintf("series %s: %d vs %d points", x.Key, len(x.Points), len(y.Points))
		}
		for j := range x.Points {
			if x.Points[j].T != y.Points[j].T {
				return fmt.Sprintf("series %s point %d: t %d vs %d", x.Key, j, x.Points[j].T, y.Points[j].T)
			}
			if !floatEq(x.Points[j].V, y.Points[j].V, exact) {
				return fmt.Sprintf("series %s t=%d: value %v vs %v", x.Key, x.Points[j].T, x.Points[j].V, y.Points[j].V)
			}
		}
	}
	return ""
}

func (c Canon) String() string {
	if c.Kind == "error" {
		return "error[" + c.Err + "]: " + c.ErrMsg
	}
	var sb strings.Builder
	sb.WriteString(c.Kind + "{")
	for i, s := range c.Series {
		if i > 0 {
			sb.WriteString("; ")
		}
		sb.WriteString(s.Key + " =>")
		for _, p := range s.Points {
			fmt.Fprintf(&sb, " %v@%d", p.V, p.T)
		}
	}
	sb.WriteString("}")
	return sb.String()
}

func (c Canon) NonTrivial() bool {
	return c.Kind == "error" || len(c.Series) > 0
}

// Window is an evaluation window in milliseconds; Step == 0 means instant at Start.
type Window struct {
	Start, End, Step int64
}

func (w Window) Instant() bool { return w.Step == 0 }

func (w Window) Grid() []int64 {
	if w.Step == 0 {
		return []int64{w.Start}
	}
	var g []int64
	for t := w.Start; t <= w.End; t += w.Step {
		g = append(g, t)
	}
	return g
}

type EngineCfg struct {
	Lookback      time.Duration // engine-wide (0 = default 5m)
	QueryLookback time.Duration // per-query (0 = unset)
	// query options that do not set the lookback (what the HTTP API of Prometheus passes): the engine's applies
	EmptyQueryOpts bool
	Optimizers     []logicalplan.Optimizer
	NoFallback     bool
	Timeout        time.Duration
	// fractions of a millisecond added to a range query's start and end (results are in
	// milliseconds: the reference engine truncates, so these must not change anything)
	StartFrac, EndFrac time.Duration
}

type queryMaker interface {
	NewInstantQuery(q storage.Queryable, opts *promql.QueryOpts, qs string, ts time.Time) (promql.Query, error)
	NewRangeQuery(q storage.Queryable, opts *promql.QueryOpts, qs string, start, end time.Time, interval time.Duration) (promql.Query, error)
}

// maxSamplesOverride, when non-zero, is the MaxSamples of every engine built afterwards (a per-query limit)
var maxSamplesOverride int

func promOpts(cfg EngineCfg) promql.EngineOpts {
	to := cfg.Timeout
	if to == 0 {
		to = 2 * time.Minute
	}
	ms := int(1e9)
	if maxSamplesOverride > 0 {
		ms = maxSamplesOverride
	}
	return promql.EngineOpts{Timeout: to, MaxSamples: ms, LookbackDelta: cfg.Lookback, EnableAtModifier: true, EnableNegativeOffset: true,
		NoStepSubqueryIntervalFn: func(int64) int64 { return 60_000 }}
}

func newImpl(cfg EngineCfg) queryMaker {
	return engine.New(engine.Opts{EngineOpts: promOpts(cfg), LogicalOptimizers: cfg.Optimizers, DisableFallback: cfg.NoFallback})
}

func newRef(cfg EngineCfg) queryMaker { return promql.NewEngine(promOpts(cfg)) }

func makeQuery(e queryMaker, st storage.Queryable, cfg EngineCfg, qs string, w Window) (promql.Query, error) {
	var qo *promql.QueryOpts
	if cfg.QueryLookback != 0 {
		qo = &promql.QueryOpts{LookbackDelta: cfg.QueryLookback}
	} else if cfg.EmptyQueryOpts {
		qo = &promql.QueryOpts{}
	}
	if w.Instant() {
		return e.NewInstantQuery(st, qo, qs, time.UnixMilli(w.Start))
	}
	return e.NewRangeQuery(st, qo, qs, time.UnixMilli(w.Start).Add(cfg.StartFrac), time.UnixMilli(w.End).Add(cfg.EndFrac), time.Duration(w.Step)*time.Millisecond)
}

// runQuery creates and executes one query; creation errors are reported as
// Canon errors of class "create:<class>".
func runQuery(e queryMaker, st storage.Queryable, cfg EngineCfg, qs string, w Window) (Canon, string) {
	q, err := makeQuery(e, st, cfg, qs, w)
	if err != nil {
		return Canon{Kind: "error", Err: "create", ErrMsg: err.Error(), RawErr: err}, ""
	}
	defer q.Close()
	path := "ref"
	if strings.Contains(fmt.Sprintf("%T", q), "compatibilityQuery") {
		path = "native"
	} else if _, ok := e.(*promql.Engine); !ok {
		path = "fallback"
	}
	return canonResult(q.Exec(context.Background())), path
}

func exprType(qs string) parser.ValueType {
	e, err := parser.ParseExpr(qs)
	if err != nil {
		return parser.ValueTypeNone
	}
	return e.Type()
}

// tieSensitive reports whether the reference engine's own result for the query
// may vary from run to run (topk/bottomk among equal values over an operand
// whose series order comes from a Go map iteration in the reference engine).
func tieSensitive(qs string) bool {
	return strings.Contains(qs, "topk") || strings.Contains(qs, "bottomk")
}

func ctxBackground() context.Context { return context.Background() }

// rawOrderProblem checks that a matrix is sorted by label set (promql.Matrix order).
func rawOrderProblem(r *promql.Result) string {
	m, ok := r.Value.(promql.Matrix)
	if !ok {
		return ""
	}
	for i := 1; i < len(m); i++ {
		if labels.Compare(m[i-1].Metric, m[i].Metric) > 0 {
			return "matrix not sorted by label set: " + m[i-1].Metric.String() + " before " + m[i].Metric.String()
		}
	}
	return ""
}

func sortCanon(c *Canon) {
	sort.SliceStable(c.Series, func(i, j int) bool { return c.Series[i].Key < c.Series[j].Key })
}

// extraOracles are registered by files that need the verif build tag.
var extraOracles = map[string]func(*Case) CaseResult{}
