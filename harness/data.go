package main

import (
	"github.com/prometheus/prometheus/model/labels"
)

// newC08Store is a small fixed data set for executing fallback queries.
func newC08Store() *Store {
	var ss []SeriesData
	mk := func(v float64, kv ...string) {
		var smp []Sample
		for t := int64(0); t <= 600_000; t += 15_000 {
			smp = append(smp, Sample{T: t, V: v + float64(t)/1000})
		}
		ss = append(ss, SeriesData{Labels: labels.FromStrings(kv...), Samples: smp})
	}
	mk(1, "__name__", "foo", "a", "x", "b", "1", "le", "0.5")
	mk(2, "__name__", "foo", "a", "x", "b", "2", "le", "1")
	mk(3, "__name__", "foo", "a", "y", "b", "1", "le", "+Inf")
	mk(5, "__name__", "bar", "a", "x", "b", "1")
	return NewStore(ss)
}

func labelsFromKV(kv []string) labels.Labels { return labels.FromStrings(kv...) }
