package main

// C10 correspondence: the AST produced by the real DistributedExecutionOptimizer
// against Dist.opt_distribute.

import (
	"flag"
	"fmt"
	"math/rand"
	"os"
	"strings"
	"time"

	"github.com/prometheus/prometheus/promql/parser"

	"github.com/thanos-community/promql-engine/api"
	"github.com/thanos-community/promql-engine/logicalplan"
)

type dummyRemote struct {
	api.RemoteEngine
	idx int
}

func cmdDistCases(args []string) {
	fs := flag.NewFlagSet("distcases", flag.ExitOnError)
	seed := fs.Int64("seed", 1, "seed")
	from := fs.Int("from", 0, "first")
	to := fs.Int("to", 100, "last+1")
	out := fs.String("out", "", "output .v file")
	must(fs.Parse(args))
	o := genOptsFor("")
	o.NoStartEnd = true
	var cases []string
	rewritten := 0
	for id := *from; id < *to; id++ {
		c := genCase(*seed, id, o)
		if _, err := parser.ParseExpr(c.Query); err != nil {
			continue
		}
		r := rand.New(rand.NewSource(*seed*15485863 + int64(id)))
		k := 1 + r.Intn(3)
		engines := make([]api.RemoteEngine, k)
		idxOf := map[interface{}]int{}
		for i := range engines {
			d := &dummyRemote{idx: i}
			engines[i] = d
			idxOf[d] = i
		}
		w := c.Window
		parse := func() parser.Expr { e, _ := parser.ParseExpr(c.Query); return e }
		before := logicalplan.New(parse(), time.UnixMilli(w.Start), time.UnixMilli(w.End)).Expr()
		after := logicalplan.New(parse(), time.UnixMilli(w.Start), time.UnixMilli(w.End)).
			Optimize([]logicalplan.Optimizer{logicalplan.DistributedExecutionOptimizer{Endpoints: api.NewStaticEndpoints(engines)}}).Expr()
		u := NewUniverse()
		u.AddExpr(before)
		u.AddExpr(after)
		ri := func(e interface{}) int { return idxOf[e] }
		b, a := u.Expr(before, ri), u.Expr(after, ri)
		if a != b {
			rewritten++
		}
		cases = append(cases, fmt.Sprintf("  mkDC %d%%N %d %s %s", id, k, b, a))
	}
	var sb strings.Builder
	sb.WriteString("From Coq Require Import List String ZArith NArith.\nFrom Verif Require Import Ast Base CasesLib.\nImport ListNotations.\nOpen Scope string_scope.\n")
	sb.WriteString("Definition cases : list dist_case := [\n" + strings.Join(cases, ";\n") + "\n].\n")
	sb.WriteString("Definition bad := Eval vm_compute in dist_mismatches cases.\nPrint bad.\n")
	must(os.WriteFile(*out, []byte(sb.String()), 0o644))
	fmt.Printf("{\"cases\": %d, \"rewritten_asts\": %d}\n", len(cases), rewritten)
}

func init() { commands["distcases"] = cmdDistCases }
