package main

// C14 trace conformance: the real exchange.concurrencyOperator (buffer of 2) is
// driven by a scripted child operator and a consumer that mirrors Exec's loop,
// with cancel() at a scripted moment and random yields; the log of observable
// events must be a trace of the labelled transition system of ConcTrace.v
// (decided inside Coq by ConcTrace.accepts).

import (
	"context"
	"flag"
	"fmt"
	"math/rand"
	"os"
	"runtime"
	"sort"
	"strings"
	"sync"
	"time"

	"github.com/prometheus/prometheus/model/labels"

	"github.com/thanos-community/promql-engine/execution/exchange"
	"github.com/thanos-community/promql-engine/execution/model"
)

type concLog struct {
	mu     sync.Mutex
	events []string
	onLen  map[int]func() // called (outside the lock) when the log reaches a length
}

func (l *concLog) add(e string) {
	l.mu.Lock()
	l.events = append(l.events, e)
	n := len(l.events)
	f := l.onLen[n]
	delete(l.onLen, n)
	l.mu.Unlock()
	if f != nil {
		f()
	}
}

type scriptedChild struct {
	log      *concLog
	total    int
	produced int
	r        *rand.Rand
	rmu      sync.Mutex
	observe  int // 0 never looks at the context, 1 always, 2 at random
	failAt   int // the call (1-based) at which the child fails on its own; 0: never
	calls    int
	pool     *model.VectorPool
}

var errChildFailed = fmt.Errorf("verif: the scripted child failed")

func (c *scriptedChild) jitter() {
	c.rmu.Lock()
	k := c.r.Intn(6)
	c.rmu.Unlock()
	switch k {
	case 0:
		runtime.Gosched()
	case 1:
		time.Sleep(time.Duration(20+k*15) * time.Microsecond)
	}
}

func (c *scriptedChild) Next(ctx context.Context) ([]model.StepVector, error) {
	c.log.add("LChildCall")
	c.jitter()
	look := c.observe == 1
	if c.observe == 2 {
		c.rmu.Lock()
		look = c.r.Intn(2) == 0
		c.rmu.Unlock()
	}
	if look && ctx.Err() != nil {
		c.log.add("LChildErr")
		return nil, ctx.Err()
	}
	c.calls++
	if c.failAt > 0 && c.calls == c.failAt {
		c.log.add("LChildErr")
		return nil, errChildFailed
	}
	if c.produced < c.total {
		c.produced++
		c.log.add("LChildData")
		c.jitter()
		return []model.StepVector{{T: int64(c.produced)}}, nil
	}
	c.log.add("LChildNil")
	return nil, nil
}

func (c *scriptedChild) Series(context.Context) ([]labels.Labels, error) { return nil, nil }
func (c *scriptedChild) GetPool() *model.VectorPool                      { return c.pool }
func (c *scriptedChild) Explain() (string, []model.VectorOperator)       { return "scripted", nil }

func runConcCase(seed int64, id int) (total int, events []string, goroutinesLeft int) {
	r := rand.New(rand.NewSource(seed*49979687 + int64(id)))
	total = r.Intn(5)
	lg := &concLog{onLen: map[int]func(){}}
	child := &scriptedChild{log: lg, total: total, r: rand.New(rand.NewSource(r.Int63())), observe: r.Intn(3), pool: model.NewVectorPool(10)}
	slowConsumer := false
	if id%3 == 1 {
		// the child fails on its own at some call, possibly while its buffer is full and the
		// consumer is busy elsewhere
		child.failAt = 1 + r.Intn(total+1)
		slowConsumer = r.Intn(2) == 0
	}
	fullBuffer := id%6 == 4
	if fullBuffer {
		// the child fails at its fourth call: the first batch has been taken, two are buffered, the
		// consumer is busy elsewhere; then the query is cancelled
		total = 3 + r.Intn(2)
		child.total = total
		child.failAt = 4
		slowConsumer = true
	}
	op := exchange.NewConcurrent(child, 2)
	ctx, cancel := context.WithCancel(context.Background())
	var cancelOnce sync.Once
	doCancel := func() {
		cancelOnce.Do(func() {
			lg.add("LCancelBegin")
			cancel()
			lg.add("LCancelEnd")
		})
	}
	// cancel() when the log reaches a scripted length, from another goroutine
	cancelAt := -1
	if r.Intn(4) != 0 {
		cancelAt = 1 + r.Intn(3*total+6)
		if fullBuffer {
			cancelAt = 9 + r.Intn(2)
		}
		lg.onLen[cancelAt] = func() { go doCancel() }
	}
	before := runtime.NumGoroutine()
	cr := rand.New(rand.NewSource(r.Int63()))
	jit := func() {
		if slowConsumer {
			time.Sleep(time.Duration(200+cr.Intn(400)) * time.Microsecond)
			if fullBuffer {
				time.Sleep(2 * time.Millisecond)
			}
		}
		switch cr.Intn(6) {
		case 0:
			runtime.Gosched()
		case 1:
			time.Sleep(time.Duration(10+cr.Intn(60)) * time.Microsecond)
		}
	}
	// the consumer: Exec's loop
	func() {
		for {
			jit()
			if ctx.Err() != nil {
				lg.add("LKErr")
				return
			}
			res, err := op.Next(ctx)
			jit()
			if err != nil {
				lg.add("LKErr")
				return
			}
			if res == nil {
				lg.add("LKDone")
				break
			}
			lg.add("LKData")
		}
		jit()
		if ctx.Err() != nil {
			lg.add("LKFinalErr")
		} else {
			lg.add("LKOk")
		}
	}()
	// Exec's deferred cancel
	doCancel()
	// let the goroutines finish
	deadline := time.Now().Add(2 * time.Second)
	for time.Now().Before(deadline) && runtime.NumGoroutine() > before {
		time.Sleep(200 * time.Microsecond)
	}
	goroutinesLeft = runtime.NumGoroutine() - before
	lg.mu.Lock()
	events = append([]string(nil), lg.events...)
	lg.mu.Unlock()
	return
}

func cmdConcCases(args []string) {
	fs := flag.NewFlagSet("conccases", flag.ExitOnError)
	seed := fs.Int64("seed", 1, "seed")
	from := fs.Int("from", 0, "first")
	to := fs.Int("to", 100, "last+1")
	out := fs.String("out", "", "output .v file")
	must(fs.Parse(args))
	runtime.GOMAXPROCS(8)
	var cases []string
	stats := map[string]int{}
	for id := *from; id < *to; id++ {
		total, events, left := runConcCase(*seed, id)
		if left > 0 {
			stats["goroutines-left"]++
		}
		stats["events"] += len(events)
		for _, e := range events {
			if e == "LKOk" || e == "LKFinalErr" || e == "LChildErr" {
				stats[e]++
			}
		}
		if events[len(events)-1] == "LKErr" || contains(events, "LKErr") {
			stats["LKErr"]++
		}
		cases = append(cases, fmt.Sprintf("  mkCT %d%%N %d %d %s", id, total, left, coqList(events)))
	}
	var sb strings.Builder
	sb.WriteString("From Coq Require Import List ZArith NArith.\nFrom Verif Require Import Conc ConcTrace ConcCases.\nImport ListNotations.\n")
	sb.WriteString("Definition cases : list conc_case := [\n" + strings.Join(cases, ";\n") + "\n].\n")
	sb.WriteString("Definition bad := Eval vm_compute in conc_mismatches cases.\nPrint bad.\n")
	must(os.WriteFile(*out, []byte(sb.String()), 0o644))
	stats["cases"] = len(cases)
	keys := make([]string, 0, len(stats))
	for k := range stats {
		keys = append(keys, k)
	}
	sort.Strings(keys)
	parts := make([]string, len(keys))
	for i, k := range keys {
		parts[i] = fmt.Sprintf("%q: %d", k, stats[k])
	}
	fmt.Printf("{%s}\n", strings.Join(parts, ", "))
}

func contains(xs []string, x string) bool {
	for _, y := range xs {
		if y == x {
			return true
		}
	}
	return false
}

func init() { commands["conccases"] = cmdConcCases }
