package main

// C02 correspondence: the real engine on bare selector queries (with offset, @,
// any shard count, any window) against Select.v/Shard.v/Exec.v evaluated in Coq.

import (
	"flag"
	"fmt"
	"math"
	"os"
	"runtime"
	"strings"
	"time"

	"github.com/prometheus/prometheus/model/labels"
	"github.com/prometheus/prometheus/promql/parser"

	"github.com/thanos-community/promql-engine/logicalplan"
)

func coqSample(s Sample) string {
	if math.Float64bits(s.V) == math.Float64bits(StaleNaN) {
		return fmt.Sprintf("mkS %s None", coqZ(s.T))
	}
	return fmt.Sprintf("mkS %s (Some %s)", coqZ(s.T), coqFloatBits(s.V))
}

func coqSamples(ss []Sample) string {
	xs := make([]string, len(ss))
	for i, s := range ss {
		xs[i] = coqSample(s)
	}
	return coqList(xs)
}

func coqWindow(w Window) string {
	return fmt.Sprintf("(mkW %s %s %s)", coqZ(w.Start), coqZ(w.End), coqZ(w.Step))
}

func matchSeries(data []SeriesData, ms []*labels.Matcher) []int {
	var idx []int
	for i := range data {
		ok := true
		for _, m := range ms {
			if !m.Matches(data[i].Labels.Get(m.Name)) {
				ok = false
				break
			}
		}
		if ok {
			idx = append(idx, i)
		}
	}
	return idx
}

func cmdSelCases(args []string) {
	fs := flag.NewFlagSet("selcases", flag.ExitOnError)
	seed := fs.Int64("seed", 1, "seed")
	from := fs.Int("from", 0, "first")
	to := fs.Int("to", 100, "last+1")
	out := fs.String("out", "", "output .v file")
	must(fs.Parse(args))
	o := genOptsFor("selector")
	var cases []string
	nontriv := 0
	for id := *from; id < *to; id++ {
		c := genCase(*seed, id, o)
		expr, err := parser.ParseExpr(c.Query)
		if err != nil {
			continue
		}
		start, end := time.UnixMilli(c.Window.Start), time.UnixMilli(c.Window.End)
		lp := logicalplan.New(expr, start, end).Optimize(logicalplan.DefaultOptimizers).Expr()
		pinned := false
		if si, ok := lp.(*parser.StepInvariantExpr); ok {
			pinned = true
			lp = si.Expr
		}
		vs, ok := lp.(*parser.VectorSelector)
		if !ok {
			continue
		}
		idx := matchSeries(c.Data, vs.LabelMatchers)
		runtime.GOMAXPROCS(c.Procs)
		shards := c.Procs / 2
		if shards < 1 {
			shards = 1
		}
		st := NewStore(c.Data)
		cfg := c.Cfg()
		impl, path := runQuery(newImpl(cfg), st, cfg, c.Query, c.Window)
		if path != "native" || impl.Kind == "error" {
			continue
		}
		byKey := map[string][]CPoint{}
		for _, s := range impl.Series {
			byKey[s.Key] = append(byKey[s.Key], s.Points...)
		}
		sers := make([]string, len(idx))
		exp := make([]string, len(idx))
		for k, i := range idx {
			sers[k] = coqSamples(c.Data[i].Samples)
			pts := byKey[c.Data[i].Labels.String()]
			ps := make([]string, len(pts))
			for j, p := range pts {
				ps[j] = fmt.Sprintf("(%s, %s)", coqZ(p.T), coqFloatBits(p.V))
			}
			exp[k] = coqList(ps)
			if len(pts) > 0 {
				nontriv++
			}
		}
		cases = append(cases, fmt.Sprintf("  mkSelCase %d%%N %d %s %s %s %s %s %s", id, shards, coqWindow(c.Window),
			coqZ(c.EffLookback()), coqZ(vs.Offset.Milliseconds()), coqBool(pinned), coqList(sers), coqList(exp)))
	}
	var sb strings.Builder
	sb.WriteString("From Coq Require Import List ZArith NArith.\nFrom Verif Require Import Base CasesLib.\nImport ListNotations.\n")
	sb.WriteString("Definition cases : list sel_case := [\n" + strings.Join(cases, ";\n") + "\n].\n")
	sb.WriteString("Definition bad := Eval vm_compute in sel_mismatches cases.\nPrint bad.\n")
	fmt.Fprintf(&sb, "(* cases=%d series_with_points=%d *)\n", len(cases), nontriv)
	must(os.WriteFile(*out, []byte(sb.String()), 0o644))
	fmt.Printf("{\"cases\": %d, \"series_with_points\": %d}\n", len(cases), nontriv)
}

func init() { commands["selcases"] = cmdSelCases }
