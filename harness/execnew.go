package main

// The operator-tree constructor of the engine (execution.New) is called through reflection, with
// zero values for parameters a changed tree may have appended: the harness must still build - and
// the oracles that do not need an operand stream must still run - against a tree in which the
// constructor's signature has grown.

import (
	"fmt"
	"reflect"
	"time"

	"github.com/prometheus/prometheus/promql/parser"
	"github.com/prometheus/prometheus/storage"

	"github.com/thanos-community/promql-engine/execution"
	"github.com/thanos-community/promql-engine/execution/model"
	engstore "github.com/thanos-community/promql-engine/execution/storage"
)

func newOperatorTree(e parser.Expr, st storage.Queryable, start, end time.Time, step, lookback time.Duration) (op model.VectorOperator, err error) {
	fn := reflect.ValueOf(execution.New)
	ft := fn.Type()
	given := []interface{}{e, st, start, end, step, lookback}
	if ft.NumIn() < len(given) || ft.NumOut() != 2 {
		return nil, fmt.Errorf("execution.New has an unexpected signature: %s", ft)
	}
	args := make([]reflect.Value, ft.NumIn())
	for i := range args {
		pt := ft.In(i)
		if i < len(given) && given[i] != nil && !(i == 1 && st == nil) {
			v := reflect.ValueOf(given[i])
			if !v.Type().AssignableTo(pt) {
				return nil, fmt.Errorf("execution.New has an unexpected signature: %s", ft)
			}
			args[i] = v
		} else {
			args[i] = reflect.Zero(pt)
		}
	}
	out := fn.Call(args)
	if !out[1].IsNil() {
		err, _ = out[1].Interface().(error)
	}
	if !out[0].IsNil() {
		op, _ = out[0].Interface().(model.VectorOperator)
	}
	if op == nil && err == nil {
		err = fmt.Errorf("execution.New returned neither an operator nor an error")
	}
	return op, err
}

// newSelectorPool: engstore.NewSelectorPool(queryable), with zero values for appended parameters.
func newSelectorPool(q storage.Queryable) *engstore.SelectorPool {
	fn := reflect.ValueOf(engstore.NewSelectorPool)
	ft := fn.Type()
	if ft.NumIn() < 1 || ft.NumOut() != 1 || !reflect.TypeOf(q).AssignableTo(ft.In(0)) {
		panic(fmt.Sprintf("engstore.NewSelectorPool has an unexpected signature: %s", ft))
	}
	args := make([]reflect.Value, ft.NumIn())
	args[0] = reflect.ValueOf(q)
	for i := 1; i < len(args); i++ {
		args[i] = reflect.Zero(ft.In(i))
	}
	p, _ := fn.Call(args)[0].Interface().(*engstore.SelectorPool)
	return p
}
