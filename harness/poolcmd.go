package main

// C16 correspondence for Pool.v: which requests the real storage.SelectorPool answers with one
// shared selector, against the model's key (Pool.key_eqb). Pairs of requests that differ in one
// field, in fields the key leaves out, or whose numbers only differ in where the digits are cut.

import (
	"flag"
	"fmt"
	"math/rand"
	"os"
	"strings"

	"github.com/prometheus/prometheus/model/labels"
	"github.com/prometheus/prometheus/storage"
)

type poolReq struct {
	ms               []*labels.Matcher
	mint, maxt, step int64
	rng              int64
	fn               string
	grp              []string
	by               bool
}

func (r poolReq) hints() storage.SelectHints {
	return storage.SelectHints{Start: r.mint, End: r.maxt, Step: r.step, Range: r.rng, Func: r.fn, Grouping: r.grp, By: r.by}
}

func (r poolReq) coq(u *Universe) string {
	return fmt.Sprintf("(mkSel %s %s %s %s %s %q%%string %s %s)", u.matchers(r.ms), coqZ(r.mint), coqZ(r.maxt), coqZ(r.step), coqZ(r.rng),
		r.fn, u.nameList(r.grp), coqBool(r.by))
}

func cmdPoolCases(args []string) {
	fs := flag.NewFlagSet("poolcases", flag.ExitOnError)
	seed := fs.Int64("seed", 1, "seed")
	from := fs.Int("from", 0, "first")
	to := fs.Int("to", 100, "last+1")
	out := fs.String("out", "", "output .v file")
	must(fs.Parse(args))
	nums := []int64{0, 1, 2, 4, 12, 23, 34, 123, 234, 1234, -1, -12, 60000, 6, 0}
	cuts := [][2][2]int64{{{12, 34}, {1, 234}}, {{12, 34}, {123, 4}}, {{1, 23}, {12, 3}}, {{-1, 23}, {-12, 3}}, {{60, 0}, {6, 0}}, {{10, 1}, {1, 1}}}
	mkMs := func(r *rand.Rand) []*labels.Matcher {
		all := []*labels.Matcher{
			labels.MustNewMatcher(labels.MatchEqual, "__name__", "foo"), labels.MustNewMatcher(labels.MatchEqual, "a", "x"),
			labels.MustNewMatcher(labels.MatchNotEqual, "a", "x"), labels.MustNewMatcher(labels.MatchRegexp, "b", "x|y"),
			labels.MustNewMatcher(labels.MatchEqual, "a", ""), labels.MustNewMatcher(labels.MatchEqual, "__name__", "bar"),
		}
		n := r.Intn(3)
		var ms []*labels.Matcher
		for i := 0; i < n; i++ {
			ms = append(ms, pick(r, all))
		}
		return ms
	}
	var cases []string
	shared := 0
	for id := *from; id < *to; id++ {
		r := rand.New(rand.NewSource(*seed*32452843 + int64(id)))
		a := poolReq{ms: mkMs(r), mint: pick(r, nums), maxt: pick(r, nums), step: pick(r, nums), rng: pick(r, []int64{0, 5, 300000}),
			fn: pick(r, []string{"", "rate", "sum", "ra"}), grp: pick(r, [][]string{nil, {"a"}, {"a", "b"}, {"b"}}), by: r.Intn(2) == 0}
		b := a
		switch r.Intn(12) {
		case 0:
			b.ms = mkMs(r)
		case 1:
			b.mint = pick(r, nums)
		case 2:
			b.maxt = pick(r, nums)
		case 3:
			b.step = pick(r, nums)
		case 4:
			b.rng = pick(r, []int64{0, 5, 7}) // not part of the key
		case 5:
			b.fn = pick(r, []string{"", "rate", "sum", "te"})
		case 6:
			b.grp = pick(r, [][]string{nil, {"a"}, {"a", "b"}, {"b"}, {"b", "a"}})
		case 7:
			b.by = !b.by
		case 8, 9:
			c := pick(r, cuts) // the same digits, cut elsewhere
			a.mint, a.maxt = c[0][0], c[0][1]
			b.mint, b.maxt = c[1][0], c[1][1]
		case 10:
			c := pick(r, cuts)
			a.maxt, a.step = c[0][0], c[0][1]
			b.maxt, b.step = c[1][0], c[1][1]
		}
		pool := newSelectorPool(NewStore(nil))
		sa := pool.GetSelector(a.mint, a.maxt, a.step, a.ms, a.hints())
		sb := pool.GetSelector(b.mint, b.maxt, b.step, b.ms, b.hints())
		same := sa == sb
		if same {
			shared++
		}
		u := NewUniverse()
		for _, m := range append(append([]*labels.Matcher{}, a.ms...), b.ms...) {
			u.Names.Add(m.Name)
			u.Values.Add(m.Value)
		}
		for _, g := range append(append([]string{}, a.grp...), b.grp...) {
			u.Names.Add(g)
		}
		cases = append(cases, fmt.Sprintf("  mkPoolCase %d%%N %s %s %s", id, a.coq(u), b.coq(u), coqBool(same)))
	}
	var sb strings.Builder
	sb.WriteString("From Coq Require Import List String ZArith NArith.\nFrom Verif Require Import Ast Base Hints CasesLib.\nImport ListNotations.\nOpen Scope string_scope.\n")
	sb.WriteString("Definition cases : list pool_case := [\n" + strings.Join(cases, ";\n") + "\n].\n")
	sb.WriteString("Definition bad := Eval vm_compute in pool_mismatches cases.\nPrint bad.\n")
	must(os.WriteFile(*out, []byte(sb.String()), 0o644))
	fmt.Printf("{\"cases\": %d, \"shared\": %d}\n", len(cases), shared)
}

func init() { commands["poolcases"] = cmdPoolCases }
