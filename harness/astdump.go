package main

// Serialisation of a (preprocessed, optimized) PromQL AST into the Gallina term
// language of coq/Ast.v. Label names and values are interned to N identifiers
// whose numeric order coincides with Go's byte-wise string order.

import (
	"fmt"
	"math"
	"sort"
	"strings"

	"github.com/prometheus/prometheus/model/labels"
	"github.com/prometheus/prometheus/promql/parser"

	"github.com/thanos-community/promql-engine/logicalplan"
)

// Interner maps strings to ids that preserve byte-wise order. All strings must
// be registered (Add) before Freeze; ids are ranks. For label names, "__name__"
// is always registered so that it has a stable identity in the model
// (Generated names are lowercase identifiers, so it is rank 0).
type Interner struct {
	set    map[string]struct{}
	ids    map[string]int
	sorted []string
}

func NewInterner(seed ...string) *Interner {
	in := &Interner{set: map[string]struct{}{}}
	for _, s := range seed {
		in.Add(s)
	}
	return in
}

func (in *Interner) Add(s string) { in.set[s] = struct{}{}; in.ids = nil }

func (in *Interner) freeze() {
	if in.ids != nil {
		return
	}
	in.sorted = in.sorted[:0]
	for s := range in.set {
		in.sorted = append(in.sorted, s)
	}
	sort.Strings(in.sorted)
	in.ids = make(map[string]int, len(in.sorted))
	for i, s := range in.sorted {
		in.ids[s] = i
	}
}

func (in *Interner) ID(s string) int {
	in.freeze()
	id, ok := in.ids[s]
	if !ok {
		panic("interner: unregistered string " + s)
	}
	return id
}

func (in *Interner) Strings() []string { in.freeze(); return in.sorted }

// Universe holds the two namespaces of one case.
type Universe struct {
	Names  *Interner // label names; "__name__" registered
	Values *Interner // label values and matcher patterns; "" registered (id 0)
}

func NewUniverse() *Universe {
	return &Universe{Names: NewInterner(labels.MetricName), Values: NewInterner("")}
}

func (u *Universe) AddLabels(l labels.Labels) {
	for _, x := range l {
		u.Names.Add(x.Name)
		u.Values.Add(x.Value)
	}
}

func (u *Universe) AddExpr(e parser.Expr) {
	walkCustom(e, func(x parser.Expr) {
		switch t := x.(type) {
		case *parser.VectorSelector:
			for _, m := range t.LabelMatchers {
				u.Names.Add(m.Name)
				u.Values.Add(m.Value)
			}
		case *parser.AggregateExpr:
			for _, g := range t.Grouping {
				u.Names.Add(g)
			}
		case *parser.BinaryExpr:
			if t.VectorMatching != nil {
				for _, g := range t.VectorMatching.MatchingLabels {
					u.Names.Add(g)
				}
				for _, g := range t.VectorMatching.Include {
					u.Names.Add(g)
				}
			}
		case *logicalplan.FilteredSelector:
			for _, m := range t.Filters {
				u.Names.Add(m.Name)
				u.Values.Add(m.Value)
			}
			for _, m := range t.VectorSelector.LabelMatchers {
				u.Names.Add(m.Name)
				u.Values.Add(m.Value)
			}
		case *logicalplan.RemoteExecution:
			if sub, err := parser.ParseExpr(t.Query); err == nil {
				u.AddExpr(sub)
			}
		}
	})
}

// walkCustom visits every expression node including the engine's own node
// kinds (FilteredSelector, Coalesce, RemoteExecution).
func walkCustom(e parser.Expr, f func(parser.Expr)) {
	if e == nil {
		return
	}
	f(e)
	switch n := e.(type) {
	case *parser.StepInvariantExpr:
		walkCustom(n.Expr, f)
	case *parser.MatrixSelector:
		walkCustom(n.VectorSelector, f)
	case *parser.AggregateExpr:
		if n.Param != nil {
			walkCustom(n.Param, f)
		}
		walkCustom(n.Expr, f)
	case *parser.Call:
		for _, a := range n.Args {
			walkCustom(a, f)
		}
	case *parser.BinaryExpr:
		walkCustom(n.LHS, f)
		walkCustom(n.RHS, f)
	case *parser.UnaryExpr:
		walkCustom(n.Expr, f)
	case *parser.ParenExpr:
		walkCustom(n.Expr, f)
	case *parser.SubqueryExpr:
		walkCustom(n.Expr, f)
	case logicalplan.Coalesce:
		for _, x := range n.Expressions {
			walkCustom(x, f)
		}
	}
}

func coqN(i int) string   { return fmt.Sprintf("%d%%N", i) }
func coqZ(i int64) string { return fmt.Sprintf("(%d)%%Z", i) }
func coqBool(b bool) string {
	if b {
		return "true"
	}
	return "false"
}
func coqStr(s string) string     { return "\"" + strings.ReplaceAll(s, "\"", "\"\"") + "\"%string" }
func coqList(xs []string) string { return "[" + strings.Join(xs, "; ") + "]" }
func coqOptZ(p *int64) string {
	if p == nil {
		return "None"
	}
	return "(Some " + coqZ(*p) + ")"
}

// coqFloatBits encodes a float64 as its IEEE bit pattern (a Z).
func coqFloatBits(v float64) string { return fmt.Sprintf("%d%%Z", math.Float64bits(v)) }

func (u *Universe) nameList(xs []string) string {
	out := make([]string, len(xs))
	for i, x := range xs {
		out[i] = coqN(u.Names.ID(x))
	}
	return coqList(out)
}

func (u *Universe) matcher(m *labels.Matcher) string {
	ty := map[labels.MatchType]string{labels.MatchEqual: "MEq", labels.MatchNotEqual: "MNeq", labels.MatchRegexp: "MRe", labels.MatchNotRegexp: "MNre"}[m.Type]
	return fmt.Sprintf("(mkM %s %s %s)", coqN(u.Names.ID(m.Name)), ty, coqN(u.Values.ID(m.Value)))
}

func (u *Universe) matchers(ms []*labels.Matcher) string {
	out := make([]string, len(ms))
	for i, m := range ms {
		out[i] = u.matcher(m)
	}
	return coqList(out)
}

func (u *Universe) vsel(v *parser.VectorSelector, filters []*labels.Matcher, filtered bool) string {
	flt := "None"
	if filtered {
		flt = "(Some " + u.matchers(filters) + ")"
	}
	syn := "0%N" // the parser's Name field: empty when the metric name is written as a matcher
	if v.Name != "" {
		syn = coqN(u.Values.ID(v.Name))
	}
	return fmt.Sprintf("(mkVS %s %s %s %s %s %s)", u.matchers(v.LabelMatchers),
		coqZ(v.OriginalOffset.Milliseconds()), coqZ(v.Offset.Milliseconds()), coqOptZ(v.Timestamp), flt, syn)
}

func cardName(c parser.VectorMatchCardinality) string {
	switch c {
	case parser.CardOneToOne:
		return "OneToOne"
	case parser.CardManyToOne:
		return "ManyToOne"
	case parser.CardOneToMany:
		return "OneToMany"
	}
	return "ManyToMany"
}

// Expr renders e as a term of type Ast.expr. remoteIdx maps remote engines to
// small integers (may be nil when no RemoteExecution node can occur).
func (u *Universe) Expr(e parser.Expr, remoteIdx func(interface{}) int) string {
	switch n := e.(type) {
	case *parser.NumberLiteral:
		return "(ENum " + coqFloatBits(n.Val) + ")"
	case *parser.StringLiteral:
		return "EStr"
	case *parser.VectorSelector:
		return "(EVec " + u.vsel(n, nil, false) + ")"
	case *logicalplan.FilteredSelector:
		return "(EVec " + u.vsel(n.VectorSelector, n.Filters, true) + ")"
	case logicalplan.FilteredSelector:
		return "(EVec " + u.vsel(n.VectorSelector, n.Filters, true) + ")"
	case *parser.MatrixSelector:
		switch v := n.VectorSelector.(type) {
		case *parser.VectorSelector:
			return fmt.Sprintf("(EMat %s %s)", u.vsel(v, nil, false), coqZ(n.Range.Milliseconds()))
		case *logicalplan.FilteredSelector:
			return fmt.Sprintf("(EMat %s %s)", u.vsel(v.VectorSelector, v.Filters, true), coqZ(n.Range.Milliseconds()))
		}
		panic("matrix selector over unknown node")
	case *parser.SubqueryExpr:
		return "(ESubq " + u.Expr(n.Expr, remoteIdx) + ")"
	case *parser.Call:
		args := make([]string, len(n.Args))
		for i, a := range n.Args {
			args[i] = u.Expr(a, remoteIdx)
		}
		return fmt.Sprintf("(ECall %s %s)", coqStr(n.Func.Name), coqList(args))
	case *parser.AggregateExpr:
		p := "None"
		if n.Param != nil {
			p = "(Some " + u.Expr(n.Param, remoteIdx) + ")"
		}
		return fmt.Sprintf("(EAgg %s %s %s %s %s)", coqStr(n.Op.String()), coqBool(n.Without), u.nameList(n.Grouping), p, u.Expr(n.Expr, remoteIdx))
	case *parser.BinaryExpr:
		card, on, ml, incl := "OneToOne", false, []string(nil), []string(nil)
		if n.VectorMatching != nil {
			card, on, ml, incl = cardName(n.VectorMatching.Card), n.VectorMatching.On, n.VectorMatching.MatchingLabels, n.VectorMatching.Include
		}
		return fmt.Sprintf("(EBin %s %s %s %s %s %s %s %s)", coqStr(n.Op.String()), coqBool(n.ReturnBool), card, coqBool(on),
			u.nameList(ml), u.nameList(incl), u.Expr(n.LHS, remoteIdx), u.Expr(n.RHS, remoteIdx))
	case *parser.UnaryExpr:
		return fmt.Sprintf("(EUn %s %s)", coqBool(n.Op == parser.SUB), u.Expr(n.Expr, remoteIdx))
	case *parser.ParenExpr:
		return "(EParen " + u.Expr(n.Expr, remoteIdx) + ")"
	case *parser.StepInvariantExpr:
		return "(EStepInv " + u.Expr(n.Expr, remoteIdx) + ")"
	case logicalplan.Coalesce:
		xs := make([]string, len(n.Expressions))
		for i, x := range n.Expressions {
			xs[i] = u.Expr(x, remoteIdx)
		}
		return "(ECoalesce " + coqList(xs) + ")"
	case *logicalplan.RemoteExecution:
		idx := 0
		if remoteIdx != nil {
			idx = remoteIdx(n.Engine)
		}
		sub, err := parser.ParseExpr(n.Query)
		if err != nil {
			panic("remote query does not parse: " + n.Query)
		}
		return fmt.Sprintf("(ERemote %s %s)", coqN(idx), u.Expr(sub, remoteIdx))
	}
	panic(fmt.Sprintf("astdump: unknown node %T", e))
}

func vtypeName(t parser.ValueType) string {
	switch t {
	case parser.ValueTypeScalar:
		return "TScalar"
	case parser.ValueTypeVector:
		return "TVector"
	case parser.ValueTypeMatrix:
		return "TMatrix"
	case parser.ValueTypeString:
		return "TString"
	}
	return "TNone"
}

// walkCustomShallow visits e and its descendants; f returns false to prune.
func walkCustomShallow(e parser.Expr, f func(parser.Expr) bool) {
	if e == nil || !f(e) {
		return
	}
	switch n := e.(type) {
	case *parser.StepInvariantExpr:
		walkCustomShallow(n.Expr, f)
	case *parser.MatrixSelector:
		walkCustomShallow(n.VectorSelector, f)
	case *parser.AggregateExpr:
		if n.Param != nil {
			walkCustomShallow(n.Param, f)
		}
		walkCustomShallow(n.Expr, f)
	case *parser.Call:
		for _, a := range n.Args {
			walkCustomShallow(a, f)
		}
	case *parser.BinaryExpr:
		walkCustomShallow(n.LHS, f)
		walkCustomShallow(n.RHS, f)
	case *parser.UnaryExpr:
		walkCustomShallow(n.Expr, f)
	case *parser.ParenExpr:
		walkCustomShallow(n.Expr, f)
	case *parser.SubqueryExpr:
		walkCustomShallow(n.Expr, f)
	}
}
