package main

// C02 / C10 correspondence for the lookback a query is evaluated with: the
// real engine (or a distributed engine over remote engines with a lookback
// configuration of their own) evaluates a vector selector at a known time; the
// range start the instrumented storage is asked for shows the lookback that was
// used, which Lookback.v computes from the engine's configuration and the
// query's options.

import (
	"context"
	"flag"
	"fmt"
	"math/rand"
	"os"
	"sort"
	"strings"
	"time"

	"github.com/prometheus/prometheus/model/labels"
	"github.com/prometheus/prometheus/promql"

	"github.com/thanos-community/promql-engine/api"
	"github.com/thanos-community/promql-engine/engine"
)

func cmdLbCases(args []string) {
	fs := flag.NewFlagSet("lbcases", flag.ExitOnError)
	seed := fs.Int64("seed", 1, "seed")
	from := fs.Int("from", 0, "first")
	to := fs.Int("to", 100, "last+1")
	out := fs.String("out", "", "output .v file")
	must(fs.Parse(args))
	var data []SeriesData
	for i, a := range []string{"x", "y", "z"} {
		var smp []Sample
		for t := int64(0); t <= 2_000_000; t += 15_000 {
			smp = append(smp, Sample{T: t, V: float64(i) + float64(t/15_000%7)})
		}
		data = append(data, SeriesData{Labels: labels.FromStrings("__name__", "foo", "a", a), Samples: smp})
	}
	configs := []int64{0, 0, 20_000, 60_000, 300_000, 600_000}
	var cases []string
	stats := map[string]int{}
	for id := *from; id < *to; id++ {
		r := rand.New(rand.NewSource(*seed*15_485_863 + int64(id)))
		cfg := EngineCfg{Lookback: time.Duration(pick(r, configs)) * time.Millisecond}
		rcfg := EngineCfg{Lookback: time.Duration(pick(r, configs)) * time.Millisecond}
		var qo *promql.QueryOpts
		optsCoq := "None"
		switch r.Intn(5) {
		case 0:
			stats["opts-nil"]++
		case 1:
			qo = &promql.QueryOpts{}
			optsCoq = "(Some 0%Z)"
			stats["opts-unset"]++
		case 2:
			qo = &promql.QueryOpts{EnablePerStepStats: true}
			optsCoq = "(Some 0%Z)"
			stats["opts-unset"]++
		default:
			l := pick(r, []int64{1, 10_000, 45_000, 120_000, 300_000, 420_000})
			qo = &promql.QueryOpts{LookbackDelta: time.Duration(l) * time.Millisecond}
			optsCoq = "(Some " + coqZ(l) + ")"
			stats["opts-set"]++
		}
		dist := r.Intn(2) == 0
		central := NewStore(data)
		stores := []*Store{central}
		var eng queryMaker = engine.New(engine.Opts{EngineOpts: promOpts(cfg), DisableFallback: true})
		if dist {
			ropts := engine.Opts{EngineOpts: promOpts(rcfg), DisableFallback: true}
			s1, s2 := NewStore(data[:1]), NewStore(data[1:])
			stores = []*Store{s1, s2}
			eng = engine.NewDistributedEngine(engine.Opts{EngineOpts: promOpts(cfg), DisableFallback: true},
				api.NewStaticEndpoints([]api.RemoteEngine{engine.NewLocalEngine(ropts, s1), engine.NewLocalEngine(ropts, s2)}))
			stats["distributed"]++
		}
		qs := pick(r, []string{"foo", "sum(foo)", "sum by (a) (foo)", "-foo", `max without (a) (foo{a!="z"})`, "count(foo) + 1", "topk(2, foo)"})
		start := int64(1_000_000 + 1000*r.Intn(500))
		var q promql.Query
		var err error
		if r.Intn(2) == 0 {
			q, err = eng.NewInstantQuery(central, qo, qs, time.UnixMilli(start))
			stats["instant"]++
		} else {
			step := pick(r, []int64{15_000, 30_000, 47_000})
			q, err = eng.NewRangeQuery(central, qo, qs, time.UnixMilli(start), time.UnixMilli(start+step*int64(r.Intn(25))), time.Duration(step)*time.Millisecond)
			stats["range"]++
		}
		if err != nil {
			stats["rejected"]++
			continue
		}
		res := q.Exec(context.Background())
		q.Close()
		if res.Err != nil {
			stats["failed"]++
			continue
		}
		// every recorded Select must show the same lookback; none at all, or different ones, are reported as -1
		seen := map[int64]bool{}
		for _, st := range stores {
			for _, rec := range st.Selects {
				if rec.HasHints {
					seen[start-rec.Hints.Start] = true
				} else {
					seen[-2] = true
				}
			}
		}
		observed := int64(-1)
		if len(seen) == 1 {
			for l := range seen {
				observed = l
			}
		}
		if dist && len(central.Selects) != 0 {
			stats["not-pushed-down"]++
			continue
		}
		cases = append(cases, fmt.Sprintf("  mkLB %d%%N %s %s %s %s %s", id, coqZ(cfg.Lookback.Milliseconds()), optsCoq, coqBool(dist),
			coqZ(rcfg.Lookback.Milliseconds()), coqZ(observed)))
	}
	var sb strings.Builder
	sb.WriteString("From Coq Require Import List ZArith NArith.\nFrom Verif Require Import Lookback.\nImport ListNotations.\n")
	sb.WriteString("Definition cases : list lb_case := [\n" + strings.Join(cases, ";\n") + "\n].\n")
	sb.WriteString("Definition bad := Eval vm_compute in lb_mismatches cases.\nPrint bad.\n")
	must(os.WriteFile(*out, []byte(sb.String()), 0o644))
	stats["cases"] = len(cases)
	keys := make([]string, 0, len(stats))
	for k := range stats {
		keys = append(keys, k)
	}
	sort.Strings(keys)
	parts := make([]string, len(keys))
	for i, k := range keys {
		parts[i] = fmt.Sprintf("%q: %d", k, stats[k])
	}
	fmt.Printf("{%s}\n", strings.Join(parts, ", "))
}

func init() { commands["lbcases"] = cmdLbCases }
