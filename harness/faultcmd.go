package main

// Fault, cancellation, lifecycle, concurrency and history oracles
// (C12, C13, C14, C15, C17, C20). Cases are (plan shape, fault) pairs derived
// from the case id; every run of a faulted query is preceded by a dry run that
// counts the storage callbacks per site, so that "the k-th callback for every k
// reached by the query" can be enumerated.

import (
	"context"
	"errors"
	"fmt"
	"io"
	"math/rand"
	"runtime"
	"sort"
	"strings"
	"sync"
	"sync/atomic"
	"time"

	"github.com/prometheus/prometheus/model/labels"
	"github.com/prometheus/prometheus/promql"
	"github.com/prometheus/prometheus/storage"

	"github.com/thanos-community/promql-engine/api"
	"github.com/thanos-community/promql-engine/engine"
	"github.com/thanos-community/promql-engine/logicalplan"
)

var faultShapes = []string{
	"foo", "sum(foo)", "sum by (a) (foo)", "topk(2, foo)", "bottomk by (a) (1, foo)", "rate(foo[1m])", "sum(rate(foo[1m]))",
	"foo + bar", "foo + on (a) group_left bar", "foo * 2", "abs(foo)", "clamp(foo, 0, scalar(bar))", "-foo", "sum(-foo)",
	"foo @ 950", "quantile(0.5, foo)", "scalar(sum(foo)) + 1", "foo + foo", `foo{a="x"} / foo`, "max_over_time(foo[45s]) / bar",
	"count by (b) (foo > 3)", "stddev(foo) + avg(bar)", "sum(foo) / on () group_left sum(bar)", "foo offset 1m - foo",
	"histogram_quantile(0.9, foo)", "delta(foo[2m] offset 30s)", "vector(time()) + foo", "max by (a) (foo) * on (a) group_right foo",
	"abs(last_over_time(foo[1m]))", "-last_over_time(foo[45s])", "histogram_quantile(0.5, foo) + 1", "clamp_min(last_over_time(bar[1m]), 2)",
	"nometric", "sum by (a) (nometric)", "rate(nometric[1m])", "topk(2, nometric)",
	// a select that the default optimizers turn into a filter over a broader select of the same metric
	`sum(rate(foo{a="x"}[1m])) / sum(rate(foo[1m]))`, `foo{a="x",b="1"} / scalar(sum(foo{a="x"}))`, `sum(foo{b="1"} offset 30s) / sum(foo offset 30s)`,
}

var extremeQueries = []string{
	"topk(0, foo)", "topk(-1, foo)", "topk(NaN, foo)", "topk(1e300, foo)", "bottomk(Inf, foo)", "quantile(NaN, foo)", "quantile(-1, foo)",
	"quantile(2, foo)", "quantile(scalar(nometric), foo)", "topk(scalar(nometric), foo)", "sum(nometric)", "rate(nometric[1m])",
	"foo / 0", "foo % 0", "topk(scalar(foo), bar)", "clamp(foo, NaN, 1)", "clamp(foo, 5, 1)", "scalar(nometric) + foo", "-nometric",
	"nometric + foo", "topk(3, nometric)", "quantile(0.5, nometric) + 1", "1e308 * foo * 1e308", "sum(foo * 1e308)", "stddev(foo * 1e300)",
	"topk(1e18, foo)", "bottomk by (a) (9e18, foo)", "topk(3e9, foo)", "topk(scalar(bar{a=\"x\"}) * 1e17, foo)", "bottomk(2147483648, foo)",
	"quantile(1e18, foo)", "topk(9.3e18, foo)", "topk(-9e18, foo)",
	// parameters that read the storage through a selector another selector of the query subsumes
	"topk(scalar(count(foo{a=\"x\"})), foo)", "bottomk(scalar(foo{a=\"x\",b=\"1\"}), foo)", "quantile(scalar(count(bar{a=\"y\"})) / 10, bar)",
	"count(foo) by (nolabel)", "foo @ 0", "foo offset 100h", "foo @ 1e9", "sum_over_time(foo[1ms])", "rate(foo[1ms])", "irate(foo[1ms])",
}

func faultData(w Window) []SeriesData {
	var out []SeriesData
	i := 0
	for _, name := range []string{"foo", "bar"} {
		for _, a := range []string{"x", "y", "z"} {
			for _, b := range []string{"1", "2"} {
				if name == "bar" && b == "2" {
					continue
				}
				var smp []Sample
				for t := w.Start - 300_000; t <= w.End+15_000; t += 15_000 {
					smp = append(smp, Sample{T: t + int64(i%3), V: float64(i+1) + float64(t/15_000%9)})
				}
				// "zone" sorts after "le": removing a label in place from a storage-owned slice then shows
				out = append(out, SeriesData{Labels: labels.FromStrings("__name__", name, "a", a, "b", b, "le", fmt.Sprint(i), "zone", fmt.Sprint(i%2)), Samples: smp})
				i++
			}
		}
	}
	return out
}

var faultWindow = Window{Start: 900_000, End: 1_620_000, Step: 30_000} // 25 steps: three batches

type faultCase struct {
	Query   string
	Window  Window
	Kind    string // error | panic-runtime | panic-error | panic-string | cancel | block
	Site    string
	N       int64
	Procs   int
	Dist    bool
	Instant bool
}

var errorSites = []string{"querier", "select", "ss.next", "ss.err", "it.seek", "it.next"}
var allSites = []string{"querier", "select", "ss.next", "ss.at", "ss.err", "labels", "iterator", "it.seek", "it.next", "it.at", "it.err", "close"}

// the stores of the remote engines created by the last newEngines(dist = true, ...)
var lastRemoteStores []*Store

func newEngines(dist bool, data []SeriesData, st *Store) (queryMaker, func()) {
	lastRemoteStores = nil
	opts := engine.Opts{EngineOpts: promOpts(EngineCfg{})}
	if !dist {
		return engine.New(opts), func() {}
	}
	// two remote engines over a split of the data, both reading through the
	// instrumented store's fault plan is not possible: the remote engines get
	// their own stores sharing the fault configuration of st.
	half := len(data) / 2
	s1, s2 := NewStore(data[:half]), NewStore(data[half:])
	s1.Faults, s2.Faults = st.Faults, st.Faults
	s1.InjectedAlso, s2.InjectedAlso = st.InjectedAlso, st.InjectedAlso
	s1.Cancel, s2.Cancel = st.Cancel, st.Cancel
	// one remote engine's storage fails a select at once while the other's is slow
	s1.FailSelectName, s2.SlowSelectName, s2.SlowSelectDelay = st.FailSelectName, st.SlowSelectName, st.SlowSelectDelay
	lastRemoteStores = []*Store{s1, s2}
	remotes := []api.RemoteEngine{engine.NewLocalEngine(opts, s1), engine.NewLocalEngine(opts, s2)}
	return engine.NewDistributedEngine(opts, api.NewStaticEndpoints(remotes)), func() {
		st.mu.Lock()
		st.Opens += s1.Opens + s2.Opens
		st.Closes += s1.Closes + s2.Closes
		st.mu.Unlock()
	}
}

func genFaultCase(seed int64, id int, kinds []string, sites []string) (*faultCase, *rand.Rand) {
	r := rand.New(rand.NewSource(seed*2_000_003 + int64(id)))
	fc := &faultCase{Window: faultWindow, Procs: pick(r, []int{2, 4, 8, 16})}
	fc.Query = faultShapes[id%len(faultShapes)]
	if r.Intn(5) == 0 {
		fc.Window = Window{Start: 1_200_000, End: 1_200_000}
		fc.Instant = true
	}
	fc.Kind = pick(r, kinds)
	fc.Site = pick(r, sites)
	return fc, r
}

// dryCount runs the query without faults and returns the callback counts.
func dryCount(fc *faultCase, data []SeriesData) (map[string]int64, Canon) {
	st := NewStore(data)
	eng, _ := newEngines(false, data, st)
	res, _ := runQuery(eng, st, EngineCfg{}, fc.Query, fc.Window)
	return st.SiteCounts(), res
}

func goroutineCount() int { return runtime.NumGoroutine() }

func waitGoroutines(base int, d time.Duration) (int, string) {
	deadline := time.Now().Add(d)
	for {
		n := runtime.NumGoroutine()
		if n <= base {
			return n, ""
		}
		if time.Now().After(deadline) {
			buf := make([]byte, 1<<16)
			buf = buf[:runtime.Stack(buf, true)]
			return n, string(buf)
		}
		time.Sleep(5 * time.Millisecond)
	}
}

type execOutcome struct {
	res       Canon
	returned  bool
	elapsed   time.Duration
	created   bool
	createErr error
}

// execWithWatchdog creates and executes the query, with a watchdog.
func execWithWatchdog(eng queryMaker, st *Store, fc *faultCase, ctx context.Context, watchdog time.Duration) (execOutcome, promql.Query) {
	q, err := makeQuery(eng, st, EngineCfg{}, fc.Query, fc.Window)
	if err != nil {
		return execOutcome{createErr: err}, nil
	}
	done := make(chan *promql.Result, 1)
	t0 := time.Now()
	go func() { done <- q.Exec(ctx) }()
	select {
	case r := <-done:
		return execOutcome{res: canonResult(r), returned: true, elapsed: time.Since(t0), created: true}, q
	case <-time.After(watchdog):
		return execOutcome{returned: false, elapsed: time.Since(t0), created: true}, q
	}
}

// oracleFault: C13 (panic kinds), C15 (error kind), C17 (open/close, immutability).
func oracleFault(seed int64, id int, mode string) CaseResult {
	var kinds, sites []string
	switch mode {
	case "panic":
		kinds, sites = []string{"panic-runtime", "panic-error", "panic-string"}, allSites[:11]
	case "storerr":
		kinds, sites = []string{"error"}, errorSites
	case "lifecycle":
		kinds, sites = []string{"none", "error", "panic-runtime", "panic-error", "cancel", "cancel-slow"}, allSites[:11]
	}
	fc, r := genFaultCase(seed, id, kinds, sites)
	slow := (mode == "storerr" || mode == "panic") && id%4 == 3
	if slow {
		// a slow consumer side: the failing selector runs ahead and fills its exchange buffer
		fc.Window = Window{Start: 900_000, End: 900_000 + 59*15_000, Step: 15_000} // 60 steps, six batches
		fc.Instant = false
		fc.Query = pick(r, []string{"bar + on (a) group_right foo", "sum(bar) + on () group_right foo", "foo * on (a, b) bar", "sum by (a) (foo) / on (a) sum by (a) (bar)"})
		fc.Site = pick(r, []string{"it.seek", "it.next"})
	}
	// one operand's select fails at once while the other's is still running (lifecycle only):
	// every querier must be closed when Exec returns all the same
	racing := mode == "lifecycle" && id%5 == 2
	if racing {
		fc.Instant = false
		fc.Window = faultWindow
		fc.Kind = "none"
		fc.Dist = id%10 == 2
		if fc.Dist {
			fc.Query = pick(r, []string{"foo", "sum by (a) (foo)", "abs(foo)"})
		} else {
			fc.Query = pick(r, []string{"foo + bar", "foo * on (a) group_left bar", "sum(foo) / on () sum(bar)", "bar - on (a, b) foo"})
		}
	}
	// a cancellation that arrives while a remote engine's storage is inside a callback (lifecycle only):
	// no querier of any engine may be open when the distributed query's Exec returns
	distCancel := mode == "lifecycle" && !racing && (fc.Kind == "cancel" || fc.Kind == "cancel-slow") && id%3 == 1
	runtime.GOMAXPROCS(fc.Procs)
	data := faultData(fc.Window)
	res := CaseResult{Query: fc.Query, Window: fc.Window, Procs: fc.Procs}
	counts, clean := dryCount(fc, data)
	if clean.Err == "create" {
		res.Skipped = "rejected at creation"
		return res
	}
	if distCancel {
		fc.Site = pick(r, []string{"select", "querier", "ss.next"})
		counts[fc.Site] = 1
	}
	if counts[fc.Site] == 0 && !racing {
		res.Skipped = "site " + fc.Site + " not reached"
		return res
	}
	if racing {
		counts[fc.Site] = 1
	}
	fc.N = 1 + r.Int63n(counts[fc.Site])
	if slow {
		fc.N = counts[fc.Site]/2 + r.Int63n(counts[fc.Site]/2+1) // in the later batches
	}
	res.Tags = []string{fmt.Sprintf("fault=%s@%s#%d/%d", fc.Kind, fc.Site, fc.N, counts[fc.Site])}
	if racing {
		res.Tags = []string{fmt.Sprintf("fault=one select fails at once, another is slow; dist=%v", fc.Dist)}
	}
	res.NonTriv = true

	st := NewStore(data)
	if slow {
		st.SlowName, st.SlowDelay = "bar", 300*time.Microsecond
	}
	if racing {
		st.SlowSelectName, st.SlowSelectDelay = "foo", 40*time.Millisecond
		if fc.Dist {
			st.FailSelectName = "foo" // the first remote engine fails, the second is slow
		} else {
			st.FailSelectName = "bar"
		}
	}
	st.WithCanaries()
	snap := st.Snapshot()
	st.KeepLog = true
	ctx, cancel := context.WithCancel(context.Background())
	defer cancel()
	st.Cancel = cancel
	// storage failures through the remote engines of a distributed engine (every third case), and
	// failures of a storage whose own backend request was cancelled or timed out (every fourth): the
	// query's context is alive, the failure is the storage's
	distErr := mode == "storerr" && !slow && id%3 == 1
	if mode == "storerr" {
		switch id % 4 {
		case 2:
			st.InjectedAlso = context.Canceled
		case 0:
			if id%8 == 0 {
				st.InjectedAlso = context.DeadlineExceeded
			}
		}
	}
	if distErr {
		fc.N = 1 + r.Int63n(3)
		res.Tags = []string{fmt.Sprintf("fault=%s@%s#%d in the remote engines' storages", fc.Kind, fc.Site, fc.N)}
	}
	if st.InjectedAlso != nil {
		res.Tags[0] += " wrapping " + st.InjectedAlso.Error()
	}
	if fc.Kind != "none" {
		st.Faults = []Fault{{Kind: fc.Kind, Site: fc.Site, N: fc.N}}
	}
	eng, _ := newEngines((racing && fc.Dist) || distErr || distCancel, data, st)
	remoteStores := lastRemoteStores
	base := goroutineCount()

	// no storage interaction at creation
	q, err := makeQuery(eng, st, EngineCfg{}, fc.Query, fc.Window)
	if err != nil {
		res.Skipped = "rejected at creation"
		return res
	}
	if ev := st.SiteCounts()[""]; ev != 0 {
		res.Fail = fmt.Sprintf("%d storage callbacks between query creation and Exec", ev)
		return res
	}
	done := make(chan *promql.Result, 1)
	go func() { done <- q.Exec(ctx) }()
	var out Canon
	select {
	case rr := <-done:
		out = canonResult(rr)
	case <-time.After(10 * time.Second):
		res.Fail = "Exec did not return within 10s after fault " + res.Tags[0]
		return res
	}
	// snapshot of the querier accounting at the moment Exec returned
	st.mu.Lock()
	opensAtReturn, closesAtReturn := st.Opens, st.Closes
	perID := map[int64]int{}
	for k, v := range st.OpenIDs {
		perID[k] = v
	}
	st.mu.Unlock()
	for _, rs := range remoteStores {
		rs.mu.Lock()
		opensAtReturn += rs.Opens
		closesAtReturn += rs.Closes
		rs.mu.Unlock()
	}
	q.Close()
	fired := st.Fired() > 0
	for _, rs := range remoteStores {
		if rs.Fired() > 0 {
			fired = true
		}
	}
	res.Impl = trunc(out.String(), 300)

	switch mode {
	case "panic":
		if fired && out.Kind != "error" {
			res.Fail = "a panic in a storage callback (" + res.Tags[0] + ") did not become the query's error: " + trunc(out.String(), 200)
		}
	case "storerr":
		if fired {
			if out.Kind != "error" {
				res.Fail = "storage failure (" + res.Tags[0] + ") but the query succeeded: " + trunc(out.String(), 200)
			} else if !errors.Is(out.RawErr, ErrInjected) {
				res.Fail = "storage failure (" + res.Tags[0] + ") but the query's error does not wrap it: " + out.ErrMsg
			}
		} else if d := diffSelf(out, clean); d != "" && !distErr {
			res.Fail = "fault not reached but the result differs from the clean run: " + d
		}
	case "lifecycle":
		if opensAtReturn != closesAtReturn {
			res.Fail = fmt.Sprintf("when Exec returned %d queriers had been opened and %d closed (%s)", opensAtReturn, closesAtReturn, res.Tags[0])
		}
		for id, n := range perID {
			if n != 1 && res.Fail == "" {
				res.Fail = fmt.Sprintf("querier %d closed %d times when Exec returned (%s)", id, n, res.Tags[0])
			}
		}
		if d := st.DiffSnapshot(snap); d != "" && res.Fail == "" {
			res.Fail = "storage-owned data modified: " + d
		}
		if fc.Kind == "none" && !racing {
			if d := diffSelf(out, clean); d != "" && res.Fail == "" {
				res.Fail = "result over canary-padded label slices differs from the clean run: " + d
			}
		}
	}
	if res.Fail == "" {
		if n, dump := waitGoroutines(base, 8*time.Second); n > base {
			res.Fail = fmt.Sprintf("%d goroutines still running 8s after Close (baseline %d) after %s", n, base, res.Tags[0])
			res.Ref = trunc(dump, 1500)
		}
	}
	// other queries are unaffected
	if res.Fail == "" && mode == "panic" {
		st2 := NewStore(data)
		again, _ := runQuery(eng, st2, EngineCfg{}, "sum by (a) (foo)", fc.Window)
		exp, _ := runQuery(newImpl(EngineCfg{}), NewStore(data), EngineCfg{}, "sum by (a) (foo)", fc.Window)
		if d := diffSelf(again, exp); d != "" {
			res.Fail = "a later query on the same engine is affected by the earlier panic: " + d
		}
	}
	return res
}

// oracleExtreme (C13): extreme parameters and degenerate data never crash and
// behave as the reference engine.
func oracleExtreme(seed int64, id int) CaseResult {
	qs := extremeQueries[id%len(extremeQueries)]
	r := rand.New(rand.NewSource(seed*3_000_017 + int64(id)))
	w := faultWindow
	if r.Intn(4) == 0 {
		w = Window{Start: 1_200_000, End: 1_200_000}
	}
	var data []SeriesData
	switch r.Intn(5) {
	case 0:
		data = nil
	case 1:
		data = []SeriesData{{Labels: labels.FromStrings("__name__", "foo", "a", "x"), Samples: []Sample{{T: w.Start - 1000, V: 1}}}}
	case 2:
		nan := faultData(w)
		for i := range nan {
			for j := range nan[i].Samples {
				nan[i].Samples[j].V = nanValue()
			}
		}
		data = nan
	default:
		data = faultData(w)
	}
	runtime.GOMAXPROCS(pick(r, []int{1, 2, 8, 16}))
	c := &Case{ID: id, Seed: seed, Query: qs, Window: w, Data: data, Procs: runtime.GOMAXPROCS(0)}
	res := oracleRef(c)
	res.Query, res.Window = qs, w
	if res.Fail == "" && id%2 == 1 {
		// an engine without fallback that explains its plans, on a query it cannot plan: creation
		// must answer with an error, not with a panic
		func() {
			defer func() {
				if e := recover(); e != nil {
					res.Fail = fmt.Sprintf("panic escaped the creation of a query: %v", e)
				}
			}()
			eng := engine.New(engine.Opts{EngineOpts: promOpts(EngineCfg{}), DisableFallback: true, DebugWriter: io.Discard})
			for _, uq := range []string{"sort(foo)", "absent(nometric)", "foo and bar", "sum(label_replace(foo, \"x\", \"$1\", \"a\", \"(.*)\"))"} {
				if q, err := makeQuery(eng, NewStore(data), EngineCfg{}, uq, w); err == nil {
					q.Close()
				}
			}
		}()
	}
	if res.Fail == "" && id%2 == 0 {
		// the same query through a distributed engine (default optimizers, two partitions): planning
		// and execution must not panic either
		func() {
			defer func() {
				if e := recover(); e != nil {
					res.Fail = fmt.Sprintf("panic escaped from the distributed engine: %v", e)
				}
			}()
			half := len(data) / 2
			opts := engine.Opts{EngineOpts: promOpts(EngineCfg{}), LogicalOptimizers: logicalplan.DefaultOptimizers}
			remotes := []api.RemoteEngine{engine.NewLocalEngine(opts, NewStore(data[:half])), engine.NewLocalEngine(opts, NewStore(data[half:]))}
			dist := engine.NewDistributedEngine(opts, api.NewStaticEndpoints(remotes))
			runQuery(dist, NewStore(data), EngineCfg{}, qs, w)
		}()
	}
	if res.Fail == "" {
		// the query's own methods in every order an embedding server can call them: Cancel and Close
		// before Exec, Close without Exec, twice, Cancel after the end - on the host's goroutine, where
		// a panic is the host's
		func() {
			step := ""
			defer func() {
				if e := recover(); e != nil {
					res.Fail = fmt.Sprintf("panic escaped from the query's methods (%s): %v", step, e)
				}
			}()
			engs := []queryMaker{newImpl(EngineCfg{})}
			if id%3 == 0 && len(data) > 1 {
				half := len(data) / 2
				opts := engine.Opts{EngineOpts: promOpts(EngineCfg{}), LogicalOptimizers: logicalplan.DefaultOptimizers}
				remotes := []api.RemoteEngine{engine.NewLocalEngine(opts, NewStore(data[:half])), engine.NewLocalEngine(opts, NewStore(data[half:]))}
				engs = append(engs, engine.NewDistributedEngine(opts, api.NewStaticEndpoints(remotes)))
			}
			// a distributed engine that has no remote engine (yet)
			engs = append(engs, engine.NewDistributedEngine(engine.Opts{EngineOpts: promOpts(EngineCfg{})}, api.NewStaticEndpoints(nil)))
			for _, eng := range engs {
				// a range query whose step is below a millisecond (the resolution of the step grid)
				step = "range query with a step of 400us"
				if q, err := eng.NewRangeQuery(NewStore(data), nil, qs, time.UnixMilli(w.Start), time.UnixMilli(w.Start).Add(3*time.Millisecond), 400*time.Microsecond); err == nil {
					q.Exec(context.Background())
					q.Close()
				}
				for _, order := range [][]string{{"close"}, {"cancel", "exec", "close"}, {"cancel", "close"}, {"close", "close"}, {"exec", "cancel", "close", "cancel"}, {"cancel", "cancel", "exec", "close", "close"}} {
					q, err := makeQuery(eng, NewStore(data), EngineCfg{}, qs, w)
					if err != nil {
						break
					}
					for _, m := range order {
						step = strings.Join(order, ",") + " at " + m
						switch m {
						case "close":
							q.Close()
						case "cancel":
							q.Cancel()
						case "exec":
							q.Exec(context.Background())
						}
					}
				}
			}
		}()
	}
	return res
}

func nanValue() float64 { var z float64; return z / z }

// oracleCancel (C14): cancellation at the k-th callback / at a random instant /
// with a storage that blocks until cancelled.
func oracleCancel(seed int64, id int) CaseResult {
	fc, r := genFaultCase(seed, id, []string{"cancel", "block", "timer", "race", "blockcancel", "precancel", "deadline", "blockclose"}, allSites[:11])
	if id%3 == 0 {
		fc.Dist = true
	}
	runtime.GOMAXPROCS(fc.Procs)
	data := faultData(fc.Window)
	res := CaseResult{Query: fc.Query, Window: fc.Window, Procs: fc.Procs}
	counts, clean := dryCount(fc, data)
	if clean.Err == "create" {
		res.Skipped = "rejected at creation"
		return res
	}
	if counts[fc.Site] == 0 && fc.Kind != "precancel" {
		fc.Site = "it.seek"
		if counts[fc.Site] == 0 {
			fc.Site = "select" // a query without series still opens a querier and selects
			if counts[fc.Site] == 0 {
				res.Skipped = "no storage callbacks"
				return res
			}
		}
	}
	fc.N = 1
	if counts[fc.Site] > 0 {
		fc.N = 1 + r.Int63n(counts[fc.Site])
	}
	res.Tags = []string{fmt.Sprintf("cancel=%s@%s#%d/%d dist=%v", fc.Kind, fc.Site, fc.N, counts[fc.Site], fc.Dist)}
	res.NonTriv = true
	st := NewStore(data)
	ctx, cancel := context.WithCancel(context.Background())
	defer cancel()
	if fc.Kind == "deadline" {
		// the caller's context times out while the storage is blocked: the error is the deadline's
		cancel()
		ctx, cancel = context.WithTimeout(context.Background(), time.Duration(15+r.Intn(30))*time.Millisecond)
		defer cancel()
	}
	st.Cancel = cancel
	switch fc.Kind {
	case "cancel":
		st.Faults = []Fault{{Kind: "cancel", Site: fc.Site, N: fc.N}}
	case "block", "blockcancel", "deadline", "blockclose":
		st.Faults = []Fault{{Kind: "block", Site: fc.Site, N: fc.N}}
	}
	eng, _ := newEngines(fc.Dist, data, st)
	base := goroutineCount()
	q, err := makeQuery(eng, st, EngineCfg{}, fc.Query, fc.Window)
	if err != nil {
		res.Skipped = "rejected at creation"
		return res
	}
	done := make(chan *promql.Result, 1)
	ev0 := atomic.LoadInt64(&storeEvents)
	if fc.Kind == "precancel" {
		cancel() // the context is already done when Exec is called
	}
	go func() { done <- q.Exec(ctx) }()
	var closedCh chan struct{}
	switch fc.Kind {
	case "block":
		time.Sleep(time.Duration(1+r.Intn(20)) * time.Millisecond)
		cancel()
	case "timer":
		time.Sleep(time.Duration(r.Intn(3000)) * time.Microsecond)
		cancel()
	case "race":
		time.Sleep(time.Duration(r.Intn(1500)) * time.Microsecond)
		q.Cancel() // Cancel() racing with Exec
	case "blockcancel":
		// the storage blocks (possibly while the series are still being loaded) until the
		// query's own Cancel() - not the caller's context - stops it. Cancel() before Exec has begun
		// is a no-op (as in the reference engine), so wait for Exec's first storage callback.
		for i := 0; i < 4000 && atomic.LoadInt64(&storeEvents) == ev0; i++ {
			time.Sleep(500 * time.Microsecond)
		}
		time.Sleep(time.Duration(1+r.Intn(20)) * time.Millisecond)
		q.Cancel()
	case "blockclose":
		// the same with Close() from another goroutine: it must interrupt the running Exec
		for i := 0; i < 4000 && atomic.LoadInt64(&storeEvents) == ev0; i++ {
			time.Sleep(500 * time.Microsecond)
		}
		time.Sleep(time.Duration(1+r.Intn(20)) * time.Millisecond)
		closedCh = make(chan struct{})
		go func(ch chan struct{}) { q.Close(); close(ch) }(closedCh)
	}
	var out Canon
	select {
	case rr := <-done:
		out = canonResult(rr)
	case <-time.After(15 * time.Second): // generous: the machine may be loaded; a hang is a hang
		res.Fail = "Exec did not return within 15s after cancellation (" + res.Tags[0] + ")"
		buf := make([]byte, 1<<16)
		res.Ref = trunc(string(buf[:runtime.Stack(buf, true)]), 2000)
		return res
	}
	if closedCh != nil {
		select {
		case <-closedCh:
		case <-time.After(10 * time.Second):
			res.Fail = "Close() called from another goroutine during Exec did not return within 10s (" + res.Tags[0] + ")"
			return res
		}
	}
	q.Close()
	res.Impl = trunc(out.String(), 200)
	cancelled := ctx.Err() != nil || fc.Kind == "race" || fc.Kind == "blockcancel" || fc.Kind == "blockclose"
	if fc.Kind == "deadline" {
		if out.Kind == "error" && !errors.Is(out.RawErr, context.DeadlineExceeded) {
			res.Fail = "the context's deadline expired during Exec but the error is not the context's (context.DeadlineExceeded): " + fmt.Sprintf("%T", out.RawErr) + " " + out.ErrMsg
		} else if out.Kind != "error" {
			if d := diffSelf(out, clean); d != "" {
				res.Fail = "successful result after the deadline differs from the complete result: " + d
			}
		}
	} else if out.Kind == "error" {
		if out.Err != "ctx-canceled" && !(fc.Dist && strings.Contains(out.ErrMsg, "context canceled")) {
			res.Fail = "cancelled query returned an error that is not the context's: [" + out.Err + "] " + out.ErrMsg
		} else if !errors.Is(out.RawErr, context.Canceled) {
			res.Fail = "cancelled query returned an error that reads like the context's but does not wrap it (errors.Is): " + fmt.Sprintf("%T", out.RawErr) + " " + out.ErrMsg
		}
	} else if fc.Kind == "precancel" {
		res.Fail = "Exec on a context that was already cancelled returned a successful result: " + trunc(out.String(), 200)
	} else if d := diffSelf(out, clean); d != "" {
		res.Fail = fmt.Sprintf("successful result after cancellation (cancelled=%v) differs from the uncancelled result: %s", cancelled, d)
	}
	if res.Fail == "" {
		if n, dump := waitGoroutines(base, 8*time.Second); n > base {
			res.Fail = fmt.Sprintf("%d goroutines still running 8s after Close (baseline %d), %s", n, base, res.Tags[0])
			res.Ref = trunc(dump, 2000)
		}
	}
	return res
}

// oracleCancelStress (C14): cancellation at random instants while the root is
// a concurrency operator: a successful result must be the complete one.
func oracleCancelStress(seed int64, id int) CaseResult {
	r := rand.New(rand.NewSource(seed*5_000_011 + int64(id)))
	qs := pick(r, []string{"foo", "sum by (a) (foo)", "sum(foo)", "topk(2, foo)"})
	procs := pick(r, []int{2, 16})
	runtime.GOMAXPROCS(procs)
	data := faultData(faultWindow)
	res := CaseResult{Query: qs, Window: faultWindow, Procs: procs, NonTriv: true}
	st := NewStore(data)
	eng := newImpl(EngineCfg{})
	clean, _ := runQuery(eng, st, EngineCfg{}, qs, faultWindow)
	const runs = 4000
	partial := 0
	for i := 0; i < runs; i++ {
		ctx, cancel := context.WithCancel(context.Background())
		q, err := makeQuery(eng, st, EngineCfg{}, qs, faultWindow)
		if err != nil {
			cancel()
			continue
		}
		delay := time.Duration(r.Intn(400)) * time.Microsecond
		go func() { time.Sleep(delay); cancel() }()
		out := canonResult(q.Exec(ctx))
		q.Close()
		cancel()
		if out.Kind != "error" {
			if d := diffSelf(out, clean); d != "" {
				partial++
				res.Fail = fmt.Sprintf("run %d of %d (cancel after %v): successful result differs from the complete one: %s", i, runs, delay, d)
				break
			}
		}
	}
	res.Tags = []string{fmt.Sprintf("stress-runs=%d", runs)}
	return res
}

// oracleConc (C12): K queries concurrently on one engine and one storage; every
// result equals its solo result. (Run under the -race build.)
func oracleConc(seed int64, id int) CaseResult {
	r := rand.New(rand.NewSource(seed*7_000_003 + int64(id)))
	runtime.GOMAXPROCS(pick(r, []int{4, 16}))
	data := faultData(faultWindow)
	st := NewStore(data)
	st.YieldSeed = int64(r.Intn(1<<30) + 1)
	dist := id%4 == 0
	if id%6 == 4 {
		// MaxSamples is a limit per query: many queries, each far below it, together far above it
		maxSamplesOverride = 4000
		defer func() { maxSamplesOverride = 0 }()
	}
	eng, _ := newEngines(dist, data, st)
	k := pick(r, []int{2, 8, 32})
	if id%6 == 4 {
		k = 32
	}
	type job struct {
		q string
		w Window
	}
	jobs := make([]job, k)
	pool := append(append([]string(nil), faultShapes...), "sort(foo)", "absent(nometric)", "label_replace(foo, \"x\", \"$1\", \"a\", \"(.*)\")")
	if id%5 == 1 {
		// the first queries an engine ever sees are created concurrently and all take the fallback path
		pool = pool[len(faultShapes):]
	}
	for i := range jobs {
		jobs[i].q = pick(r, pool)
		if r.Intn(4) == 0 {
			jobs[i].q = jobs[0].q // same text several times
		}
		jobs[i].w = faultWindow
		if r.Intn(3) == 0 {
			jobs[i].w = Window{Start: 1_200_000, End: 1_200_000}
		}
	}
	if id%6 == 2 {
		// one text under several windows: what a query with @ means depends on its own window
		// (start(), end(), the distance of a fixed time from the start)
		atPool := []string{"foo @ start()", "sum(foo @ end())", "foo @ 950", "rate(foo[1m] @ end())", "foo - foo @ start()", "max by (a) (foo @ 1000 offset 30s)", "sum(foo) @ end()"}
		wins := []Window{faultWindow, {Start: 1_200_000, End: 1_200_000}, {Start: 960_000, End: 1_500_000, Step: 60_000}, {Start: 1_050_000, End: 1_050_000}, {Start: 930_000, End: 1_230_000, Step: 15_000}}
		text := pick(r, atPool)
		for i := range jobs {
			jobs[i].q = text
			if r.Intn(3) == 0 {
				jobs[i].q = pick(r, atPool)
			}
			jobs[i].w = pick(r, wins)
		}
	}
	sameSelect := (id%6 == 5 || id%6 == 3) && !dist
	crowd := sameSelect && id%6 == 3
	if crowd {
		// many more queries than cores, all under way at once: they must not starve each other
		runtime.GOMAXPROCS(2)
		jobs = make([]job, 6*runtime.NumCPU()+8)
		k = len(jobs)
	}
	if sameSelect {
		// every query issues the same select and all of them are inside it at the same time; every
		// other one is cancelled there: the others must not notice
		text := pick(r, []string{"sum by (a) (foo)", "foo", "rate(foo[1m])", "max(foo) by (b)", "sum(foo)", "count(rate(foo[1m]))", "sum(foo)"})
		for i := range jobs {
			jobs[i].q, jobs[i].w = text, faultWindow
		}
		st.SlowSelectName, st.SlowSelectDelay, st.SlowSelectCtx = "foo", 25*time.Millisecond, true
		if crowd {
			// all of them aggregations, none cancelled, and a select slow enough for every query to be
			// inside it before the first one leaves: each then holds whatever its outer operators hold
			// while its inner operators start
			text := pick(r, []string{"sum by (a) (foo)", "max(foo) by (b)", "sum(foo)", "count(rate(foo[1m]))", "sum(foo) / count(foo)"})
			for i := range jobs {
				jobs[i].q = text
			}
			st.SlowSelectDelay = 250 * time.Millisecond
		}
	}
	res := CaseResult{Query: fmt.Sprintf("%d concurrent queries, first: %s", k, jobs[0].q), Window: faultWindow, NonTriv: true}
	// "run alone": on an engine of its own, so that the shared engine's first queries are the concurrent ones
	solo := make([]Canon, k)
	soloEng, _ := newEngines(dist, data, NewStore(data))
	for i, j := range jobs {
		if id%6 == 2 {
			// literally alone: an engine that has seen no other query
			soloEng, _ = newEngines(dist, data, NewStore(data))
		}
		solo[i], _ = runQuery(soloEng, NewStore(data), EngineCfg{}, j.q, j.w)
	}
	got := make([]Canon, k)
	var wg sync.WaitGroup
	for i := range jobs {
		wg.Add(1)
		go func(i int) {
			defer wg.Done()
			q, err := makeQuery(eng, st, EngineCfg{}, jobs[i].q, jobs[i].w)
			if err != nil {
				got[i] = Canon{Kind: "error", Err: "create", ErrMsg: err.Error()}
				return
			}
			// Cancel() racing with Exec, for native queries only: promql.query.Cancel of the
			// embedded Prometheus engine (fallback path) races with its own Exec (library defect).
			if sameSelect {
				if i%2 == 0 && !crowd {
					go func() { time.Sleep(time.Duration(2+i%7) * time.Millisecond); q.Cancel() }()
				}
			} else if i%5 == 4 && strings.Contains(fmt.Sprintf("%T", q), "compatibilityQuery") {
				go func() { time.Sleep(time.Duration(i) * 50 * time.Microsecond); q.Cancel() }()
			}
			ectx, ecancel := context.WithTimeout(context.Background(), 40*time.Second)
			got[i] = canonResult(q.Exec(ectx))
			if ectx.Err() == context.DeadlineExceeded {
				got[i] = Canon{Kind: "error", Err: "hang", ErrMsg: "Exec did not finish within 40s"}
			}
			ecancel()
			q.Close()
		}(i)
	}
	wg.Wait()
	for i := range jobs {
		if (i%5 == 4 || (sameSelect && i%2 == 0 && !crowd)) && got[i].Kind == "error" && got[i].Err == "ctx-canceled" {
			continue // cancelled on purpose
		}
		if d := diffSelf(got[i], solo[i]); d != "" {
			res.Fail = fmt.Sprintf("query %d (%s) run concurrently with %d others differs from its solo run: %s", i, jobs[i].q, k-1, d)
			res.Impl, res.Ref = trunc(got[i].String(), 300), trunc(solo[i].String(), 300)
			break
		}
	}
	return res
}

// oracleHist (C20): a history of queries on one engine interleaved with appends;
// every result equals a fresh engine's on the current data, and no returned
// result is altered later.
func oracleHist(seed int64, id int) CaseResult {
	r := rand.New(rand.NewSource(seed*9_000_011 + int64(id)))
	runtime.GOMAXPROCS(pick(r, []int{2, 8, 16}))
	w := faultWindow
	data := faultData(w)
	// keep the tail of every series for later appends
	var tails [][]Sample
	for i := range data {
		n := len(data[i].Samples)
		cut := n - 1 - r.Intn(n/2)
		tails = append(tails, append([]Sample(nil), data[i].Samples[cut:]...))
		data[i].Samples = data[i].Samples[:cut]
	}
	st := NewStore(data)
	dist := id%5 == 0
	eng, _ := newEngines(false, data, st)
	// the set of remote engines may change while the distributed engine lives
	endpoints := &dynEndpoints{engines: []api.RemoteEngine{engine.NewLocalEngine(engine.Opts{EngineOpts: promOpts(EngineCfg{})}, st)}, stores: []storage.Queryable{st}}
	// the options a server builds once and creates all its engines from: an optimizer list with spare capacity
	sharedOpts := engine.Opts{EngineOpts: promOpts(EngineCfg{})}
	if id%10 == 0 {
		sharedOpts.LogicalOptimizers = append(make([]logicalplan.Optimizer, 0, 8), logicalplan.DefaultOptimizers...)
	}
	if dist {
		eng = engine.NewDistributedEngine(sharedOpts, endpoints)
	}
	// an engine whose options carry an active-query tracker with two slots: whatever takes a slot must
	// give it back on every path, or later queries wait in the queue for ever
	var tracker *memTracker
	if !dist && id%7 == 5 {
		tracker = &memTracker{slots: make(chan struct{}, 2)}
		eo := promOpts(EngineCfg{})
		eo.ActiveQueryTracker = tracker
		eng = engine.New(engine.Opts{EngineOpts: eo})
	}
	res := CaseResult{Query: "history", Window: w, NonTriv: true}
	type kept struct {
		raw      *promql.Result
		snap     Canon
		desc     string
		fallback bool
		closed   bool
	}
	var keptResults []kept
	n := 10 + r.Intn(40)
	pool := append(append([]string(nil), faultShapes...), "sort(foo)", "foo +", "topk(NaN, foo)", "absent(foo)")
	var ops []string
	lastQuery := ""
	for step := 0; step < n; step++ {
		if lastQuery != "" && r.Intn(8) == 0 {
			// a query that is created and closed without ever being executed
			if q, err := makeQuery(eng, st, EngineCfg{}, lastQuery, w); err == nil {
				q.Close()
			}
			ops = append(ops, "abandoned("+lastQuery+")")
		}
		switch k := r.Intn(10); {
		case k < 2: // append samples
			i := r.Intn(len(st.Series))
			if len(tails[i]) > 0 {
				st.Series[i].Samples = append(st.Series[i].Samples, tails[i][0])
				tails[i] = tails[i][1:]
			}
			ops = append(ops, fmt.Sprintf("append(%d)", i))
		case k == 3 && dist && len(endpoints.Engines()) < 3: // another remote engine joins, with series of its own
			extra := NewStore([]SeriesData{{Labels: labels.FromStrings("__name__", "foo", "a", fmt.Sprintf("e%d", step), "b", "1", "le", "9", "zone", "0"),
				Samples: []Sample{{T: w.Start - 5000, V: float64(100 + step)}, {T: w.Start + 400_000, V: float64(200 + step)}}}})
			endpoints.add(engine.NewLocalEngine(engine.Opts{EngineOpts: promOpts(EngineCfg{})}, extra), extra)
			ops = append(ops, "new-remote-engine")
		case k == 4 && dist: // another distributed engine is created from the same options, over other endpoints
			other := NewStore([]SeriesData{{Labels: labels.FromStrings("__name__", "foo", "a", "elsewhere", "b", "1", "le", "9", "zone", "0"),
				Samples: []Sample{{T: w.Start - 5000, V: 1e6}, {T: w.Start + 400_000, V: 2e6}}}})
			_ = engine.NewDistributedEngine(sharedOpts, api.NewStaticEndpoints([]api.RemoteEngine{engine.NewLocalEngine(engine.Opts{EngineOpts: promOpts(EngineCfg{})}, other)}))
			ops = append(ops, "another-distributed-engine")
		case k == 2: // new series
			st.Series = append(st.Series, SeriesData{Labels: labels.FromStrings("__name__", "foo", "a", fmt.Sprintf("n%d", step), "b", "1"),
				Samples: []Sample{{T: w.Start + int64(step)*1000, V: float64(step)}}})
			tails = append(tails, nil)
			ops = append(ops, "new-series")
		default:
			qs := pick(r, pool)
			if lastQuery != "" && r.Intn(3) == 0 {
				qs = lastQuery // the same text again, possibly after the data has changed
			}
			lastQuery = qs
			win := w
			if r.Intn(3) == 0 {
				win = Window{Start: 1_200_000, End: 1_200_000}
			}
			qcfg := EngineCfg{}
			if r.Intn(5) == 0 {
				qcfg.QueryLookback = 10 * time.Second // a per-query option must not stick to the engine
				qs = pick(r, []string{"foo", "sum by (a) (foo)", "foo + bar"})
			}
			ops = append(ops, fmt.Sprintf("%s [lookback=%v]", qs, qcfg.QueryLookback))
			q, err := makeQuery(eng, st, qcfg, qs, win)
			fq, ferr := makeQuery(newFresh(dist, endpoints.freshEngines(), sharedOpts.LogicalOptimizers != nil), st, qcfg, qs, win)
			if (err != nil) != (ferr != nil) {
				res.Fail = fmt.Sprintf("step %d %q: creation differs from a fresh engine (%v vs %v)", step, qs, err, ferr)
				res.Ref = strings.Join(ops, " ; ")
				return res
			}
			if err != nil {
				continue
			}
			ctx, cancel := context.WithCancel(context.Background())
			if tracker != nil {
				cancel()
				ctx, cancel = context.WithTimeout(context.Background(), 10*time.Second)
			}
			precancelled := r.Intn(8) == 0
			if precancelled {
				cancel() // a cancelled query in the history
			}
			raw := q.Exec(ctx)
			cancel()
			got := canonResult(raw)
			if tracker != nil && !precancelled && got.Kind == "error" && (errors.Is(got.RawErr, context.DeadlineExceeded) || strings.Contains(got.ErrMsg, "query queue")) {
				res.Fail = fmt.Sprintf("step %d %q: the query waited for a slot of the active-query tracker until its context ended (%s): earlier queries of the history kept their slots", step, qs, trunc(got.ErrMsg, 120))
				res.Ref = strings.Join(ops, " ; ")
				return res
			}
			fresh := canonResult(fq.Exec(context.Background()))
			fq.Close()
			if got.Kind == "error" && got.Err == "ctx-canceled" {
				q.Close()
				continue
			}
			if d := diffSelf(got, fresh); d != "" {
				res.Fail = fmt.Sprintf("step %d %q: result differs from a fresh engine on the current data: %s", step, qs, d)
				res.Impl, res.Ref = trunc(got.String(), 300), trunc(fresh.String(), 300)
				return res
			}
			isFallback := !strings.Contains(fmt.Sprintf("%T", q), "compatibilityQuery")
			closeNow := r.Intn(2) == 0
			keptResults = append(keptResults, kept{raw: raw, snap: got, desc: fmt.Sprintf("step %d %q", step, qs), fallback: isFallback, closed: closeNow})
			if closeNow {
				q.Close()
			} else {
				defer q.Close()
			}
		}
		// every earlier result must still equal its snapshot
		for _, kr := range keptResults {
			now := canonResult(kr.raw)
			if d := diffCanon(now, kr.snap, true); d != "" {
				res.Fail = fmt.Sprintf("result of %s was altered after it had been returned (seen after step %d): %s", kr.desc, step, d)
				res.Ref = strings.Join(ops, " ; ")
				if kr.fallback && kr.closed {
					res.Tags = []string{"fallback-result-recycled-on-close"}
				}
				return res
			}
		}
	}
	res.Steps = n
	return res
}

func newFresh(dist bool, remotes []api.RemoteEngine, defaults bool) queryMaker {
	opts := engine.Opts{EngineOpts: promOpts(EngineCfg{})}
	if defaults {
		opts.LogicalOptimizers = append([]logicalplan.Optimizer(nil), logicalplan.DefaultOptimizers...)
	}
	if dist {
		return engine.NewDistributedEngine(opts, api.NewStaticEndpoints(remotes))
	}
	return engine.New(opts)
}

// memTracker: an in-memory promql.QueryTracker with a fixed number of slots
type memTracker struct {
	slots chan struct{}
}

func (t *memTracker) GetMaxConcurrent() int { return cap(t.slots) }
func (t *memTracker) Insert(ctx context.Context, _ string) (int, error) {
	select {
	case t.slots <- struct{}{}:
		return 0, nil
	case <-ctx.Done():
		return 0, ctx.Err()
	}
}
func (t *memTracker) Delete(int) {
	select {
	case <-t.slots:
	default:
	}
}

// dynEndpoints: remote endpoints whose set of engines grows over time
// freshEngines: newly constructed remote engines over the same storages (a fresh distributed engine
// has fresh remote engines: whatever a remote engine remembers is engine state, too)
func (d *dynEndpoints) freshEngines() []api.RemoteEngine {
	d.mu.Lock()
	defer d.mu.Unlock()
	out := make([]api.RemoteEngine, len(d.stores))
	for i, st := range d.stores {
		out[i] = engine.NewLocalEngine(engine.Opts{EngineOpts: promOpts(EngineCfg{})}, st)
	}
	return out
}

type dynEndpoints struct {
	stores  []storage.Queryable
	mu      sync.Mutex
	engines []api.RemoteEngine
}

func (d *dynEndpoints) Engines() []api.RemoteEngine {
	d.mu.Lock()
	defer d.mu.Unlock()
	return append([]api.RemoteEngine(nil), d.engines...)
}

func (d *dynEndpoints) add(e api.RemoteEngine, st storage.Queryable) {
	d.mu.Lock()
	d.engines = append(d.engines, e)
	d.stores = append(d.stores, st)
	d.mu.Unlock()
}

var _ = sort.Strings
