//go:build verif

package main

// Operator-boundary monitor (C18): every edge of a built plan is replaced by a
// wrapper that checks the stream contract at every Series/Next call.

import (
	"context"
	"fmt"
	"math"
	"runtime"
	"strings"
	"sync"
	"sync/atomic"

	"github.com/prometheus/prometheus/model/labels"

	"github.com/thanos-community/promql-engine/engine"
	"github.com/thanos-community/promql-engine/execution/aggregate"
	"github.com/thanos-community/promql-engine/execution/binary"
	"github.com/thanos-community/promql-engine/execution/exchange"
	"github.com/thanos-community/promql-engine/execution/function"
	"github.com/thanos-community/promql-engine/execution/model"
	"github.com/thanos-community/promql-engine/execution/step_invariant"
	"github.com/thanos-community/promql-engine/execution/unary"
)

type violationSink struct {
	mu    sync.Mutex
	first string
	edges int
	calls int64
	ops   []*monitorOp
}

// finalCheck asks every operator whose series list was requested during the run for it once more:
// the list must still be what it was (an operator above may not edit the label sets it was handed).
func (v *violationSink) finalCheck(ctx context.Context) {
	for _, m := range v.ops {
		m.mu.Lock()
		got := m.gotSer
		m.mu.Unlock()
		if got {
			m.Series(ctx)
		}
	}
}

func (v *violationSink) report(format string, a ...interface{}) {
	v.mu.Lock()
	if v.first == "" {
		v.first = fmt.Sprintf(format, a...)
	}
	v.mu.Unlock()
}

type monitorOp struct {
	inner  model.VectorOperator
	name   string
	sink   *violationSink
	step   int64
	start  int64
	end    int64
	batch  int
	yield  uint64
	single bool // below a step-invariant operator: evaluated for the window's first step only

	mu      sync.Mutex
	series  []string
	gotSer  bool
	ended   bool
	lastT   int64
	hasLast bool
	inNext  int32
}

func (m *monitorOp) GetPool() *model.VectorPool                { return m.inner.GetPool() }
func (m *monitorOp) Explain() (string, []model.VectorOperator) { return m.inner.Explain() }

func (m *monitorOp) Series(ctx context.Context) ([]labels.Labels, error) {
	s, err := m.inner.Series(ctx)
	if err != nil {
		return s, err
	}
	m.mu.Lock()
	defer m.mu.Unlock()
	cur := make([]string, len(s))
	for i, l := range s {
		cur[i] = l.String()
	}
	if m.gotSer {
		if len(cur) != len(m.series) {
			m.sink.report("%s: the series list changed length between calls (%d vs %d)", m.name, len(m.series), len(cur))
		} else {
			for i := range cur {
				if cur[i] != m.series[i] {
					m.sink.report("%s: series %d changed between calls (%s vs %s)", m.name, i, m.series[i], cur[i])
					break
				}
			}
		}
	}
	m.series, m.gotSer = cur, true
	return s, nil
}

func (m *monitorOp) Next(ctx context.Context) ([]model.StepVector, error) {
	if !atomic.CompareAndSwapInt32(&m.inNext, 0, 1) {
		m.sink.report("%s: asked for two batches concurrently", m.name)
	}
	defer atomic.StoreInt32(&m.inNext, 0)
	atomic.AddInt64(&m.sink.calls, 1)
	if m.yield != 0 {
		m.yield = m.yield*6364136223846793005 + 1442695040888963407
		if (m.yield>>33)%3 == 0 {
			runtime.Gosched()
		}
	}
	b, err := m.inner.Next(ctx)
	if err != nil {
		return b, err
	}
	m.mu.Lock()
	defer m.mu.Unlock()
	if b == nil {
		if !m.ended {
			// the end of the stream: every step of the window must have been served
			last := m.start
			if !m.single && m.step > 0 {
				last = m.start + (m.end-m.start)/m.step*m.step
			}
			if !m.hasLast {
				m.sink.report("%s: signalled the end of its stream without serving any step of the window [%d, %d]", m.name, m.start, m.end)
			} else if m.lastT != last {
				m.sink.report("%s: signalled the end of its stream after t=%d, the window's last step is %d", m.name, m.lastT, last)
			}
		}
		m.ended = true
		return b, nil
	}
	if m.ended {
		m.sink.report("%s: produced a batch after signalling the end of its stream", m.name)
	}
	if len(b) > m.batch {
		m.sink.report("%s: batch of %d step vectors exceeds the batch size %d", m.name, len(b), m.batch)
	}
	nser := -1
	if m.gotSer {
		nser = len(m.series)
	}
	for _, v := range b {
		// every operator of the plan emits steps of the query's own grid: the first at the start, none past the end
		if v.T > m.end || v.T < m.start {
			m.sink.report("%s: a step vector at t=%d lies outside the window [%d, %d]", m.name, v.T, m.start, m.end)
		} else if !m.hasLast && v.T != m.start {
			m.sink.report("%s: the first step vector is at t=%d, the window starts at %d", m.name, v.T, m.start)
		}
		if m.hasLast {
			if v.T <= m.lastT {
				m.sink.report("%s: step timestamps not strictly increasing (%d after %d)", m.name, v.T, m.lastT)
			} else if m.step > 0 && v.T-m.lastT != m.step {
				m.sink.report("%s: a step was skipped or is off the grid (%d after %d, step %d)", m.name, v.T, m.lastT, m.step)
			}
		}
		m.lastT, m.hasLast = v.T, true
		if len(v.SampleIDs) != len(v.Samples) {
			m.sink.report("%s: %d sample IDs but %d values at t=%d", m.name, len(v.SampleIDs), len(v.Samples), v.T)
		}
		seen := make(map[uint64]bool, len(v.SampleIDs))
		for i, id := range v.SampleIDs {
			if seen[id] {
				m.sink.report("%s: sample ID %d twice at t=%d", m.name, id, v.T)
			}
			seen[id] = true
			if nser >= 0 && int(id) >= nser {
				m.sink.report("%s: sample ID %d does not index the series list of length %d (t=%d)", m.name, id, nser, v.T)
			}
			if i < len(v.Samples) && math.Float64bits(v.Samples[i]) == math.Float64bits(StaleNaN) {
				m.sink.report("%s: staleness marker emitted at t=%d", m.name, v.T)
			}
		}
	}
	return b, nil
}

func childrenOf(op model.VectorOperator) []*model.VectorOperator {
	for _, f := range []func(model.VectorOperator) []*model.VectorOperator{
		exchange.VerifChildren, aggregate.VerifChildren, binary.VerifChildren, function.VerifChildren,
		unary.VerifChildren, step_invariant.VerifChildren,
	} {
		if c := f(op); c != nil {
			return c
		}
	}
	return nil
}

// instrument wraps every edge below (and including) the slot.
func instrument(slot *model.VectorOperator, sink *violationSink, w Window, yieldSeed uint64, path string) {
	instrumentIn(slot, sink, w, yieldSeed, path, false)
}

func instrumentIn(slot *model.VectorOperator, sink *violationSink, w Window, yieldSeed uint64, path string, single bool) {
	inner := *slot
	name, _ := inner.Explain()
	below := single || strings.Contains(name, "stepInvariantOperator")
	for i, c := range childrenOf(inner) {
		instrumentIn(c, sink, w, yieldSeed*31+uint64(i)+1, fmt.Sprintf("%s/%d", path, i), below)
	}
	sink.edges++
	m := &monitorOp{inner: inner, name: path + ":" + name, sink: sink, step: w.Step, start: w.Start, end: w.End, batch: 10, yield: yieldSeed, single: single}
	sink.ops = append(sink.ops, m)
	*slot = m
}

// oracleStream (C18): monitors every operator edge of the plan while the query
// runs, and checks that pulling batches before asking for the series gives the
// same result.
func oracleStream(c *Case) CaseResult {
	runtime.GOMAXPROCS(c.Procs)
	cfg := c.Cfg()
	st := NewStore(c.Data)
	eng := newImpl(cfg)
	res := CaseResult{}
	q, err := makeQuery(eng, st, cfg, c.Query, c.Window)
	if err != nil {
		res.Skipped = "rejected at creation"
		return res
	}
	root := engine.VerifRoot(q)
	if root == nil {
		q.Close()
		res.Skipped = "not evaluated natively"
		return res
	}
	res.Path = "native"
	sink := &violationSink{}
	instrument(root, sink, c.Window, uint64(c.Seed)*7919+uint64(c.ID)+1, "root")
	out := canonResult(q.Exec(context.Background()))
	if out.Kind != "error" {
		sink.finalCheck(context.Background())
	}
	q.Close()
	res.NonTriv = out.NonTrivial()
	res.Tags = []string{fmt.Sprintf("edges=%d calls=%d", sink.edges, sink.calls)}
	if sink.first != "" {
		res.Fail = sink.first
		return res
	}
	// Next before Series at the root: drive the operator tree directly
	q2, err := makeQuery(eng, NewStore(c.Data), cfg, c.Query, c.Window)
	if err != nil {
		return res
	}
	defer q2.Close()
	root2 := engine.VerifRoot(q2)
	if root2 == nil || out.Kind == "error" {
		return res
	}
	ctx := context.Background()
	type pt struct {
		t int64
		v float64
	}
	byID := map[uint64][]pt{}
	for {
		b, err := (*root2).Next(ctx)
		if err != nil || b == nil {
			break
		}
		for _, v := range b {
			for i, id := range v.SampleIDs {
				if i < len(v.Samples) {
					byID[id] = append(byID[id], pt{v.T, v.Samples[i]})
				}
			}
		}
	}
	series, err := (*root2).Series(ctx)
	if err != nil {
		return res
	}
	got := Canon{Kind: out.Kind}
	for id, pts := range byID {
		if int(id) >= len(series) {
			res.Fail = fmt.Sprintf("Next before Series: sample ID %d does not index the series list of length %d", id, len(series))
			return res
		}
		cs := CSeries{Labels: series[id], Key: series[id].String()}
		for _, p := range pts {
			cs.Points = append(cs.Points, CPoint{p.t, p.v})
		}
		got.Series = append(got.Series, cs)
	}
	if out.Kind == "matrix" {
		sortCanon(&got)
		if d := diffCanon(got, out, false); d != "" {
			res.Fail = "pulling batches before asking for the series list gives a different result: " + d
			res.Tags = append(res.Tags, selfTags(c, got, out)...)
		}
	}
	return res
}

func init() { extraOracles["stream"] = oracleStream }
