package main

// C06 correspondence: function operator, unary minus, vector/scalar binary
// operator and scalar() of the real engine against Func.v in Coq. The operand
// stream comes from the engine's own operator tree for the inner selector, the
// expected output from the engine's result for the whole query; values are
// primitive floats (abs, sqrt, negation, clamp*, + - * /, comparisons).

import (
	"flag"
	"fmt"
	"math/rand"
	"os"
	"runtime"
	"sort"
	"strings"
	"time"

	"github.com/prometheus/prometheus/promql/parser"

	"github.com/thanos-community/promql-engine/logicalplan"
)

func cmdFuncCases(args []string) {
	fs := flag.NewFlagSet("funccases", flag.ExitOnError)
	seed := fs.Int64("seed", 1, "seed")
	from := fs.Int("from", 0, "first")
	to := fs.Int("to", 100, "last+1")
	out := fs.String("out", "", "output .v file")
	must(fs.Parse(args))
	o := genOptsFor("selector")
	o.MaxSeries = 12
	var cases []string
	stats := map[string]int{}
	lits := []string{"0", "1", "2.5", "-3", "50", "1e300", "NaN", "Inf", "-Inf", "0.1"}
	for id := *from; id < *to; id++ {
		c := genCase(*seed, id, o)
		r := rand.New(rand.NewSource(*seed*15485863 + int64(id)))
		g := &qgen{r: r, w: c.Window, o: o}
		sel := pick(r, []string{"foo", "bar", `{__name__=~"foo|bar"}`, `{__name__=~".+"}`, g.freshSelector()}) + g.modifiers()
		kind := r.Intn(8)
		// kind: 0 abs 1 sqrt 2 neg 3 clamp 4 clamp_min 5 clamp_max 6 vector/scalar binop 7 scalar()
		a, b := pick(r, lits), pick(r, lits)
		opIdx, scalarLeft, retBool := 0, false, false
		dropsName := true
		switch kind {
		case 0:
			c.Query = "abs(" + sel + ")"
		case 1:
			c.Query = "sqrt(" + sel + ")"
		case 2:
			c.Query = "-(" + sel + ")"
		case 3:
			c.Query = fmt.Sprintf("clamp(%s, %s, %s)", sel, a, b)
		case 4:
			c.Query = fmt.Sprintf("clamp_min(%s, %s)", sel, a)
		case 5:
			c.Query = fmt.Sprintf("clamp_max(%s, %s)", sel, a)
		case 6:
			opIdx = r.Intn(len(binOps))
			opStr := binOps[opIdx]
			retBool = opIdx >= 4 && r.Intn(3) == 0
			if retBool {
				opStr += " bool"
			}
			dropsName = opIdx < 4 || retBool
			scalarLeft = r.Intn(2) == 0
			if scalarLeft {
				c.Query = fmt.Sprintf("%s %s (%s)", a, opStr, sel)
			} else {
				c.Query = fmt.Sprintf("(%s) %s %s", sel, opStr, a)
			}
		case 7:
			c.Query = "scalar(" + sel + ")"
		}
		expr, err := parser.ParseExpr(c.Query)
		if err != nil {
			stats["unparsable"]++
			continue
		}
		selExpr, err := parser.ParseExpr(sel)
		if err != nil {
			stats["unparsable"]++
			continue
		}
		w := c.Window
		pend := w.End
		if w.Instant() {
			pend = w.Start
		}
		lp := logicalplan.New(expr, time.UnixMilli(w.Start), time.UnixMilli(pend)).Optimize(logicalplan.NoOptimizers).Expr()
		if _, wrapped := lp.(*parser.StepInvariantExpr); wrapped {
			stats["step-invariant"]++
			continue
		}
		selPlan := logicalplan.New(selExpr, time.UnixMilli(w.Start), time.UnixMilli(pend)).Optimize(logicalplan.NoOptimizers).Expr()
		runtime.GOMAXPROCS(c.Procs)
		cfg := c.Cfg()
		cfg.Optimizers = logicalplan.NoOptimizers
		impl, path := runQuery(newImpl(cfg), NewStore(c.Data), cfg, c.Query, c.Window)
		if path != "native" || impl.Kind == "error" {
			stats["not-native-or-error"]++
			continue
		}
		os_, ok := operandStream(selPlan, c)
		if !ok {
			stats["operand-stream-unavailable"]++
			continue
		}
		u := NewUniverse()
		u.AddExpr(lp)
		for _, l := range os_.series {
			u.AddLabels(l)
		}
		for _, s := range impl.Series {
			u.AddLabels(s.Labels)
		}
		sers := make([]string, len(os_.series))
		for i, l := range os_.series {
			sers[i] = u.labels(l)
		}
		steps := make([]string, len(os_.steps))
		for i, st := range os_.steps {
			vs := make([]string, len(st.ids))
			for j := range st.ids {
				vs[j] = fmt.Sprintf("(%d, %s)", st.ids[j], coqFloat(st.vals[j]))
			}
			steps[i] = fmt.Sprintf("(%s, %s)", coqZ(st.t), coqList(vs))
		}
		byT := map[int64][]string{}
		for _, s := range impl.Series {
			for _, p := range s.Points {
				byT[p.T] = append(byT[p.T], fmt.Sprintf("(%s, %s)", u.labels(s.Labels), coqFloat(p.V)))
			}
		}
		exp := make([]string, len(os_.steps))
		for i, st := range os_.steps {
			exp[i] = fmt.Sprintf("(%s, %s)", coqZ(st.t), coqList(byT[st.t]))
			delete(byT, st.t)
		}
		if len(byT) != 0 {
			stats["result-points-off-operand-steps"]++
			exp = append(exp, "((-1)%Z, [])")
		}
		if impl.NonTrivial() {
			stats["nontrivial"]++
		}
		stats[fmt.Sprintf("kind-%d", kind)]++
		if os.Getenv("VERIF_LIST") != "" {
			fmt.Fprintf(os.Stderr, "%d\t%s\n", id, c.Query)
		}
		fa, _ := parser.ParseExpr(a)
		fb, _ := parser.ParseExpr(b)
		av := fa.(interface{ String() string })
		_ = av
		lit := func(e parser.Expr) float64 {
			switch n := e.(type) {
			case *parser.NumberLiteral:
				return n.Val
			case *parser.UnaryExpr:
				if x, ok := n.Expr.(*parser.NumberLiteral); ok {
					return -x.Val
				}
			}
			return 0
		}
		cases = append(cases, fmt.Sprintf("  mkFC %d%%N %d%%N %s %s %d%%N %s %s %s %s %s %s", id, kind, coqFloat(lit(fa)), coqFloat(lit(fb)), opIdx,
			coqBool(scalarLeft), coqBool(retBool), coqBool(dropsName), coqList(sers), coqList(steps), coqList(exp)))
	}
	var sb strings.Builder
	sb.WriteString("From Coq Require Import List ZArith NArith Floats.\nFrom Verif Require Import Base Bin BinCases FuncCases.\nImport ListNotations.\n")
	sb.WriteString("Definition cases : list func_case := [\n" + strings.Join(cases, ";\n") + "\n].\n")
	sb.WriteString("Definition bad := Eval vm_compute in func_mismatches cases.\nPrint bad.\n")
	must(os.WriteFile(*out, []byte(sb.String()), 0o644))
	stats["cases"] = len(cases)
	keys := make([]string, 0, len(stats))
	for k := range stats {
		keys = append(keys, k)
	}
	sort.Strings(keys)
	parts := make([]string, len(keys))
	for i, k := range keys {
		parts[i] = fmt.Sprintf("%q: %d", k, stats[k])
	}
	fmt.Printf("{%s}\n", strings.Join(parts, ", "))
}

func init() { commands["funccases"] = cmdFuncCases }
