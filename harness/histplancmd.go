package main

// C20 (and C08 over histories) correspondence: random histories of query
// creations on ONE engine instance - interleaved with executions, closes and
// data appended to the storage - against Plan.run_creations in Coq: the outcome
// of every creation and the absolute values of the two counters at the end.

import (
	"context"
	"flag"
	"fmt"
	"math/rand"
	"os"
	"sort"
	"strings"
	"time"

	"github.com/prometheus/client_golang/prometheus"
	"github.com/prometheus/prometheus/promql"
	"github.com/prometheus/prometheus/promql/parser"

	"github.com/thanos-community/promql-engine/engine"
	"github.com/thanos-community/promql-engine/logicalplan"
)

func cmdHistPlanCases(args []string) {
	fs := flag.NewFlagSet("histplancases", flag.ExitOnError)
	seed := fs.Int64("seed", 1, "seed")
	from := fs.Int("from", 0, "first")
	to := fs.Int("to", 100, "last+1")
	out := fs.String("out", "", "output .v file")
	must(fs.Parse(args))
	constructs := c08Constructs(1)
	seen := map[string]bool{}
	var queries []string
	for _, c := range constructs {
		for _, q := range c08Positions(c.q, c.t) {
			if seen[q] {
				continue
			}
			if _, err := parser.ParseExpr(q); err != nil {
				continue
			}
			seen[q] = true
			queries = append(queries, q)
		}
	}
	sort.Strings(queries)
	start, end, step := time.UnixMilli(0), time.UnixMilli(300_000), 30*time.Second
	var cases []string
	stats := map[string]int{}
	for id := *from; id < *to; id++ {
		r := rand.New(rand.NewSource(*seed*32452843 + int64(id)))
		fb := r.Intn(2) == 0
		reg := prometheus.NewRegistry()
		eo := promOpts(EngineCfg{})
		eo.Reg = reg
		eng := engine.New(engine.Opts{EngineOpts: eo, DisableFallback: !fb})
		store := newC08Store()
		n := 5 + r.Intn(30)
		var creations, outcomes []string
		var open []promql.Query
		for k := 0; k < n; k++ {
			qs := queries[r.Intn(len(queries))]
			rng := r.Intn(2) == 0
			expr, err := parser.ParseExpr(qs)
			if err != nil {
				continue
			}
			var q promql.Query
			if rng {
				q, err = eng.NewRangeQuery(store, nil, qs, start, end, step)
			} else {
				q, err = eng.NewInstantQuery(store, nil, qs, end)
			}
			oc := classifyCreate(q, err)
			stats["outcome-"+oc]++
			if q != nil {
				switch r.Intn(4) {
				case 0: // execute now
					ctx, cancel := context.WithTimeout(context.Background(), 10*time.Second)
					q.Exec(ctx)
					cancel()
					q.Close()
				case 1: // keep open, execute and close later
					open = append(open, q)
				case 2: // cancelled execution
					ctx, cancel := context.WithCancel(context.Background())
					cancel()
					q.Exec(ctx)
					q.Close()
				default:
					q.Close()
				}
			}
			if len(open) > 0 && r.Intn(3) == 0 {
				oq := open[0]
				open = open[1:]
				oq.Exec(context.Background())
				oq.Close()
			}
			var lp parser.Expr
			fresh, _ := parser.ParseExpr(qs)
			if rng {
				lp = logicalplan.New(fresh, start, end).Optimize(logicalplan.DefaultOptimizers).Expr()
			} else {
				lp = logicalplan.New(fresh, end, end).Optimize(logicalplan.DefaultOptimizers).Expr()
			}
			u := NewUniverse()
			u.AddExpr(lp)
			creations = append(creations, fmt.Sprintf("mkCr %s %s %s", coqBool(rng), vtypeName(expr.Type()), u.Expr(lp, nil)))
			outcomes = append(outcomes, "O_"+oc)
		}
		for _, oq := range open {
			oq.Close()
		}
		f, t := counterValues(reg)
		stats["creations"] += len(creations)
		cases = append(cases, fmt.Sprintf("  mkHPC %d%%N %s %s %s %d %d", id, coqBool(fb), coqList(creations), coqList(outcomes), f, t))
	}
	var sb strings.Builder
	sb.WriteString("From Coq Require Import List String ZArith NArith.\nFrom Verif Require Import Ast Generated Plan CasesLib.\nImport ListNotations.\nOpen Scope string_scope.\n")
	sb.WriteString("Definition cases : list histplan_case := [\n" + strings.Join(cases, ";\n") + "\n].\n")
	sb.WriteString("Definition bad := Eval vm_compute in histplan_mismatches cases.\nPrint bad.\n")
	must(os.WriteFile(*out, []byte(sb.String()), 0o644))
	stats["cases"] = len(cases)
	keys := make([]string, 0, len(stats))
	for k := range stats {
		keys = append(keys, k)
	}
	sort.Strings(keys)
	parts := make([]string, len(keys))
	for i, k := range keys {
		parts[i] = fmt.Sprintf("%q: %d", k, stats[k])
	}
	fmt.Printf("{%s}\n", strings.Join(parts, ", "))
}

func init() { commands["histplancases"] = cmdHistPlanCases }
