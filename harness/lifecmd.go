package main

// C13/C15/C17 correspondence: outcome class and querier accounting of faulted
// executions against Life.v evaluated in Coq.

import (
	"context"
	"flag"
	"fmt"
	"os"
	"runtime"
	"sort"
	"strings"
	"time"

	"github.com/prometheus/prometheus/promql"
)

func cmdLifeCases(args []string) {
	fs := flag.NewFlagSet("lifecases", flag.ExitOnError)
	seed := fs.Int64("seed", 1, "seed")
	from := fs.Int("from", 0, "first")
	to := fs.Int("to", 100, "last+1")
	out := fs.String("out", "", "output .v file")
	must(fs.Parse(args))
	var cases []string
	fired := 0
	for id := *from; id < *to; id++ {
		fc, r := genFaultCase(*seed, id, []string{"none", "error", "panic-runtime", "panic-error", "panic-string"}, allSites[:11])
		if fc.Kind == "error" {
			fc.Site = pick(r, errorSites) // sites at which the storage API can report an error
		}
		runtime.GOMAXPROCS(fc.Procs)
		data := faultData(fc.Window)
		counts, clean := dryCount(fc, data)
		if clean.Err == "create" || counts[fc.Site] == 0 {
			continue
		}
		fc.N = 1 + r.Int63n(counts[fc.Site])
		st := NewStore(data)
		if fc.Kind != "none" {
			st.Faults = []Fault{{Kind: fc.Kind, Site: fc.Site, N: fc.N}}
		}
		eng, _ := newEngines(false, data, st)
		q, err := makeQuery(eng, st, EngineCfg{}, fc.Query, fc.Window)
		if err != nil {
			continue
		}
		done := make(chan *promql.Result, 1)
		go func() { done <- q.Exec(context.Background()) }()
		var res *promql.Result
		select {
		case res = <-done:
		case <-time.After(10 * time.Second):
			continue
		}
		st.mu.Lock()
		var ids []int64
		for k := range st.OpenIDs {
			ids = append(ids, k)
		}
		sort.Slice(ids, func(i, j int) bool { return ids[i] < ids[j] })
		var qs []string
		for _, k := range ids {
			qs = append(qs, fmt.Sprintf("(1, %d)%%nat", st.OpenIDs[k]))
		}
		st.mu.Unlock()
		q.Close()
		f := st.Fired() > 0
		if f {
			fired++
		}
		kind := "FNone"
		switch {
		case fc.Kind == "error":
			kind = "FError"
		case strings.HasPrefix(fc.Kind, "panic"):
			kind = "FPanic"
		}
		nsel := len(ids)
		if nsel > 0 {
			nsel--
		}
		cases = append(cases, fmt.Sprintf("  mkLC %d%%N %s %s %d 2 2 %s %s", id, coqBool(f), kind, nsel, coqBool(res.Err == nil), coqList(qs)))
	}
	var sb strings.Builder
	sb.WriteString("From Coq Require Import List ZArith NArith.\nFrom Verif Require Import Life CasesLib.\nImport ListNotations.\n")
	sb.WriteString("Definition cases : list life_case := [\n" + strings.Join(cases, ";\n") + "\n].\n")
	sb.WriteString("Definition bad := Eval vm_compute in life_mismatches cases.\nPrint bad.\n")
	must(os.WriteFile(*out, []byte(sb.String()), 0o644))
	fmt.Printf("{\"cases\": %d, \"faults_fired\": %d}\n", len(cases), fired)
}

func init() { commands["lifecases"] = cmdLifeCases }
