package main

// C09 correspondence: the real optimizers' output ASTs against Opt.v, and the
// exhaustive selector-pair space of the property for the opt oracle.

import (
	"flag"
	"fmt"
	"math/rand"
	"os"
	"strings"
	"time"

	"github.com/prometheus/prometheus/promql/parser"

	"github.com/thanos-community/promql-engine/logicalplan"
)

// pairQuery builds queries from two or three selectors over a small matcher
// alphabet (2 keys x 4 types x 3 values, duplicate keys allowed) in the
// positions the property names.
func pairSelectors() []string {
	keys := []string{"a", "b"}
	types := []string{"=", "!=", "=~", "!~"}
	vals := []string{"x", "", "x|y", "x|", ".*"} // the last two: regular expressions that are not empty and match the empty string
	var ms []string
	for _, k := range keys {
		for _, t := range types {
			for _, v := range vals {
				ms = append(ms, fmt.Sprintf(`%s%s"%s"`, k, t, v))
			}
		}
	}
	sels := []string{"foo", "bar"}
	for _, name := range []string{"foo", "bar"} {
		for _, m := range ms {
			sels = append(sels, fmt.Sprintf("%s{%s}", name, m))
		}
	}
	// two matchers (incl. duplicate keys) on foo
	for i := 0; i < len(ms); i += 1 {
		for j := i + 1; j < len(ms); j += 5 {
			sels = append(sels, fmt.Sprintf("foo{%s,%s}", ms[i], ms[j]))
		}
	}
	// one matcher listed twice next to another one
	for i := 0; i < len(ms); i += 3 {
		j := (i*7 + 11) % len(ms)
		sels = append(sels, fmt.Sprintf("foo{%s,%s,%s}", ms[i], ms[i], ms[j]), fmt.Sprintf("foo{%s,%s}", ms[i], ms[(j+20)%len(ms)]))
	}
	// the metric name given as a matcher of every type, alone and with another matcher
	for _, t := range types {
		for _, v := range []string{"foo", "foo|bar"} {
			if (t == "=" || t == "!=") && v != "foo" {
				continue
			}
			nm := fmt.Sprintf(`__name__%s"%s"`, t, v)
			sels = append(sels, fmt.Sprintf("{%s}", nm), fmt.Sprintf(`{%s,a="x"}`, nm), fmt.Sprintf(`{%s,b!=""}`, nm), fmt.Sprintf(`{a="x",%s,b=~"x|y"}`, nm))
		}
	}
	return sels
}

// swapMetric: the same selector on the other metric
func swapMetric(sel string) string {
	r := strings.NewReplacer("foo", "\x00", "bar", "foo")
	return strings.ReplaceAll(r.Replace(sel), "\x00", "bar")
}

var pairTemplates = []string{
	"(%s) / (%s)", "(%s) + on (a) group_left (%s)", "sum(%s) / sum(%s)", "abs(%s) - (%s)", "(%s) * ignoring (b) (%s)",
	"rate(%s[1m]) / rate(%s[1m])", "sum by (a) (%s) + sum by (a) (%s)", "(%s) - (%s)", "(%s) > (%s)", "(%s) / on () group_left (%s)",
	"-(%s) + (%s)", "clamp_min(%s, 1) / (%s)",
	// bare operands: a pinned selector is then itself the step-invariant expression, which is the
	// only position in which the rewrites reach below a StepInvariantExpr
	"%s / %s", "%s - on (a, b) %s", "%s + ignoring (b) group_left %s", "%s / on () %s", "%s * ignoring () %s",
	// the same pair on both metrics in one query
	"sum(%[1]s) / sum(%[2]s) + sum(%[3]s) / sum(%[4]s)", "(%[1]s) / (%[2]s) - (%[4]s) / (%[3]s)",
}

func pairQuery(r *rand.Rand, idx int) string {
	sels := pairSelectors()
	n := len(sels)
	a := sels[idx%n]
	b := sels[(idx/n)%n]
	t := pairTemplates[(idx/(n*n))%len(pairTemplates)]
	if strings.Contains(t, "[1m]") {
		return fmt.Sprintf(t, a, b)
	}
	mods := []string{" offset 30s", " @ 700", " offset -15s", " @ 300", " offset 10m", " @ 300 offset -1m"}
	if r.Intn(3) == 0 {
		a += pick(r, mods)
	}
	if r.Intn(5) == 0 {
		b += pick(r, mods)
	}
	if strings.Contains(t, "%[3]s") {
		return fmt.Sprintf(t, a, b, swapMetric(a), swapMetric(b))
	}
	return fmt.Sprintf(t, a, b)
}

// subpairQuery: pairs in which one selector's matchers are a subset of the other's (the pairs the
// select-merging rewrite acts on), with modifiers on either, the metric name as a label or as a
// matcher, in templates that put the selectors in every position; a quarter of the queries repeat
// the pair on the other metric.
func subpairQuery(r *rand.Rand) string {
	keys := []string{"a", "b"}
	types := []string{"=", "!=", "=~", "!~"}
	vals := []string{"x", "", "x|y", "y"}
	switch r.Intn(8) {
	case 0:
		return propPairQuery(r)
	case 1:
		return namePairQuery(r)
	}
	n := 1 + r.Intn(3)
	var ms []string
	for i := 0; i < n; i++ {
		ms = append(ms, fmt.Sprintf(`%s%s"%s"`, pick(r, keys), pick(r, types), pick(r, vals)))
	}
	var sub []string
	for _, m := range ms {
		if r.Intn(2) == 0 {
			sub = append(sub, m)
		}
	}
	if len(sub) == len(ms) {
		sub = sub[:len(sub)-1]
	}
	if r.Intn(8) == 0 {
		// no subset at all: one selector repeats a matcher of the other and has one the other lacks,
		// the other has one of its own (as many shared listings as the other has matchers)
		m := func() string { return fmt.Sprintf(`%s%s"%s"`, pick(r, keys), pick(r, types), pick(r, vals)) }
		m1, m2, m3 := m(), m(), m()
		if m1 != m2 && m1 != m3 && m2 != m3 {
			ms, sub = []string{m1, m1, m3}, []string{m1, m2}
			r.Shuffle(len(ms), func(i, j int) { ms[i], ms[j] = ms[j], ms[i] })
		}
	}
	name := pick(r, []string{"foo", "bar"})
	render := func(ms []string) string {
		if r.Intn(4) == 0 {
			all := append([]string{fmt.Sprintf(`__name__="%s"`, name)}, ms...)
			r.Shuffle(len(all), func(i, j int) { all[i], all[j] = all[j], all[i] })
			return "{" + strings.Join(all, ",") + "}"
		}
		if len(ms) == 0 {
			return name
		}
		return name + "{" + strings.Join(ms, ",") + "}"
	}
	a, b := render(ms), render(sub)
	mods := []string{" offset 30s", " @ 700", " offset -15s", " @ 300", " offset 10m", " @ 300 offset -1m", " @ 1500", " @ start()", " @ end() offset 5m"}
	t := pick(r, pairTemplates)
	if r.Intn(3) == 0 {
		t = pick(r, []string{"%s / %s", "%s - on (a, b) %s", "%s + ignoring (b) group_left %s"})
	}
	if !strings.Contains(t, "[1m]") {
		if r.Intn(2) == 0 {
			a += pick(r, mods)
		}
		if r.Intn(4) == 0 {
			b += pick(r, mods)
		}
	}
	if r.Intn(2) == 0 {
		a, b = b, a
	}
	if strings.Contains(t, "%[3]s") {
		return fmt.Sprintf(t, a, b, swapMetric(a), swapMetric(b))
	}
	return fmt.Sprintf(t, a, b)
}

// propPairQuery: two bare selectors of different metrics under an arithmetic operator (the shape
// the matcher-propagating rewrite acts on), with every kind of matching clause including the
// empty on() and ignoring() lists; one operand may select several metrics by a regular expression
// on the name (baz only exists with a="y", so that some of its series collide with bar's
// in a match group that the other operand's matchers may or may not exclude).
func propPairQuery(r *rand.Rand) string {
	keys := []string{"a", "b"}
	types := []string{"=", "!=", "=~", "!~"}
	vals := []string{"x", "", "x|y", "y"}
	sel := func(name string, n int) string {
		var ms []string
		if strings.Contains(name, "|") {
			ms = append(ms, fmt.Sprintf(`__name__=~"%s"`, name))
			name = ""
		}
		for i := 0; i < n; i++ {
			ms = append(ms, fmt.Sprintf(`%s%s"%s"`, pick(r, keys), pick(r, types), pick(r, vals)))
		}
		if len(ms) == 0 {
			return name
		}
		return name + "{" + strings.Join(ms, ",") + "}"
	}
	l := sel("foo", 1+r.Intn(2))
	rn := pick(r, []string{"bar", "bar", "bar|baz", "bar|baz", "baz"})
	rt := sel(rn, r.Intn(2))
	if r.Intn(3) == 0 {
		// selectors of exactly one series each (no two series of a side share a match group, whatever the clause)
		one := func(name string) string {
			return fmt.Sprintf(`%s{a="%s",b="%s"}`, name, pick(r, []string{"x", "y", ""}), pick(r, []string{"x", "y", ""}))
		}
		l, rt = one("foo"), one("bar")
	}
	if r.Intn(2) == 0 {
		l, rt = rt, l
	}
	op := pick(r, []string{"/", "-", "+", "*"})
	m := pick(r, []string{"", "", "", " on ()", " on ()", " ignoring ()", " on (a)", " ignoring (b)", " on (a, b)"})
	q := l + " " + op + m + " " + rt
	switch r.Intn(4) {
	case 0:
		q = "sum(" + q + ")"
	case 1:
		q = "sum by (a) (" + q + ")"
	}
	return q
}

// namePairQuery: a selector that restricts the metric name twice next to the selector with only
// one of the two name matchers (the broader select it is merged into), other matchers shared.
func namePairQuery(r *rand.Rand) string {
	broad := pick(r, []string{`__name__=~"foo|bar"`, `__name__=~".+"`, `__name__!=""`, `__name__=~"foo|bar|baz"`})
	extra := pick(r, []string{`__name__!="bar"`, `__name__!~"b.*"`, `__name__=~"f.*"`, `__name__!="foo"`, `__name__=~"ba."`})
	var shared []string
	if r.Intn(2) == 0 {
		shared = append(shared, fmt.Sprintf(`%s%s"%s"`, pick(r, []string{"a", "b"}), pick(r, []string{"=", "!=", "=~"}), pick(r, []string{"x", "x|y", ""})))
	}
	narrow := append([]string{broad, extra}, shared...)
	r.Shuffle(len(narrow), func(i, j int) { narrow[i], narrow[j] = narrow[j], narrow[i] })
	a := "{" + strings.Join(narrow, ",") + "}"
	b := "{" + strings.Join(append([]string{broad}, shared...), ",") + "}"
	if r.Intn(2) == 0 {
		a, b = b, a
	}
	t := pick(r, []string{"count(%s) / count(%s)", "sum by (a) (%s) - sum by (a) (%s)", "sum(rate(%s[1m])) / sum(rate(%s[1m]))", "count(%s) + count(%s offset 30s)", "count by (__name__) (%s) or count by (__name__) (%s)"})
	return fmt.Sprintf(t, a, b)
}

func pairSpaceSize() int { n := len(pairSelectors()); return n * n * len(pairTemplates) }

// pairData: every label-presence combination over {a, b} for foo and bar.
func pairData(w Window) []SeriesData {
	var out []SeriesData
	i := 0
	for _, name := range []string{"foo", "bar", "baz"} {
		for _, a := range []string{"", "x", "y"} {
			for _, b := range []string{"", "x", "y"} {
				if name == "baz" && a != "y" {
					continue
				}
				kv := []string{"__name__", name}
				if a != "" {
					kv = append(kv, "a", a)
				}
				if b != "" {
					kv = append(kv, "b", b)
				}
				var smp []Sample
				for t := w.Start - 900_000; t <= w.End+10_000; t += 20_000 {
					smp = append(smp, Sample{T: t + int64(i), V: float64(1+i) + float64((t/20_000)%5)/4})
				}
				out = append(out, SeriesData{Labels: labelsFromKV(kv), Samples: smp})
				i++
			}
		}
	}
	return out
}

func optimizeFresh(qs string, w Window, opts []logicalplan.Optimizer) parser.Expr {
	expr, err := parser.ParseExpr(qs)
	must(err)
	return logicalplan.New(expr, time.UnixMilli(w.Start), time.UnixMilli(w.End)).Optimize(opts).Expr()
}

func cmdOptCases(args []string) {
	fs := flag.NewFlagSet("optcases", flag.ExitOnError)
	seed := fs.Int64("seed", 1, "seed")
	from := fs.Int("from", 0, "first")
	to := fs.Int("to", 100, "last+1")
	out := fs.String("out", "", "output .v file")
	must(fs.Parse(args))
	var cases []string
	changed := 0
	for id := *from; id < *to; id++ {
		var qs string
		var w Window
		r := rand.New(rand.NewSource(*seed*104729 + int64(id)))
		if id%2 == 0 {
			c := genCase(*seed, id, genOptsFor(""))
			qs, w = c.Query, c.Window
		} else {
			w = Window{Start: 900_000, End: 1_200_000, Step: 30_000}
			qs = pairQuery(r, r.Intn(pairSpaceSize()))
			if id%4 == 3 {
				qs = subpairQuery(r)
			}
		}
		if _, err := parser.ParseExpr(qs); err != nil {
			continue
		}
		before := optimizeFresh(qs, w, logicalplan.NoOptimizers)
		variants := [][]logicalplan.Optimizer{
			{logicalplan.SortMatchers{}}, {logicalplan.MergeSelectsOptimizer{}}, {logicalplan.PropagateMatchersOptimizer{}},
			logicalplan.DefaultOptimizers,
		}
		u := NewUniverse()
		u.AddExpr(before)
		after := make([]parser.Expr, len(variants))
		for i, v := range variants {
			after[i] = optimizeFresh(qs, w, v)
			u.AddExpr(after[i])
		}
		b := u.Expr(before, nil)
		parts := []string{b}
		for _, a := range after {
			s := u.Expr(a, nil)
			if s != b {
				changed++
			}
			parts = append(parts, s)
		}
		cases = append(cases, fmt.Sprintf("  mkOC %d%%N %s", id, strings.Join(parts, " ")))
	}
	var sb strings.Builder
	sb.WriteString("From Coq Require Import List String ZArith NArith.\nFrom Verif Require Import Ast Base CasesLib.\nImport ListNotations.\nOpen Scope string_scope.\n")
	sb.WriteString("Definition cases : list opt_case := [\n" + strings.Join(cases, ";\n") + "\n].\n")
	sb.WriteString("Definition bad := Eval vm_compute in opt_mismatches cases.\nPrint bad.\n")
	must(os.WriteFile(*out, []byte(sb.String()), 0o644))
	fmt.Printf("{\"cases\": %d, \"rewritten_asts\": %d}\n", len(cases), changed)
}

func init() { commands["optcases"] = cmdOptCases }
