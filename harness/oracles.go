package main

// Direct oracles that need no reference engine: they compare the engine with
// itself under a change that the property says must not matter.

import (
	"fmt"
	"github.com/thanos-community/promql-engine/api"
	"github.com/thanos-community/promql-engine/engine"
	"math"
	"math/rand"
	"runtime"
	"sort"
	"strings"
	"time"

	"github.com/prometheus/prometheus/model/labels"
	"github.com/prometheus/prometheus/promql/parser"

	"github.com/thanos-community/promql-engine/logicalplan"
)

// pointsAt projects a canonical result to the multiset of samples at time t.
func pointsAt(c Canon, t int64) []string {
	var out []string
	for _, s := range c.Series {
		key := s.Key
		if c.Kind == "scalar" {
			key = "{}"
		}
		for _, p := range s.Points {
			if p.T == t {
				out = append(out, key+"|"+fmtValKey(p.V))
			}
		}
	}
	sort.Strings(out)
	return out
}

func fmtValKey(v float64) string {
	if math.IsNaN(v) {
		return "NaN"
	}
	return fmt.Sprintf("%.10g", v) // tolerant key (summation order)
}

func sameStrings(a, b []string) bool {
	if len(a) != len(b) {
		return false
	}
	for i := range a {
		if a[i] != b[i] {
			return false
		}
	}
	return true
}

// oracleInstants (C07): a range query equals the instant queries on its grid,
// and a sub-window on the same grid equals the restriction of the result.
func oracleInstants(c *Case) CaseResult {
	runtime.GOMAXPROCS(c.Procs)
	st := NewStore(c.Data)
	st.ClipToHints = c.ID%2 == 1 // a storage that trims to the selected range, every other case
	cfg := c.Cfg()
	eng := newImpl(cfg)
	if c.ID%5 == 4 {
		// a distributed engine over two partitions whose remote engines are configured with another
		// lookback than the query's: pushed-down parts must run with the query's in both kinds of query
		eng = newDistImpl(cfg, c.Data, otherLookback(c))
	}
	res := CaseResult{}
	if c.Window.Instant() {
		res.Skipped = "instant window"
		return res
	}
	rcfg := cfg
	if c.ID%3 != 0 && c.Window.Start >= 0 {
		// the window's ends carry fractions of a millisecond (time.Now()-style arguments)
		// (the start's larger than the end's: in nanoseconds the window is shorter than in milliseconds)
		rcfg.EndFrac = time.Duration((c.ID*91)%900) * time.Microsecond
		rcfg.StartFrac = rcfg.EndFrac + time.Duration(1+(c.ID*37)%99)*time.Microsecond
		if n := (c.Window.End - c.Window.Start) / c.Window.Step; n >= 10 && c.ID%2 == 0 {
			// ... of at most one batch of steps, every other time
			c.Window.End = c.Window.Start + int64(c.ID%10)*c.Window.Step
		}
	}
	rng, path := runQuery(eng, st, rcfg, c.Query, c.Window)
	res.Path = path
	if rng.Err == "create" {
		res.Skipped = "rejected at creation"
		return res
	}
	res.NonTriv = rng.NonTrivial()
	grid := c.Window.Grid()
	onGrid := map[int64]bool{}
	anyErr := false
	instPoints := 0
	for _, t := range grid {
		onGrid[t] = true
		inst, _ := runQuery(eng, st, cfg, c.Query, Window{Start: t, End: t, Step: 0})
		if inst.Kind != "error" {
			instPoints += len(pointsAt(inst, t))
		}
		if inst.Kind == "error" {
			anyErr = true
			if rng.Kind != "error" {
				res.Fail = fmt.Sprintf("instant query at %d fails (%s) but the range query succeeds", t, inst.Err)
				res.Impl = trunc(rng.String(), 500)
				res.Ref = trunc(inst.String(), 300)
				res.Tags = selfTags(c, rng)
				return res
			}
			continue
		}
		if rng.Kind == "error" {
			continue
		}
		a, b := pointsAt(rng, t), pointsAt(inst, t)
		if !sameStrings(a, b) {
			res.Fail = fmt.Sprintf("at t=%d range result has %v, instant query has %v", t, trunc(strings.Join(a, ";"), 300), trunc(strings.Join(b, ";"), 300))
			res.Tags = selfTags(c, rng, inst)
			return res
		}
	}
	// The property relates points: a failing range query returns none, which
	// agrees with instant queries that all succeed with empty results (the
	// reference engine, too, checks topk's k at every step of a range query even
	// when there is no series at all, but not in an instant query).
	if rng.Kind == "error" && !anyErr && instPoints > 0 {
		res.Fail = "range query fails (" + rng.Err + ") but every instant query on its grid succeeds, with samples"
		res.Impl = trunc(rng.String(), 300)
		res.Tags = selfTags(c)
		return res
	}
	if rng.Kind != "error" {
		for _, s := range rng.Series {
			for _, p := range s.Points {
				if !onGrid[p.T] {
					res.Fail = fmt.Sprintf("range result has a point at %d which is not on the step grid", p.T)
					return res
				}
			}
		}
		// sub-window on the same grid
		if len(grid) >= 3 {
			r := rand.New(rand.NewSource(c.Seed*31 + int64(c.ID)))
			i := r.Intn(len(grid) - 1)
			j := i + r.Intn(len(grid)-i)
			sub := Window{Start: grid[i], End: grid[j], Step: c.Window.Step}
			subRes, _ := runQuery(eng, st, cfg, c.Query, sub)
			if subRes.Kind != "error" {
				for _, t := range sub.Grid() {
					a, b := pointsAt(rng, t), pointsAt(subRes, t)
					if !sameStrings(a, b) {
						res.Fail = fmt.Sprintf("sub-window [%d,%d]: at t=%d full result has %v, sub-window result has %v", sub.Start, sub.End, t,
							trunc(strings.Join(a, ";"), 300), trunc(strings.Join(b, ";"), 300))
						return res
					}
				}
			}
		}
	}
	return res
}

// selfTags attributes a self-comparison failure to the recorded findings whose
// condition holds for the case.
func selfTags(c *Case, results ...Canon) []string {
	var tags []string
	for _, r := range results {
		if r.Kind != "error" && hasDuplicateSeries(r) && !rootRegroups(c.Query) {
			tags = append(tags, "duplicate-series")
			break
		}
	}
	// one side failed with the reference's duplicate check (it ran through the fallback, or on another
	// partitioning), the other, evaluated natively, did not detect the colliding label sets
	if len(results) == 2 && (results[0].Kind == "error") != (results[1].Kind == "error") {
		for _, r := range results {
			if r.Kind == "error" && r.Err == "same-labelset" {
				tags = append(tags, "same-labelset-not-detected")
			}
		}
	}
	if strings.Contains(c.Query, "timestamp(") {
		tags = append(tags, "timestamp-function")
	}
	if binopSignatureCollision(c) {
		tags = append(tags, "binop-signature-collision")
	}
	if tieSensitive(c.Query) && topkTie(c) {
		tags = append(tags, "topk-tie")
	}
	if unpinnedInStepInvariant(c) {
		tags = append(tags, "unpinned-selector-in-step-invariant")
	}
	if len(results) == 2 && varianceConditioning(c, results[0], results[1]) {
		tags = append(tags, "variance-conditioning")
	}
	mk := newImpl
	if c.baseMaker != nil {
		mk = c.baseMaker
	}
	if len(results) == 2 && (illConditionedWith(c, results[0], results[1], mk) || (valueOnlyDifference(results[0], results[1]) && cancellingSum(c))) {
		tags = append(tags, "ill-conditioned")
	}
	if pinnedOutsideStepInvariant(c) {
		tags = append(tags, "pinned-parameter-outside-step-invariant")
	}
	return tags
}

func diffSelf(a, b Canon) string {
	d := diffCanon(a, b, false)
	if d == "" && a.Kind == "error" && errGroup(a.Err) != errGroup(b.Err) {
		d = "error class " + a.Err + " vs " + b.Err
	}
	return d
}

// oracleOpt (C09): any subset of the logical optimizers leaves the result unchanged.
func oracleOpt(c *Case) CaseResult {
	runtime.GOMAXPROCS(c.Procs)
	st := NewStore(c.Data)
	cfg := c.Cfg()
	cfg.Optimizers = logicalplan.NoOptimizers
	c.baseMaker = func(x EngineCfg) queryMaker { x.Optimizers = logicalplan.NoOptimizers; return newImpl(x) }
	base, path := runQuery(newImpl(cfg), st, cfg, c.Query, c.Window)
	res := CaseResult{Path: path, NonTriv: base.NonTrivial()}
	if base.Err == "create" {
		res.Skipped = "rejected at creation"
		return res
	}
	sets := map[string][]logicalplan.Optimizer{
		"default":              logicalplan.DefaultOptimizers,
		"all":                  logicalplan.AllOptimizers,
		"sort":                 {logicalplan.SortMatchers{}},
		"merge":                {logicalplan.MergeSelectsOptimizer{}},
		"propagate":            {logicalplan.PropagateMatchersOptimizer{}},
		"sort+propagate+merge": {logicalplan.SortMatchers{}, logicalplan.PropagateMatchersOptimizer{}, logicalplan.MergeSelectsOptimizer{}},
		"merge+propagate":      {logicalplan.MergeSelectsOptimizer{}, logicalplan.PropagateMatchersOptimizer{}},
	}
	names := make([]string, 0, len(sets))
	for n := range sets {
		names = append(names, n)
	}
	sort.Strings(names)
	for _, n := range names {
		cfg2 := cfg
		cfg2.Optimizers = sets[n]
		got, _ := runQuery(newImpl(cfg2), st, cfg2, c.Query, c.Window)
		if d := diffSelf(got, base); d != "" {
			res.Fail = "optimizers [" + n + "] vs none: " + d
			res.Impl, res.Ref = trunc(got.String(), 500), trunc(base.String(), 500)
			res.Tags = selfTags(c, got, base)
			if (got.Kind == "error") != (base.Kind == "error") && (errGroup(got.Err) == "matching" || errGroup(base.Err) == "matching") {
				// the rewrites only drop series that no series of the other side can match and select the
				// same series otherwise: the samples that meet at a step, which decide whether the step is
				// ambiguous, are the same (F20 is about what a colliding join returns, not about a plan
				// in which the query fails and one in which it does not)
				res.Fail = "optimizers [" + n + "] vs none: the query fails with a many-to-many error in one plan and succeeds in the other"
				res.Tags = []string{"error-depends-on-optimizers"}
			}
			return res
		}
	}
	return res
}

// oracleProcs (C11): the result does not depend on GOMAXPROCS, storage order,
// unrelated series, scheduling perturbation or repetition.
func oracleProcs(c *Case) CaseResult {
	cfg := c.Cfg()
	runtime.GOMAXPROCS(c.Procs)
	base, path := runQuery(newImpl(cfg), NewStore(c.Data), cfg, c.Query, c.Window)
	res := CaseResult{Path: path, NonTriv: base.NonTrivial()}
	if base.Err == "create" {
		res.Skipped = "rejected at creation"
		return res
	}
	r := rand.New(rand.NewSource(c.Seed*977 + int64(c.ID)))
	check := func(what string, got Canon) bool {
		exactLabels := diffSelf(got, base)
		if exactLabels != "" {
			res.Fail = what + ": " + exactLabels
			res.Impl, res.Ref = trunc(got.String(), 500), trunc(base.String(), 500)
			res.Tags = selfTags(c, got, base)
			return false
		}
		return true
	}
	for _, p := range []int{1, 2, 4, 6, 8, 10, 12, 14, 16} {
		runtime.GOMAXPROCS(p)
		got, _ := runQuery(newImpl(cfg), NewStore(c.Data), cfg, c.Query, c.Window)
		if !check(fmt.Sprintf("GOMAXPROCS %d vs %d", p, c.Procs), got) {
			return res
		}
	}
	runtime.GOMAXPROCS(c.Procs)
	// unrelated series: a metric name no selector of the generator can match
	extra := append([]SeriesData(nil), c.Data...)
	for i := 0; i < 3; i++ {
		var smp []Sample
		for t := c.Window.Start - 100_000; t <= c.Window.End; t += 7_000 {
			smp = append(smp, Sample{T: t, V: float64(i)})
		}
		extra = append(extra, SeriesData{Labels: labels.FromStrings("__name__", "unrelated_metric", "a", "x", "q", fmt.Sprint(i)), Samples: smp})
	}
	if !strings.Contains(c.Query, "__name__") { // generated multi-metric matchers would select them
		got, _ := runQuery(newImpl(cfg), NewStore(extra), cfg, c.Query, c.Window)
		if !check("with unrelated series added", got) {
			return res
		}
	}
	// scheduling perturbation and repetition
	for rep := 0; rep < 3; rep++ {
		st := NewStore(c.Data)
		st.YieldSeed = int64(r.Intn(1<<30) + 1)
		got, _ := runQuery(newImpl(cfg), st, cfg, c.Query, c.Window)
		if !check(fmt.Sprintf("repetition %d with injected yields", rep), got) {
			return res
		}
	}
	if d := topkStreamUnstable(c); d != "" {
		res.Fail = d
		res.Tags = nil
	}
	return res
}

// topkStreamUnstable: the stream a grouped topk/bottomk operator hands to its consumer - the
// samples of every step in the order in which they are emitted - is the same in every evaluation.
// The order is not visible in the operator's own result (assembled by series) but order-sensitive
// consumers read it (an outer topk among equal values, a floating-point sum), exactly where the
// comparisons of results have to stand back because the reference engine is not a function of
// its inputs; so the repetition is checked at the source. Operands containing a vector/vector
// join are left out (the numbering of a join's output series follows Go's map order).
func topkStreamUnstable(c *Case) string {
	expr, err := parser.ParseExpr(c.Query)
	if err != nil {
		return ""
	}
	w := c.Window
	pend := w.End
	if w.Instant() {
		pend = w.Start
	}
	lp := logicalplan.New(expr, time.UnixMilli(w.Start), time.UnixMilli(pend)).Optimize(logicalplan.NoOptimizers).Expr()
	var nodes []*parser.AggregateExpr
	parser.Inspect(lp, func(n parser.Node, _ []parser.Node) error {
		a, ok := n.(*parser.AggregateExpr)
		if !ok || (a.Op != parser.TOPK && a.Op != parser.BOTTOMK) || (len(a.Grouping) == 0 && !a.Without) {
			return nil
		}
		join := false
		parser.Inspect(a.Expr, func(m parser.Node, _ []parser.Node) error {
			if b, ok := m.(*parser.BinaryExpr); ok && b.LHS.Type() == parser.ValueTypeVector && b.RHS.Type() == parser.ValueTypeVector {
				join = true
			}
			return nil
		})
		if !join && len(nodes) < 2 {
			nodes = append(nodes, a)
		}
		return nil
	})
	render := func(s sideStream) []string {
		out := make([]string, len(s.steps))
		for i, st := range s.steps {
			var sb strings.Builder
			for j, id := range st.ids {
				if int(id) < len(s.series) {
					sb.WriteString(s.series[id].String())
				}
				fmt.Fprintf(&sb, "=%x;", math.Float64bits(st.vals[j]))
			}
			out[i] = sb.String()
		}
		return out
	}
	for _, a := range nodes {
		first, ok := operandStream(a, c)
		if !ok {
			continue
		}
		want := render(first)
		for rep := 0; rep < 4; rep++ {
			again, ok := operandStream(a, c)
			if !ok {
				break
			}
			got := render(again)
			if len(got) != len(want) {
				return fmt.Sprintf("operator stream of %s: %d steps in one evaluation, %d in another", a.String(), len(want), len(got))
			}
			for i := range got {
				if got[i] != want[i] {
					return fmt.Sprintf("operator stream of %s differs between two evaluations at t=%d: %s vs %s", a.String(), first.steps[i].t, trunc(want[i], 200), trunc(got[i], 200))
				}
			}
		}
	}
	return ""
}

// oraclePerm (C11, series order): permuting the storage's series order may only
// change what the property allows: nothing for tie-free data.
func oraclePerm(c *Case) CaseResult {
	cfg := c.Cfg()
	runtime.GOMAXPROCS(c.Procs)
	base, path := runQuery(newImpl(cfg), NewStore(c.Data), cfg, c.Query, c.Window)
	res := CaseResult{Path: path, NonTriv: base.NonTrivial()}
	if base.Err == "create" {
		res.Skipped = "rejected at creation"
		return res
	}
	r := rand.New(rand.NewSource(c.Seed*1013 + int64(c.ID)))
	for rep := 0; rep < 3; rep++ {
		perm := append([]SeriesData(nil), c.Data...)
		r.Shuffle(len(perm), func(i, j int) { perm[i], perm[j] = perm[j], perm[i] })
		got, _ := runQuery(newImpl(cfg), NewStore(perm), cfg, c.Query, c.Window)
		if d := diffSelf(got, base); d != "" {
			res.Fail = "storage series order permuted: " + d
			res.Impl, res.Ref = trunc(got.String(), 500), trunc(base.String(), 500)
			res.Tags = selfTags(c, got, base)
			if (got.Kind == "error") != (base.Kind == "error") && (errGroup(got.Err) == "matching" || errGroup(base.Err) == "matching") {
				// whether a step is ambiguous is decided from the samples of the step, whatever the order
				// of the series: no recorded finding covers an order in which the query fails and one in
				// which it does not (F20 is about which labels and duplicates a colliding join returns)
				res.Fail = "storage series order permuted: the query fails with a many-to-many error in one order and succeeds in the other"
				res.Tags = []string{"error-depends-on-series-order"}
			}
			return res
		}
	}
	return res
}

// validateResult (C19): a successful result is a well-formed PromQL value.
func validateResult(c Canon, w Window, typ string) string {
	if c.Kind == "error" {
		return ""
	}
	onGrid := map[int64]bool{}
	for _, t := range w.Grid() {
		onGrid[t] = true
	}
	if !w.Instant() && c.Kind != "matrix" {
		return "range query returned a " + c.Kind
	}
	if w.Instant() && typ != "" && c.Kind != typ {
		return "instant query of type " + typ + " returned a " + c.Kind
	}
	for i, s := range c.Series {
		if c.Kind == "matrix" || c.Kind == "vector" {
			if i > 0 && c.Series[i-1].Key == s.Key {
				return "duplicate label set " + s.Key
			}
			for j, l := range s.Labels {
				if l.Value == "" {
					return "empty-valued label in " + s.Key
				}
				if j > 0 && s.Labels[j-1].Name >= l.Name {
					return "labels unsorted or repeated in " + s.Key
				}
			}
		}
		if len(s.Points) == 0 {
			return "series without points " + s.Key
		}
		for j, p := range s.Points {
			if j > 0 && s.Points[j-1].T >= p.T {
				return "timestamps not strictly increasing in " + s.Key
			}
			if !onGrid[p.T] {
				return fmt.Sprintf("point at %d not on the step grid in %s", p.T, s.Key)
			}
			if math.Float64bits(p.V) == math.Float64bits(StaleNaN) {
				return "staleness marker in the result of " + s.Key
			}
		}
	}
	return ""
}

// otherLookback: a lookback that differs from the one the case's queries are evaluated with
func otherLookback(c *Case) time.Duration {
	if c.EffLookback() == 300_000 {
		return 45 * time.Second
	}
	return 5 * time.Minute
}

// newDistImpl: a distributed engine with the case's configuration over two halves of the data,
// its remote engines configured with the lookback remoteLookback
func newDistImpl(cfg EngineCfg, data []SeriesData, remoteLookback time.Duration) queryMaker {
	half := len(data) / 2
	rcfg := cfg
	rcfg.Lookback = remoteLookback
	ropts := engine.Opts{EngineOpts: promOpts(rcfg)}
	remotes := []api.RemoteEngine{engine.NewLocalEngine(ropts, NewStore(data[:half])), engine.NewLocalEngine(ropts, NewStore(data[half:]))}
	return engine.NewDistributedEngine(engine.Opts{EngineOpts: promOpts(cfg)}, api.NewStaticEndpoints(remotes))
}

func oracleWF(c *Case) CaseResult {
	runtime.GOMAXPROCS(c.Procs)
	st := NewStore(c.Data)
	cfg := c.Cfg()
	var eng queryMaker = newImpl(cfg)
	if c.ID%4 == 3 {
		// the same well-formedness through a distributed engine over two partitions
		half := len(c.Data) / 2
		opts := engine.Opts{EngineOpts: promOpts(cfg)}
		remotes := []api.RemoteEngine{engine.NewLocalEngine(opts, NewStore(c.Data[:half])), engine.NewLocalEngine(opts, NewStore(c.Data[half:]))}
		eng = engine.NewDistributedEngine(opts, api.NewStaticEndpoints(remotes))
	}
	q, err := makeQuery(eng, st, cfg, c.Query, c.Window)
	res := CaseResult{}
	if err != nil {
		res.Skipped = "rejected at creation"
		return res
	}
	defer q.Close()
	raw := q.Exec(ctxBackground())
	// matrix order must be the label order (checked on the raw value)
	if raw.Err == nil {
		if d := rawOrderProblem(raw); d != "" {
			res.Fail = d
			return res
		}
	}
	got := canonResult(raw)
	res.NonTriv = got.NonTrivial()
	typ := map[string]string{"vector": "vector", "scalar": "scalar", "matrix": "matrix", "string": "string"}[string(exprType(c.Query))]
	if d := validateResult(got, c.Window, typ); d != "" {
		res.Fail = d
		res.Impl = trunc(got.String(), 500)
		if strings.HasPrefix(d, "duplicate label set") && !strings.HasPrefix(c.Query, "histogram_quantile(") && !rootRegroups(c.Query) {
			res.Tags = append(res.Tags, "duplicate-series")
			if binopSignatureCollision(c) {
				res.Tags = append(res.Tags, "binop-signature-collision")
			}
		}
	}
	return res
}

var _ = time.Second
