package main

// Classification of failing cases against the recorded known findings. The tags
// computed here are the "guards" of DESIGN.md 2.4: a failing case is attributed
// to a known finding only if the finding's specific condition holds for it.

import (
	"context"
	"math"
	"sort"
	"strings"
	"time"

	"github.com/prometheus/prometheus/model/labels"
	"github.com/prometheus/prometheus/promql"
	"github.com/prometheus/prometheus/promql/parser"

	"github.com/thanos-community/promql-engine/logicalplan"
)

// mergeDuplicateSeries merges series with equal label sets when their points
// never share a timestamp; ok=false if they do.
func mergeDuplicateSeries(c Canon) (Canon, bool, bool) {
	out := Canon{Kind: c.Kind}
	had := false
	for _, s := range c.Series {
		n := len(out.Series)
		if n > 0 && out.Series[n-1].Key == s.Key {
			had = true
			pts := append(append([]CPoint(nil), out.Series[n-1].Points...), s.Points...)
			sort.SliceStable(pts, func(i, j int) bool { return pts[i].T < pts[j].T })
			for i := 1; i < len(pts); i++ {
				if pts[i].T == pts[i-1].T {
					return c, had, false
				}
			}
			out.Series[n-1].Points = pts
			continue
		}
		out.Series = append(out.Series, CSeries{Labels: s.Labels, Key: s.Key, Points: append([]CPoint(nil), s.Points...)})
	}
	return out, had, true
}

// rootRegroups reports whether the query's outermost operator is an aggregation that forms its output
// label sets itself (everything but topk/bottomk): its result has pairwise distinct label sets in any
// engine, whatever happens below, so duplicates in it are not the recorded findings about operators
// that drop the metric name (F22a/F22b).
func rootRegroups(query string) bool {
	e, err := parser.ParseExpr(query)
	if err != nil {
		return false
	}
	for {
		p, ok := e.(*parser.ParenExpr)
		if !ok {
			break
		}
		e = p.Expr
	}
	a, ok := e.(*parser.AggregateExpr)
	return ok && a.Op != parser.TOPK && a.Op != parser.BOTTOMK
}

func hasDuplicateSeries(c Canon) bool {
	for i := 1; i < len(c.Series); i++ {
		if c.Series[i].Key == c.Series[i-1].Key {
			return true
		}
	}
	return false
}

// sigOf computes the matching signature of a label set for a vector matching.
func sigOf(l labels.Labels, vm *parser.VectorMatching) string {
	var lb labels.Labels
	if vm.On {
		for _, n := range vm.MatchingLabels {
			if v := l.Get(n); v != "" {
				lb = append(lb, labels.Label{Name: n, Value: v})
			}
		}
	} else {
		drop := map[string]bool{labels.MetricName: true}
		for _, n := range vm.MatchingLabels {
			drop[n] = true
		}
		for _, x := range l {
			if !drop[x.Name] {
				lb = append(lb, x)
			}
		}
	}
	sort.Sort(lb)
	return lb.String()
}

// mustBeUnique: whether the matching signatures on a side (0 = left, 1 = right)
// have to be unique: both sides for one-to-one, the "one" side otherwise.
func mustBeUnique(card parser.VectorMatchCardinality, side int) bool {
	switch card {
	case parser.CardManyToOne:
		return side == 1
	case parser.CardOneToMany:
		return side == 0
	}
	return true
}

// binopSignatureCollision reports whether some vector/vector binary operator
// of the query has, on one of its sides, two distinct series (as computed by
// the reference engine over the case's window) with the same matching signature.
func binopSignatureCollision(c *Case) bool {
	expr, err := parser.ParseExpr(c.Query)
	if err != nil {
		return false
	}
	st := NewStore(c.Data)
	cfg := c.Cfg()
	ref := promql.NewEngine(promOpts(cfg))
	found := false
	parser.Inspect(expr, func(n parser.Node, _ []parser.Node) error {
		b, ok := n.(*parser.BinaryExpr)
		if !ok || found {
			return nil
		}
		if b.LHS.Type() != parser.ValueTypeVector || b.RHS.Type() != parser.ValueTypeVector || b.VectorMatching == nil {
			return nil
		}
		// The engine joins at the level of series (everything the storage
		// returns for the selectors), the reference at the level of samples: a
		// series without a sample at the evaluation time still takes part in the
		// engine's join table.
		if len(b.VectorMatching.Include) > 0 {
			// what differs for a collision no sample shows is which one-side
			// series the included labels are copied from: look at the series
			// lists the engine's own operators enumerate for the two sides
			for i, side := range []parser.Expr{b.LHS, b.RHS} {
				if !mustBeUnique(b.VectorMatching.Card, i) {
					continue
				}
				seen := map[string]string{}
				for _, l := range engineSeries(c, side.String()) {
					sg := sigOf(l, b.VectorMatching)
					if prev, dup := seen[sg]; dup && prev != l.String() {
						found = true
					}
					seen[sg] = l.String()
				}
			}
		}
		for i := 0; i < 2; i++ {
			side := []parser.Expr{b.LHS, b.RHS}[i%2]
			if !mustBeUnique(b.VectorMatching.Card, i) {
				continue
			}
			var qo *promql.QueryOpts
			if cfg.QueryLookback != 0 {
				qo = &promql.QueryOpts{LookbackDelta: cfg.QueryLookback}
			}
			w := c.Window
			step := time.Duration(w.Step) * time.Millisecond
			end := w.End
			if w.Instant() {
				step, end = time.Second, w.Start
			}
			// start()/end() inside the operand refer to the case's window: keep it.
			q, err := ref.NewRangeQuery(st, qo, side.String(), time.UnixMilli(w.Start), time.UnixMilli(end), step)
			if err != nil {
				continue
			}
			r := q.Exec(context.Background())
			q.Close()
			if r.Err != nil {
				if errClass(r.Err) == "same-labelset" {
					found = true
				}
				continue
			}
			m, ok := r.Value.(promql.Matrix)
			if !ok {
				continue
			}
			seen := map[string]string{}
			for _, s := range m {
				sg := sigOf(s.Metric, b.VectorMatching)
				if prev, dup := seen[sg]; dup && prev != s.Metric.String() {
					found = true
				}
				seen[sg] = s.Metric.String()
			}
		}
		return nil
	})
	return found
}

// engineSeries is the series list that the engine's operator tree for the
// expression enumerates (Series()), with no logical optimizers, over the case's
// data and window; nil if the expression has no native operator tree.
func engineSeries(c *Case, qs string) (out []labels.Labels) {
	defer func() {
		if recover() != nil {
			out = nil
		}
	}()
	expr, err := parser.ParseExpr(qs)
	if err != nil {
		return nil
	}
	cfg := c.Cfg()
	w := c.Window
	start, end, step := time.UnixMilli(w.Start), time.UnixMilli(w.End), time.Duration(w.Step)*time.Millisecond
	if w.Instant() {
		end, step = start, 0
	}
	lb := cfg.Lookback
	if cfg.QueryLookback != 0 {
		lb = cfg.QueryLookback
	}
	if lb == 0 {
		lb = 5 * time.Minute
	}
	lplan := logicalplan.New(expr, start, end).Optimize(logicalplan.NoOptimizers)
	op, err := newOperatorTree(lplan.Expr(), NewStore(c.Data), start, end, step, lb)
	if err != nil {
		return nil
	}
	ctx, cancel := context.WithTimeout(context.Background(), 20*time.Second)
	defer cancel()
	series, err := op.Series(ctx)
	if err != nil {
		return nil
	}
	return series
}

// classifyRefFailure returns the tags of the known-finding conditions that hold
// for a case on which the engine and the reference engine differ.
func classifyRefFailure(c *Case, impl, ref Canon) []string {
	var tags []string
	if strings.Contains(c.Query, "timestamp(") {
		tags = append(tags, "timestamp-function")
	}
	// the engine does not detect output series with equal label sets: neither after
	// the metric name is dropped nor when group_left/group_right labels make the
	// results of two "many"-side samples coincide ("grouping labels must ensure unique matches")
	if ref.Kind == "error" && (ref.Err == "same-labelset" || (ref.Err == "multiple-matches" && strings.Contains(ref.ErrMsg, "grouping labels must ensure unique matches"))) && impl.Kind != "error" {
		tags = append(tags, "same-labelset-not-detected")
	}
	if impl.Kind != "error" && hasDuplicateSeries(impl) && !rootRegroups(c.Query) {
		if merged, had, ok := mergeDuplicateSeries(impl); had && ok && diffCanon(merged, ref, false) == "" {
			tags = append(tags, "duplicate-series-after-name-drop")
		} else {
			tags = append(tags, "duplicate-series")
		}
	}
	if strings.ContainsAny(c.Query, "+-*/%^<>=!") || strings.Contains(c.Query, "atan2") {
		if binopSignatureCollision(c) {
			tags = append(tags, "binop-signature-collision")
		}
	}
	if tieSensitive(c.Query) && topkTie(c) {
		tags = append(tags, "topk-tie")
	}
	if varianceConditioning(c, impl, ref) {
		tags = append(tags, "variance-conditioning")
	}
	if illConditioned(c, impl, ref) || (valueOnlyDifference(impl, ref) && cancellingSum(c)) {
		tags = append(tags, "ill-conditioned")
	}
	// only for explicitly overflowing magnitudes (a literal of the order 1e300 in the query)
	if (strings.Contains(c.Query, "stddev") || strings.Contains(c.Query, "stdvar") || strings.Contains(c.Query, "avg")) &&
		(strings.Contains(c.Query, "1e30") || overflowingOperand(c)) && (hasNonFinite(impl) || hasNonFinite(ref)) {
		tags = append(tags, "overflow-in-mean-or-variance")
	}
	return tags
}

// illConditioned: the two results have the same series and timestamps and differ
// in values only, and the reference engine's own result moves by more than the
// comparison's tolerance (1e-9 relative) when every stored value is changed by a relative
// 1e-13 (sign and size varying from sample to sample): the query amplifies rounding by at least four orders of magnitude
// at this input ((-1e300) % stddev(...), differences of nearly equal sums, ...),
// so a difference within that amplification says nothing about the engine.
func illConditioned(c *Case, impl, ref Canon) bool { return illConditionedWith(c, impl, ref, newRef) }

// valueOnlyDifference: same kind, series and timestamps.
func valueOnlyDifference(a, b Canon) bool {
	if a.Kind == "error" || b.Kind == "error" || a.Kind != b.Kind || len(a.Series) != len(b.Series) {
		return false
	}
	for i := range a.Series {
		x, y := a.Series[i], b.Series[i]
		if x.Key != y.Key || len(x.Points) != len(y.Points) {
			return false
		}
		for j := range x.Points {
			if x.Points[j].T != y.Points[j].T {
				return false
			}
		}
	}
	return true
}

// cancellingSum: some sum/avg of the query has, at some step and in some group of
// its operand (as evaluated by the reference engine), terms that cancel so far
// that the order of summation alone moves the result by more than the comparison's
// tolerance: (sum |x|) / |sum x| * n * 2^-53 > 1e-10. The reference engine sums in
// the order of a Go map iteration, so its own result varies from run to run there.
func cancellingSum(c *Case) bool {
	expr, err := parser.ParseExpr(c.Query)
	if err != nil {
		return false
	}
	st := NewStore(c.Data)
	cfg := c.Cfg()
	eng := promql.NewEngine(promOpts(cfg))
	found := false
	parser.Inspect(expr, func(n parser.Node, _ []parser.Node) error {
		a, ok := n.(*parser.AggregateExpr)
		if !ok || found || (a.Op != parser.SUM && a.Op != parser.AVG) {
			return nil
		}
		var qo *promql.QueryOpts
		if cfg.QueryLookback != 0 {
			qo = &promql.QueryOpts{LookbackDelta: cfg.QueryLookback}
		}
		w := c.Window
		step, end := time.Duration(w.Step)*time.Millisecond, w.End
		if w.Instant() {
			step, end = time.Second, w.Start
		}
		q, err := eng.NewRangeQuery(st, qo, a.Expr.String(), time.UnixMilli(w.Start), time.UnixMilli(end), step)
		if err != nil {
			return nil
		}
		defer q.Close()
		r := q.Exec(context.Background())
		if r.Err != nil {
			return nil
		}
		m, ok := r.Value.(promql.Matrix)
		if !ok {
			return nil
		}
		type key struct {
			t int64
			g string
		}
		type acc struct {
			sum, abs float64
			n        int
		}
		groups := map[key]*acc{}
		for _, s := range m {
			g := groupKey(s.Metric, a.Without, a.Grouping)
			for _, p := range s.Points {
				if math.IsNaN(p.V) || math.IsInf(p.V, 0) {
					continue
				}
				k := key{p.T, g}
				if groups[k] == nil {
					groups[k] = &acc{}
				}
				groups[k].sum += p.V
				groups[k].abs += math.Abs(p.V)
				groups[k].n++
			}
		}
		for _, g := range groups {
			if g.abs > 0 && g.n > 1 && g.abs*float64(g.n)*1.1e-16 > 1e-10*math.Abs(g.sum) {
				found = true
			}
		}
		return nil
	})
	return found
}

// illConditionedWith: [ref] was computed by [mk]'s engine on the case's data.
func illConditionedWith(c *Case, impl, ref Canon, mk func(EngineCfg) queryMaker) bool {
	if impl.Kind == "error" || ref.Kind == "error" || impl.Kind != ref.Kind || len(impl.Series) != len(ref.Series) {
		return false
	}
	for i := range impl.Series {
		x, y := impl.Series[i], ref.Series[i]
		if x.Key != y.Key || len(x.Points) != len(y.Points) {
			return false
		}
		for j := range x.Points {
			if x.Points[j].T != y.Points[j].T {
				return false
			}
		}
	}
	pert := make([]SeriesData, len(c.Data))
	for i, sd := range c.Data {
		ps := make([]Sample, len(sd.Samples))
		for j, smp := range sd.Samples {
			v := smp.V
			if !math.IsNaN(v) && !math.IsInf(v, 0) {
				// not a uniform scaling (which cancellations are blind to): sign and size vary per sample
				e := 1e-13
				if (i*31+j)%2 == 0 {
					e = -0.6e-13
				}
				v *= 1 + e
			}
			ps[j] = Sample{T: smp.T, V: v}
		}
		pert[i] = SeriesData{Labels: sd.Labels, Samples: ps}
	}
	cfg := c.Cfg()
	moved, _ := runQuery(mk(cfg), NewStore(pert), cfg, c.Query, c.Window)
	if diffCanon(moved, ref, false) != "" && explainedBy(impl, ref, moved, true) {
		return true
	}
	// ... or when the same samples are summed in another order (the storage returns the
	// series reversed / rotated): sums of terms that cancel (avg(tanh(foo)) over +1 and -1)
	for k := 0; k < 2; k++ {
		n := len(c.Data)
		re := make([]SeriesData, n)
		for i := range c.Data {
			if k == 0 {
				re[n-1-i] = c.Data[i]
			} else {
				re[(i+n/2)%n] = c.Data[i]
			}
		}
		other, _ := runQuery(mk(cfg), NewStore(re), cfg, c.Query, c.Window)
		if d := diffCanon(other, ref, false); d != "" && other.Kind == ref.Kind && len(other.Series) == len(ref.Series) && explainedBy(impl, ref, other, false) {
			return true
		}
	}
	return false
}

// explainedBy: [moved] is the reference's result on minutely perturbed (or reordered) data. The
// difference between impl and ref counts as a matter of conditioning only where it is of the size
// of what the perturbation did to the reference's own result (times 1e4): a result that the
// perturbation moves by 1e-13 does not excuse a difference of 1.5. A perturbation that changes the
// shape of the result (a comparison flipping) or - for perturbed inputs only - its NaN/Inf pattern
// at a point excuses that point.
func explainedBy(impl, ref, moved Canon, patternMayChange bool) bool {
	if moved.Kind != ref.Kind || len(moved.Series) != len(ref.Series) {
		return true
	}
	for i := range ref.Series {
		x, y, m := impl.Series[i], ref.Series[i], moved.Series[i]
		if m.Key != y.Key || len(m.Points) != len(y.Points) {
			return true
		}
		for j := range y.Points {
			a, b, mv := x.Points[j].V, y.Points[j].V, m.Points[j].V
			if floatEq(a, b, false) {
				continue
			}
			// a perturbation of the inputs may cross an overflow boundary; another order of the same
			// inputs must not turn a number into NaN or Inf (that is a dependence on the order, not rounding)
			if patternMayChange && (math.IsNaN(mv) != math.IsNaN(b) || math.IsInf(mv, 0) != math.IsInf(b, 0)) {
				continue
			}
			if math.IsNaN(a) || math.IsNaN(b) || math.IsInf(a, 0) || math.IsInf(b, 0) {
				return false
			}
			if math.Abs(a-b) > 1e4*math.Abs(mv-b) {
				return false
			}
		}
	}
	return true
}

// varianceConditioning: the query is a stddev/stdvar at the top level and the
// two results have the same series and timestamps and differ only by what the
// conditioning of a variance explains: |var_impl - var_ref| <= 1e-12 * n * M^2
// (n operand series, M the largest operand magnitude). A relative tolerance on
// the result is meaningless for a variance that is tiny compared with the
// square of the mean (values 1 +- 1e-7): the engine's and the reference's
// summation orders round differently there and neither is exact.
func varianceConditioning(c *Case, impl, ref Canon) bool {
	expr, err := parser.ParseExpr(c.Query)
	if err != nil {
		return false
	}
	for {
		p, ok := expr.(*parser.ParenExpr)
		if !ok {
			break
		}
		expr = p.Expr
	}
	a, ok := expr.(*parser.AggregateExpr)
	if !ok || (a.Op != parser.STDDEV && a.Op != parser.STDVAR) {
		return false
	}
	if impl.Kind == "error" || ref.Kind == "error" || impl.Kind != ref.Kind || len(impl.Series) != len(ref.Series) {
		return false
	}
	st := NewStore(c.Data)
	cfg := c.Cfg()
	eng := promql.NewEngine(promOpts(cfg))
	var qo *promql.QueryOpts
	if cfg.QueryLookback != 0 {
		qo = &promql.QueryOpts{LookbackDelta: cfg.QueryLookback}
	}
	w := c.Window
	step, end := time.Duration(w.Step)*time.Millisecond, w.End
	if w.Instant() {
		step, end = time.Second, w.Start
	}
	q, err := eng.NewRangeQuery(st, qo, a.Expr.String(), time.UnixMilli(w.Start), time.UnixMilli(end), step)
	if err != nil {
		return false
	}
	defer q.Close()
	r := q.Exec(context.Background())
	if r.Err != nil {
		return false
	}
	m, ok := r.Value.(promql.Matrix)
	if !ok {
		return false
	}
	maxAbs := 0.0
	for _, s := range m {
		for _, p := range s.Points {
			if !math.IsInf(p.V, 0) && !math.IsNaN(p.V) && math.Abs(p.V) > maxAbs {
				maxAbs = math.Abs(p.V)
			}
		}
	}
	tol := 1e-12 * float64(len(m)) * maxAbs * maxAbs
	sq := func(x float64) float64 {
		if a.Op == parser.STDDEV {
			return x * x
		}
		return x
	}
	for i := range impl.Series {
		x, y := impl.Series[i], ref.Series[i]
		if x.Key != y.Key || len(x.Points) != len(y.Points) {
			return false
		}
		for j := range x.Points {
			if x.Points[j].T != y.Points[j].T {
				return false
			}
			u, v := x.Points[j].V, y.Points[j].V
			if math.IsNaN(u) && math.IsNaN(v) || u == v {
				continue
			}
			if math.IsNaN(u) || math.IsNaN(v) || math.IsInf(u, 0) || math.IsInf(v, 0) || math.Abs(sq(u)-sq(v)) > tol {
				return false
			}
		}
	}
	return true
}

// overflowingOperand reports whether some avg/stddev/stdvar of the query has,
// in its operand as evaluated by the reference engine, a finite value whose
// square (stddev, stdvar) or whose sum with a few like it (avg) overflows float64.
func overflowingOperand(c *Case) bool {
	expr, err := parser.ParseExpr(c.Query)
	if err != nil {
		return false
	}
	st := NewStore(c.Data)
	cfg := c.Cfg()
	ref := promql.NewEngine(promOpts(cfg))
	found := false
	parser.Inspect(expr, func(n parser.Node, _ []parser.Node) error {
		a, ok := n.(*parser.AggregateExpr)
		if !ok || found || (a.Op != parser.AVG && a.Op != parser.STDDEV && a.Op != parser.STDVAR) {
			return nil
		}
		limit := 1e150
		if a.Op == parser.AVG {
			limit = 1e300
		}
		var qo *promql.QueryOpts
		if cfg.QueryLookback != 0 {
			qo = &promql.QueryOpts{LookbackDelta: cfg.QueryLookback}
		}
		w := c.Window
		step, end := time.Duration(w.Step)*time.Millisecond, w.End
		if w.Instant() {
			step, end = time.Second, w.Start
		}
		q, err := ref.NewRangeQuery(st, qo, a.Expr.String(), time.UnixMilli(w.Start), time.UnixMilli(end), step)
		if err != nil {
			return nil
		}
		defer q.Close()
		r := q.Exec(context.Background())
		if r.Err != nil {
			return nil
		}
		m, ok := r.Value.(promql.Matrix)
		if !ok {
			return nil
		}
		for _, s := range m {
			for _, p := range s.Points {
				if !math.IsInf(p.V, 0) && math.Abs(p.V) >= limit {
					found = true
				}
			}
		}
		return nil
	})
	return found
}

func hasNonFinite(c Canon) bool {
	for _, s := range c.Series {
		for _, p := range s.Points {
			if math.IsInf(p.V, 0) || math.IsNaN(p.V) {
				return true
			}
		}
	}
	return false
}

// topkTie reports whether some topk/bottomk of the query sees, at some step and
// in some group, a tie at the k-th rank (or a NaN among the candidates) in its
// operand as evaluated by the reference engine. In that case the reference
// engine's own choice depends on the order of its input, which for computed
// operands comes from a Go map iteration, so its result is not a function of
// the inputs and cannot serve as an oracle.
func topkTie(c *Case) bool {
	expr, err := parser.ParseExpr(c.Query)
	if err != nil {
		return false
	}
	st := NewStore(c.Data)
	cfg := c.Cfg()
	ref := promql.NewEngine(promOpts(cfg))
	found := false
	evalRange := func(e string) (promql.Matrix, bool) {
		var qo *promql.QueryOpts
		if cfg.QueryLookback != 0 {
			qo = &promql.QueryOpts{LookbackDelta: cfg.QueryLookback}
		}
		w := c.Window
		step, end := time.Duration(w.Step)*time.Millisecond, w.End
		if w.Instant() {
			step, end = time.Second, w.Start
		}
		q, err := ref.NewRangeQuery(st, qo, e, time.UnixMilli(w.Start), time.UnixMilli(end), step)
		if err != nil {
			return nil, false
		}
		defer q.Close()
		r := q.Exec(context.Background())
		if r.Err != nil {
			return nil, false
		}
		m, ok := r.Value.(promql.Matrix)
		return m, ok
	}
	parser.Inspect(expr, func(n parser.Node, _ []parser.Node) error {
		a, ok := n.(*parser.AggregateExpr)
		if !ok || found || (a.Op != parser.TOPK && a.Op != parser.BOTTOMK) {
			return nil
		}
		m, ok := evalRange(a.Expr.String())
		if !ok {
			found = true // operand not evaluable on its own: be conservative
			return nil
		}
		// per step: group -> values
		type key struct {
			t int64
			g string
		}
		groups := map[key][]float64{}
		for _, s := range m {
			var g labels.Labels
			if a.Without {
				drop := map[string]bool{labels.MetricName: true}
				for _, n := range a.Grouping {
					drop[n] = true
				}
				for _, l := range s.Metric {
					if !drop[l.Name] {
						g = append(g, l)
					}
				}
			} else {
				for _, n := range a.Grouping {
					if v := s.Metric.Get(n); v != "" {
						g = append(g, labels.Label{Name: n, Value: v})
					}
				}
				sort.Sort(g)
			}
			for _, p := range s.Points {
				k := key{p.T, g.String()}
				groups[k] = append(groups[k], p.V)
			}
		}
		for _, vs := range groups {
			seen := map[float64]bool{}
			nans := 0
			for _, v := range vs {
				if v != v {
					nans++ // one NaN is simply the lowest value; two are a tie
					if nans > 1 {
						found = true
					}
					continue
				}
				if seen[v] {
					found = true
				}
				seen[v] = true
			}
		}
		return nil
	})
	return found
}
