package main

// C04 correspondence: count by/without (labels) (selector) on the real engine
// against Agg.v (group labels, group assignment, reset/reuse table) in Coq.

import (
	"flag"
	"fmt"
	"math/rand"
	"os"
	"runtime"
	"strings"
	"time"

	"github.com/prometheus/prometheus/model/labels"
	"github.com/prometheus/prometheus/promql/parser"

	"github.com/thanos-community/promql-engine/logicalplan"
)

func (u *Universe) labels(l labels.Labels) string {
	xs := make([]string, len(l))
	for i, x := range l {
		xs[i] = fmt.Sprintf("(%s, %s)", coqN(u.Names.ID(x.Name)), coqN(u.Values.ID(x.Value)))
	}
	return coqList(xs)
}

func cmdAggCases(args []string) {
	fs := flag.NewFlagSet("aggcases", flag.ExitOnError)
	seed := fs.Int64("seed", 1, "seed")
	from := fs.Int("from", 0, "first")
	to := fs.Int("to", 100, "last+1")
	out := fs.String("out", "", "output .v file")
	must(fs.Parse(args))
	o := genOptsFor("selector")
	o.MaxSeries = 12
	o.NoAt = true
	var cases []string
	groups := 0
	for id := *from; id < *to; id++ {
		c := genCase(*seed, id, o)
		r := rand.New(rand.NewSource(*seed*611953 + int64(id)))
		g := &qgen{r: r, w: c.Window, o: o}
		without := r.Intn(2) == 0
		mod := " by ("
		if without {
			mod = " without ("
		}
		lbls := g.labelList()
		sel := pick(r, []string{"foo", "bar", `{__name__=~"foo|bar"}`, `{__name__=~".+"}`, `{__name__=~".+",a!="y"}`, g.freshSelector()})
		off := ""
		if r.Intn(4) == 0 {
			off = " offset 30s"
		}
		c.Query = fmt.Sprintf("count%s%s) (%s%s)", mod, lbls, sel, off)
		expr, err := parser.ParseExpr(c.Query)
		if err != nil {
			continue
		}
		lp := logicalplan.New(expr, time.UnixMilli(c.Window.Start), time.UnixMilli(c.Window.End)).Optimize(logicalplan.DefaultOptimizers).Expr()
		agg, ok := lp.(*parser.AggregateExpr)
		if !ok {
			continue
		}
		vs, ok := agg.Expr.(*parser.VectorSelector)
		if !ok {
			continue
		}
		idx := matchSeries(c.Data, vs.LabelMatchers)
		runtime.GOMAXPROCS(c.Procs)
		cfg := c.Cfg()
		impl, path := runQuery(newImpl(cfg), NewStore(c.Data), cfg, c.Query, c.Window)
		if path != "native" || impl.Kind == "error" || hasDuplicateSeries(impl) {
			continue
		}
		u := NewUniverse()
		u.AddExpr(lp)
		for _, i := range idx {
			u.AddLabels(c.Data[i].Labels)
		}
		for _, s := range impl.Series {
			u.AddLabels(s.Labels)
		}
		sers := make([]string, len(idx))
		for k, i := range idx {
			sers[k] = fmt.Sprintf("(%s, %s)", u.labels(c.Data[i].Labels), coqSamples(c.Data[i].Samples))
		}
		exp := make([]string, len(impl.Series))
		for k, s := range impl.Series {
			ps := make([]string, len(s.Points))
			for j, p := range s.Points {
				ps[j] = fmt.Sprintf("(%s, %s)", coqZ(p.T), coqZ(int64(p.V)))
			}
			exp[k] = fmt.Sprintf("(%s, %s)", u.labels(s.Labels), coqList(ps))
		}
		groups += len(exp)
		cases = append(cases, fmt.Sprintf("  mkAC %d%%N %s %s %s %s %s %s %s", id, coqWindow(c.Window), coqZ(c.EffLookback()),
			coqZ(vs.Offset.Milliseconds()), coqBool(agg.Without), u.nameList(agg.Grouping), coqList(sers), coqList(exp)))
	}
	var sb strings.Builder
	sb.WriteString("From Coq Require Import List ZArith NArith.\nFrom Verif Require Import Base CasesLib.\nImport ListNotations.\n")
	sb.WriteString("Definition cases : list agg_case := [\n" + strings.Join(cases, ";\n") + "\n].\n")
	sb.WriteString("Definition bad := Eval vm_compute in agg_mismatches cases.\nPrint bad.\n")
	must(os.WriteFile(*out, []byte(sb.String()), 0o644))
	fmt.Printf("{\"cases\": %d, \"output_groups\": %d}\n", len(cases), groups)
}

func init() { commands["aggcases"] = cmdAggCases }
