package main

// C01 correspondence for whole operator trees: the real engine on nested queries
// built from selectors, vector/vector binary operators (+ - and the comparisons,
// on/ignoring, group_left/group_right, bool), per-sample operators (unary minus,
// abs, arithmetic and comparisons with a literal) and count aggregations, against
// Trees.jrun - the composite model (sharded, batched selectors, joins with their
// reused tables, count tables) evaluated inside Coq. Sample values are multiples
// of 1/4 and are carried as integers (4 * value), so that the engine's float
// arithmetic is exact on them.

import (
	"flag"
	"fmt"
	"math"
	"math/rand"
	"os"
	"runtime"
	"sort"
	"strings"
	"time"

	"github.com/prometheus/prometheus/model/labels"
	"github.com/prometheus/prometheus/promql/parser"

	"github.com/thanos-community/promql-engine/api"
	"github.com/thanos-community/promql-engine/engine"
	"github.com/thanos-community/promql-engine/logicalplan"
)

func coqPin(ts *int64) string {
	if ts == nil {
		return "None"
	}
	return "(Some " + coqZ(*ts) + ")"
}

func quarterZ(v float64) (int64, bool) {
	x := v * 4
	if math.IsNaN(x) || math.IsInf(x, 0) || x != math.Trunc(x) || math.Abs(x) > 1e15 {
		return 0, false
	}
	return int64(x), true
}

type treeGen struct {
	r *rand.Rand
	g *qgen
}

func (t *treeGen) sel() string {
	s := pick(t.r, []string{"foo", "bar", `{__name__=~"foo|bar"}`, `foo{a!=""}`, `bar{b!="2"}`, `{__name__=~".+",c=""}`, `foo{a="x"}`, `{a="x"}`})
	if t.r.Intn(4) == 0 {
		s = t.g.freshSelector()
	}
	if t.r.Intn(6) == 0 {
		s += t.pin()
	}
	if t.r.Intn(5) == 0 {
		s += " offset " + pick(t.r, []string{"30s", "1m", "-30s", "17s"})
	}
	return s
}

// an @ modifier: a time around the window, or start()/end()
func (t *treeGen) pin() string {
	switch t.r.Intn(4) {
	case 0:
		return " @ start()"
	case 1:
		return " @ end()"
	}
	w := t.g.w
	return fmt.Sprintf(" @ %.3f", float64(w.Start-60_000+t.r.Int63n(w.End-w.Start+120_001))/1000)
}

func (t *treeGen) labelList(nonEmpty bool) string {
	for {
		var ls []string
		for _, n := range []string{"a", "b", "c", "zz"} {
			if t.r.Intn(3) == 0 {
				ls = append(ls, n)
			}
		}
		if len(ls) > 0 || !nonEmpty {
			return strings.Join(ls, ", ")
		}
	}
}

var treeRangeFns = map[string]int{"count_over_time": 0, "last_over_time": 1, "max_over_time": 2, "min_over_time": 3,
	"sum_over_time": 4, "changes": 5, "resets": 6, "present_over_time": 7}

// a range function over a matrix selector
func (t *treeGen) rangeLeaf() string {
	names := make([]string, 0, len(treeRangeFns))
	for n := range treeRangeFns {
		names = append(names, n)
	}
	sort.Strings(names)
	s := pick(t.r, []string{"foo", "bar", `{__name__=~"foo|bar"}`, `foo{a!=""}`, `{a="x"}`})
	if t.r.Intn(4) == 0 {
		s = t.g.freshSelector()
	}
	d := pick(t.r, []string{"30s", "1m", "2m", "45s", "5m", "17s", "1s", "90s"})
	off := ""
	if t.r.Intn(6) == 0 {
		off = t.pin()
	}
	if t.r.Intn(4) == 0 {
		off += " offset " + pick(t.r, []string{"30s", "1m", "-30s", "17s"})
	}
	return fmt.Sprintf("%s(%s[%s]%s)", pick(t.r, names), s, d, off)
}

func (t *treeGen) leaf() string {
	if t.r.Intn(3) == 0 {
		return t.rangeLeaf()
	}
	return t.sel()
}

func (t *treeGen) tree(d int) string {
	if d <= 0 {
		return t.leaf()
	}
	switch k := t.r.Intn(10); {
	case k < 2:
		return t.leaf()
	case k < 6: // join
		op := pick(t.r, []string{"+", "-", "==", "!=", ">", "<", ">=", "<="})
		if op != "+" && op != "-" && t.r.Intn(3) == 0 {
			op += " bool"
		}
		m := ""
		switch t.r.Intn(5) {
		case 0:
		case 1, 2:
			m = " on (" + t.labelList(false) + ")"
		default:
			m = " ignoring (" + t.labelList(false) + ")"
		}
		if m != "" {
			switch t.r.Intn(6) {
			case 0:
				m += " group_left ()"
			case 1:
				m += " group_left (" + pick(t.r, []string{"b", "c", "zz", "__name__"}) + ")"
			case 2:
				m += " group_right ()"
			case 3:
				m += " group_right (" + pick(t.r, []string{"b", "c"}) + ")"
			}
		}
		return fmt.Sprintf("(%s) %s%s (%s)", t.tree(d-1), op, m, t.tree(d-1))
	case k < 8: // per-sample operator
		lit := pick(t.r, []string{"0", "1", "2.5", "-3", "0.25", "10"})
		switch t.r.Intn(6) {
		case 0:
			return "-(" + t.tree(d-1) + ")"
		case 1:
			return "abs(" + t.tree(d-1) + ")"
		case 2:
			return fmt.Sprintf("(%s) %s %s", t.tree(d-1), pick(t.r, []string{"+", "-"}), lit)
		case 3:
			return fmt.Sprintf("%s %s (%s)", lit, pick(t.r, []string{"+", "-"}), t.tree(d-1))
		case 4:
			return fmt.Sprintf("(%s) %s %s", t.tree(d-1), pick(t.r, []string{">", "<=", "==", "!= bool", "< bool"}), lit)
		default:
			return fmt.Sprintf("%s %s (%s)", lit, pick(t.r, []string{"<", ">=", "!=", "== bool", "> bool"}), t.tree(d-1))
		}
	case k < 9 && t.r.Intn(3) == 0: // topk / bottomk with a literal k
		op := pick(t.r, []string{"topk", "bottomk"})
		kk := pick(t.r, []string{"0", "1", "2", "3", "5", "-1", "2.7"})
		if t.r.Intn(2) == 0 {
			return fmt.Sprintf("%s without (%s) (%s, %s)", op, t.labelList(false), kk, t.tree(d-1))
		}
		return fmt.Sprintf("%s by (%s) (%s, %s)", op, t.labelList(false), kk, t.tree(d-1))
	default: // aggregation
		op := pick(t.r, []string{"count", "count", "sum", "max", "min", "group"})
		if t.r.Intn(2) == 0 {
			return fmt.Sprintf("%s without (%s) (%s)", op, t.labelList(false), t.tree(d-1))
		}
		return fmt.Sprintf("%s by (%s) (%s)", op, t.labelList(op == "count"), t.tree(d-1))
	}
}

var treeOps = map[string]int{"+": 0, "-": 1, "==": 4, "!=": 5, ">": 6, "<": 7, ">=": 8, "<=": 9}

// translateSeries: the series a selector matches, in storage order: labels and samples (4 * value)
func translateSeries(n *parser.VectorSelector, c *Case, u *Universe) (string, string, bool) {
	idx := matchSeries(c.Data, n.LabelMatchers)
	ls := make([]string, len(idx))
	ss := make([]string, len(idx))
	for k, i := range idx {
		u.AddLabels(c.Data[i].Labels)
		ls[k] = u.labels(c.Data[i].Labels)
		xs := make([]string, len(c.Data[i].Samples))
		for j, s := range c.Data[i].Samples {
			if math.Float64bits(s.V) == math.Float64bits(StaleNaN) {
				xs[j] = fmt.Sprintf("mkS %s None", coqZ(s.T))
				continue
			}
			q, ok := quarterZ(s.V)
			if !ok {
				return "", "", false
			}
			xs[j] = fmt.Sprintf("mkS %s (Some %s)", coqZ(s.T), coqZ(q))
		}
		ss[k] = coqList(xs)
	}
	return coqList(ls), coqList(ss), true
}

// topkTies: at some step two samples of one group of the aggregation's operand have the same value
func topkTies(n *parser.AggregateExpr, c *Case) bool {
	cfg := c.Cfg()
	cfg.Optimizers = logicalplan.NoOptimizers
	opnd, _ := runQuery(newImpl(cfg), NewStore(c.Data), cfg, n.Expr.String(), c.Window)
	if opnd.Kind == "error" {
		return true
	}
	type key struct {
		t int64
		g string
		v float64
	}
	seen := map[key]bool{}
	for _, s := range opnd.Series {
		b := labels.NewBuilder(s.Labels)
		var g labels.Labels
		if n.Without {
			b.Del(n.Grouping...)
			b.Del(labels.MetricName)
			g = b.Labels(nil)
		} else {
			g = b.Keep(n.Grouping...).Labels(nil)
		}
		for _, p := range s.Points {
			k := key{p.T, g.String(), p.V}
			if seen[k] {
				return true
			}
			seen[k] = true
		}
	}
	return false
}

// the partition each remote engine of the current distributed case reads
var distParts = map[api.RemoteEngine][]SeriesData{}

// translate turns the preprocessed plan into a Trees.jtree term.
func translateTree(e parser.Expr, c *Case, u *Universe) (string, bool) {
	switch n := e.(type) {
	case *parser.ParenExpr:
		return translateTree(n.Expr, c, u)
	case logicalplan.Coalesce:
		if len(n.Expressions) == 0 {
			return "", false
		}
		acc, ok := translateTree(n.Expressions[0], c, u)
		for _, x := range n.Expressions[1:] {
			t, ok2 := translateTree(x, c, u)
			acc, ok = fmt.Sprintf("(JConcat %s %s)", acc, t), ok && ok2
		}
		return acc, ok
	case *logicalplan.RemoteExecution:
		part, known := distParts[n.Engine]
		if !known {
			return "", false
		}
		sub, err := parser.ParseExpr(n.Query)
		if err != nil {
			return "", false
		}
		pend := c.Window.End
		if c.Window.Instant() {
			pend = c.Window.Start
		}
		// the remote engine plans the subquery for the same window
		lp := logicalplan.New(sub, time.UnixMilli(c.Window.Start), time.UnixMilli(pend)).Optimize(logicalplan.NoOptimizers).Expr()
		u.AddExpr(lp)
		cc := *c
		cc.Data = part
		t, ok := translateTree(lp, &cc, u)
		return fmt.Sprintf("(JRemote %s)", t), ok
	case *parser.StepInvariantExpr:
		t, ok := translateTree(n.Expr, c, u)
		return fmt.Sprintf("(JInvariant %s)", t), ok
	case *parser.VectorSelector:
		ls, ss, ok := translateSeries(n, c, u)
		if !ok {
			return "", false
		}
		return fmt.Sprintf("(JLeaf %s %s %s %s)", ls, ss, coqZ(n.OriginalOffset.Milliseconds()), coqPin(n.Timestamp)), true
	case *parser.UnaryExpr:
		if n.Op != parser.SUB {
			return translateTree(n.Expr, c, u)
		}
		t, ok := translateTree(n.Expr, c, u)
		return fmt.Sprintf("(JMap true (zmap 0 0 false 0) %s)", t), ok
	case *parser.Call:
		if code, isRange := treeRangeFns[n.Func.Name]; isRange && len(n.Args) == 1 {
			ms, ok := n.Args[0].(*parser.MatrixSelector)
			if !ok {
				return "", false
			}
			vs, ok := ms.VectorSelector.(*parser.VectorSelector)
			if !ok {
				return "", false
			}
			ls, ss, ok := translateSeries(vs, c, u)
			if !ok {
				return "", false
			}
			return fmt.Sprintf("(JRange %s (zrange %d%%N) %s %s %s %s %s)", coqBool(n.Func.Name == "last_over_time"), code,
				coqZ(ms.Range.Milliseconds()), ls, ss, coqZ(vs.OriginalOffset.Milliseconds()), coqPin(vs.Timestamp)), true
		}
		if n.Func.Name != "abs" || len(n.Args) != 1 {
			return "", false
		}
		t, ok := translateTree(n.Args[0], c, u)
		return fmt.Sprintf("(JMap true (zmap 1 0 false 0) %s)", t), ok
	case *parser.AggregateExpr:
		t, ok := translateTree(n.Expr, c, u)
		for _, g := range n.Grouping {
			u.Names.Add(g)
		}
		if code, isAcc := map[parser.ItemType]int{parser.SUM: 0, parser.MAX: 1, parser.MIN: 2, parser.GROUP: 3}[n.Op]; isAcc {
			return fmt.Sprintf("(JAgg (zinit %d%%N) (zadd %d%%N) %s %s %s)", code, code, coqBool(n.Without), u.nameList(n.Grouping), t), ok
		}
		if n.Op == parser.TOPK || n.Op == parser.BOTTOMK {
			p := n.Param
			if si, isSI := p.(*parser.StepInvariantExpr); isSI {
				p = si.Expr
			}
			lit, isLit := p.(*parser.NumberLiteral)
			if !isLit || math.IsNaN(lit.Val) || math.Abs(lit.Val) > 1e6 {
				return "", false
			}
			kk := int64(lit.Val)
			if kk < 0 {
				kk = 0
			}
			if ok && topkTies(n, c) {
				return "", false // the real heap's choice among equal values depends on its layout
			}
			return fmt.Sprintf("(JTopk %s %d %s %s %s)", coqBool(n.Op == parser.BOTTOMK), kk, coqBool(n.Without), u.nameList(n.Grouping), t), ok
		}
		if n.Op != parser.COUNT {
			return "", false
		}
		return fmt.Sprintf("(JCount (fun n => 4 * Z.of_nat n) %s %s %s)", coqBool(n.Without), u.nameList(n.Grouping), t), ok
	case *parser.BinaryExpr:
		code, ok := treeOps[parser.ItemTypeStr[n.Op]]
		if !ok {
			return "", false
		}
		lit := func(x parser.Expr) (int64, bool) {
			for {
				p, ok := x.(*parser.ParenExpr)
				if !ok {
					break
				}
				x = p.Expr
			}
			switch m := x.(type) {
			case *parser.NumberLiteral:
				return quarterZ(m.Val)
			case *parser.UnaryExpr:
				if l, ok := m.Expr.(*parser.NumberLiteral); ok && m.Op == parser.SUB {
					return quarterZ(-l.Val)
				}
			case *parser.StepInvariantExpr:
				if l, ok := m.Expr.(*parser.NumberLiteral); ok {
					return quarterZ(l.Val)
				}
			}
			return 0, false
		}
		drops := code < 4 || n.ReturnBool
		if n.LHS.Type() == parser.ValueTypeVector && n.RHS.Type() == parser.ValueTypeScalar {
			q, ok1 := lit(n.RHS)
			t, ok2 := translateTree(n.LHS, c, u)
			return fmt.Sprintf("(JMap %s (zmap 2 %d%%N %s %s) %s)", coqBool(drops), code, coqBool(n.ReturnBool), coqZ(q), t), ok1 && ok2
		}
		if n.LHS.Type() == parser.ValueTypeScalar && n.RHS.Type() == parser.ValueTypeVector {
			q, ok1 := lit(n.LHS)
			t, ok2 := translateTree(n.RHS, c, u)
			return fmt.Sprintf("(JMap %s (zmap 3 %d%%N %s %s) %s)", coqBool(drops), code, coqBool(n.ReturnBool), coqZ(q), t), ok1 && ok2
		}
		if n.VectorMatching == nil {
			return "", false
		}
		card := map[parser.VectorMatchCardinality]string{parser.CardOneToOne: "OneToOne", parser.CardManyToOne: "ManyToOne", parser.CardOneToMany: "OneToMany"}[n.VectorMatching.Card]
		if card == "" {
			return "", false
		}
		l, ok1 := translateTree(n.LHS, c, u)
		r, ok2 := translateTree(n.RHS, c, u)
		for _, g := range n.VectorMatching.MatchingLabels {
			u.Names.Add(g)
		}
		for _, g := range n.VectorMatching.Include {
			u.Names.Add(g)
		}
		return fmt.Sprintf("(JJoin (mkJP (zop %d%%N) zb2v %s %s %s %s %s %s) %s %s)", code, coqBool(n.VectorMatching.On),
			u.nameList(n.VectorMatching.MatchingLabels), u.nameList(n.VectorMatching.Include), card, coqBool(n.ReturnBool), coqBool(code < 4), l, r), ok1 && ok2
	}
	return "", false
}

func cmdTreeCases(args []string) {
	fs := flag.NewFlagSet("treecases", flag.ExitOnError)
	seed := fs.Int64("seed", 1, "seed")
	from := fs.Int("from", 0, "first")
	to := fs.Int("to", 100, "last+1")
	out := fs.String("out", "", "output .v file")
	dist := fs.Bool("dist", false, "distributed engine over a random partition of the series")
	must(fs.Parse(args))
	o := genOptsFor("selector")
	o.MaxSeries = 10
	o.IntValues = true
	var cases []string
	stats := map[string]int{}
	for id := *from; id < *to; id++ {
		c := genCase(*seed, id, o)
		r := rand.New(rand.NewSource(*seed*179424673 + int64(id)))
		tg := &treeGen{r: r, g: &qgen{r: r, w: c.Window, o: o}}
		c.Query = tg.tree(1 + r.Intn(3))
		expr, err := parser.ParseExpr(c.Query)
		if err != nil {
			stats["unparsable"]++
			continue
		}
		w := c.Window
		if w.Step > 0 && (w.End-w.Start)/w.Step > 40 {
			w.End = w.Start + 40*w.Step // keep the Coq evaluation small
			c.Window = w
		}
		pend := w.End
		if w.Instant() {
			pend = w.Start
		}
		optimizers := logicalplan.NoOptimizers
		var distEng queryMaker
		if *dist {
			// the series are dealt to 2 or 3 engines at random (a part may be empty)
			k := 2 + r.Intn(2)
			parts := make([][]SeriesData, k)
			for _, sd := range c.Data {
				j := r.Intn(k)
				parts[j] = append(parts[j], sd)
			}
			eopts := engine.Opts{EngineOpts: promOpts(c.Cfg()), LogicalOptimizers: logicalplan.NoOptimizers}
			remotes := make([]api.RemoteEngine, k)
			distParts = map[api.RemoteEngine][]SeriesData{}
			for j := range remotes {
				remotes[j] = engine.NewLocalEngine(eopts, NewStore(parts[j]))
				distParts[remotes[j]] = parts[j]
			}
			endpoints := api.NewStaticEndpoints(remotes)
			distEng = engine.NewDistributedEngine(eopts, endpoints)
			optimizers = []logicalplan.Optimizer{logicalplan.DistributedExecutionOptimizer{Endpoints: endpoints}}
		}
		lp := logicalplan.New(expr, time.UnixMilli(w.Start), time.UnixMilli(pend)).Optimize(optimizers).Expr()
		u := NewUniverse()
		u.AddExpr(lp)
		if _, ok := translateTree(lp, c, u); !ok { // first pass: intern every label
			stats["outside-the-fragment"]++
			continue
		}
		runtime.GOMAXPROCS(c.Procs)
		shards := c.Procs / 2
		if shards < 1 {
			shards = 1
		}
		cfg := c.Cfg()
		cfg.Optimizers = logicalplan.NoOptimizers
		var impl Canon
		var path string
		if *dist && binopSignatureCollision(c) {
			// Two series of a join's "one" side share a signature (recorded finding F20, outside the
			// tree theorem's hypothesis): whether the engine fails depends on the series lists, and a
			// remote result lists only the series that have points - the model's remote node lists all.
			stats["one-side-collision-skipped"]++
			continue
		}
		if *dist {
			runtime.GOMAXPROCS(c.Procs)
			impl, path = runQuery(distEng, NewStore(c.Data), cfg, c.Query, c.Window)
		} else {
			impl, path = runQuery(newImpl(cfg), NewStore(c.Data), cfg, c.Query, c.Window)
		}
		if path != "native" {
			stats["not-native"]++
			continue
		}
		expected := "None"
		if impl.Kind == "error" {
			if impl.Err != "many-to-many" {
				stats["other-error"]++
				continue
			}
			stats["expected-many-to-many"]++
		} else {
			var grid []int64
			if w.Instant() {
				grid = []int64{w.Start}
			} else {
				for t := w.Start; t <= w.End; t += w.Step {
					grid = append(grid, t)
				}
			}
			byT := map[int64][]string{}
			bad := false
			for _, s := range impl.Series {
				u.AddLabels(s.Labels)
			}
			for _, s := range impl.Series {
				for _, p := range s.Points {
					q, ok := quarterZ(p.V)
					if !ok {
						bad = true
					}
					byT[p.T] = append(byT[p.T], fmt.Sprintf("(%s, %s)", u.labels(s.Labels), coqZ(q)))
				}
			}
			if bad {
				stats["inexact-result"]++
				continue
			}
			exp := make([]string, len(grid))
			for i, t := range grid {
				exp[i] = fmt.Sprintf("(%s, %s)", coqZ(t), coqList(byT[t]))
				delete(byT, t)
			}
			if len(byT) != 0 {
				exp = append(exp, "((-1)%Z, [])")
			}
			expected = "(Some " + coqList(exp) + ")"
			if impl.NonTrivial() {
				stats["nontrivial"]++
			}
		}
		term, _ := translateTree(lp, c, u) // second pass: the interning is complete
		if *dist {
			stats[fmt.Sprintf("remotes-%d", strings.Count(term, "(JRemote"))]++
		}
		stats[fmt.Sprintf("depth-%d", strings.Count(term, "(JJoin")+strings.Count(term, "(JMap")+strings.Count(term, "(JCount"))]++
		cases = append(cases, fmt.Sprintf("  mkTrC %d%%N %d %s %s %s %s", id, shards, coqWindow(c.Window), coqZ(c.EffLookback()), term, expected))
	}
	var sb strings.Builder
	sb.WriteString("From Coq Require Import List ZArith NArith.\nFrom Verif Require Import Base Bin EndToEnd Trees TreeCases.\nImport ListNotations.\nOpen Scope Z_scope.\n")
	sb.WriteString("Definition cases : list tree_case := [\n" + strings.Join(cases, ";\n") + "\n].\n")
	sb.WriteString("Definition bad := Eval vm_compute in tree_mismatches cases.\nPrint bad.\n")
	must(os.WriteFile(*out, []byte(sb.String()), 0o644))
	stats["cases"] = len(cases)
	keys := make([]string, 0, len(stats))
	for k := range stats {
		keys = append(keys, k)
	}
	sort.Strings(keys)
	parts := make([]string, len(keys))
	for i, k := range keys {
		parts[i] = fmt.Sprintf("%q: %d", k, stats[k])
	}
	fmt.Printf("{%s}\n", strings.Join(parts, ", "))
}

func init() {
	commands["treecases"] = cmdTreeCases
	// the same trees through the distributed engine: 2 or 3 local engines over a random partition
	commands["disttreecases"] = func(args []string) { cmdTreeCases(append([]string{"--dist"}, args...)) }
}
