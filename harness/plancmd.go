package main

// C08: query creation outcome (native / fallback / rejected) and the per-path
// counter, for the complete vocabulary of the pinned parser in every position.

import (
	"context"
	"encoding/json"
	"fmt"
	"io"
	"os"
	"sort"
	"strings"
	"time"

	"github.com/prometheus/client_golang/prometheus"
	dto "github.com/prometheus/client_model/go"
	"github.com/prometheus/prometheus/promql"
	"github.com/prometheus/prometheus/promql/parser"

	"github.com/efficientgo/core/errors"

	"github.com/thanos-community/promql-engine/api"
	"github.com/thanos-community/promql-engine/engine"
	"github.com/thanos-community/promql-engine/execution/parse"
	"github.com/thanos-community/promql-engine/logicalplan"
)

type planCase struct {
	ID         int    `json:"id"`
	Query      string `json:"query"`
	Range      bool   `json:"range"`
	Fallback   bool   `json:"fallback"`
	Outcome    string `json:"outcome"` // Native | Fallback | ErrUnsupported | ErrOther
	DFalse     int    `json:"d_false"`
	DTrue      int    `json:"d_true"`
	ErrText    string `json:"err,omitempty"`
	ExecCmp    string `json:"exec_cmp,omitempty"` // "", "equal", or a description of the difference
	Oracle     string `json:"oracle,omitempty"`   // direct-oracle failure (property violated on the real code), "" = none
	RefOK      bool   `json:"ref_ok"`             // the reference engine accepts the query
	NativeExec string `json:"native_exec,omitempty"`
	Dist       bool   `json:"distributed,omitempty"` // distributed engine over remote engines without fallback
}

func argFor(t parser.ValueType, variant int) string {
	switch t {
	case parser.ValueTypeScalar:
		return []string{"1", "0.5", "scalar(bar)"}[variant%3]
	case parser.ValueTypeVector:
		return []string{"foo", "bar", "sum by (a) (foo)"}[variant%3]
	case parser.ValueTypeMatrix:
		return []string{"foo[5m]", "bar[90s]", "foo[5m:1m]"}[variant%3]
	case parser.ValueTypeString:
		return `"a"`
	}
	return "foo"
}

// constructs returns (expression text, its type) for every construct of the
// vocabulary, with type-correct arguments.
func c08Constructs(nVariants int) []struct {
	q string
	t parser.ValueType
} {
	type ct = struct {
		q string
		t parser.ValueType
	}
	var out []ct
	names := sortedKeys(parser.Functions)
	for _, n := range names {
		f := parser.Functions[n]
		for variant := 0; variant < nVariants; variant++ {
			build := func(nargs int) string {
				as := make([]string, 0, nargs)
				for i := 0; i < nargs; i++ {
					ti := i
					if ti >= len(f.ArgTypes) {
						ti = len(f.ArgTypes) - 1
					}
					as = append(as, argFor(f.ArgTypes[ti], variant))
				}
				return n + "(" + strings.Join(as, ", ") + ")"
			}
			switch {
			case f.Variadic == 0:
				out = append(out, ct{build(len(f.ArgTypes)), f.ReturnType})
			case f.Variadic > 0:
				out = append(out, ct{build(len(f.ArgTypes) - f.Variadic), f.ReturnType})
				out = append(out, ct{build(len(f.ArgTypes)), f.ReturnType})
			default: // any number of the last
				out = append(out, ct{build(len(f.ArgTypes) - 1), f.ReturnType})
				out = append(out, ct{build(len(f.ArgTypes)), f.ReturnType})
				out = append(out, ct{build(len(f.ArgTypes) + 1), f.ReturnType})
			}
			if len(f.ArgTypes) == 0 {
				break
			}
		}
	}
	for _, it := range allItems(func(i parser.ItemType) bool { return i.IsAggregator() }) {
		a := it.String()
		for _, mod := range []string{"", " by (a)", " without (a)", " by ()"} {
			switch a {
			case "topk", "bottomk":
				out = append(out, ct{a + mod + "(2, foo)", parser.ValueTypeVector})
				out = append(out, ct{a + mod + "(scalar(bar), foo)", parser.ValueTypeVector})
			case "quantile":
				out = append(out, ct{a + mod + "(0.5, foo)", parser.ValueTypeVector})
			case "count_values":
				out = append(out, ct{a + mod + `("l", foo)`, parser.ValueTypeVector})
			default:
				out = append(out, ct{a + mod + "(foo)", parser.ValueTypeVector})
			}
		}
	}
	for _, it := range allItems(func(i parser.ItemType) bool { return i.IsOperator() }) {
		o := it.String()
		if it.IsSetOperator() {
			for _, mod := range []string{"", " on (a)", " ignoring (a)"} {
				out = append(out, ct{"foo " + o + mod + " bar", parser.ValueTypeVector})
			}
			continue
		}
		bools := []string{""}
		if it.IsComparisonOperator() {
			bools = append(bools, " bool")
		}
		for _, b := range bools {
			for _, mod := range []string{"", " on (a)", " ignoring (a)", " on (a) group_left", " on (a) group_right (b)", " ignoring (a) group_left (b)"} {
				out = append(out, ct{"foo " + o + b + mod + " bar", parser.ValueTypeVector})
			}
			out = append(out, ct{"foo " + o + b + " 2", parser.ValueTypeVector})
			out = append(out, ct{"2 " + o + b + " foo", parser.ValueTypeVector})
			if !it.IsComparisonOperator() || b != "" {
				out = append(out, ct{"3 " + o + b + " 2", parser.ValueTypeScalar})
			}
		}
	}
	out = append(out,
		ct{"foo", parser.ValueTypeVector}, ct{`foo{a="x",b!="y",a=~"x|z",b!~"q"}`, parser.ValueTypeVector},
		ct{"foo offset 5m", parser.ValueTypeVector}, ct{"foo offset -5m", parser.ValueTypeVector},
		ct{"foo @ 10", parser.ValueTypeVector}, ct{"foo @ start()", parser.ValueTypeVector}, ct{"foo @ end() offset 1m", parser.ValueTypeVector},
		ct{"foo[5m]", parser.ValueTypeMatrix}, ct{"foo[5m] offset 1m", parser.ValueTypeMatrix}, ct{"foo[5m] @ 10", parser.ValueTypeMatrix},
		ct{"foo[5m:1m]", parser.ValueTypeMatrix}, ct{"foo[5m:]", parser.ValueTypeMatrix}, ct{"rate(foo[1m])[5m:1m] @ 10 offset 1m", parser.ValueTypeMatrix},
		ct{`"abc"`, parser.ValueTypeString}, ct{"1", parser.ValueTypeScalar}, ct{"-1", parser.ValueTypeScalar}, ct{"+foo", parser.ValueTypeVector}, ct{"-foo", parser.ValueTypeVector},
		ct{"(foo)", parser.ValueTypeVector}, ct{"((1))", parser.ValueTypeScalar},
		ct{"NaN", parser.ValueTypeScalar}, ct{"Inf", parser.ValueTypeScalar},
	)
	return out
}

// positions embeds an expression of type t into every syntactic position that
// accepts that type.
func c08Positions(q string, t parser.ValueType) []string {
	out := []string{q}
	switch t {
	case parser.ValueTypeVector:
		out = append(out,
			"abs("+q+")", "clamp("+q+", 0, 1)", "scalar("+q+")", "histogram_quantile(0.9, "+q+")",
			"sum("+q+")", "sum by (a) ("+q+")", "topk(2, "+q+")", "quantile(0.5, "+q+")",
			q+" + foo", "foo + "+q, q+" + 1", "1 + "+q, q+" > bool foo", "foo == on (a) group_left "+q,
			"-("+q+")", "("+q+")", "rate(("+q+")[5m:1m])", "sum(("+q+") * 2)", "abs(-("+q+"))",
			"("+q+") and foo", "sort("+q+")",
			// in the parameter of an aggregation
			"quantile(scalar("+q+"), foo)", "topk(scalar("+q+"), foo)", "bottomk by (a) (scalar("+q+"), foo)",
			// ... and in the first argument of histogram_quantile
			"histogram_quantile(scalar("+q+"), foo)",
		)
	case parser.ValueTypeScalar:
		out = append(out,
			"vector("+q+")", "clamp(foo, "+q+", 1)", "clamp_min(foo, "+q+")",
			"topk("+q+", foo)", "quantile("+q+", foo)",
			"("+q+") + foo", "foo + ("+q+")", "("+q+") + 1", "1 + ("+q+")", "("+q+") > bool 1",
			"-("+q+")", "("+q+")", "sum(vector("+q+"))", "histogram_quantile("+q+", foo)",
			"round(foo, "+q+")",
		)
	case parser.ValueTypeMatrix:
		out = append(out,
			"rate("+q+")", "sum(rate("+q+"))", "max_over_time("+q+")", "quantile_over_time(0.5, "+q+")",
			"predict_linear("+q+", 1)", "abs(delta("+q+"))", "rate("+q+") + 1", "foo / increase("+q+")",
			"absent_over_time("+q+")", "-irate("+q+")",
			"quantile(scalar(sum(rate("+q+"))), foo)",
		)
	case parser.ValueTypeString:
		out = append(out, "label_replace(foo, \"a\", "+q+", \"b\", \"\")", "count_values("+q+", foo)")
	}
	return out
}

func counterValues(reg *prometheus.Registry) (f, t int) {
	mfs, err := reg.Gather()
	if err != nil {
		fatal(err)
	}
	for _, mf := range mfs {
		if mf.GetName() != "promql_engine_queries_total" {
			continue
		}
		for _, m := range mf.GetMetric() {
			v := int(m.GetCounter().GetValue())
			for _, l := range m.GetLabel() {
				if l.GetName() == "fallback" {
					if l.GetValue() == "true" {
						t = v
					} else {
						f = v
					}
				}
			}
		}
	}
	return
}

var _ = dto.MetricType_COUNTER

func classifyCreate(q promql.Query, err error) string {
	if err != nil {
		if errors.Is(err, parse.ErrNotSupportedExpr) || errors.Is(err, parse.ErrNotImplemented) {
			return "ErrUnsupported"
		}
		return "ErrOther"
	}
	if strings.Contains(fmt.Sprintf("%T", q), "compatibilityQuery") {
		return "Native"
	}
	return "Fallback"
}

func cmdPlan(args []string) {
	outDir := args[0]
	tier := args[1]
	nv := 1
	if tier == "thorough" {
		nv = 3
	}
	constructs := c08Constructs(nv)
	seen := map[string]bool{}
	var queries []string
	for _, c := range constructs {
		for _, q := range c08Positions(c.q, c.t) {
			if seen[q] {
				continue
			}
			if _, err := parser.ParseExpr(q); err != nil {
				continue // position not type-correct for this construct
			}
			seen[q] = true
			queries = append(queries, q)
		}
	}
	sort.Strings(queries)

	start, end, step := time.UnixMilli(0), time.UnixMilli(300_000), 30*time.Second
	store := newC08Store()
	var cases []planCase
	var coqCases []string
	nativeN, fallbackN, rejN := 0, 0, 0
	execCompared := 0

	type engPair struct {
		eng queryMaker
		reg *prometheus.Registry
	}
	mkEng := func(fb bool) engPair {
		reg := prometheus.NewRegistry()
		eo := promOpts(EngineCfg{})
		eo.Reg = reg
		// the engine without fallback also explains its plans (Opts.DebugWriter): creation must not depend on it
		var dbg io.Writer
		if !fb {
			dbg = io.Discard
		}
		return engPair{engine.New(engine.Opts{EngineOpts: eo, DisableFallback: !fb, DebugWriter: dbg}), reg}
	}
	engOn, engOff := mkEng(true), mkEng(false)
	// a distributed engine (fallback enabled) whose remote engines have the fallback disabled: what a
	// remote engine cannot run must be found out when the distributed query is created, too
	mkDist := func() engPair {
		reg := prometheus.NewRegistry()
		eo := promOpts(EngineCfg{})
		eo.Reg = reg
		ropts := engine.Opts{EngineOpts: promOpts(EngineCfg{}), DisableFallback: true}
		remotes := []api.RemoteEngine{engine.NewLocalEngine(ropts, store), engine.NewLocalEngine(ropts, NewStore(nil))}
		return engPair{engine.NewDistributedEngine(engine.Opts{EngineOpts: eo, DebugWriter: io.Discard}, api.NewStaticEndpoints(remotes)), reg}
	}
	engDist := mkDist()
	engDistFb := func() queryMaker {
		ropts := engine.Opts{EngineOpts: promOpts(EngineCfg{})}
		remotes := []api.RemoteEngine{engine.NewLocalEngine(ropts, store), engine.NewLocalEngine(ropts, NewStore(nil))}
		return engine.NewDistributedEngine(engine.Opts{EngineOpts: promOpts(EngineCfg{})}, api.NewStaticEndpoints(remotes))
	}()
	// a distributed engine created with the fallback disabled (and remote engines likewise)
	engDistOff := func() queryMaker {
		ropts := engine.Opts{EngineOpts: promOpts(EngineCfg{}), DisableFallback: true}
		remotes := []api.RemoteEngine{engine.NewLocalEngine(ropts, store), engine.NewLocalEngine(ropts, NewStore(nil))}
		return engine.NewDistributedEngine(engine.Opts{EngineOpts: promOpts(EngineCfg{}), DisableFallback: true}, api.NewStaticEndpoints(remotes))
	}()
	ref := promql.NewEngine(promOpts(EngineCfg{}))
	start0 := start
	for _, wmode := range []int{0, 1, 2} {
		// instant; range; a range whose start and end coincide (one step, still a range: a matrix)
		rng := wmode > 0
		start := start0
		if wmode == 2 {
			start = end
		}
		for qi, qs := range queries {
			if wmode == 2 && qi%3 != 0 {
				continue
			}
			expr, err := parser.ParseExpr(qs)
			if err != nil {
				continue
			}
			var obs [3]planCase
			for k, ep := range []engPair{engOn, engOff, engDist} {
				fb := k != 1
				f0, t0 := counterValues(ep.reg)
				var q promql.Query
				var err error
				panicked := ""
				func() {
					defer func() {
						if e := recover(); e != nil {
							panicked = fmt.Sprint(e)
							err = fmt.Errorf("panic: %v", e)
						}
					}()
					if rng {
						q, err = ep.eng.NewRangeQuery(store, nil, qs, start, end, step)
					} else {
						q, err = ep.eng.NewInstantQuery(store, nil, qs, end)
					}
				}()
				f1, t1 := counterValues(ep.reg)
				pc := planCase{ID: len(cases), Query: qs, Range: rng, Fallback: fb, Dist: k == 2, Outcome: classifyCreate(q, err), DFalse: f1 - f0, DTrue: t1 - t0}
				if err != nil {
					pc.ErrText = err.Error()
				}
				switch pc.Outcome {
				case "Native":
					nativeN++
				case "Fallback":
					fallbackN++
				default:
					rejN++
				}
				// Fallback path must answer exactly as the reference engine.
				if pc.Outcome == "Fallback" {
					var rq promql.Query
					var rerr error
					if rng {
						rq, rerr = ref.NewRangeQuery(store, nil, qs, start, end, step)
					} else {
						rq, rerr = ref.NewInstantQuery(store, nil, qs, end)
					}
					if rerr != nil {
						pc.ExecCmp = "reference rejected: " + rerr.Error()
					} else {
						a := canonResult(q.Exec(context.Background()))
						b := canonResult(rq.Exec(context.Background()))
						if d := diffCanon(a, b, false); d != "" { // tolerance: the reference itself sums in map-iteration order
							pc.ExecCmp = d
						} else if a.Kind == "error" && a.Err != b.Err {
							pc.ExecCmp = "error class " + a.Err + " vs " + b.Err
						} else {
							pc.ExecCmp = "equal"
						}
						rq.Close()
						execCompared++
					}
				}
				// A natively accepted query must not discover at Exec that a construct is unsupported, nor
				// fail where the reference engine answers: support is decided at creation.
				if pc.Outcome == "Native" && fb {
					a := canonResult(q.Exec(context.Background()))
					if a.Kind == "error" {
						var rq promql.Query
						var rerr error
						if rng {
							rq, rerr = ref.NewRangeQuery(store, nil, qs, start, end, step)
						} else {
							rq, rerr = ref.NewInstantQuery(store, nil, qs, end)
						}
						if rerr == nil {
							b := canonResult(rq.Exec(context.Background()))
							rq.Close()
							if b.Kind != "error" {
								pc.NativeExec = "natively accepted query fails at Exec (" + trunc(a.ErrMsg, 160) + ") where the reference engine answers"
							}
						}
					}
					execCompared++
				}
				if q != nil {
					q.Close()
				}
				// direct oracle (needs no model)
				{
					var rq promql.Query
					var rerr error
					if rng {
						rq, rerr = ref.NewRangeQuery(store, nil, qs, start, end, step)
					} else {
						rq, rerr = ref.NewInstantQuery(store, nil, qs, end)
					}
					if rq != nil {
						rq.Close()
					}
					pc.RefOK = rerr == nil
					want := 1
					switch {
					case panicked != "":
						pc.Oracle = "a panic escaped the creation of the query: " + trunc(panicked, 200)
					case fb && pc.RefOK && pc.Outcome != "Native" && pc.Outcome != "Fallback":
						pc.Oracle = "fallback enabled, reference accepts the query, engine rejects it: " + pc.ErrText
					case !fb && pc.Outcome != "Native" && pc.Outcome != "ErrUnsupported" && pc.RefOK:
						pc.Oracle = "fallback disabled: neither native nor rejected as unsupported/not implemented: " + pc.Outcome + " " + pc.ErrText
					case !fb && pc.Outcome == "Fallback":
						pc.Oracle = "fallback disabled but the query took the fallback path"
					case pc.Outcome == "Native" && (pc.DFalse != want || pc.DTrue != 0):
						pc.Oracle = fmt.Sprintf("native query: counter deltas false=%d true=%d", pc.DFalse, pc.DTrue)
					case pc.Outcome == "Fallback" && (pc.DFalse != 0 || pc.DTrue != want):
						pc.Oracle = fmt.Sprintf("fallback query: counter deltas false=%d true=%d", pc.DFalse, pc.DTrue)
					case pc.ExecCmp != "" && pc.ExecCmp != "equal" && !tieSensitive(qs):
						pc.Oracle = "fallback result differs from the reference engine: " + pc.ExecCmp
					case pc.NativeExec != "":
						pc.Oracle = pc.NativeExec
					}
					if k == 1 && pc.Oracle == "" && (obs[0].Outcome == "Native") != (pc.Outcome == "Native") {
						pc.Oracle = "native path depends on the fallback switch: on=" + obs[0].Outcome + " off=" + pc.Outcome
					}
				}
				cases = append(cases, pc)
				obs[k] = pc
			}
			// the fallback switch of a distributed engine: with it off no query may reach the Prometheus engine
			{
				var dq promql.Query
				var derr error
				func() {
					defer func() {
						if e := recover(); e != nil {
							derr = fmt.Errorf("panic: %v", e)
						}
					}()
					if rng {
						dq, derr = engDistOff.NewRangeQuery(store, nil, qs, start, end, step)
					} else {
						dq, derr = engDistOff.NewInstantQuery(store, nil, qs, end)
					}
				}()
				if out := classifyCreate(dq, derr); out == "Fallback" {
					last := &cases[len(cases)-1]
					if last.Oracle == "" {
						last.Oracle = "distributed engine with the fallback disabled: the query took the fallback path"
					}
				}
				if dq != nil {
					dq.Close()
				}
			}
			// an unsupported construct that the distributed optimizer hands to remote engines which do have
			// the fallback: answered by their Prometheus engines and put together by the coordinator - exactly
			// as the reference engine answers the whole query (every fifth query with such a construct)
			if obs[0].Outcome == "Fallback" && qi%5 == 0 && !tieSensitive(qs) {
				var dq, rq promql.Query
				var derr, rerr error
				if rng {
					dq, derr = engDistFb.NewRangeQuery(store, nil, qs, start, end, step)
					rq, rerr = ref.NewRangeQuery(store, nil, qs, start, end, step)
				} else {
					dq, derr = engDistFb.NewInstantQuery(store, nil, qs, end)
					rq, rerr = ref.NewInstantQuery(store, nil, qs, end)
				}
				if derr == nil && rerr == nil {
					a := canonResult(dq.Exec(context.Background()))
					b := canonResult(rq.Exec(context.Background()))
					if d := diffCanon(a, b, false); d != "" && (a.Kind == "error") == (b.Kind == "error") {
						last := &cases[len(cases)-1]
						if last.Oracle == "" {
							last.Oracle = "distributed engine (remote engines with fallback): result differs from the reference engine: " + d
						}
					}
					execCompared++
				}
				if dq != nil {
					dq.Close()
				}
				if rq != nil {
					rq.Close()
				}
			}
			// the model sees the preprocessed, optimized AST (fresh parse: planning mutates)
			var lp parser.Expr
			if rng {
				lp = logicalplan.New(expr, start, end).Optimize(logicalplan.DefaultOptimizers).Expr()
			} else {
				lp = logicalplan.New(expr, end, end).Optimize(logicalplan.DefaultOptimizers).Expr()
			}
			u := NewUniverse()
			u.AddExpr(lp)
			orig, _ := parser.ParseExpr(qs)
			coqCases = append(coqCases, fmt.Sprintf("  mkPC %d%%N %s %s %s O_%s %d %d O_%s %d %d", obs[0].ID, u.Expr(lp, nil), coqBool(rng), vtypeName(orig.Type()),
				obs[0].Outcome, obs[0].DFalse, obs[0].DTrue, obs[1].Outcome, obs[1].DFalse, obs[1].DTrue))
		}
	}

	const shardSize = 800
	nShards := 0
	for i := 0; i < len(coqCases); i += shardSize {
		j := i + shardSize
		if j > len(coqCases) {
			j = len(coqCases)
		}
		var sb strings.Builder
		sb.WriteString("From Coq Require Import List String ZArith NArith.\nFrom Verif Require Import Ast Generated Plan CasesLib.\nImport ListNotations.\nOpen Scope string_scope.\n")
		sb.WriteString("Definition cases : list plan_case := [\n")
		sb.WriteString(strings.Join(coqCases[i:j], ";\n"))
		sb.WriteString("\n].\n")
		sb.WriteString("Definition bad := Eval vm_compute in plan_mismatches cases.\nPrint bad.\n")
		must(os.WriteFile(fmt.Sprintf("%s/cases_C08_%d.v", outDir, nShards), []byte(sb.String()), 0o644))
		nShards++
	}

	rep := map[string]interface{}{
		"cases": cases, "queries": len(queries), "native": nativeN, "fallback": fallbackN, "rejected": rejN,
		"exec_compared": execCompared, "shards": nShards, "coq_cases": len(coqCases),
	}
	b, _ := json.Marshal(rep)
	must(os.WriteFile(outDir+"/report_C08.json", b, 0o644))
}
