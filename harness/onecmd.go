package main

import (
	"flag"
	"fmt"
	"runtime"
)

// cmdOne regenerates one case (seed, id, profile), optionally overrides the
// query, and prints the engine's and the reference engine's results.
func cmdOne(args []string) {
	fs := flag.NewFlagSet("one", flag.ExitOnError)
	seed := fs.Int64("seed", 1, "seed")
	id := fs.Int("id", 0, "case id")
	profile := fs.String("profile", "", "generator profile")
	query := fs.String("query", "", "override query")
	procs := fs.Int("procs", 0, "override GOMAXPROCS")
	showData := fs.Bool("data", false, "print the data set")
	must(fs.Parse(args))
	c := genCase(*seed, *id, genOptsFor(*profile))
	if *query != "" {
		c.Query = *query
	}
	if *procs > 0 {
		c.Procs = *procs
	}
	fmt.Printf("query: %s\nwindow: %+v lookback=%d qlookback=%d procs=%d series=%d\n", c.Query, c.Window, c.Lookback, c.QLookback, c.Procs, len(c.Data))
	if *showData {
		for _, s := range c.Data {
			fmt.Printf("  %s:", s.Labels)
			for _, p := range s.Samples {
				fmt.Printf(" %v@%d", p.V, p.T)
			}
			fmt.Println()
		}
	}
	runtime.GOMAXPROCS(c.Procs)
	st := NewStore(c.Data)
	cfg := c.Cfg()
	impl, path := runQuery(newImpl(cfg), st, cfg, c.Query, c.Window)
	ref, _ := runQuery(newRef(cfg), st, cfg, c.Query, c.Window)
	fmt.Printf("path: %s\nimpl: %s\nref:  %s\ndiff: %s\n", path, impl, ref, diffCanon(impl, ref, false))
}

func init() { commands["one"] = cmdOne }
