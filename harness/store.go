package main

// Instrumented in-memory storage.Queryable shared by the engine under test and
// the reference engine. It records every Querier/Select call, counts open and
// closed queriers, hands out the very same label slices on every call (with
// canaries in spare capacity), can clip samples to the hinted range, and can
// inject an error, a panic, a cancellation, a block or a yield at the k-th
// callback of a given site class.

import (
	"context"
	"errors"
	"fmt"
	"math"
	"runtime"
	"sort"
	"sync"
	"sync/atomic"
	"time"

	"github.com/prometheus/prometheus/model/histogram"
	"github.com/prometheus/prometheus/model/labels"
	"github.com/prometheus/prometheus/model/value"
	"github.com/prometheus/prometheus/storage"
	"github.com/prometheus/prometheus/tsdb/chunkenc"
)

type Sample struct {
	T int64
	V float64
}

type SeriesData struct {
	Labels  labels.Labels
	Samples []Sample
}

var StaleNaN = math.Float64frombits(value.StaleNaN)

var ErrInjected = errors.New("verif: injected storage failure")

// injected is the error of an injected failure: ErrInjected, or - for a storage whose own request to
// its backend was cancelled or timed out - an error that wraps ErrInjected and the context error
func (s *Store) injected() error {
	if s.InjectedAlso != nil {
		return fmt.Errorf("%w: backend request: %w", ErrInjected, s.InjectedAlso)
	}
	return ErrInjected
}

type SelectRecord struct {
	Mint, Maxt int64
	Hints      storage.SelectHints
	HasHints   bool
	Matchers   []string
	Raw        []*labels.Matcher
	Sorted     bool
}

// Fault describes one injected fault: the N-th (1-based) event of site class
// Site gets Kind. Site "" means any site (global event index).
type Fault struct {
	Kind string // error | panic-runtime | panic-error | panic-string | cancel | block | none
	Site string // querier | select | ss.next | ss.at | ss.err | labels | iterator | it.seek | it.next | it.at | it.err | close | ""
	N    int64
}

type Store struct {
	Series []SeriesData

	ClipToHints bool
	SlowName    string // series of this metric name have slow iterators
	SlowDelay   time.Duration
	// selects on a metric name (an equality matcher on __name__): fail at once / answer slowly
	FailSelectName  string
	SlowSelectName  string
	SlowSelectDelay time.Duration
	SlowSelectCtx   bool  // the slow select ends with the context's error when its querier's context is cancelled
	YieldSeed       int64 // when non-zero, pseudo-random yields/sleeps in callbacks
	InjectedAlso    error // injected failures also wrap this error (context.Canceled, context.DeadlineExceeded)

	mu        sync.Mutex
	Selects   []SelectRecord
	Opens     int64
	Closes    int64
	OpenIDs   map[int64]int // querier id -> close count
	nextQID   int64
	events    int64
	siteCount map[string]int64
	seq       int64

	Faults  []Fault
	fired   int64
	Cancel  context.CancelFunc // used by cancel faults
	blockCh chan struct{}
	// Event log (ordering stamps) for C17.
	Log     []string
	KeepLog bool
}

func NewStore(series []SeriesData) *Store {
	s := &Store{Series: series}
	s.ResetInstr()
	return s
}

func (s *Store) ResetInstr() {
	s.mu.Lock()
	defer s.mu.Unlock()
	s.Selects = nil
	s.Opens, s.Closes = 0, 0
	s.OpenIDs = map[int64]int{}
	s.events = 0
	s.siteCount = map[string]int64{}
	s.fired = 0
	s.Log = nil
}

func (s *Store) SiteCounts() map[string]int64 {
	s.mu.Lock()
	defer s.mu.Unlock()
	out := map[string]int64{}
	for k, v := range s.siteCount {
		out[k] = v
	}
	out[""] = s.events
	return out
}

func (s *Store) Fired() int64 { return atomic.LoadInt64(&s.fired) }

type injectedRuntimeError struct{}

func (injectedRuntimeError) Error() string { return "verif: injected runtime error" }
func (injectedRuntimeError) RuntimeError() {}

// hit registers one callback event and returns the fault kind to apply ("" = none).
// storeEvents counts the storage callbacks of all stores of the process (the remote engines of
// a distributed engine have stores of their own).
var storeEvents int64

func (s *Store) hit(site string, ctx context.Context) string {
	atomic.AddInt64(&storeEvents, 1)
	s.mu.Lock()
	s.events++
	s.siteCount[site]++
	ev, sc := s.events, s.siteCount[site]
	if s.KeepLog {
		s.Log = append(s.Log, site)
	}
	kind := ""
	for _, f := range s.Faults {
		if (f.Site == "" && f.N == ev) || (f.Site == site && f.N == sc) {
			kind = f.Kind
		}
	}
	ys := s.YieldSeed
	s.mu.Unlock()

	if ys != 0 {
		h := uint64(ev)*0x9E3779B97F4A7C15 ^ uint64(ys)
		h ^= h >> 29
		switch h % 7 {
		case 0:
			runtime.Gosched()
		case 1:
			time.Sleep(time.Duration(h%50) * time.Microsecond)
		}
	}
	if kind == "" || kind == "none" {
		return ""
	}
	atomic.AddInt64(&s.fired, 1)
	switch kind {
	case "panic-runtime":
		var a []int
		_ = a[len(a)+int(ev%1)] // genuine runtime.Error (index out of range)
	case "panic-error":
		panic(fmt.Errorf("verif: injected panic (error value): %w", ErrInjected))
	case "panic-string":
		panic("verif: injected panic (string value)")
	case "cancel":
		if s.Cancel != nil {
			s.Cancel()
		}
		return ""
	case "cancel-slow":
		// the context is cancelled while this callback is still running (a storage that is slow to notice)
		if s.Cancel != nil {
			s.Cancel()
		}
		time.Sleep(15 * time.Millisecond)
		return ""
	case "block":
		if ctx != nil {
			<-ctx.Done()
		}
		return ""
	}
	return kind // "error": applied by the caller where the site can report one
}

func (s *Store) Querier(ctx context.Context, mint, maxt int64) (storage.Querier, error) {
	if k := s.hit("querier", ctx); k == "error" {
		return nil, fmt.Errorf("querier: %w", s.injected())
	}
	s.mu.Lock()
	s.Opens++
	s.nextQID++
	id := s.nextQID
	s.OpenIDs[id] = 0
	if s.KeepLog {
		s.Log = append(s.Log, fmt.Sprintf("open:%d", id))
	}
	s.mu.Unlock()
	return &querier{s: s, ctx: ctx, mint: mint, maxt: maxt, id: id}, nil
}

type querier struct {
	s          *Store
	ctx        context.Context
	mint, maxt int64
	id         int64
}

func (q *querier) LabelValues(string, ...*labels.Matcher) ([]string, storage.Warnings, error) {
	return nil, nil, nil
}
func (q *querier) LabelNames(...*labels.Matcher) ([]string, storage.Warnings, error) {
	return nil, nil, nil
}

func (q *querier) Close() error {
	q.s.hit("close", nil)
	q.s.mu.Lock()
	q.s.Closes++
	q.s.OpenIDs[q.id]++
	if q.s.KeepLog {
		q.s.Log = append(q.s.Log, fmt.Sprintf("close:%d", q.id))
	}
	q.s.mu.Unlock()
	return nil
}

func matcherStrings(ms []*labels.Matcher) []string {
	out := make([]string, len(ms))
	for i, m := range ms {
		out[i] = m.String()
	}
	return out
}

func (q *querier) Select(sorted bool, hints *storage.SelectHints, ms ...*labels.Matcher) storage.SeriesSet {
	k := q.s.hit("select", q.ctx)
	var ctxErr error
	for _, m := range ms {
		if m.Name == labels.MetricName && m.Type == labels.MatchEqual {
			if q.s.SlowSelectName != "" && m.Value == q.s.SlowSelectName {
				if q.s.SlowSelectCtx && q.ctx != nil {
					// a storage that gives up when the context it was opened with is cancelled
					select {
					case <-time.After(q.s.SlowSelectDelay):
					case <-q.ctx.Done():
						ctxErr = q.ctx.Err()
					}
				} else {
					time.Sleep(q.s.SlowSelectDelay)
				}
			}
			if q.s.FailSelectName != "" && m.Value == q.s.FailSelectName {
				atomic.AddInt64(&q.s.fired, 1)
				k = "error"
			}
		}
	}
	rec := SelectRecord{Mint: q.mint, Maxt: q.maxt, Matchers: matcherStrings(ms), Raw: append([]*labels.Matcher(nil), ms...), Sorted: sorted}
	if hints != nil {
		rec.Hints = *hints
		rec.Hints.Grouping = append([]string(nil), hints.Grouping...)
		rec.HasHints = true
	}
	q.s.mu.Lock()
	q.s.Selects = append(q.s.Selects, rec)
	q.s.mu.Unlock()

	var idx []int
	for i := range q.s.Series {
		ok := true
		for _, m := range ms {
			if !m.Matches(q.s.Series[i].Labels.Get(m.Name)) {
				ok = false
				break
			}
		}
		if ok {
			idx = append(idx, i)
		}
	}
	if sorted {
		sort.SliceStable(idx, func(a, b int) bool {
			return labels.Compare(q.s.Series[idx[a]].Labels, q.s.Series[idx[b]].Labels) < 0
		})
	}
	lo, hi := int64(math.MinInt64), int64(math.MaxInt64)
	if q.s.ClipToHints {
		lo, hi = q.mint, q.maxt
		if hints != nil {
			lo, hi = hints.Start, hints.End
		}
	}
	ss := &seriesSet{q: q, idx: idx, pos: -1, lo: lo, hi: hi}
	if k == "error" {
		ss.err = fmt.Errorf("select: %w", q.s.injected())
	}
	if ctxErr != nil {
		ss.err = ctxErr
	}
	return ss
}

type seriesSet struct {
	q      *querier
	idx    []int
	pos    int
	lo, hi int64
	err    error
}

func (ss *seriesSet) Next() bool {
	if ss.err != nil {
		return false
	}
	if k := ss.q.s.hit("ss.next", ss.q.ctx); k == "error" {
		ss.err = fmt.Errorf("series set: %w", ss.q.s.injected())
		return false
	}
	ss.pos++
	return ss.pos < len(ss.idx)
}

func (ss *seriesSet) At() storage.Series {
	ss.q.s.hit("ss.at", ss.q.ctx)
	return &series{q: ss.q, d: &ss.q.s.Series[ss.idx[ss.pos]], lo: ss.lo, hi: ss.hi}
}

func (ss *seriesSet) Err() error {
	if k := ss.q.s.hit("ss.err", ss.q.ctx); k == "error" && ss.err == nil {
		ss.err = fmt.Errorf("series set err: %w", ss.q.s.injected())
	}
	return ss.err
}
func (ss *seriesSet) Warnings() storage.Warnings { return nil }

type series struct {
	q      *querier
	d      *SeriesData
	lo, hi int64
}

// Labels returns the storage's own slice: the engine must not modify it.
func (s *series) Labels() labels.Labels {
	s.q.s.hit("labels", s.q.ctx)
	return s.d.Labels
}

func (s *series) Iterator() chunkenc.Iterator {
	s.q.s.hit("iterator", s.q.ctx)
	smp := s.d.Samples
	if s.lo != math.MinInt64 || s.hi != math.MaxInt64 {
		a := sort.Search(len(smp), func(i int) bool { return smp[i].T >= s.lo })
		b := sort.Search(len(smp), func(i int) bool { return smp[i].T > s.hi })
		smp = smp[a:b]
	}
	it := &iter{q: s.q, smp: smp, pos: -1}
	if s.q.s.SlowName != "" && s.d.Labels.Get("__name__") == s.q.s.SlowName {
		it.slow = s.q.s.SlowDelay
	}
	return it
}

type iter struct {
	q    *querier
	smp  []Sample
	pos  int
	err  error
	slow time.Duration
}

func (it *iter) Next() chunkenc.ValueType {
	if it.err != nil {
		return chunkenc.ValNone
	}
	if k := it.q.s.hit("it.next", it.q.ctx); k == "error" {
		it.err = fmt.Errorf("iterator next: %w", it.q.s.injected())
		it.pos = len(it.smp)
		return chunkenc.ValNone
	}
	if it.pos < len(it.smp) {
		it.pos++
	}
	if it.pos >= len(it.smp) {
		return chunkenc.ValNone
	}
	return chunkenc.ValFloat
}

func (it *iter) Seek(t int64) chunkenc.ValueType {
	if it.err != nil {
		return chunkenc.ValNone
	}
	if it.slow > 0 {
		time.Sleep(it.slow)
	}
	if k := it.q.s.hit("it.seek", it.q.ctx); k == "error" {
		it.err = fmt.Errorf("iterator seek: %w", it.q.s.injected())
		it.pos = len(it.smp)
		return chunkenc.ValNone
	}
	if it.pos < 0 {
		it.pos = 0
	}
	for it.pos < len(it.smp) && it.smp[it.pos].T < t {
		it.pos++
	}
	if it.pos >= len(it.smp) {
		return chunkenc.ValNone
	}
	return chunkenc.ValFloat
}

func (it *iter) At() (int64, float64) {
	it.q.s.hit("it.at", it.q.ctx)
	if it.pos < 0 || it.pos >= len(it.smp) {
		return 0, 0
	}
	return it.smp[it.pos].T, it.smp[it.pos].V
}
func (it *iter) AtHistogram() (int64, *histogram.Histogram)           { return 0, nil }
func (it *iter) AtFloatHistogram() (int64, *histogram.FloatHistogram) { return 0, nil }
func (it *iter) AtT() int64 {
	if it.pos < 0 || it.pos >= len(it.smp) {
		return 0
	}
	return it.smp[it.pos].T
}
func (it *iter) Err() error {
	it.q.s.hit("it.err", it.q.ctx)
	return it.err
}

// ---- label aliasing canaries (C17) ----

const canaryName, canaryValue = "~canary~", "~do-not-touch~"

// WithCanaries re-allocates every label slice with spare capacity filled with
// canary labels, so that an in-place append or delete by the engine is visible.
func (s *Store) WithCanaries() {
	for i := range s.Series {
		l := s.Series[i].Labels
		buf := make(labels.Labels, len(l), len(l)+3)
		copy(buf, l)
		full := buf[:cap(buf)]
		for j := len(l); j < len(full); j++ {
			full[j] = labels.Label{Name: canaryName, Value: canaryValue}
		}
		s.Series[i].Labels = buf
	}
}

type storeSnapshot struct {
	labels  [][]labels.Label // including spare capacity
	lens    []int
	samples [][]Sample
}

func (s *Store) Snapshot() storeSnapshot {
	var sn storeSnapshot
	for i := range s.Series {
		l := s.Series[i].Labels
		full := l[:cap(l)]
		sn.labels = append(sn.labels, append([]labels.Label(nil), full...))
		sn.lens = append(sn.lens, len(l))
		sn.samples = append(sn.samples, append([]Sample(nil), s.Series[i].Samples...))
	}
	return sn
}

func (s *Store) DiffSnapshot(sn storeSnapshot) string {
	if len(sn.lens) != len(s.Series) {
		return "series count changed"
	}
	for i := range s.Series {
		l := s.Series[i].Labels
		if len(l) != sn.lens[i] {
			return fmt.Sprintf("series %d: label slice length changed", i)
		}
		full := l[:cap(l)]
		if len(full) != len(sn.labels[i]) {
			return fmt.Sprintf("series %d: label slice capacity changed", i)
		}
		for j := range full {
			if full[j] != sn.labels[i][j] {
				return fmt.Sprintf("series %d: label %d changed from %v to %v", i, j, sn.labels[i][j], full[j])
			}
		}
		if len(s.Series[i].Samples) != len(sn.samples[i]) {
			return fmt.Sprintf("series %d: sample count changed", i)
		}
		for j := range sn.samples[i] {
			a, b := s.Series[i].Samples[j], sn.samples[i][j]
			if a.T != b.T || math.Float64bits(a.V) != math.Float64bits(b.V) {
				return fmt.Sprintf("series %d: sample %d changed", i, j)
			}
		}
	}
	return ""
}
