package main

// Differential search oracles over generated cases. One JSON line per case is
// appended to the output file; a "start" line is written before each case so
// that the driver can attribute a process crash to the case that caused it.

import (
	"bufio"
	"encoding/json"
	"flag"
	"fmt"
	"os"
	"runtime"
	"strings"
)

type CaseResult struct {
	Kind     string   `json:"kind"` // start | done
	ID       int      `json:"id"`
	Mode     string   `json:"mode,omitempty"`
	Query    string   `json:"query,omitempty"`
	Window   Window   `json:"window,omitempty"`
	Lookback int64    `json:"lookback_ms,omitempty"`
	QLook    int64    `json:"query_lookback_ms,omitempty"`
	Procs    int      `json:"gomaxprocs,omitempty"`
	NSeries  int      `json:"n_series,omitempty"`
	Path     string   `json:"path,omitempty"` // native | fallback
	Fail     string   `json:"fail,omitempty"` // "" = property held on this case
	Impl     string   `json:"impl,omitempty"`
	Ref      string   `json:"ref,omitempty"`
	NonTriv  bool     `json:"nontrivial,omitempty"`
	Steps    int      `json:"steps,omitempty"`
	Tags     []string `json:"tags,omitempty"`
	Skipped  string   `json:"skipped,omitempty"`
	CaseFile string   `json:"case_file,omitempty"`
}

type resultWriter struct {
	f *os.File
	w *bufio.Writer
}

func newResultWriter(path string) *resultWriter {
	f, err := os.OpenFile(path, os.O_CREATE|os.O_WRONLY|os.O_APPEND, 0o644)
	must(err)
	return &resultWriter{f: f, w: bufio.NewWriter(f)}
}

func (rw *resultWriter) put(r CaseResult) {
	b, _ := json.Marshal(r)
	rw.w.Write(b)
	rw.w.WriteByte('\n')
	rw.w.Flush()
}

func trunc(s string, n int) string {
	if len(s) > n {
		return s[:n] + "…"
	}
	return s
}

func genOptsFor(profile string) GenOpts {
	o := GenOpts{MaxSeries: 12, MaxDepth: 3}
	switch profile {
	case "selector":
		o.SelectorOnly = true
		o.MaxSeries = 40
	case "deep":
		o.MaxDepth = 4
	case "model":
		o.Vocabulary = "model"
		o.IntValues = true
	case "noties":
		o.NoTies = true
	case "nostartend":
		o.NoStartEnd = true
	case "fb":
		o.Fallbacks = true
	case "pairs", "hist", "subpairs":
		o.Focus = profile
	case "selpair":
		o.Focus = profile
		o.MaxSeries = 8
	case "range", "agg", "bin", "func":
		o.Focus = profile
		o.MaxDepth = 2
	case "upper":
		// aggregations over series that also carry a label whose name starts with an upper-case letter
		o.Focus = "agg"
		o.MaxDepth = 2
		o.UpperLabel = true
	case "nans":
		// aggregations over data in which one sample in six is NaN (and none is infinite)
		o.Focus = "agg"
		o.MaxDepth = 2
		o.Specials = 6
		o.OnlyNaN = true
	}
	if strings.HasPrefix(profile, "epoch:") {
		// any profile with the window shifted so that one of its steps is at -1ms
		o = genOptsFor(strings.TrimPrefix(profile, "epoch:"))
		o.Epoch = true
	}
	return o
}

func cmdDiff(args []string) {
	fs := flag.NewFlagSet("diff", flag.ExitOnError)
	mode := fs.String("mode", "ref", "oracle")
	seed := fs.Int64("seed", 1, "seed")
	from := fs.Int("from", 0, "first case")
	to := fs.Int("to", 100, "one past the last case")
	out := fs.String("out", "", "output jsonl")
	profile := fs.String("profile", "", "generator profile")
	one := fs.String("replay", "", "replay file (json case)")
	qOverride := fs.String("query", "", "override the generated query (replay of witnesses)")
	fs.String("dump-failing", "", "directory receiving an explicit case file for every failing case")
	must(fs.Parse(args))
	rw := newResultWriter(*out)
	o := genOptsFor(*profile)
	if *mode == "instants" {
		o.NoStartEnd = true // C07 is stated for queries that do not use start()/end()
	}
	caseDir := fs.Lookup("dump-failing").Value.String()
	if *one != "" {
		c := loadCaseFile(*one)
		if *qOverride != "" {
			c.Query = *qOverride
		}
		rw.put(CaseResult{Kind: "start", ID: -1, Query: c.Query})
		res := runOracle(*mode, c)
		res.Kind, res.ID, res.Mode, res.Query, res.Window = "done", -1, *mode, c.Query, c.Window
		res.Lookback, res.QLook, res.Procs, res.NSeries = c.Lookback, c.QLookback, c.Procs, len(c.Data)
		res.Steps = len(c.Window.Grid())
		rw.put(res)
		return
	}
	for id := *from; id < *to; id++ {
		if f, ok := faultOracles[*mode]; ok {
			rw.put(CaseResult{Kind: "start", ID: id, Query: *mode})
			res := f(*seed, id)
			res.Kind, res.ID, res.Mode = "done", id, *mode
			if res.Steps == 0 {
				res.Steps = len(res.Window.Grid())
			}
			rw.put(res)
			continue
		}
		c := genCase(*seed, id, o)
		if *qOverride != "" {
			c.Query = *qOverride
		}
		rw.put(CaseResult{Kind: "start", ID: id, Query: c.Query})
		res := runOracle(*mode, c)
		res.Kind, res.ID, res.Mode, res.Query, res.Window = "done", id, *mode, c.Query, c.Window
		res.Lookback, res.QLook, res.Procs, res.NSeries = c.Lookback, c.QLookback, c.Procs, len(c.Data)
		res.Steps = len(c.Window.Grid())
		if res.Fail != "" && caseDir != "" {
			res.CaseFile = fmt.Sprintf("%s/case_%s_%s_%d_%d.json", caseDir, *mode, *profile, *seed, id)
			writeCaseFile(res.CaseFile, c)
		}
		rw.put(res)
	}
}

func init() { commands["diff"] = cmdDiff }

func runOracle(mode string, c *Case) CaseResult {
	switch mode {
	case "ref":
		return oracleRef(c)
	case "instants":
		return oracleInstants(c)
	case "opt":
		return oracleOpt(c)
	case "procs":
		return oracleProcs(c)
	case "perm":
		return oraclePerm(c)
	case "wf":
		return oracleWF(c)
	case "hints":
		return oracleHints(c)
	case "dist":
		return oracleDist(c)
	}
	if f, ok := extraOracles[mode]; ok {
		return f(c)
	}
	fatal(fmt.Errorf("unknown oracle mode %q", mode))
	return CaseResult{}
}

// oracleRef: the engine under test against the reference engine on the same
// storage (C01 and its per-construct refinements C02..C06).
func oracleRef(c *Case) CaseResult {
	runtime.GOMAXPROCS(c.Procs)
	st := NewStore(c.Data)
	// every third case on a storage that returns only the samples each select asked for (as a TSDB
	// does): both engines must then still agree
	st.ClipToHints = c.ID%3 == 1
	cfg := c.Cfg()
	impl, path := runQuery(newImpl(cfg), st, cfg, c.Query, c.Window)
	ref, _ := runQuery(newRef(cfg), st, cfg, c.Query, c.Window)
	res := CaseResult{Path: path, NonTriv: ref.NonTrivial()}
	if impl.Err == "create" && ref.Err == "create" {
		res.Skipped = "both reject at creation"
		return res
	}
	d := diffCanon(impl, ref, false)
	if d == "" && impl.Kind == "error" && ref.Kind == "error" && errGroup(impl.Err) != errGroup(ref.Err) {
		d = "error class " + impl.Err + " vs " + ref.Err
	}
	if d != "" {
		res.Fail = d
		res.Impl, res.Ref = trunc(impl.String(), 600), trunc(ref.String(), 600)
		res.Tags = classifyRefFailure(c, impl, ref)
	}
	return res
}

// errGroup merges error classes that the property does not distinguish.
func errGroup(c string) string {
	switch c {
	case "many-to-many", "multiple-matches":
		return "matching"
	}
	return c
}

var _ = strings.Contains

var faultOracles = map[string]func(seed int64, id int) CaseResult{
	"panic":        func(s int64, i int) CaseResult { return oracleFault(s, i, "panic") },
	"storerr":      func(s int64, i int) CaseResult { return oracleFault(s, i, "storerr") },
	"lifecycle":    func(s int64, i int) CaseResult { return oracleFault(s, i, "lifecycle") },
	"extreme":      oracleExtreme,
	"cancel":       oracleCancel,
	"cancelstress": oracleCancelStress,
	"conc":         oracleConc,
	"hist":         oracleHist,
}
