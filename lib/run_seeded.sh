#!/bin/bash
# Applies every seeded change under /verif/seeded to /repo in turn, runs the
# quick checks named in its meta.json (detected_by; the property's own check
# when none is named) and reports which of them raise a VIOLATION. /repo is
# restored after each change. Usage: lib/run_seeded.sh [name ...]
cd /verif
# VERIF_REPO (default /repo): the tree the change is applied to and the checks build against; a scratch
# worktree of /repo can be used while /repo itself must stay untouched (a background run reads it)
R=${VERIF_REPO:-/repo}
names=${@:-$(ls -d seeded/*/ | xargs -n1 basename)}
if [ -n "$(git -C $R status --porcelain)" ]; then echo "$R is not clean"; exit 2; fi
for n in $names; do
  d=seeded/$n
  prop=$(python3 -c "import json;print(json.load(open('$d/meta.json'))['property'])")
  checks=$(python3 -c "
import json,re
m=json.load(open('$d/meta.json'))
ids=[]
for s in m.get('detected_by',[]):
    for c in re.findall(r'C\d\d',s):
        if c not in ids: ids.append(c)
print(' '.join(ids or [m['property']]))")
  obs=$(python3 -c "import json;print(json.load(open('$d/meta.json')).get('obsolete_after',''))")
  if [ -n "$obs" ] && git -C $R merge-base --is-ancestor $obs HEAD 2>/dev/null; then echo "$n ($prop): obsolete after $obs (no longer breaks the property)"; continue; fi
  if ! git -C $R apply $PWD/$d/patch.diff 2>/dev/null; then echo "$n: patch does not apply"; continue; fi
  res=""
  for c in $checks; do
    out=$(./check $c --tier quick 2>&1 | grep -E "^(VIOLATION|CHECK-ERROR)" | head -1)
    if [ -n "$out" ]; then res="$res $c:${out%% *}"; else res="$res $c:quiet"; fi
  done
  git -C $R checkout -- . ; git -C $R clean -fdq
  echo "$n ($prop):$res"
done
