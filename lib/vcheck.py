"""Shared infrastructure of the /verif checks.

One check run = obligations (Coq build + assumption audit) -> correspondence
(model evaluated inside Coq on the implementation's recorded inputs/outputs)
-> search (direct oracle on the implementation) -> verdict + evidence.
"""
import fcntl
import hashlib
import json
import os
import re
import shutil
import subprocess
import sys
import time
from concurrent.futures import ThreadPoolExecutor

VERIF = os.path.dirname(os.path.dirname(os.path.abspath(__file__)))
REPO = os.environ.get("VERIF_REPO", "/repo")
WORK = os.environ.get("VERIF_WORK", os.path.join(VERIF, "work"))
COQ = os.path.join(VERIF, "coq")
HARNESS = os.path.join(VERIF, "harness")
EVIDENCE = os.path.join(VERIF, "evidence")
REPLAYS = os.path.join(VERIF, "replays")

GOENV = dict(os.environ, GOFLAGS="-mod=mod", GOPROXY="off", GOSUMDB="off", GOTOOLCHAIN="local",
             CGO_ENABLED=os.environ.get("CGO_ENABLED", "1"))

ALLOWED_AXIOM_PREFIXES = (
    # Coq primitives listed by Print Assumptions (not declared axioms)
    "PrimFloat.", "Uint63.", "float", "int", "FloatOps.", "SpecFloat.", "PrimInt63.", "Sint63.",
)


class CheckError(Exception):
    pass


def log(msg):
    print(msg, flush=True)


def run(cmd, cwd=None, env=None, timeout=None, check=True, capture=True):
    p = subprocess.run(cmd, cwd=cwd, env=env, timeout=timeout, text=True,
                       stdout=subprocess.PIPE if capture else None,
                       stderr=subprocess.STDOUT if capture else None)
    if check and p.returncode != 0:
        raise CheckError("command failed (%d): %s\n%s" % (p.returncode, " ".join(cmd), (p.stdout or "")[-4000:]))
    return p


class Lock:
    def __init__(self, name):
        os.makedirs(WORK, exist_ok=True)
        self.path = os.path.join(WORK, name + ".lock")

    def __enter__(self):
        self.f = open(self.path, "w")
        fcntl.flock(self.f, fcntl.LOCK_EX)
        return self

    def __exit__(self, *a):
        fcntl.flock(self.f, fcntl.LOCK_UN)
        self.f.close()


# --------------------------------------------------------------------------
# builds

def build_harness(race=False):
    """Builds the harness against REPO's current working tree (tag verif)."""
    os.makedirs(WORK, exist_ok=True)
    name = "vharness-race" if race else "vharness"
    out = os.path.join(WORK, name)
    with Lock("gobuild"):
        modfile = os.path.join(WORK, "go.verif.mod")
        with open(os.path.join(HARNESS, "go.mod")) as f:
            mod = f.read()
        mod = re.sub(r"=> /repo\b", "=> " + REPO, mod)
        if not os.path.exists(modfile) or open(modfile).read() != mod:
            with open(modfile, "w") as f:
                f.write(mod)
        shutil.copyfile(os.path.join(REPO, "go.sum"), os.path.join(WORK, "go.verif.sum"))
        cmd = ["go", "build", "-tags", "verif", "-modfile", modfile, "-o", out]
        if race:
            cmd.insert(2, "-race")
        cmd.append(".")
        t0 = time.time()
        p = run(cmd, cwd=HARNESS, env=GOENV, timeout=1200, check=False)
        if p.returncode != 0:
            raise CheckError("harness build failed against %s:\n%s" % (REPO, p.stdout[-6000:]))
        return out, time.time() - t0


def strip_coq_comments(s):
    out, depth, i = [], 0, 0
    while i < len(s):
        if s.startswith("(*", i):
            depth += 1
            i += 2
        elif s.startswith("*)", i) and depth > 0:
            depth -= 1
            i += 2
        else:
            if depth == 0:
                out.append(s[i])
            i += 1
    return "".join(out)


FORBIDDEN = re.compile(
    r"\b(Admitted|admit|Axiom|Axioms|Parameter|Parameters|Conjecture|Conjectures|Admit\s+Obligations|bypass_check|native_compute)\b"
    r"|Unset\s+Guard|Unset\s+Positivity|Unset\s+Universe\s+Checking|type-in-type|impredicative-set")


def audit_sources():
    """No Admitted/admit/Axiom/Parameter/..., no Hypothesis/Variable outside a section."""
    problems = []
    for root, _, files in os.walk(COQ):
        for fn in files:
            if not fn.endswith(".v") or fn.startswith("cases_"):
                continue
            path = os.path.join(root, fn)
            src = strip_coq_comments(open(path).read())
            # remove string literals
            src_ns = re.sub(r'"(?:[^"]|"")*"', '""', src)
            for m in FORBIDDEN.finditer(src_ns):
                problems.append("%s: forbidden token %r" % (os.path.relpath(path, VERIF), m.group(0)))
            depth = 0
            for line in src_ns.split("\n"):
                if re.match(r"\s*Section\b", line):
                    depth += 1
                elif re.match(r"\s*End\b", line) and depth > 0:
                    depth -= 1
                elif depth == 0 and re.match(r"\s*(Hypothesis|Hypotheses|Variable|Variables|Context)\b", line):
                    problems.append("%s: %s outside a section" % (os.path.relpath(path, VERIF), line.strip()[:60]))
    for fn in ("_CoqProject",):
        txt = open(os.path.join(COQ, fn)).read()
        if FORBIDDEN.search(txt):
            problems.append("_CoqProject: forbidden flag")
    return problems


def build_coq(harness_bin):
    """Regenerates Generated.v from the built code and runs a full .vo build."""
    with Lock("coqbuild"):
        tmp = os.path.join(WORK, "Generated.v.new")
        run([harness_bin, "tables", tmp], timeout=120)
        gen = os.path.join(COQ, "Generated.v")
        regenerated = False
        if not os.path.exists(gen) or open(gen).read() != open(tmp).read():
            shutil.copyfile(tmp, gen)
            regenerated = True
        if not os.path.exists(os.path.join(COQ, "Makefile.coq")) or \
                os.path.getmtime(os.path.join(COQ, "Makefile.coq")) < os.path.getmtime(os.path.join(COQ, "_CoqProject")):
            run(["coq_makefile", "-f", "_CoqProject", "-o", "Makefile.coq"], cwd=COQ, timeout=60)
        t0 = time.time()
        p = run(["timeout", "1500", "make", "-f", "Makefile.coq", "-j16"], cwd=COQ, timeout=1600, check=False)
        return {"ok": p.returncode == 0, "log": p.stdout[-6000:], "wall_s": time.time() - t0,
                "generated_changed": regenerated}


def theorem_names(prop):
    src = strip_coq_comments(open(os.path.join(COQ, "Props", prop + ".v")).read())
    return re.findall(r"^\s*(?:Theorem|Corollary)\s+([A-Za-z0-9_']+)", src, re.M)


def print_assumptions(prop):
    """Re-compiles Props/<prop>.v (output discarded) and parses Print Assumptions."""
    wd = os.path.join(WORK, prop)
    os.makedirs(wd, exist_ok=True)
    p = run(["timeout", "600", "coqc", "-Q", COQ, "Verif", "-o", os.path.join(wd, prop + ".vo"),
             os.path.join(COQ, "Props", prop + ".v")], timeout=700, check=False)
    names = theorem_names(prop)
    if p.returncode != 0:
        return {"ok": False, "theorems": names, "closed": [], "axioms": {}, "log": p.stdout[-4000:]}
    # blocks are printed in order, one per Print Assumptions
    blocks = re.split(r"(?=Closed under the global context|Axioms:)", p.stdout)
    blocks = [b for b in blocks if b.startswith("Closed") or b.startswith("Axioms:")]
    closed, axioms = [], {}
    for name, b in zip(names, blocks):
        if b.startswith("Closed"):
            closed.append(name)
        else:
            ax = re.findall(r"^([A-Za-z_][A-Za-z0-9_.']*)\s*:", b, re.M)
            axioms[name] = ax
    return {"ok": len(blocks) == len(names), "theorems": names, "closed": closed, "axioms": axioms, "log": ""}


def axioms_allowed(axs):
    bad = []
    for a in axs:
        if not any(a.startswith(p) or a == p for p in ALLOWED_AXIOM_PREFIXES):
            bad.append(a)
    return bad


def obligations(prop, harness_bin):
    """Step 1 of a check: returns (info dict, list of failure strings)."""
    fails = []
    b = build_coq(harness_bin)
    if not b["ok"]:
        fails.append("coq build failed: " + b["log"][-1500:])
    aud = audit_sources()
    fails += aud
    pa = {"theorems": theorem_names(prop), "closed": [], "axioms": {}, "ok": False}
    if b["ok"]:
        pa = print_assumptions(prop)
        if not pa["ok"]:
            fails.append("Print Assumptions output incomplete for %s: %s" % (prop, pa.get("log", "")[-500:]))
        for th, axs in pa["axioms"].items():
            badax = axioms_allowed(axs)
            if badax:
                fails.append("theorem %s depends on axioms %s" % (th, badax))
    n = len(pa["theorems"])
    discharged = 0 if fails else n
    info = {"theorems": pa["theorems"], "obligations": n, "discharged": discharged,
            "closed_under_global_context": pa["closed"], "primitive_assumptions": pa["axioms"],
            "coq_build_s": round(b["wall_s"], 2), "generated_tables_changed": b["generated_changed"]}
    return info, fails


# --------------------------------------------------------------------------
# evaluating generated case files inside Coq

def eval_case_file(path):
    wd = os.path.dirname(path)
    p = run(["timeout", "900", "coqc", "-Q", COQ, "Verif", os.path.basename(path)], cwd=wd, timeout=1000, check=False)
    out = p.stdout
    if p.returncode != 0:
        return {"file": path, "ok": False, "bad": None, "log": out[-3000:]}
    m = re.search(r"bad\s*=\s*(\[[^\]]*\])", out, re.S)
    if not m:
        return {"file": path, "ok": False, "bad": None, "log": out[-3000:]}
    ids = re.findall(r"(\d+)%?N?", m.group(1))
    return {"file": path, "ok": True, "bad": [int(x) for x in ids], "log": ""}


def eval_case_files(paths, jobs=16):
    with ThreadPoolExecutor(max_workers=jobs) as ex:
        return list(ex.map(eval_case_file, paths))


# --------------------------------------------------------------------------
# known findings, evidence, verdict

def load_known():
    path = os.path.join(VERIF, "known_findings.json")
    if not os.path.exists(path):
        return []
    return json.load(open(path)).get("findings", [])


def write_replay(prop, name, obj):
    os.makedirs(REPLAYS, exist_ok=True)
    path = os.path.join(REPLAYS, "%s_%s.json" % (prop, name))
    with open(path, "w") as f:
        json.dump(obj, f, indent=1, default=str)
    return path


def write_evidence(prop, tier, seed, coverage, wall_s, violations, assumptions):
    os.makedirs(EVIDENCE, exist_ok=True)
    ev = {"property_id": prop, "tier": tier, "seed": int(seed), "level": "proof",
          "coverage": coverage, "assumptions": assumptions, "wall_s": round(wall_s, 2),
          "violations": int(violations)}
    path = os.path.join(EVIDENCE, prop + ".json")
    tmp = path + ".tmp"
    with open(tmp, "w") as f:
        json.dump(ev, f, indent=1, default=str)
    os.replace(tmp, path)
    return path


TRUSTED_BASE = [
    "Coq 8.16.1 kernel; vm_compute (bytecode VM) for evaluating generated cases; no native_compute",
    "no declared axioms; Print Assumptions per property theorem recorded in this file",
    "Coq's primitive floats (hardware IEEE binary64 under vm_compute) only in the case evaluators of the correspondence checks "
    "(BinCases, FuncCases, TopkCases, BucketCases, AggFloat, the float instance of RangeFns), never in a theorem; the exact-arithmetic theorems use the standard library's rationals (QArith, and Qcanon for Leibniz equality), which declare no axioms; coqchk -o over all Props: Axioms <none>",
    "correspondence check: Go harness (generators, instrumented storage, serialisation of cases to Gallina, canonicalisation)",
    "Generated.v table generator (reflection over exported maps and probing of exported constructors)",
    "model is hand-written; parts of the code modelled rather than verified are listed in DESIGN.md section 6",
]


class Verdict:
    """Collects violations / known findings and produces the exit status."""

    def __init__(self, prop):
        self.prop = prop
        self.violations = []   # (replay_path, suffix)
        self.known = []

    def violation(self, replay_path, no_input=False):
        self.violations.append((replay_path, no_input))

    def known_finding(self, text):
        self.known.append(text)

    def finish(self):
        for k in self.known:
            log("KNOWN-FINDING: property=%s %s" % (self.prop, k))
        for path, no_input in self.violations:
            log("VIOLATION property=%s replay=%s%s" % (self.prop, path, " no-failing-input-found" if no_input else ""))
        return 1 if self.violations else 0


# --------------------------------------------------------------------------
# parallel sweeps of harness oracles with crash attribution

def _run_range(hbin, sub, args, lo, hi, out, timeout_s, extra_env=None):
    """Runs cases [lo,hi) in a child; on a crash, attributes it to the case that
    had started and resumes after it. Returns list of crash records."""
    crashes = []
    cur = lo
    env = dict(os.environ)
    if extra_env:
        env.update(extra_env)
    while cur < hi:
        cmd = [hbin, sub] + args + ["--from", str(cur), "--to", str(hi), "--out", out]
        try:
            p = subprocess.run(cmd, stdout=subprocess.PIPE, stderr=subprocess.STDOUT, text=True, timeout=timeout_s, env=env)
            rc, tail = p.returncode, (p.stdout or "")[-3000:]
        except subprocess.TimeoutExpired as e:
            rc, tail = -9, "timeout after %ss: %s" % (timeout_s, (e.stdout or "")[-1500:] if isinstance(e.stdout, str) else "")
        if rc == 0:
            break
        # find the last started case
        last = None
        try:
            with open(out) as f:
                for line in f:
                    try:
                        r = json.loads(line)
                    except ValueError:
                        continue
                    if r.get("kind") == "start":
                        last = r
                    elif r.get("kind") == "done" and last and r.get("id") == last.get("id"):
                        last = None
        except FileNotFoundError:
            pass
        if last is None:
            crashes.append({"id": cur, "query": "?", "exit": rc, "output": tail, "unattributed": True})
            cur += 1
        else:
            crashes.append({"id": last["id"], "query": last.get("query"), "exit": rc, "output": tail})
            cur = last["id"] + 1
    return crashes


def sweep(hbin, sub, args, n, wd, tag, jobs=16, timeout_s=900, extra_env=None):
    """Runs `hbin sub args --from a --to b --out f` over n cases in `jobs` children."""
    jobs = max(1, min(jobs, n))
    per = (n + jobs - 1) // jobs
    ranges = [(i * per, min(n, (i + 1) * per)) for i in range(jobs) if i * per < n]
    outs = [os.path.join(wd, "report_%s_%d.jsonl" % (tag, i)) for i in range(len(ranges))]
    for o in outs:
        if os.path.exists(o):
            os.remove(o)
    with ThreadPoolExecutor(max_workers=len(ranges)) as ex:
        crash_lists = list(ex.map(lambda a: _run_range(hbin, sub, args, a[0][0], a[0][1], a[1], timeout_s, extra_env), zip(ranges, outs)))
    results = []
    for o in outs:
        if os.path.exists(o):
            with open(o) as f:
                for line in f:
                    try:
                        r = json.loads(line)
                    except ValueError:
                        continue
                    if r.get("kind") == "done":
                        results.append(r)
    crashes = [c for cl in crash_lists for c in cl]
    return results, crashes
