#!/bin/bash
# Runs lib/run_seeded.sh over all seeded changes (or the given names) with several workers, each on
# its own scratch worktree of /repo and its own work directory; a worker owns whole properties, so
# no two workers write the same evidence file. Usage: lib/run_seeded_parallel.sh [-j N] [name ...]
# The evidence files are overwritten by these runs (they describe runs on changed trees): regenerate
# them on the clean tree afterwards.
cd /verif
J=5
if [ "$1" = "-j" ]; then J=$2; shift 2; fi
names=${@:-$(ls -d seeded/*/ | xargs -n1 basename)}
out=/tmp/rsp_$$; mkdir -p $out
for k in $(seq 0 $((J-1))); do : > $out/list_$k; done
for n in $names; do
  prop=$(python3 -c "import json;print(json.load(open('seeded/$n/meta.json'))['property'])")
  k=$(( (10#${prop#C}) % J ))
  echo $n >> $out/list_$k
done
pids=""
for k in $(seq 0 $((J-1))); do
  [ -s $out/list_$k ] || continue
  wt=$out/repo_$k
  git -C /repo worktree add --detach $wt HEAD >/dev/null 2>&1
  ( VERIF_REPO=$wt VERIF_WORK=$out/work_$k lib/run_seeded.sh $(cat $out/list_$k) > $out/log_$k 2>&1 ) &
  pids="$pids $!"
done
wait $pids
cat $out/log_* | sort
for k in $(seq 0 $((J-1))); do git -C /repo worktree remove --force $out/repo_$k 2>/dev/null; done
rm -rf $out
