"""Per-property check logic. Each function returns the process exit status."""
import glob
import json
import os
import time

from vcheck import (CheckError, TRUSTED_BASE, Verdict, WORK, build_harness, eval_case_files, load_known, log,
                    obligations, run, write_evidence, write_replay)


def _workdir(prop):
    wd = os.path.join(WORK, prop)
    os.makedirs(wd, exist_ok=True)
    for f in glob.glob(os.path.join(wd, "cases_*")) + glob.glob(os.path.join(wd, "report_*")) + glob.glob(os.path.join(wd, ".cases_*")):
        os.remove(f)
    return wd


def _obligation_failures(prop, verdict, ob_fails, extra=None):
    """A failed proof obligation with no failing input found so far."""
    if not ob_fails:
        return
    path = write_replay(prop, "obligation", {"kind": "proof-obligation", "failures": ob_fails, "note": extra or ""})
    verdict.violation(path, no_input=True)


def check_C08(tier, seed, replay=None):
    prop = "C08"
    t0 = time.time()
    v = Verdict(prop)
    hbin, _ = build_harness()
    ob, ob_fails = obligations(prop, hbin)
    wd = _workdir(prop)
    run([hbin, "plan", wd, tier], timeout=1800)
    rep = json.load(open(os.path.join(wd, "report_C08.json")))
    cases = {c["id"]: c for c in rep["cases"]}

    # correspondence: model evaluated inside Coq on the recorded ASTs/outcomes
    files = sorted(glob.glob(os.path.join(wd, "cases_C08_*.v")))
    res = eval_case_files(files)
    corr_fail, corr_err = [], []
    for r in res:
        if not r["ok"]:
            corr_err.append(r)
        else:
            corr_fail += r["bad"]

    # search: direct oracle on the implementation
    oracle_fail = [c for c in rep["cases"] if c.get("oracle")]
    for c in oracle_fail[:5]:
        path = write_replay(prop, "case%d" % c["id"], {"kind": "direct-oracle", "case": c})
        v.violation(path)
    if not oracle_fail:
        if corr_err:
            path = write_replay(prop, "correspondence_error", {"kind": "correspondence", "what": "model evaluation failed",
                                                                 "logs": [r["log"] for r in corr_err][:3]})
            v.violation(path, no_input=True)
        elif corr_fail:
            bad = [cases[i] for i in corr_fail[:10] if i in cases]
            path = write_replay(prop, "correspondence", {
                "kind": "correspondence", "theorem_domain": "Plan.new_query / Plan.counter_delta vs engine.New*Query",
                "what": "model and implementation disagree on the creation outcome; no property violation found by the direct oracle",
                "cases": bad})
            v.violation(path, no_input=True)
        _obligation_failures(prop, v, ob_fails)
    elif ob_fails:
        log("note: proof obligations also failed: %s" % ob_fails[:3])

    nontrivial = len({(c["query"], c["range"]) for c in rep["cases"] if c["outcome"] != "Native"})
    samples = [{k: c[k] for k in ("query", "range", "fallback", "outcome", "d_false", "d_true")} for c in rep["cases"][:: max(1, len(rep["cases"]) // 12)]][:12]
    cov = {
        "obligations": ob["obligations"], "discharged": ob["discharged"],
        "checker_cmd": "make -C coq -f Makefile.coq (full .vo build) ; coqc Props/C08.v (Print Assumptions) ; coqc cases_C08_*.v (vm_compute)",
        "trusted_base": TRUSTED_BASE,
        "theorems": ob["theorems"], "closed_under_global_context": ob["closed_under_global_context"],
        "primitive_assumptions": ob["primitive_assumptions"],
        "evaluations": len(rep["cases"]), "distinct_nontrivial": nontrivial,
        "rule": "every function of parser.Functions, aggregation operator, binary/set operator with modifiers, subquery, string literal, "
                "range vector, in every position template that type-checks, x instant/range x fallback on/off; "
                "non-trivial = distinct (query, window kind) whose outcome is not Native (fallback or rejected)",
        "exhaustive": True,
        "samples": samples,
        "correspondence": {"model": "Plan.new_query, Plan.counter_delta", "cases": rep["coq_cases"], "shards": rep["shards"],
                           "disagreements": len(corr_fail), "evaluation_errors": len(corr_err)},
        "search": {"oracle": "creation outcome vs reference acceptance, counter deltas, fallback result == reference result",
                   "queries": rep["queries"], "native": rep["native"], "fallback": rep["fallback"], "rejected": rep["rejected"],
                   "fallback_results_compared_with_reference": rep["exec_compared"], "oracle_failures": len(oracle_fail)},
        "known_findings_printed": v.known,
    }
    write_evidence(prop, tier, seed, cov, time.time() - t0, len(v.violations),
                   ["xxhash collisions, int64 overflow and the parser itself are outside the model",
                    "the planned AST handed to the model is produced by the real logicalplan.New/Optimize"])
    return v.finish()


# ---------------------------------------------------------------------------
# reference-equality family (C01..C06): engine vs reference engine on generated
# cases, known findings classified by the guards computed in harness/classify.go

# topk-tie: the reference engine itself is not a function of its inputs there.
# variance-conditioning: top-level stddev/stdvar whose difference is within the conditioning of the variance
# (absolute 1e-12 * n * max|x|^2 on the variance); a relative tolerance on a variance of nearly equal values is meaningless.
# ill-conditioned: a value-only difference on a case where the reference's own result moves by more than the tolerance
# when every stored value is multiplied by (1 + 1e-13).
SKIP_TAGS = {"topk-tie", "variance-conditioning", "ill-conditioned"}


def known_by_tag(prop):
    return {f["tag"]: f for f in load_known() if f.get("status") == "open" and prop in f.get("properties", [])}


def classify_failures(prop, v, fails, crashes, max_replays=5):
    """Attributes failing cases to known findings (by guard tag) or reports them."""
    known = known_by_tag(prop)
    hits, new, skipped = {}, [], 0
    for r in fails:
        tags = r.get("tags") or []
        if any(t in SKIP_TAGS for t in tags):
            skipped += 1
            continue
        kt = [t for t in tags if t in known]
        if kt:
            for t in kt[:1]:
                hits.setdefault(t, []).append(r)
        else:
            new.append(r)
    for t, rs in sorted(hits.items()):
        f = known[t]
        v.known_finding("%s [%s] %s (%d cases this run, e.g. %s)" % (f["id"], t, f["what"], len(rs), rs[0]["query"][:80]))
    for r in new[:max_replays]:
        obj = {"kind": "direct-oracle", "case": r, "seed": int(os.environ.get("VERIF_SEED", "1") or "1")}
        cf = r.get("case_file")
        if cf and os.path.exists(cf):
            try:
                obj["case_data"] = json.load(open(cf))   # the explicit case: query, window, options, series
            except Exception:
                pass
        path = write_replay(prop, "%s_case%d" % (r.get("mode", "x"), r["id"]), obj)
        v.violation(path)
    for c in crashes[:max_replays]:
        path = write_replay(prop, "crash%d" % c["id"], {"kind": "process-crash", "case": c})
        v.violation(path)
    return {t: len(rs) for t, rs in hits.items()}, len(new), skipped


def replay_one(prop, path):
    """Replays one recorded failing case on the current tree. Returns an exit status, or None when the
    replay file does not name a single case of a harness oracle (then the whole check is run)."""
    try:
        j = json.load(open(path))
    except Exception:
        return None
    c = j.get("case") or {}
    mode = c.get("mode")
    if j.get("kind") != "direct-oracle" or not mode or "id" not in c:
        return None
    hbin, _ = build_harness(race=(prop == "C12"))
    wd = _workdir(prop)
    out = os.path.join(wd, "replay_out.jsonl")
    if os.path.exists(out):
        os.remove(out)
    if j.get("case_data"):
        tmp = os.path.join(wd, "replay_case.json")
        json.dump(j["case_data"], open(tmp, "w"))
        cmd = [hbin, "diff", "--mode", mode, "--replay", tmp, "--out", out]
    else:
        cmd = [hbin, "diff", "--mode", mode, "--profile", c.get("profile", "") or "", "--seed", str(j.get("seed", 1)),
               "--from", str(c["id"]), "--to", str(c["id"] + 1), "--out", out]
    pr = run(cmd, timeout=900, check=False)
    res = None
    if os.path.exists(out):
        for line in open(out):
            try:
                d = json.loads(line)
            except Exception:
                continue
            if d.get("kind") == "done":
                res = d
    if res is None:
        log("VIOLATION property=%s replay=%s" % (prop, path))
        log("replay: the harness did not finish the case (crash): %s" % (pr.stdout or "")[-400:])
        return 1
    if not res.get("fail"):
        log("replay: the case does not fail on this tree")
        return 0
    tags = res.get("tags") or []
    known = known_by_tag(prop)
    if any(t in SKIP_TAGS for t in tags):
        log("replay: the case differs only within the conditioning of its inputs (%s)" % ", ".join(tags))
        return 0
    kt = [t for t in tags if t in known]
    if kt:
        f = known[kt[0]]
        log("KNOWN-FINDING: property=%s %s [%s] %s" % (prop, f["id"], kt[0], f["what"]))
        return 0
    log("replay: %s" % res.get("fail"))
    log("VIOLATION property=%s replay=%s" % (prop, path))
    return 1


def run_ref_sweeps(hbin, wd, seed, plan, extra_env=None, jobs=16, timeout_s=900):
    """plan: list of (profile, n) [mode ref] or (mode, profile, n). Returns results, crashes, stats."""
    from vcheck import sweep
    allres, allcr, stats = [], [], {}
    for entry in plan:
        mode, profile, n = ("ref",) + tuple(entry) if len(entry) == 2 else entry
        res, cr = sweep(hbin, "diff", ["--mode", mode, "--profile", profile, "--seed", str(seed), "--dump-failing", wd], n, wd,
                        "%s_%s" % (mode, profile or "full"), jobs=jobs, timeout_s=timeout_s, extra_env=extra_env)
        for r in res:
            r["profile"] = profile
        allres += res
        allcr += cr
        stats["%s/%s" % (mode, profile or "full")] = {
            "cases": len(res), "native": sum(1 for r in res if r.get("path") == "native"),
            "nontrivial": sum(1 for r in res if r.get("nontrivial")),
            "skipped": sum(1 for r in res if r.get("skipped")),
            "failing": sum(1 for r in res if r.get("fail")),
            "steps_gt_batch": sum(1 for r in res if r.get("steps", 0) > 10),
            "instant": sum(1 for r in res if r.get("steps", 0) == 1),
        }
    return allres, allcr, stats


def replay_witnesses(hbin, wd, prop):
    """Known findings must still fail on their witness; reports stale entries."""
    notes = []
    for f in load_known():
        if f.get("status") != "open" or prop not in f.get("properties", []) or "witness" not in f:
            continue
        w = f["witness"]
        out = os.path.join(wd, "report_witness_%s.jsonl" % f["id"])
        if os.path.exists(out):
            os.remove(out)
        from vcheck import VERIF
        run([hbin, "diff", "--mode", w.get("mode", "ref"), "--replay", os.path.join(VERIF, w["case_file"]), "--out", out],
            timeout=120, check=False)
        ok = False
        try:
            for line in open(out):
                r = json.loads(line)
                if r.get("kind") == "done" and r.get("fail") and f["tag"] in (r.get("tags") or []):
                    ok = True
        except (OSError, ValueError):
            pass
        if not ok:
            notes.append("STALE-FINDING %s: its witness %s no longer fails with tag %s" % (f["id"], w["case_file"], f["tag"]))
    return notes


def replay_regressions(hbin, wd, prop):
    """Runs the regression corpus (minimised inputs of repaired defects) that applies to prop; returns result rows."""
    from vcheck import VERIF
    idx_path = os.path.join(VERIF, "corpus", "regress", "INDEX.json")
    rows = []
    if not os.path.exists(idx_path):
        return rows
    for name, meta in sorted(json.load(open(idx_path)).items()):
        if prop not in meta.get("properties", []):
            continue
        out = os.path.join(wd, "report_regress_%s.jsonl" % name.replace(".json", ""))
        if os.path.exists(out):
            os.remove(out)
        p = run([hbin, "diff", "--mode", meta.get("mode", "ref"), "--replay", os.path.join(VERIF, "corpus", "regress", name), "--out", out],
                timeout=300, check=False)
        got = False
        try:
            for line in open(out):
                r = json.loads(line)
                if r.get("kind") == "done":
                    r["profile"] = "regress"
                    r["case_file"] = os.path.join(VERIF, "corpus", "regress", name)
                    rows.append(r)
                    got = True
        except (OSError, ValueError):
            pass
        if not got:
            raise CheckError("regression case %s produced no result (exit %s)" % (name, p.returncode))
    return rows


ORACLE_TEXT = {
    "ref": "engine result == reference engine result (type, label sets, timestamps, values within 1e-9 relative, error parity)",
    "instants": "range result at t == instant query at t for every grid t, no off-grid points, sub-window == restriction",
    "opt": "result with optimizer sets {default, all, each alone, reordered} == result with no optimizers",
    "procs": "result at GOMAXPROCS 1..16, with unrelated series added, under injected yields and on repetition == base result",
    "perm": "result under random permutations of the storage's series order == base result",
    "hints": "recorded storage selects (matchers, hinted range, step, range, func, grouping, by) == reference engine's; result unchanged when the storage omits samples outside the hinted range, for optimizer sets none/default/all",
    "dist": "distributed engine over a random disjoint partition (1..4 engines, possibly empty) == central engine over the union",
    "panic": "a panic (runtime error, error value, string value) injected at the k-th storage callback of any site becomes the query's error; the process survives; goroutines are gone after Close; a later query is unaffected",
    "extreme": "extreme parameters and degenerate data: no crash, result == reference engine",
    "storerr": "an error injected at the k-th storage interaction (Querier, Select, SeriesSet.Next/Err, Iterator Seek/Next) yields a result error wrapping it (errors.Is)",
    "lifecycle": "no storage callback between creation and Exec; when Exec returns every querier opened has been closed exactly once, for normal completion, error, panic and cancellation at the k-th callback; canary-padded shared label slices and samples unchanged",
    "cancel": "cancellation at the k-th callback / blocking storage / timer / Cancel() racing Exec: Exec returns within 5 s with the context's error or the complete result; goroutines gone 3 s after Close",
    "cancelstress": "4000 runs per case with cancellation after 0-400 us: a successful result is the complete one",
    "conc": "K in {2,8,32} concurrent queries (native, fallback, distributed) on one engine under the race detector: no race report, every result == solo result",
    "hist": "histories of 10-50 operations (queries incl. failing/cancelled/fallback, appends, new series): result == fresh engine on current data; every earlier result == its snapshot after every operation",
    "stream": "a monitoring wrapper on every operator edge of the real plan (via the verif-tagged child-slot hooks) checks at every Series/Next: stable series list, batch size, strictly increasing on-grid step timestamps with no step skipped, unique in-range sample IDs, |IDs| == |values|, no staleness marker, nothing after the end, no concurrent Next; plus Next-before-Series at the root gives the same result",
    "wf": "successful result is a well-formed PromQL value (sorted, distinct label sets, non-empty series, increasing on-grid timestamps, no stale marker)",
}


def ref_family_check(prop, tier, seed, plan_quick, plan_thorough, corr=None, design="", extra_assumptions=None, race=False):
    t0 = time.time()
    v = Verdict(prop)
    hbin, _ = build_harness()
    sweep_bin, sweep_env = hbin, None
    if race:
        sweep_bin, _ = build_harness(race=True)
        sweep_env = {"GORACE": "halt_on_error=1"}
    ob, ob_fails = obligations(prop, hbin)
    wd = _workdir(prop)
    plan = plan_thorough if tier == "thorough" else plan_quick

    corr_info = {"model": "none for this property yet"}
    corr_bad = []
    if corr is not None:
        corr_info, corr_bad = corr(hbin, wd, tier, seed)

    regress = replay_regressions(hbin, wd, prop)
    res, crashes, stats = run_ref_sweeps(sweep_bin, wd, seed, plan, extra_env=sweep_env)
    res = regress + res
    stats["regression-corpus"] = {"cases": len(regress), "failing": sum(1 for r in regress if r.get("fail"))}
    fails = [r for r in res if r.get("fail")]
    hits, n_new, skipped = classify_failures(prop, v, fails, crashes)
    for note in replay_witnesses(hbin, wd, prop):
        log(note)

    if not v.violations:
        if corr_bad:
            path = write_replay(prop, "correspondence", {"kind": "correspondence", "what": corr_info.get("model"),
                                                         "note": "model and implementation disagree; the direct oracle found no failing input",
                                                         "cases": corr_bad[:10]})
            v.violation(path, no_input=True)
        _obligation_failures(prop, v, ob_fails)

    evals = len(res)
    distinct = len({(r["query"], r["window"]["Start"], r["window"]["Step"], r.get("n_series", 0)) for r in res if r.get("nontrivial")})
    samples = [{k: r.get(k) for k in ("query", "window", "lookback_ms", "query_lookback_ms", "gomaxprocs", "n_series", "path", "steps")}
               for r in res[:: max(1, len(res) // 8)]][:8]
    cov = {
        "obligations": ob["obligations"], "discharged": ob["discharged"],
        "checker_cmd": "make -C coq -f Makefile.coq (full .vo build) ; coqc Props/%s.v (Print Assumptions) ; coqc cases_%s_*.v (vm_compute)" % (prop, prop),
        "trusted_base": TRUSTED_BASE,
        "theorems": ob["theorems"], "closed_under_global_context": ob["closed_under_global_context"],
        "primitive_assumptions": ob["primitive_assumptions"],
        "evaluations": evals, "distinct_nontrivial": distinct,
        "rule": "cases = (dataset, query, window, lookback, GOMAXPROCS) from one PRNG state (VERIF_SEED, case id), generator profiles %s; "
                "non-trivial = the reference engine returns a non-empty result or an error; distinct by (query, window, series count)"
                % [("%s/%s" % (e[0], e[1] or "full")) if len(e) == 3 else (e[0] or "full") for e in plan],
        "samples": samples,
        "correspondence": corr_info,
        "search": {"oracle": {m: ORACLE_TEXT.get(m, m) for m in sorted({(e[0] if len(e) == 3 else "ref") for e in plan})},
                   "per_profile": stats, "failing_cases": len(fails), "attributed_to_known_findings": hits,
                   "skipped_reference_nondeterministic": skipped, "new_violations": n_new, "process_crashes": len(crashes)},
        "known_findings_printed": v.known,
    }
    write_evidence(prop, tier, seed, cov, time.time() - t0, len(v.violations),
                   ["the reference engine (Prometheus v0.40.1 from the module cache) is the oracle",
                    "values compared with relative tolerance 1e-9 (floating-point summation order)"] + (extra_assumptions or []))
    return v.finish()


def corr_selector(hbin, wd, tier, seed, sizes=((16, 8), (32, 40))):
    """C02: the real engine on selector queries vs Select.v/Shard.v/Exec.v evaluated inside Coq."""
    shards, per = sizes[0] if tier == "quick" else sizes[1]
    files, total, nontriv = [], 0, 0

    def gen(i):
        out = os.path.join(wd, "cases_C02_%d.v" % i)
        p = run([hbin, "selcases", "--seed", str(seed), "--from", str(i * per), "--to", str((i + 1) * per), "--out", out], timeout=600)
        return out, json.loads(p.stdout.strip().splitlines()[-1])

    from concurrent.futures import ThreadPoolExecutor
    with ThreadPoolExecutor(max_workers=16) as ex:
        outs = list(ex.map(gen, range(shards)))
    for out, st in outs:
        files.append(out)
        total += st["cases"]
        nontriv += st["series_with_points"]
    res = eval_case_files(files)
    bad = []
    for r in res:
        if not r["ok"]:
            bad.append({"file": r["file"], "error": r["log"][-800:]})
        else:
            bad += [{"file": r["file"], "case": i} for i in r["bad"]]
    info = {"model": "Shard.sharded_selector + Exec.matrix_of (+ Exec.step_invariant_run for @) vs the engine on selector queries",
            "cases": total, "series_with_points": nontriv, "shards": shards, "disagreements": len(bad)}
    return info, bad


LB_MODEL_TEXT = ("Lookback.query_lookback / remote_lookback (engine default, query options, pushed-down parts) vs the range start the "
                 "instrumented storages are asked for by the real engine and by a distributed engine whose remote engines have a "
                 "lookback configuration of their own")


def corr_lookback(prop):
    return _corr_generic("lbcases", prop, LB_MODEL_TEXT, 50, 400, shards_quick=4, shards_thorough=8)


def check_C02(tier, seed, replay=None):
    # the hints oracle (a storage that returns only what each Select asked for) on selector pairs:
    # a selector must ask for its own range even when the same matchers occur twice in a query
    return ref_family_check("C02", tier, seed, [("ref", "selector", 3000), ("ref", "selpair", 1500), ("hints", "selpair", 800), ("hints", "subpairs", 500), ("dist", "selector", 800), ("ref", "func", 600)],
                            [("ref", "selector", 60000), ("ref", "selpair", 30000), ("hints", "selpair", 20000), ("hints", "subpairs", 10000), ("dist", "selector", 15000), ("ref", "func", 10000)], corr=_corr_multi(corr_selector, corr_lookback("C02")))


def corr_range(hbin, wd, tier, seed):
    """C03: the real engine on count_over_time/last_over_time vs Range.v (incremental windows) in Coq."""
    shards, per = (16, 25) if tier == "quick" else (32, 150)

    def gen(i):
        out = os.path.join(wd, "cases_C03_%d.v" % i)
        p = run([hbin, "rngcases", "--seed", str(seed), "--from", str(i * per), "--to", str((i + 1) * per), "--out", out], timeout=600)
        return out, json.loads(p.stdout.strip().splitlines()[-1])

    from concurrent.futures import ThreadPoolExecutor
    with ThreadPoolExecutor(max_workers=16) as ex:
        outs = list(ex.map(gen, range(shards)))
    tot = {"cases": 0, "series_with_points": 0, "range_gt_step": 0, "range_le_step": 0}
    for _, st in outs:
        for k in tot:
            tot[k] += st[k]
    res = eval_case_files([o for o, _ in outs])
    bad = []
    for r in res:
        if not r["ok"]:
            bad.append({"file": r["file"], "error": r["log"][-800:]})
        else:
            bad += [{"file": r["file"], "case": i} for i in r["bad"]]
    info = dict(tot, model="Range.ms_scan (selectPoints with previous-points reuse, buffered iterator, ReduceDelta) vs the engine "
                           "on count_over_time/last_over_time", disagreements=len(bad))
    return info, bad


def check_C03(tier, seed, replay=None):
    corr_k = _corr_generic("kernelcases", "C03", "RangeFns.range_fn (Kahan sum, mean, variance, min/max, changes, resets, regression, instant value, "
                           "extrapolated rate; primitive floats) vs function.Funcs[name] called on generated point lists (0-20 points: counters "
                           "with resets, gauges, constants, NaN/Inf/denormals/huge, nearly equal values)", 400, 4000, shards_quick=8, shards_thorough=16)
    return ref_family_check("C03", tier, seed, [("range", 3000), ("epoch:range", 500)], [("range", 60000), ("epoch:range", 10000)],
                            corr=_corr_multi(corr_range, corr_k))


def _corr_generic(cmd, prop, model_text, per_quick, per_thorough, shards_quick=8, shards_thorough=32):
    def corr(hbin, wd, tier, seed):
        shards, per = (shards_quick, per_quick) if tier == "quick" else (shards_thorough, per_thorough)

        def gen(i):
            out = os.path.join(wd, "cases_%s_%s_%d.v" % (prop, cmd, i))
            argv = [hbin, cmd, "--seed", str(seed), "--from", str(i * per), "--to", str((i + 1) * per), "--out", out]
            p = run(argv, timeout=900, check=False)
            if p.returncode != 0:
                text = p.stdout or ""
                if "panic:" in text or "fatal error:" in text or "goroutine " in text:
                    # the engine took the harness process down while the cases were recorded: that is a
                    # failing input (the command), not a failure of the check
                    return None, {"crash": {"command": " ".join(argv), "output": text[-3000:]}}
                raise CheckError("command failed (%d): %s\n%s" % (p.returncode, " ".join(argv), text[-4000:]))
            return out, json.loads(p.stdout.strip().splitlines()[-1])

        from concurrent.futures import ThreadPoolExecutor
        with ThreadPoolExecutor(max_workers=16) as ex:
            outs = list(ex.map(gen, range(shards)))
        crashed = [st["crash"] for o, st in outs if o is None]
        outs = [(o, st) for o, st in outs if o is not None]
        tot = {}
        for _, st in outs:
            for k, v in st.items():
                tot[k] = tot.get(k, 0) + v
        res = eval_case_files([o for o, _ in outs])
        bad = [{"process_crash_while_recording_cases": c} for c in crashed]
        for r in res:
            if not r["ok"]:
                bad.append({"file": r["file"], "error": r["log"][-800:]})
            else:
                bad += [{"file": r["file"], "case": i} for i in r["bad"]]
        return dict(tot, model=model_text, disagreements=len(bad)), bad
    return corr


def _corr_multi(*corrs):
    """Several correspondence checks for one property: counts are kept per model, disagreements are pooled."""
    def corr(hbin, wd, tier, seed):
        infos, bad = [], []
        for c in corrs:
            i, b = c(hbin, wd, tier, seed)
            infos.append(i)
            bad += b
        return {"model": " ; ".join(i.get("model", "") for i in infos), "parts": infos,
                "disagreements": sum(i.get("disagreements", 0) for i in infos),
                "cases": sum(i.get("cases", 0) for i in infos)}, bad
    return corr


BIN_MODEL_TEXT = ("Bin.run_operator (hash join, per-step table, output labels, errors) on the operand streams of the engine's own "
                  "operator trees vs the engine's result for `L op R` over selectors (primitive floats)")
FUNC_MODEL_TEXT = ("Func.func_step / clamp_fn / scalar_binop_step / scalar_step on the operand stream of the engine's own operator tree "
                   "vs the engine's result (primitive floats)")


def corr_core(prop, parts):
    """The models the property's theorems are stated over, compared with the code on every run of that property's
    check too (reduced sizes; the full-size comparisons run under C02, C04, C05, C06)."""
    cs = []
    if "sel" in parts:
        cs.append(lambda hbin, wd, tier, seed: corr_selector(hbin, wd, tier, seed, sizes=((8, 8), (16, 40))))
    if "bin" in parts:
        cs.append(_corr_generic("bincases", prop, BIN_MODEL_TEXT, 25, 250, shards_quick=4, shards_thorough=16))
    if "func" in parts:
        cs.append(_corr_generic("funccases", prop, FUNC_MODEL_TEXT, 25, 250, shards_quick=4, shards_thorough=16))
    if "tree" in parts:
        cs.append(_corr_generic("treecases", prop, "Trees.jrun - the composite model: sharded, batched vector and matrix selectors (incremental window scan), "
                                "joins with their reused tables, per-sample operators, count and accumulator tables - evaluated inside Coq on whole "
                                "nested queries (depth up to 4: + - and the comparisons with on/ignoring/group_left/group_right/bool, unary minus, abs, "
                                "arithmetic and comparisons with a literal, count/sum/max/min/group by/without, topk/bottomk with a literal k (cases with a tie inside a group skipped), count/last/max/min/sum_over_time, "
                                "changes, resets, present_over_time of x[d] offset o; @ t / @ start() / @ end() on vector and matrix selectors with the "
                                "step-invariant operator above them) vs the engine's result; values are multiples of 1/4 "
                                "carried as integers", 30, 300, shards_quick=8, shards_thorough=16))
    if "agg" in parts:
        cs.append(_corr_generic("aggcases", prop, "Agg.group_labels / assign_groups / aggregate (count table) + Select.select_step vs the engine "
                                "on count by/without (labels) (selector)", 10, 100, shards_quick=8, shards_thorough=16))
    return _corr_multi(*cs)


def check_C16(tier, seed, replay=None):
    corr = _corr_generic("hintcases", "C16", "Hints.eng_selects vs the selects recorded by the instrumented storage (no optimizers)", 150, 1500)
    # Pool.key_eqb vs the real storage.SelectorPool: which pairs of requests get one shared selector
    corr = _corr_multi(corr, _corr_generic("poolcases", "C16", "Pool.key_eqb vs the sharing decisions of the real storage.SelectorPool on pairs of "
                       "requests (one field changed, fields outside the key, numbers whose digits are cut differently)", 100, 1000, shards_quick=4, shards_thorough=8))
    return ref_family_check("C16", tier, seed, [("hints", "", 1500), ("hints", "range", 500), ("hints", "func", 500), ("hints", "pairs", 1000), ("hints", "subpairs", 800), ("hints", "agg", 600)],
                            [("hints", "", 30000), ("hints", "range", 10000), ("hints", "func", 10000), ("hints", "deep", 10000), ("hints", "pairs", 40000), ("hints", "subpairs", 20000), ("hints", "agg", 10000)], corr=corr)


def check_C09(tier, seed, replay=None):
    corr = _corr_generic("optcases", "C09", "Opt.opt_sort / opt_merge / opt_propagate vs the ASTs produced by the real optimizers "
                         "(each alone and the default list), compared up to matcher order", 120, 1200)
    return ref_family_check("C09", tier, seed, [("opt", "pairs", 3000), ("opt", "subpairs", 1500), ("opt", "", 1200), ("opt", "bin", 800)],
                            [("opt", "pairs", 150000), ("opt", "subpairs", 40000), ("opt", "", 20000), ("opt", "bin", 20000), ("opt", "deep", 10000)], corr=corr)


def check_C10(tier, seed, replay=None):
    corr = _corr_generic("distcases", "C10", "Dist.opt_distribute vs the AST produced by the real DistributedExecutionOptimizer (1..3 engines)", 150, 1500)
    # the composite model with remote executions (read-back with lookback 0) and coalesce nodes vs the real distributed engine
    corr = _corr_multi(corr, _corr_generic("disttreecases", "C10",
                       "Trees.jrun on the plan of the real DistributedExecutionOptimizer (JRemote: the subquery run on the engine's own "
                       "partition and read back with lookback 0, Remote.v; JConcat: coalesce) vs the result of the real distributed engine "
                       "over 2 or 3 local engines on a random partition of the series (whole nested queries as in treecases)",
                       30, 300, shards_quick=8, shards_thorough=16), corr_lookback("C10"))
    return ref_family_check("C10", tier, seed, [("dist", "", 1500), ("dist", "agg", 1200), ("dist", "range", 500), ("dist", "fb", 800)],
                            [("dist", "", 30000), ("dist", "agg", 30000), ("dist", "range", 10000), ("dist", "noties", 10000), ("dist", "fb", 15000)], corr=corr)


def check_C07(tier, seed, replay=None):
    return ref_family_check("C07", tier, seed,
                            [("instants", "nostartend", 1500), ("instants", "range", 400), ("instants", "epoch:nostartend", 300), ("instants", "func", 800), ("instants", "hist", 400)],
                            [("instants", "nostartend", 30000), ("instants", "range", 8000), ("instants", "agg", 8000), ("instants", "epoch:nostartend", 8000), ("instants", "func", 10000), ("instants", "hist", 6000)],
                            corr=corr_core("C07", ("sel", "bin", "tree")))


def check_C11(tier, seed, replay=None):
    return ref_family_check("C11", tier, seed,
                            [("procs", "", 500), ("perm", "noties", 1500), ("procs", "selector", 300), ("procs", "subpairs", 300), ("procs", "agg", 500), ("perm", "agg", 1000), ("perm", "bin", 1500)],
                            [("procs", "", 8000), ("perm", "noties", 30000), ("procs", "selector", 5000), ("procs", "agg", 4000), ("procs", "subpairs", 5000), ("perm", "bin", 20000)],
                            corr=corr_core("C11", ("sel", "bin", "tree")))


def check_C19(tier, seed, replay=None):
    return ref_family_check("C19", tier, seed,
                            [("wf", "", 3000), ("wf", "bin", 1500), ("wf", "func", 1000), ("wf", "hist", 400), ("wf", "upper", 600)],
                            [("wf", "", 60000), ("wf", "bin", 30000), ("wf", "func", 20000), ("wf", "deep", 20000), ("wf", "hist", 8000), ("wf", "upper", 10000)],
                            corr=corr_core("C19", ("sel",)))


def check_C01(tier, seed, replay=None):
    return ref_family_check("C01", tier, seed, [("", 5000), ("deep", 2000), ("noties", 1500), ("epoch:", 800), ("subpairs", 600), ("nans", 1000), ("hist", 600)],
                            [("", 100000), ("deep", 40000), ("noties", 30000), ("func", 20000), ("bin", 20000), ("agg", 20000), ("range", 20000), ("epoch:", 20000), ("epoch:deep", 10000), ("subpairs", 15000), ("nans", 20000), ("hist", 10000)],
                            corr=corr_core("C01", ("sel", "bin", "func", "agg", "tree")))


def check_C04(tier, seed, replay=None):
    corr = _corr_generic("aggcases", "C04", "Agg.group_labels / assign_groups / aggregate (count table) + Select.select_step vs the engine "
                         "on count by/without (labels) (selector)", 14, 120, shards_quick=16)
    corr2 = _corr_generic("topkcases", "C04", "Topk.topk_step (per-group bounded selection with NaN lowest, k per query, grouping by Agg.assign_groups) "
                          "on the operand stream of the engine's own operator tree vs the engine's result for topk/bottomk "
                          "[by|without] (k, selector) on primitive floats; cases with a tie inside a group are skipped", 40, 400,
                          shards_quick=8, shards_thorough=32)
    corr3 = _corr_generic("aggvalcases", "C04", "Agg.aggregate (the generic reused table) instantiated with the float accumulators of "
                          "AggFloat.v (sum, max, min, count, avg, group, stddev, stdvar, quantile; transcribed from scalar_table.go) on the operand "
                          "stream of the engine's own operator tree vs the engine's result for <agg> [by (non-empty) | without (..)] "
                          "(selector), bit for bit", 40, 400, shards_quick=8, shards_thorough=32)
    return ref_family_check("C04", tier, seed, [("agg", 4000), ("epoch:agg", 500), ("nans", 800), ("upper", 600), ("dist", "agg", 600)], [("agg", 80000), ("noties", 20000), ("epoch:agg", 10000), ("nans", 20000), ("upper", 10000), ("dist", "agg", 10000)],
                            corr=_corr_multi(corr, corr2, corr3))


def check_C05(tier, seed, replay=None):
    corr = _corr_generic("bincases", "C05", "Bin.run_operator (hash join over the series lists, per-step table with timestamp tags, output "
                         "labels, many-to-many errors) on the operand streams of the engine's own operator trees vs the engine's result "
                         "for `L op R` over selectors (arithmetic and comparison operators on primitive floats, on/ignoring, "
                         "group_left/group_right with included labels, bool)", 40, 400, shards_quick=8, shards_thorough=32)
    return ref_family_check("C05", tier, seed, [("bin", 4000), ("epoch:bin", 600), ("opt", "subpairs", 800)], [("bin", 80000), ("deep", 20000), ("epoch:bin", 15000), ("opt", "subpairs", 15000)], corr=corr)


def check_C06(tier, seed, replay=None):
    corr = _corr_generic("funccases", "C06", "Func.func_step / clamp_fn / scalar_binop_step / scalar_step on the operand stream of the engine's own "
                         "operator tree vs the engine's result for abs, sqrt, unary minus, clamp, clamp_min, clamp_max (literals incl. NaN, +-Inf, "
                         "max < min), vector/scalar arithmetic and comparisons (both sides, bool) and scalar() over selectors; primitive floats",
                         40, 400, shards_quick=8, shards_thorough=32)
    corr_h = _corr_generic("histcases", "C06", "Bucket.load / hist_step / bucket_quantile (le upper bounds as parsed, grouping of the bucket series into output "
                           "series, per-step buckets in vector order, sort by upper bound, merging of equal bounds, monotonicity repair, bisection, "
                           "interpolation; primitive floats) on the operand streams of the engine's own operator trees vs the engine's result for "
                           "histogram_quantile(q, selector) (q a literal incl. NaN, <0, >1, or scalar(series); 0-4 histograms with 1-6 buckets, "
                           "repeated/invalid/missing le, missing +Inf, non-monotonic, zero, NaN and infinite counts, gaps)", 25, 250,
                           shards_quick=8, shards_thorough=32)
    # the operator trees of C06_pinned_subtree_is_evaluated_once (step-invariant subtrees, @ on selectors)
    corr = _corr_multi(corr, corr_h, corr_core("C06", ("tree",)))
    return ref_family_check("C06", tier, seed, [("func", 4000), ("epoch:func", 600), ("hist", 500), ("subpairs", 500), ("dist", "func", 600)], [("func", 80000), ("deep", 20000), ("epoch:func", 15000), ("hist", 10000), ("subpairs", 10000), ("dist", "func", 10000)], corr=corr)


def check_C18(tier, seed, replay=None):
    return ref_family_check("C18", tier, seed, [("stream", "", 1500), ("stream", "func", 800), ("stream", "agg", 800), ("stream", "bin", 600), ("stream", "hist", 300)],
                            [("stream", "", 30000), ("stream", "func", 15000), ("stream", "agg", 15000), ("stream", "bin", 15000), ("stream", "range", 8000), ("stream", "hist", 5000)],
                            corr=corr_core("C18", ("sel", "bin", "func")))


def check_C13(tier, seed, replay=None):
    corr = _corr_generic("lifecases", "C13", "Life.status_of / querier balance vs outcome class and open/close counts of faulted executions", 40, 300)
    return ref_family_check("C13", tier, seed, [("panic", "", 600), ("extreme", "", 300)],
                            [("panic", "", 12000), ("extreme", "", 3000), ("ref", "agg", 20000)], corr=corr)


def check_C15(tier, seed, replay=None):
    corr = _corr_generic("lifecases", "C15", "Life.status_of vs outcome class of faulted executions", 40, 300)
    return ref_family_check("C15", tier, seed, [("storerr", "", 800)], [("storerr", "", 16000)], corr=corr)


def check_C17(tier, seed, replay=None):
    corr = _corr_generic("lifecases", "C17", "Life querier balance vs open/close counts at the moment Exec returned", 40, 300)
    return ref_family_check("C17", tier, seed, [("lifecycle", "", 800)], [("lifecycle", "", 16000)], corr=corr)


def check_C14(tier, seed, replay=None):
    corr = _corr_generic("conccases", "C14", "trace conformance: the real exchange.concurrencyOperator (buffer 2) under a scripted child "
                         "(0-4 batches, looks at the context never / always / at random) and a consumer mirroring Exec's loop, cancel() "
                         "when the log reaches a scripted length, random yields; the log of observable events must be accepted by "
                         "ConcTrace.accepts (the labelled transition system refining Conc.steps) and no goroutine may outlive the run",
                         150, 1500, shards_quick=8, shards_thorough=16)
    return ref_family_check("C14", tier, seed, [("cancel", "", 900), ("cancelstress", "", 16)],
                            [("cancel", "", 10000), ("cancelstress", "", 400)], corr=corr)


def check_C12(tier, seed, replay=None):
    return ref_family_check("C12", tier, seed, [("conc", "", 150), ("cancel", "", 100)],
                            [("conc", "", 3000), ("cancel", "", 2000), ("hist", "", 500)], race=True)


def check_C20(tier, seed, replay=None):
    corr = _corr_generic("histplancases", "C20", "Plan.run_creations (outcome of every creation, absolute values of the two counters) vs random "
                         "histories of 5-34 creations on one engine instance, interleaved with executions (immediate, deferred, cancelled) "
                         "and closes, fallback enabled or disabled", 25, 250, shards_quick=8, shards_thorough=16)
    return ref_family_check("C20", tier, seed, [("hist", "", 400)], [("hist", "", 8000)], corr=corr)


CHECKS = {"C01": check_C01, "C04": check_C04, "C05": check_C05, "C06": check_C06, "C08": check_C08, "C02": check_C02, "C03": check_C03, "C07": check_C07, "C11": check_C11, "C19": check_C19, "C16": check_C16, "C09": check_C09, "C10": check_C10, "C12": check_C12, "C13": check_C13, "C14": check_C14,
          "C15": check_C15, "C17": check_C17, "C18": check_C18, "C20": check_C20}
