"""Per-property check logic. Each function returns the process exit status."""
import glob
import json
import os
import time

from vcheck import (CheckError, TRUSTED_BASE, Verdict, WORK, build_harness, eval_case_files, load_known, log,
                    obligations, run, write_evidence, write_replay)


def _workdir(prop):
    wd = os.path.join(WORK, prop)
    os.makedirs(wd, exist_ok=True)
    for f in glob.glob(os.path.join(wd, "cases_*")) + glob.glob(os.path.join(wd, "report_*")) + glob.glob(os.path.join(wd, ".cases_*")):
        os.remove(f)
    return wd


def _obligation_failures(prop, verdict, ob_fails, extra=None):
    """A failed proof obligation with no failing input found so far."""
    if not ob_fails:
        return
    path = write_replay(prop, "obligation", {"kind": "proof-obligation", "failures": ob_fails, "note": extra or ""})
    verdict.violation(path, no_input=True)


def check_C08(tier, seed, replay=None):
    prop = "C08"
    t0 = time.time()
    v = Verdict(prop)
    hbin, _ = build_harness()
    ob, ob_fails = obligations(prop, hbin)
    wd = _workdir(prop)
    run([hbin, "plan", wd, tier], timeout=1800)
    rep = json.load(open(os.path.join(wd, "report_C08.json")))
    cases = {c["id"]: c for c in rep["cases"]}

    # correspondence: model evaluated inside Coq on the recorded ASTs/outcomes
    files = sorted(glob.glob(os.path.join(wd, "cases_C08_*.v")))
    res = eval_case_files(files)
    corr_fail, corr_err = [], []
    for r in res:
        if not r["ok"]:
            corr_err.append(r)
        else:
            corr_fail += r["bad"]

    # search: direct oracle on the implementation
    oracle_fail = [c for c in rep["cases"] if c.get("oracle")]
    for c in oracle_fail[:5]:
        path = write_replay(prop, "case%d" % c["id"], {"kind": "direct-oracle", "case": c})
        v.violation(path)
    if not oracle_fail:
        if corr_err:
            path = write_replay(prop, "correspondence_error", {"kind": "correspondence", "what": "model evaluation failed",
                                                                 "logs": [r["log"] for r in corr_err][:3]})
            v.violation(path, no_input=True)
        elif corr_fail:
            bad = [cases[i] for i in corr_fail[:10] if i in cases]
            path = write_replay(prop, "correspondence", {
                "kind": "correspondence", "theorem_domain": "Plan.new_query / Plan.counter_delta vs engine.New*Query",
                "what": "model and implementation disagree on the creation outcome; no property violation found by the direct oracle",
                "cases": bad})
            v.violation(path, no_input=True)
        _obligation_failures(prop, v, ob_fails)
    elif ob_fails:
        log("note: proof obligations also failed: %s" % ob_fails[:3])

    nontrivial = len({(c["query"], c["range"]) for c in rep["cases"] if c["outcome"] != "Native"})
    samples = [{k: c[k] for k in ("query", "range", "fallback", "outcome", "d_false", "d_true")} for c in rep["cases"][:: max(1, len(rep["cases"]) // 12)]][:12]
    cov = {
        "obligations": ob["obligations"], "discharged": ob["discharged"],
        "checker_cmd": "make -C coq -f Makefile.coq (full .vo build) ; coqc Props/C08.v (Print Assumptions) ; coqc cases_C08_*.v (vm_compute)",
        "trusted_base": TRUSTED_BASE,
        "theorems": ob["theorems"], "closed_under_global_context": ob["closed_under_global_context"],
        "primitive_assumptions": ob["primitive_assumptions"],
        "evaluations": len(rep["cases"]), "distinct_nontrivial": nontrivial,
        "rule": "every function of parser.Functions, aggregation operator, binary/set operator with modifiers, subquery, string literal, "
                "range vector, in every position template that type-checks, x instant/range x fallback on/off; "
                "non-trivial = distinct (query, window kind) whose outcome is not Native (fallback or rejected)",
        "exhaustive": True,
        "samples": samples,
        "correspondence": {"model": "Plan.new_query, Plan.counter_delta", "cases": rep["coq_cases"], "shards": rep["shards"],
                           "disagreements": len(corr_fail), "evaluation_errors": len(corr_err)},
        "search": {"oracle": "creation outcome vs reference acceptance, counter deltas, fallback result == reference result",
                   "queries": rep["queries"], "native": rep["native"], "fallback": rep["fallback"], "rejected": rep["rejected"],
                   "fallback_results_compared_with_reference": rep["exec_compared"], "oracle_failures": len(oracle_fail)},
        "known_findings_printed": v.known,
    }
    write_evidence(prop, tier, seed, cov, time.time() - t0, len(v.violations),
                   ["xxhash collisions, int64 overflow and the parser itself are outside the model",
                    "the planned AST handed to the model is produced by the real logicalplan.New/Optimize"])
    return v.finish()


CHECKS = {"C08": check_C08}
