#!/bin/bash
# Confirms a seeded mutant in a scratch worktree of /repo and imports it under /verif/seeded/<name>/.
# usage: confirm_mutant.sh <name> <property> <patch> <demo_test.go> <needs-text-file-or-string>
set -u
name=$1; prop=$2; patch=$3; demo=$4; needs=$5
export GOFLAGS=-mod=mod GOPROXY=off GOSUMDB=off GOTOOLCHAIN=local
wt=/tmp/confirm_$name
rm -rf $wt; git -C /repo worktree prune; git -C /repo worktree add --detach $wt HEAD >/dev/null 2>&1 || { echo "$name: worktree failed"; exit 2; }
cd $wt
res_apply=fail; res_suite=fail; res_demo_with=unknown; res_demo_without=unknown
if git apply "$patch"; then res_apply=ok; fi
if go build ./... >/dev/null 2>&1 && go test -vet=off -count=1 ./... >/tmp/confirm_$name.suite 2>&1; then res_suite=pass; fi
pkgdir=engine
grep -q "^package logicalplan" "$demo" && pkgdir=logicalplan
cp "$demo" $pkgdir/zz_mutant_demo_test.go
tests=$(grep -oE "^func (Test[A-Za-z0-9_]+)" "$demo" | awk '{print $2}' | paste -sd'|')
if go test -vet=off -count=1 -run "^($tests)\$" ./$pkgdir/ >/tmp/confirm_$name.with 2>&1; then res_demo_with=pass; else res_demo_with=fail; fi
git apply -R "$patch"
if go test -vet=off -count=1 -run "^($tests)\$" ./$pkgdir/ >/tmp/confirm_$name.without 2>&1; then res_demo_without=pass; else res_demo_without=fail; fi
cd /; git -C /repo worktree remove --force $wt
ok=no
if [ $res_apply = ok ] && [ $res_suite = pass ] && [ $res_demo_with = fail ] && [ $res_demo_without = pass ]; then ok=yes; fi
echo "$name: apply=$res_apply suite_with_patch=$res_suite demo_with_patch=$res_demo_with demo_without_patch=$res_demo_without confirmed=$ok"
if [ $ok = yes ]; then
  d=/verif/seeded/$name; mkdir -p $d
  cp "$patch" $d/patch.diff; cp "$demo" $d/demo_test.go
  python3 - "$name" "$prop" "$needs" "$tests" "$pkgdir" <<'PY'
import json,sys,subprocess
name,prop,needs,tests,pkg=sys.argv[1:6]
base=subprocess.run(["git","-C","/repo","rev-parse","--short","HEAD"],capture_output=True,text=True).stdout.strip()
meta={"name":name,"property":prop,"base_commit":base,
 "needs_to_manifest":needs,
 "confirmed":{"worktree":"scratch git worktree of /repo at "+base+" (removed afterwards)",
   "existing_suite_with_patch":"go test -vet=off -count=1 ./... : pass",
   "demo_with_patch":"go test -run '^(%s)$' ./%s/ : FAIL"%(tests,pkg),
   "demo_without_patch":"same command: pass"},
 "detected_by":[]}
json.dump(meta,open("/verif/seeded/%s/meta.json"%name,"w"),indent=1)
PY
fi
rm -f /tmp/confirm_$name.suite /tmp/confirm_$name.with /tmp/confirm_$name.without
