#!/usr/bin/env python3
"""Regenerates /verif/MANIFEST.json from the table below (kept in one place so it stays valid)."""
import json
import os
import sys

sys.path.insert(0, os.path.dirname(os.path.abspath(__file__)))
VERIF = os.path.dirname(os.path.dirname(os.path.abspath(__file__)))

# property -> (level text, level note, technique, design_ref)
CLAIMED = {
    "C08": (
        "Machine-checked proof (Coq) over a model of query creation (execution.newOperator's support decision, the "
        "engine's path choice and per-path counter): planning is total and fails only as unsupported/not-implemented; a "
        "query is native iff every node the planner reaches is a native construct; counters are exact over every history "
        "of creations. The model is tied to the code on every run by (a) vocabulary tables regenerated from the built code "
        "and (b) an exhaustive correspondence run (every parser function/aggregation/operator/modifier in every position "
        "template x instant/range x fallback on/off) evaluated inside Coq; a direct oracle on the real engine (creation "
        "outcome vs reference acceptance, counter deltas, fallback result == reference result) supplies replays.",
        "Trusted: Coq kernel + vm_compute; the Go harness and table generator; the Prometheus parser/PreprocessExpr (the "
        "model receives the real planned AST). Native-path result equality is C01's obligation.",
        "Coq proof over hand-written model + exhaustive model/implementation correspondence evaluated in Coq",
        "DESIGN.md section 5, C08"),
}

NOT_YET = {}


def main():
    props = [json.loads(l) for l in open(os.path.join(VERIF, "properties.jsonl"))]
    checks, na = [], []
    for p in props:
        pid = p["id"]
        if pid in CLAIMED:
            text, note, tech, ref = CLAIMED[pid]
            checks.append({
                "property_id": pid,
                "quick_cmd": "./check %s --tier quick" % pid,
                "thorough_cmd": "./check %s --tier thorough" % pid,
                "evidence_file": "/verif/evidence/%s.json" % pid,
                "replay_cmd_template": "./check %s --replay {path}" % pid,
                "engine": "coq-model+harness",
                "level_claimed": {"category": "proof", "text": text, "design_ref": ref},
                "level_note": note,
                "technique": tech,
            })
        else:
            na.append({"property_id": pid, "reason": NOT_YET.get(pid, "check not built yet in this development; see DESIGN.md section 8 (order of work)")})
    m = {
        "version": 1,
        "setup_cmd": "./setup.sh",
        "hooks": {
            "guard": "verif",
            "enable": "go build -tags verif (the harness module replaces github.com/thanos-community/promql-engine with /repo)",
            "baseline_off_cmd": "cd /repo && GOFLAGS=-mod=mod go test -vet=off -count=1 -timeout 25m ./...",
            "source_commits": [],
            "add_only": True,
        },
        "engines": [{
            "name": "coq-model+harness", "path": "/verif/coq, /verif/harness, /verif/lib",
            "serves_properties": sorted(CLAIMED),
            "kind_free_text": "Coq 8.16.1 development (models + theorems), Go harness built against /repo on every run "
                              "(correspondence inputs/outputs written as Gallina terms, evaluated with vm_compute), Python driver",
        }],
        "checks": checks,
        "notes": "Every check: (1) regenerate Generated.v from the built code, full Coq build, Print Assumptions audit; "
                 "(2) model/implementation correspondence evaluated inside Coq; (3) direct-oracle search on the real engine. "
                 "Exit 2 with a CHECK-ERROR line means the machinery could not run (e.g. /repo does not build).",
        "not_applicable": na,
    }
    with open(os.path.join(VERIF, "MANIFEST.json"), "w") as f:
        json.dump(m, f, indent=1)
    print("claimed:", sorted(CLAIMED), "not claimed:", [x["property_id"] for x in na])


if __name__ == "__main__":
    main()
