#!/bin/sh
# Builds the framework from files on disk only (offline): harness binary against /repo, Coq development.
set -e
cd "$(dirname "$0")"
export GOFLAGS=-mod=mod GOPROXY=off GOSUMDB=off GOTOOLCHAIN=local
python3 - <<'PY'
import sys, os
sys.path.insert(0, os.path.join(os.getcwd(), "lib"))
import vcheck
hbin, dt = vcheck.build_harness()
print("harness built in %.1fs" % dt)
b = vcheck.build_coq(hbin)
print("coq build ok=%s in %.1fs" % (b["ok"], b["wall_s"]))
if not b["ok"]:
    print(b["log"]); sys.exit(1)
PY
