(* Operator trees over selectors, end to end (C01): vector/vector joins, per-sample
   operators and count aggregations composed arbitrarily; every node's stream
   against the reference evaluation of the node. *)
From Coq Require Import List ZArith NArith Bool Lia Permutation.
From Verif Require Import Base Grid Select SelectProofs Shard SelectorProofs Exec Compose StreamWF Range MatrixRun Agg AggProofs Func Bin BinProofs EndToEnd AggEnd Topk TopkProofs TopkTree Remote.
Import ListNotations.
Open Scope Z_scope.

(* ---- arbitrary trees of joins over selectors (C01) ------------------------------ *)

Record jparams := mkJP {
  jp_op : Z -> Z -> Z * bool; jp_b2v : bool -> Z; jp_on : bool; jp_ml : list N; jp_incl : list N;
  jp_card : card; jp_bool : bool; jp_drops : bool }.

Inductive jtree :=
(* a vector selector; [pin] = Some a when it carries @ a (start()/end() already resolved) *)
| JLeaf (ls : list labels) (sers : list (list sample)) (off : Z) (pin : option Z)
(* a range function over a matrix selector, fn(sel[range] offset off): [fn] maps the step time and
   the window's points to the sample's value (None = no sample); the metric name is kept by
   last_over_time only *)
| JRange (keep_name : bool) (fn : Z -> list point -> option Z) (range : Z)
         (ls : list labels) (sers : list (list sample)) (off : Z) (pin : option Z)
| JJoin (p : jparams) (l r : jtree)
(* a per-sample operator: instant functions, unary minus, vector/scalar arithmetic and
   comparisons with a literal (Func.func_step); [drops] = the metric name is dropped *)
| JMap (drops : bool) (f : Z -> option Z) (t : jtree)
(* count [by|without] (labels) (t): the reused table of Agg.v *)
| JCount (conv : nat -> Z) (without : bool) (grouping : list N) (t : jtree)   (* conv: the count as a value *)
(* an aggregation whose accumulator takes its first value through [init] and every further one
   through [add] (sum: v, +; max: v, max; min; group: 1, keep): scalarTable with its reused table *)
| JAgg (init : Z -> Z) (add : Z -> Z -> Z) (without : bool) (grouping : list N) (t : jtree)
(* topk / bottomk [by|without] (k, t) with a literal k; the heaps of kAggregate, per step *)
| JTopk (bottom : bool) (k : nat) (without : bool) (grouping : list N) (t : jtree)
(* logicalplan.RemoteExecution: the subtree is run as a query of its own (by another engine) on
   the same window and its result read back with lookback 0 (Remote.v) *)
| JRemote (t : jtree)
(* logicalplan.Coalesce of two subtrees (exchange.coalesceOperator): the series lists are
   concatenated, sample IDs of the second re-based *)
| JConcat (l r : jtree)
(* a step-invariant subtree (StepInvariantExpr): evaluated once on the window [start, start]
   and repeated at every step by the stepInvariantOperator *)
| JInvariant (t : jtree).

(* Series() of a node *)
Fixpoint jseries (t : jtree) : list labels :=
  match t with
  | JLeaf ls _ _ _ => ls
  | JRange keep _ _ ls _ _ _ => map (fun m => if keep then m else del_name m) ls
  | JTopk _ _ _ _ t => jseries t
  | JRemote t => jseries t
  | JConcat l r => jseries l ++ jseries r
  | JInvariant t => jseries t
  | JJoin p l r => op_series (jp_on p) (jp_ml p) (jp_incl p) (jp_card p) (jp_bool p) (jp_drops p) (jseries l) (jseries r)
  | JMap drops _ t => map (fun m => if drops then del_name m else m) (jseries t)
  | JCount _ without grouping t => groups without grouping (jseries t)
  | JAgg _ _ without grouping t => groups without grouping (jseries t)
  end.

Definition sv_of (ts : Z) (vec : list (nat * Z)) : stepvec := mkSV ts (map fst vec) (map snd vec).

(* toVector: the groups that have a value, by group ID *)
Definition emit_ids (conv : nat -> Z) (ngroups : nat) (tbl : list (acc nat)) : list (nat * Z) :=
  flat_map (fun g => let a := nth g tbl (dacc) in if a_has nat a then [(g, conv (a_st nat a))] else []) (seq 0 ngroups).

(* hashAggregate.Next over a stream, the table living across steps *)
Fixpoint count_stream (conv : nat -> Z) (without : bool) (grouping : list N) (slabels : list labels) (tbl : list (acc nat))
         (stream : list (Z * list (nat * Z))) : list (Z * list (nat * Z)) :=
  match stream with
  | [] => []
  | (ts, vec) :: r =>
      let tbl' := count_step without grouping slabels tbl (sv_of ts vec) in
      (ts, emit_ids conv (length (groups without grouping slabels)) tbl') :: count_stream conv without grouping slabels tbl' r
  end.

(* ---- the generic accumulator ------------------------------------------------------- *)

Definition oacc := acc (option Z).
Definition doacc : oacc := mkAcc (option Z) false None.

Definition agg_add (init : Z -> Z) (add : Z -> Z -> Z) (a : option Z) (v : Z) : option Z :=
  match a with None => Some (init v) | Some x => Some (add x v) end.

(* the value of a group from its members' values, in the order given *)
Definition agg_fold (init : Z -> Z) (add : Z -> Z -> Z) (vs : list Z) : option Z := fold_left (agg_add init add) vs None.

Definition agg_step (init : Z -> Z) (add : Z -> Z -> Z) (without : bool) (grouping : list N) (slabels : list labels)
           (tbl : list oacc) (vec : list (nat * Z)) : list oacc :=
  aggregate Z (option Z) (fun _ => None) (agg_add init add) (inputs without grouping slabels) 0 tbl vec.

Definition agg_emit (ngroups : nat) (tbl : list oacc) : list (nat * Z) :=
  flat_map (fun g => let a := nth g tbl doacc in
                     if a_has (option Z) a then match a_st (option Z) a with Some v => [(g, v)] | None => [] end else [])
           (seq 0 ngroups).

Fixpoint agg_stream (init : Z -> Z) (add : Z -> Z -> Z) (without : bool) (grouping : list N) (slabels : list labels)
         (tbl : list oacc) (stream : list (Z * list (nat * Z))) : list (Z * list (nat * Z)) :=
  match stream with
  | [] => []
  | (ts, vec) :: r =>
      let tbl' := agg_step init add without grouping slabels tbl vec in
      (ts, agg_emit (length (groups without grouping slabels)) tbl') :: agg_stream init add without grouping slabels tbl' r
  end.

(* the reference: one output per distinct grouping key among the samples, in order of first
   appearance, with the accumulated value of the samples that have the key *)
Definition ref_agg (init : Z -> Z) (add : Z -> Z -> Z) (without : bool) (grouping : list N) (smp : list (labels * Z))
  : list (labels * Z) :=
  let key := fun mv : labels * Z => group_labels without grouping (fst mv) in
  flat_map (fun k => match agg_fold init add (map snd (filter (fun mv => if labels_dec (key mv) k then true else false) smp)) with
                     | Some v => [(k, v)]
                     | None => []
                     end)
           (nodup labels_dec (map key smp)).

(* ---- topk / bottomk ------------------------------------------------------------------- *)

(* samplesHeap.Less on numbers: < for topk, > for bottomk *)
Definition ltk (bottom : bool) : Z -> Z -> bool := if bottom then (fun a b => Z.ltb b a) else Z.ltb.

Fixpoint nodupb (l : list Z) : bool :=
  match l with [] => true | x :: r => negb (existsb (Z.eqb x) r) && nodupb r end.

Definition tkey (without : bool) (grouping : list N) (mv : labels * Z) : labels := group_labels without grouping (fst mv).

Definition has_key (without : bool) (grouping : list N) (kk : labels) (mv : labels * Z) : bool :=
  if labels_dec (tkey without grouping mv) kk then true else false.

(* a sample is kept iff fewer than k samples of its group are strictly better *)
Definition ref_keep (bottom : bool) (k : nat) (without : bool) (grouping : list N) (smp : list (labels * Z)) (x : labels * Z) : bool :=
  Nat.ltb (length (filter (fun y => has_key without grouping (tkey without grouping x) y && ltk bottom (snd x) (snd y)) smp)) k.

(* no two samples of a group have the same value (otherwise the reference's choice is its heap's) *)
Definition ties_free (without : bool) (grouping : list N) (smp : list (labels * Z)) : bool :=
  forallb (fun kk => nodupb (map snd (filter (has_key without grouping kk) smp)))
          (nodup labels_dec (map (tkey without grouping) smp)).

Definition ref_topk (bottom : bool) (k : nat) (without : bool) (grouping : list N) (smp : list (labels * Z))
  : option (list (labels * Z)) :=
  if ties_free without grouping smp then Some (filter (ref_keep bottom k without grouping smp) smp) else None.

Definition topk_vec (bottom : bool) (k : nat) (without : bool) (grouping : list N) (slabels : list labels)
           (vec : list (nat * Z)) : list (nat * Z) :=
  topk_step Z (ltk bottom) (nonan Z) k (inputs without grouping slabels) (length (groups without grouping slabels)) vec.

Definition shift_ids (n : nat) (vec : list (nat * Z)) : list (nat * Z) := map (fun iv => ((n + fst iv)%nat, snd iv)) vec.

Fixpoint zip_vecs (L R : list (Z * list (nat * Z))) : list (Z * list (nat * Z) * list (nat * Z)) :=
  match L, R with
  | (t, a) :: L', (_, b) :: R' => (t, a, b) :: zip_vecs L' R'
  | _, _ => []
  end.

(* setOffsetForAtModifier: a selector with @ a is given the offset that moves the query's start to a *)
Definition eff_off (w : window) (off : Z) (pin : option Z) : Z :=
  match pin with Some a => off + (w_start w - a) | None => off end.

(* the time a selector is evaluated for at step ts, before its offset *)
Definition eval_time (pin : option Z) (ts : Z) : Z := match pin with Some a => a | None => ts end.

(* the engine: the stream of step vectors a node hands to its consumer *)
Fixpoint jrun (cf : cfg) (w : window) (t : jtree) {struct t} : list (Z * list (nat * Z)) + step_err :=
  match t with
  | JLeaf _ sers off pin => inl (map (fun sv => (svT sv, vec_of sv)) (concat (run cf w (PSelect sers (eff_off w off pin)))))
  | JRange _ fn range _ sers off pin =>
      inl (map (fun sv => (svT sv, vec_of sv))
               (concat (sharded_matrix fn range (eff_off w off pin) (w_step w) (c_shards cf) sers (selector_batches (c_batch cf) w))))
  | JJoin p l r =>
      match jrun cf w l, jrun cf w r with
      | inl L, inl R =>
          exec_steps Z 0 (jp_op p) (jp_b2v p) (jp_card p) (jp_bool p)
                     (op_hidx (jp_on p) (jp_ml p) (jp_card p) (jseries l) (jseries r))
                     (op_lidx (jp_on p) (jp_ml p) (jp_card p) (jseries l) (jseries r))
                     (zip_vecs L R) (new_table Z 0 (length (jseries (JJoin p l r))))
      | inr e, _ => inr e
      | _, inr e => inr e
      end
  | JMap _ f t =>
      match jrun cf w t with
      | inl strm => inl (map (fun tv => (fst tv, func_step Z f (snd tv))) strm)
      | inr e => inr e
      end
  | JCount conv without grouping t =>
      match jrun cf w t with
      | inl strm => inl (count_stream conv without grouping (jseries t)
                                      (repeat dacc (length (groups without grouping (jseries t)))) strm)
      | inr e => inr e
      end
  | JAgg init add without grouping t =>
      match jrun cf w t with
      | inl strm => inl (agg_stream init add without grouping (jseries t)
                                    (repeat doacc (length (groups without grouping (jseries t)))) strm)
      | inr e => inr e
      end
  | JTopk bottom k without grouping t =>
      match jrun cf w t with
      | inl strm => inl (map (fun tv => (fst tv, topk_vec bottom k without grouping (jseries t) (snd tv))) strm)
      | inr e => inr e
      end
  | JRemote t =>
      match jrun cf w t with
      | inl strm => inl (reread (c_batch cf) w (length (jseries t)) strm)
      | inr e => inr e
      end
  | JConcat l r =>
      match jrun cf w l, jrun cf w r with
      | inl L, inl R => inl (map (fun tab => (fst (fst tab), snd (fst tab) ++ shift_ids (length (jseries l)) (snd tab))) (zip_vecs L R))
      | inr e, _ => inr e
      | _, inr e => inr e
      end
  | JInvariant t =>
      (* cacheInputVector: one Next of the child, built for [start, start]; then one copy per step *)
      match jrun cf (pinned_window w) t with
      | inl strm =>
          let cached := match strm with (_, vec) :: _ => vec | [] => [] end in
          inl (map (fun ts => (ts, cached)) (concat (counter_batches (c_batch cf) w)))
      | inr e => inr e
      end
  end.

(* the reference at one timestamp *)
Fixpoint jref (lb : Z) (t : jtree) (ts : Z) : option (list (labels * Z)) :=
  match t with
  | JLeaf ls sers off pin => Some (labelled Z ls (vec_of (select_step lb off sers (eval_time pin ts))))
  | JRange keep fn range ls sers off pin =>
      (* one sample per series whose window yields a value, under the series' output labels *)
      Some (present_with_labels (map (fun m => if keep then m else del_name m) ls)
                                (map (fun ss => range_value fn range off ss (eval_time pin ts)) sers))
  | JJoin p l r =>
      match jref lb l ts, jref lb r ts with
      | Some L, Some R =>
          ref_step Z (jp_op p) (jp_b2v p) (the_sig (jp_on p) (jp_ml p))
                   (ref_result_metric (jp_drops p) (jp_bool p) (jp_card p) (jp_on p) (jp_ml p) (jp_incl p))
                   (jp_card p) (jp_bool p) L R
      | _, _ => None
      end
  | JMap drops f t =>
      match jref lb t ts with
      | Some smp => Some (flat_map (fun mv => match f (snd mv) with
                                            | Some v => [((if drops then del_name (fst mv) else fst mv), v)]
                                            | None => []
                                            end) smp)
      | None => None
      end
  | JCount conv without grouping t =>
      match jref lb t ts with
      | Some smp =>
          let present := map (fun mv => group_labels without grouping (fst mv)) smp in
          Some (map (fun k => (k, conv (count_occ labels_dec present k))) (nodup labels_dec present))
      | None => None
      end
  | JAgg init add without grouping t =>
      match jref lb t ts with
      | Some smp => Some (ref_agg init add without grouping smp)
      | None => None
      end
  | JTopk bottom k without grouping t =>
      match jref lb t ts with
      | Some smp => ref_topk bottom k without grouping smp
      | None => None
      end
  | JRemote t => jref lb t ts
  | JConcat l r =>
      match jref lb l ts, jref lb r ts with
      | Some A, Some B => Some (A ++ B)
      | _, _ => None
      end
  | JInvariant t => jref lb t ts
  end.

(* every selector of the subtree carries @ *)
Fixpoint jpinned (t : jtree) : Prop :=
  match t with
  | JLeaf _ _ _ pin => pin <> None
  | JRange _ _ _ _ _ _ pin => pin <> None
  | JJoin _ l r => jpinned l /\ jpinned r
  | JMap _ _ t => jpinned t
  | JCount _ _ _ t => jpinned t
  | JAgg _ _ _ _ t => jpinned t
  | JTopk _ _ _ _ t => jpinned t
  | JRemote t => jpinned t
  | JConcat l r => jpinned l /\ jpinned r
  | JInvariant t => jpinned t
  end.

(* [single]: the node is evaluated on a one-step window (below a JInvariant); a selector with @
   occurs only there, and a step-invariant subtree has all its selectors pinned (PreprocessExpr;
   where the engine's wrapping departs from that, known findings F16a/F16b) *)
Fixpoint jokw (single : bool) (t : jtree) : Prop :=
  match t with
  | JLeaf ls sers _ pin => length ls = length sers /\ Forall sorted_ts sers /\ (pin = None \/ single = true)
  | JRange _ _ range ls sers _ pin =>
      length ls = length sers /\ Forall sorted_ts sers /\ 0 <= range /\ (pin = None \/ single = true)
  | JJoin p l r =>
      jokw single l /\ jokw single r /\
      one_side_unique (jp_on p) (jp_ml p) (one_side_series (jp_card p) (jseries l) (jseries r)) /\
      (is_one_to_one (jp_card p) = true -> jp_incl p = [])
  | JMap _ _ t => jokw single t
  | JCount _ _ _ t => jokw single t
  | JAgg init add _ _ t =>
      jokw single t /\ (forall a b, add (init a) b = add (init b) a) /\ (forall x a b, add (add x a) b = add (add x b) a)
  | JTopk _ _ _ _ t => jokw single t
  | JRemote t => jokw single t
  | JConcat l r => jokw single l /\ jokw single r
  | JInvariant t => jokw true t /\ jpinned t
  end.

Definition jok (t : jtree) : Prop := jokw false t.

Lemma nth_map_labels (g : labels -> labels) (l : list labels) i : (i < length l)%nat ->
  nth i (map g l) [] = g (nth i l []).
Proof. intros Hi. rewrite (nth_indep _ [] (g [])) by (rewrite map_length; assumption). apply map_nth. Qed.

Lemma func_step_fst (f : Z -> option Z) (vec : list (nat * Z)) :
  map fst (func_step Z f vec) = map fst (filter (fun iv => match f (snd iv) with Some _ => true | None => false end) vec).
Proof. unfold func_step. induction vec as [|iv vec IH]; simpl; [reflexivity|]. destruct (f (snd iv)); simpl; rewrite IH; reflexivity. Qed.

Lemma NoDup_map_filter {A B} (g : A -> B) (p : A -> bool) (l : list A) : NoDup (map g l) -> NoDup (map g (filter p l)).
Proof.
  induction l as [|a l IH]; simpl; intros H; [constructor|]. inversion H as [|? ? Hn Hnd]; subst.
  destruct (p a); simpl; [|apply IH; assumption]. constructor; [|apply IH; assumption].
  intros Hin. apply Hn. apply in_map_iff in Hin. destruct Hin as [x [Ex Hx]]. apply filter_In in Hx. rewrite <- Ex. apply in_map. tauto.
Qed.

(* ---- the count node ----------------------------------------------------------- *)

Lemma count_stream_fresh conv without grouping slabels : forall (stream : list (Z * list (nat * Z))) tbl,
  length tbl = length (groups without grouping slabels) ->
  count_stream conv without grouping slabels tbl stream =
  map (fun tv => (fst tv, emit_ids conv (length (groups without grouping slabels))
                            (count_step without grouping slabels (repeat dacc (length (groups without grouping slabels)))
                                        (sv_of (fst tv) (snd tv))))) stream.
Proof.
  induction stream as [|[ts vec] r IH]; intros tbl Hl; simpl; [reflexivity|].
  assert (E : count_step without grouping slabels tbl (sv_of ts vec) =
              count_step without grouping slabels (repeat dacc (length (groups without grouping slabels))) (sv_of ts vec)).
  { unfold count_step. apply table_reset_local. rewrite repeat_length. assumption. }
  rewrite E. f_equal. apply IH. rewrite count_step_length, repeat_length. reflexivity.
Qed.

Lemma emit_ids_fst conv n tbl : map fst (emit_ids conv n tbl) = filter (fun g => a_has nat (nth g tbl dacc)) (seq 0 n).
Proof.
  unfold emit_ids. induction (seq 0 n) as [|g l IH]; simpl; [reflexivity|].
  rewrite map_app, IH. destruct (a_has nat (nth g tbl dacc)); reflexivity.
Qed.

Lemma nth_keys without grouping (slabels : list labels) i : (i < length slabels)%nat ->
  nth i (keys without grouping slabels) [] = group_labels without grouping (nth i slabels []).
Proof. intros Hi. unfold keys. apply nth_map_labels. assumption. Qed.

Lemma count_occ_perm (l l' : list labels) k : Permutation l l' -> count_occ labels_dec l k = count_occ labels_dec l' k.
Proof.
  induction 1; simpl; [reflexivity| | |congruence].
  - destruct (labels_dec x k); rewrite IHPermutation; reflexivity.
  - destruct (labels_dec x k), (labels_dec y k); reflexivity.
Qed.

Lemma labelled_nodup (gs : list labels) (vec : list (nat * Z)) :
  NoDup gs -> NoDup (map fst vec) -> (forall iv, In iv vec -> (fst iv < length gs)%nat) -> NoDup (labelled Z gs vec).
Proof.
  intros Hg Hn Hr. apply (NoDup_map_inv fst). unfold labelled. rewrite map_map. simpl.
  induction vec as [|iv vec IH]; simpl; [constructor|].
  simpl in Hn. inversion Hn as [|? ? Hni Hn']; subst. constructor.
  - intros Hin. apply in_map_iff in Hin. destruct Hin as [jv [Ej Hj]].
    assert (fst jv = fst iv).
    { apply (proj1 (NoDup_nth gs []) Hg); [apply Hr; right; assumption|apply Hr; left; reflexivity|exact Ej]. }
    apply Hni. rewrite <- H. apply in_map. assumption.
  - apply IH; [assumption|intros x Hx; apply Hr; right; assumption].
Qed.

Lemma zip_vecs_map (fl fr : Z -> list (nat * Z)) (g : list Z) :
  zip_vecs (map (fun ts => (ts, fl ts)) g) (map (fun ts => (ts, fr ts)) g) = map (fun ts => (ts, fl ts, fr ts)) g.
Proof. induction g as [|t g IH]; simpl; [reflexivity|]. rewrite IH. reflexivity. Qed.

(* ---- the generic aggregation node ----------------------------------------------------- *)

Section AggNode.
  Variables (init : Z -> Z) (add : Z -> Z -> Z).
  Hypothesis comm_start : forall a b, add (init a) b = add (init b) a.
  Hypothesis right_comm : forall x a b, add (add x a) b = add (add x b) a.

  Lemma fold_some_perm l l' : Permutation l l' -> forall a,
    fold_left (agg_add init add) l (Some a) = fold_left (agg_add init add) l' (Some a).
  Proof.
    induction 1 as [|x l l' _ IH|x y l|l l' l'' _ IH1 _ IH2]; intros a; simpl.
    - reflexivity.
    - apply IH.
    - rewrite right_comm. reflexivity.
    - rewrite IH1. apply IH2.
  Qed.

  (* the accumulated value does not depend on the order of the members *)
  Lemma agg_fold_perm l l' : Permutation l l' -> agg_fold init add l = agg_fold init add l'.
  Proof.
    unfold agg_fold. induction 1 as [|x l l' Hp _|x y l|l l' l'' _ IH1 _ IH2]; simpl.
    - reflexivity.
    - apply fold_some_perm. assumption.
    - rewrite comm_start. reflexivity.
    - rewrite IH1. exact IH2.
  Qed.

  Lemma agg_fold_some v vs : exists r, agg_fold init add (v :: vs) = Some r.
  Proof.
    unfold agg_fold. simpl. generalize (init v). induction vs as [|x vs IH]; intros a; simpl; [eexists; reflexivity|apply IH].
  Qed.
End AggNode.

Lemma agg_step_length init add without grouping slabels tbl vec :
  length (agg_step init add without grouping slabels tbl vec) = length tbl.
Proof.
  unfold agg_step, aggregate.
  assert (H : forall vec (t : list oacc),
             length (fold_left (add_sample Z (option Z) (agg_add init add) (inputs without grouping slabels)) vec t) = length t).
  { induction vec0 as [|iv vec0 IH]; intros t; simpl; [reflexivity|]. rewrite IH. unfold add_sample. apply upd_nth_length. }
  rewrite H. apply map_length.
Qed.

Lemma agg_stream_fresh init add without grouping slabels : forall (stream : list (Z * list (nat * Z))) tbl,
  length tbl = length (groups without grouping slabels) ->
  agg_stream init add without grouping slabels tbl stream =
  map (fun tv => (fst tv, agg_emit (length (groups without grouping slabels))
                            (agg_step init add without grouping slabels
                                      (repeat doacc (length (groups without grouping slabels))) (snd tv)))) stream.
Proof.
  induction stream as [|[ts vec] r IH]; intros tbl Hl; simpl; [reflexivity|].
  assert (E : agg_step init add without grouping slabels tbl vec =
              agg_step init add without grouping slabels (repeat doacc (length (groups without grouping slabels))) vec).
  { unfold agg_step. apply table_reset_local. rewrite repeat_length. assumption. }
  rewrite E. f_equal. apply IH. rewrite agg_step_length, repeat_length. reflexivity.
Qed.

Lemma agg_emit_fst n tbl :
  map fst (agg_emit n tbl) =
  filter (fun g => a_has (option Z) (nth g tbl doacc) && match a_st (option Z) (nth g tbl doacc) with Some _ => true | None => false end)
         (seq 0 n).
Proof.
  unfold agg_emit. induction (seq 0 n) as [|g l IH]; simpl; [reflexivity|].
  rewrite map_app, IH. destruct (a_has (option Z) (nth g tbl doacc)); [|reflexivity].
  destruct (a_st (option Z) (nth g tbl doacc)); reflexivity.
Qed.

Lemma agg_emit_in n tbl g v : In (g, v) (agg_emit n tbl) <->
  (g < n)%nat /\ a_has (option Z) (nth g tbl doacc) = true /\ a_st (option Z) (nth g tbl doacc) = Some v.
Proof.
  unfold agg_emit. rewrite in_flat_map. split.
  - intros [g' [Hg Hin]]. apply in_seq in Hg. cbv zeta in Hin.
    destruct (a_has (option Z) (nth g' tbl doacc)) eqn:Eh; [|destruct Hin].
    destruct (a_st (option Z) (nth g' tbl doacc)) as [v'|] eqn:Es; [|destruct Hin].
    destruct Hin as [Heq|[]]. inversion Heq; subst. repeat split; try assumption. lia.
  - intros [Hg [Eh Es]]. exists g. split; [apply in_seq; lia|]. cbv zeta. rewrite Eh, Es. left. reflexivity.
Qed.

Lemma Permutation_filter' {A} (p : A -> bool) (l l' : list A) : Permutation l l' -> Permutation (filter p l) (filter p l').
Proof.
  induction 1 as [|x l l' _ IH|x y l|l l' l'' _ IH1 _ IH2]; simpl.
  - constructor.
  - destruct (p x); [constructor|]; assumption.
  - destruct (p x), (p y); try apply Permutation_refl. constructor.
  - eapply Permutation_trans; eassumption.
Qed.

Lemma filter_map_comm {A B} (f : A -> B) (p : B -> bool) (l : list A) :
  filter p (map f l) = map f (filter (fun x => p (f x)) l).
Proof. induction l as [|a l IH]; simpl; [reflexivity|]. destruct (p (f a)); simpl; rewrite IH; reflexivity. Qed.

(* the members of a group in the engine's step vector carry the values of the samples that have
   the group's key in the labelled vector *)
Lemma members_as_filter without grouping (sl : list labels) (vec : list (nat * Z)) gi :
  (gi < length (groups without grouping sl))%nat ->
  (forall iv, In iv vec -> (fst iv < length sl)%nat) ->
  members Z (inputs without grouping sl) gi vec =
  map snd (filter (fun mv : labels * Z =>
                     if labels_dec (group_labels without grouping (fst mv)) (nth gi (groups without grouping sl) []) then true else false)
                  (labelled Z sl vec)).
Proof.
  intros Hgi Hr. unfold members, labelled. rewrite filter_map_comm, map_map. simpl.
  f_equal. apply filter_ext_in. intros iv Hiv. specialize (Hr iv Hiv).
  assert (Hk : (fst iv < length (keys without grouping sl))%nat) by (unfold keys; rewrite map_length; exact Hr).
  rewrite <- (nth_keys without grouping sl (fst iv) Hr).
  destruct (labels_dec (nth (fst iv) (keys without grouping sl) []) (nth gi (groups without grouping sl) [])) as [E|NE].
  - apply Nat.eqb_eq. apply (member_iff_key without grouping sl); assumption.
  - apply Nat.eqb_neq. intros E. apply NE. apply (member_iff_key without grouping sl); assumption.
Qed.

Lemma ref_agg_keys_nodup init add without grouping smp : NoDup (map fst (ref_agg init add without grouping smp)).
Proof.
  unfold ref_agg. cbv zeta.
  assert (H : forall ks : list labels, NoDup ks ->
            NoDup (map fst (flat_map (fun k => match agg_fold init add (map snd (filter (fun mv : labels * Z =>
                      if labels_dec (group_labels without grouping (fst mv)) k then true else false) smp)) with
                     | Some v => [(k, v)] | None => [] end) ks))).
  { induction ks as [|k ks IH]; intros Hnd; simpl; [constructor|].
    inversion Hnd as [|? ? Hn Hnd']; subst. rewrite map_app.
    destruct (agg_fold init add _) as [v|]; simpl; [|apply IH; assumption].
    constructor; [|apply IH; assumption].
    intros Hin. apply in_map_iff in Hin. destruct Hin as [[k' v'] [Ek Hin]]. simpl in Ek. subst k'.
    apply in_flat_map in Hin. destruct Hin as [k'' [Hk'' Hin]].
    destruct (agg_fold init add _); [|destruct Hin]. destruct Hin as [Heq|[]]. inversion Heq; subst. contradiction. }
  apply H. apply NoDup_nodup.
Qed.

Lemma Trees_filter_filter {A} (p q : A -> bool) (l : list A) : filter p (filter q l) = filter (fun x => q x && p x) l.
Proof. induction l as [|a l IH]; simpl; [reflexivity|]. destruct (q a); simpl; [destruct (p a)|]; rewrite IH; reflexivity. Qed.

(* ---- the topk node --------------------------------------------------------------------- *)

Lemma ltk_irrefl bottom a : ltk bottom a a = false.
Proof. destruct bottom; simpl; apply Z.ltb_irrefl. Qed.
Lemma ltk_trans bottom a b c : ltk bottom a b = true -> ltk bottom b c = true -> ltk bottom a c = true.
Proof. destruct bottom; simpl; intros; lia. Qed.
Lemma ltk_total bottom a b : a <> b -> ltk bottom a b = true \/ ltk bottom b a = true.
Proof. destruct bottom; simpl; intros; lia. Qed.

Lemma nodupb_spec l : nodupb l = true <-> NoDup l.
Proof.
  induction l as [|x l IH]; simpl.
  - split; [constructor|reflexivity].
  - rewrite andb_true_iff, negb_true_iff, IH. split.
    + intros [Hn Hnd]. constructor; [|assumption]. intros Hin.
      assert (existsb (Z.eqb x) l = true) by (apply existsb_exists; exists x; split; [assumption|apply Z.eqb_refl]). congruence.
    + intros H. inversion H as [|? ? Hn Hnd]; subst. split; [|assumption].
      destruct (existsb (Z.eqb x) l) eqn:E; [|reflexivity]. apply existsb_exists in E. destruct E as [y [Hy Ey]].
      apply Z.eqb_eq in Ey. subst y. contradiction.
Qed.

Lemma filter_length_perm {A} (p : A -> bool) (l l' : list A) : Permutation l l' -> length (filter p l) = length (filter p l').
Proof. intros H. apply Permutation_length. apply Permutation_filter'. assumption. Qed.

Lemma ref_keep_perm bottom k without grouping (l l' : list (labels * Z)) x :
  Permutation l l' -> ref_keep bottom k without grouping l x = ref_keep bottom k without grouping l' x.
Proof. intros H. unfold ref_keep. rewrite (filter_length_perm _ l l' H). reflexivity. Qed.

Lemma ref_keep_filter_perm bottom k without grouping (l l' : list (labels * Z)) : Permutation l l' ->
  Permutation (filter (ref_keep bottom k without grouping l) l) (filter (ref_keep bottom k without grouping l') l').
Proof.
  intros H. rewrite (filter_ext _ _ (fun x => ref_keep_perm bottom k without grouping l l' x H)).
  apply Permutation_filter'. assumption.
Qed.

Lemma filter_length_map {A B} (f : A -> B) (p : A -> bool) (q : B -> bool) (l : list A) :
  (forall a, In a l -> p a = q (f a)) -> length (filter p l) = length (filter q (map f l)).
Proof.
  induction l as [|a l IH]; intros H; simpl; [reflexivity|].
  rewrite <- (H a (or_introl eq_refl)). destruct (p a); simpl; rewrite IH; auto; intros b Hb; apply H; right; assumption.
Qed.

(* the group of a sample ID and the grouping key of the series' labels *)
Lemma same_group_iff_same_key without grouping (sl : list labels) i j :
  (i < length sl)%nat -> (j < length sl)%nat ->
  (nth i (inputs without grouping sl) 0%nat = nth j (inputs without grouping sl) 0%nat <->
   group_labels without grouping (nth i sl []) = group_labels without grouping (nth j sl [])).
Proof.
  intros Hi Hj.
  assert (Hik : (i < length (keys without grouping sl))%nat) by (unfold keys; rewrite map_length; assumption).
  assert (Hjk : (j < length (keys without grouping sl))%nat) by (unfold keys; rewrite map_length; assumption).
  destruct (groups_spec without grouping sl) as [_ [_ Hgn]].
  assert (Hg : (nth j (inputs without grouping sl) 0 < length (groups without grouping sl))%nat).
  { apply nth_error_Some. rewrite (Hgn j Hjk). apply nth_error_Some. assumption. }
  rewrite <- (nth_keys without grouping sl i Hi), <- (nth_keys without grouping sl j Hj).
  pose proof (member_iff_key without grouping sl _ i Hg Hik) as Mi.
  pose proof (member_iff_key without grouping sl _ j Hg Hjk) as Mj.
  assert (Ej : nth j (keys without grouping sl) [] = nth (nth j (inputs without grouping sl) 0%nat) (groups without grouping sl) [])
    by (apply Mj; reflexivity).
  rewrite Ej. exact Mi.
Qed.

Lemma labelled_filter_keep bottom k without grouping (sl : list labels) (vec : list (nat * Z)) :
  (forall iv, In iv vec -> (fst iv < length sl)%nat) ->
  labelled Z sl (filter (step_keep Z (ltk bottom) (inputs without grouping sl) k vec) vec) =
  filter (ref_keep bottom k without grouping (labelled Z sl vec)) (labelled Z sl vec).
Proof.
  intros Hr. unfold labelled at 1 3. rewrite filter_map_comm. f_equal.
  apply filter_ext_in. intros x Hx.
  unfold step_keep, rank_keep, better, ref_keep. f_equal.
  rewrite Trees_filter_filter.
  unfold labelled. apply filter_length_map. intros y Hy.
  unfold in_group, group_of, has_key, tkey. simpl.
  f_equal.
  destruct (labels_dec (group_labels without grouping (nth (fst y) sl [])) (group_labels without grouping (nth (fst x) sl []))) as [E|NE].
  - apply Nat.eqb_eq. apply (same_group_iff_same_key without grouping sl); [apply Hr; assumption|apply Hr; assumption|exact E].
  - apply Nat.eqb_neq. intros E. apply NE. apply (same_group_iff_same_key without grouping sl); [apply Hr; assumption|apply Hr; assumption|exact E].
Qed.

Lemma ties_free_all without grouping (smp : list (labels * Z)) : ties_free without grouping smp = true ->
  forall kk, NoDup (map snd (filter (has_key without grouping kk) smp)).
Proof.
  intros H kk. unfold ties_free in H. rewrite forallb_forall in H.
  destruct (in_dec labels_dec kk (map (tkey without grouping) smp)) as [Hin|Hn].
  - apply nodupb_spec. apply H. apply nodup_In. assumption.
  - assert (E : filter (has_key without grouping kk) smp = []).
    { clear H. induction smp as [|mv smp IH]; simpl; [reflexivity|]. simpl in Hn.
      unfold has_key at 1. destruct (labels_dec (tkey without grouping mv) kk) as [Ek|NE]; [exfalso; apply Hn; left; assumption|].
      apply IH. intros Hin. apply Hn. right. assumption. }
    rewrite E. constructor.
Qed.

Definition good_vec (n : nat) (vec : list (nat * Z)) : Prop :=
  (forall iv, In iv vec -> (fst iv < n)%nat) /\ NoDup (map fst vec).

Lemma increasing_of_grid (f : Z -> Z * list (nat * Z) * list (nat * Z)) prev (ts : list Z) :
  (forall t, fst (fst (f t)) = t) -> StreamWF.increasing ts -> Forall (fun t => prev < t) ts ->
  BinProofs.increasing Z prev (map f ts).
Proof.
  intros Hf. revert prev. induction ts as [|t ts IH]; intros prev Hi Hp; simpl; [exact I|].
  destruct Hi as [Hlt Hi]. inversion Hp; subst. rewrite Hf. split; [assumption|]. apply IH; assumption.
Qed.

(* the per-timestamp denotation of a node, at the level of sample IDs *)
Fixpoint jdenote (lb : Z) (t : jtree) (ts : Z) : list (nat * Z) :=
  match t with
  | JLeaf _ sers off pin => vec_of (select_step lb off sers (eval_time pin ts))
  | JRange _ fn range _ sers off pin => vec_of (range_step fn range off sers (eval_time pin ts))
  | JJoin p l r =>
      pure_step Z (jp_op p) (jp_b2v p) (jp_card p) (jp_bool p)
                (op_hidx (jp_on p) (jp_ml p) (jp_card p) (jseries l) (jseries r))
                (op_lidx (jp_on p) (jp_ml p) (jp_card p) (jseries l) (jseries r))
                (jdenote lb l ts) (jdenote lb r ts)
  | JMap _ f t1 => func_step Z f (jdenote lb t1 ts)
  | JCount conv without grouping t1 =>
      emit_ids conv (length (groups without grouping (jseries t1)))
               (count_step without grouping (jseries t1)
                           (repeat dacc (length (groups without grouping (jseries t1))))
                           (sv_of ts (jdenote lb t1 ts)))
  | JAgg init add without grouping t1 =>
      agg_emit (length (groups without grouping (jseries t1)))
               (agg_step init add without grouping (jseries t1)
                         (repeat doacc (length (groups without grouping (jseries t1)))) (jdenote lb t1 ts))
  | JTopk bottom k without grouping t1 => topk_vec bottom k without grouping (jseries t1) (jdenote lb t1 ts)
  | JRemote t1 => vec_of (by_id (length (jseries t1)) ts (jdenote lb t1 ts))
  | JConcat l r => jdenote lb l ts ++ shift_ids (length (jseries l)) (jdenote lb r ts)
  | JInvariant t1 => jdenote lb t1 ts
  end.

(* ---- selectors with @ on a one-step window --------------------------------------------- *)

Lemma grid_single w : wf_window w -> w_end w = w_start w -> grid w = [w_start w].
Proof.
  intros [Hse [Hst Hinst]] He. unfold grid, total_steps. rewrite He.
  destruct (Z.eqb_spec (w_step w) 0) as [E0|NE0].
  - simpl. unfold grid_at. rewrite E0. f_equal. lia.
  - replace (w_start w - w_start w) with 0 by lia. rewrite Z.div_0_l by assumption. simpl.
    unfold grid_at. f_equal. lia.
Qed.

Lemma vec_of_select_pinned lb off a s sers :
  vec_of (select_step lb (off + (s - a)) sers s) = vec_of (select_step lb off sers a).
Proof.
  unfold select_step.
  assert (E : forall ss, pick lb ss (s - (off + (s - a))) = pick lb ss (a - off)) by (intros; f_equal; lia).
  rewrite (map_ext _ _ E). unfold stepvec_of, vec_of. destruct (collect 0 _); reflexivity.
Qed.

Lemma vec_of_range_pinned fn range off a s sers :
  vec_of (range_step fn range (off + (s - a)) sers s) = vec_of (range_step fn range off sers a).
Proof.
  unfold range_step.
  assert (E : forall ss, range_value fn range (off + (s - a)) ss s = range_value fn range off ss a).
  { intros ss. unfold range_value, Range.window_at.
    replace (s - (off + (s - a))) with (a - off) by lia. reflexivity. }
  rewrite (map_ext _ _ E). unfold stepvec_of, vec_of. destruct (collect 0 _); reflexivity.
Qed.

Lemma jdenote_pinned_indep lb t : jpinned t -> forall ts ts', jdenote lb t ts = jdenote lb t ts'.
Proof.
  induction t as [ls sers off pin|keep fn range ls sers off pin|p l IHl r IHr|drops f t IH|conv without grouping t IH|init add without grouping t IH|bottom k without grouping t IH|t IH|l IHl r IHr|t IH];
    intros Hp ts ts'; cbn [jdenote jpinned] in *.
  - destruct pin; [reflexivity|congruence].
  - destruct pin; [reflexivity|congruence].
  - destruct Hp as [Hl Hr]. rewrite (IHl Hl ts ts'), (IHr Hr ts ts'). reflexivity.
  - rewrite (IH Hp ts ts'). reflexivity.
  - rewrite (IH Hp ts ts'). reflexivity.
  - rewrite (IH Hp ts ts'). reflexivity.
  - rewrite (IH Hp ts ts'). reflexivity.
  - rewrite (IH Hp ts ts'). unfold by_id, stepvec_of, vec_of. destruct (collect 0 _); reflexivity.
  - destruct Hp as [Hl Hr]. rewrite (IHl Hl ts ts'), (IHr Hr ts ts'). reflexivity.
  - apply IH. assumption.
Qed.

(* C01 for trees of binary operators over selectors, e.g. (a + on(x) b) * ignoring(y) group_left c:
   every node's stream is a function of the grid timestamp; its sample IDs are
   distinct and name series of the node; and at every timestamp at which the
   reference evaluation of the node succeeds, the node's samples are a
   permutation of the reference's. *)
Lemma jtree_matches_reference_gen cf :
  (0 < c_shards cf)%nat -> (0 < c_batch cf)%nat -> 0 <= c_lookback cf ->
  forall t single, jokw single t ->
  forall w, wf_window w -> noT < w_start w -> (single = true -> w_end w = w_start w) ->
    jrun cf w t = inl (map (fun ts => (ts, jdenote (c_lookback cf) t ts)) (grid w)) /\
    forall ts, good_vec (length (jseries t)) (jdenote (c_lookback cf) t ts) /\
               forall R, jref (c_lookback cf) t ts = Some R ->
                         Permutation (labelled Z (jseries t) (jdenote (c_lookback cf) t ts)) R.
Proof.
  intros HN HB Hlb. induction t as [ls sers off pin|keep fn range ls sers off pin|p l IHl r IHr|drops f t IH|conv without grouping t IH|init add without grouping t IH|bottom k without grouping t IH|t IH|l IHl r IHr|t IH];
    intros single Hok w Hw Hstart Hsingle.
  - destruct Hok as [Hlen [Hs Hpin]]. cbn [jdenote]. split.
    + cbn [jrun]. rewrite (run_covers_grid cf w (PSelect sers (eff_off w off pin)) HN HB Hlb Hw Hs). simpl denote. rewrite map_map.
      f_equal. apply map_ext_in. intros ts Hts. rewrite select_step_T. f_equal.
      destruct pin as [a|]; [|reflexivity]. destruct Hpin as [Habs|Hsg]; [discriminate|].
      rewrite (grid_single w Hw (Hsingle Hsg)) in Hts. destruct Hts as [<-|[]].
      cbn [eff_off eval_time]. apply vec_of_select_pinned.
    + intros ts. split.
      * simpl. rewrite Hlen. apply (vec_of_good _ _ (select_step_wf (c_lookback cf) off sers (eval_time pin ts))).
      * intros R HR. simpl in HR. inversion HR; subst. apply Permutation_refl.
  - destruct Hok as [Hlen [Hs [Hr Hpin]]]. cbn [jdenote]. split.
    + cbn [jrun]. rewrite (sharded_matrix_spec fn range (eff_off w off pin) (c_shards cf) (c_batch cf) w sers HN HB Hw Hr Hs).
      rewrite <- concat_map, (selector_batches_cover_grid (c_batch cf) w HB Hw), map_map.
      f_equal. apply map_ext_in. intros ts Hts. rewrite range_step_T. f_equal.
      destruct pin as [a|]; [|reflexivity]. destruct Hpin as [Habs|Hsg]; [discriminate|].
      rewrite (grid_single w Hw (Hsingle Hsg)) in Hts. destruct Hts as [<-|[]].
      cbn [eff_off eval_time]. apply vec_of_range_pinned.
    + intros ts. split.
      * simpl. rewrite map_length, Hlen. apply (vec_of_good _ _ (range_step_wf fn range off sers (eval_time pin ts))).
      * intros R HR. simpl in HR. inversion HR; subst. clear HR.
        unfold labelled, vec_of, range_step. simpl jseries.
        rewrite labelled_stepvec by (rewrite !map_length; exact Hlen). apply Permutation_refl.
  - destruct Hok as [Hokl [Hokr [HA Hincl]]].
    destruct (IHl single Hokl w Hw Hstart Hsingle) as [El Pl]. destruct (IHr single Hokr w Hw Hstart Hsingle) as [Er Pr]. cbn [jdenote].
    set (fl := jdenote (c_lookback cf) l) in *. set (fr := jdenote (c_lookback cf) r) in *.
    assert (Hgood : forall ts, good_step Z (jseries l) (jseries r) (ts, fl ts, fr ts)).
    { intros ts. destruct (Pl ts) as [[A1 A2] _]. destruct (Pr ts) as [[B1 B2] _]. unfold good_step. simpl. repeat split; assumption. }
    split.
    + cbn [jrun]. rewrite El, Er, zip_vecs_map.
      rewrite (exec_is_pairing_any Z 0 (jp_op p) (jp_b2v p) (jp_on p) (jp_ml p) (jp_incl p) (jp_card p) (jp_bool p) (jp_drops p)
                 (jseries l) (jseries r) HA _ (w_start w - 1) ltac:(lia)).
      * rewrite map_map. reflexivity.
      * apply increasing_of_grid; [reflexivity| |].
        -- destruct (Z.eq_dec (w_step w) 0) as [E0|NE0].
           ++ rewrite (grid_instant (c_batch cf) w HB E0). simpl. split; [constructor|exact I].
           ++ apply grid_increasing_list. unfold wf_window in Hw. lia.
        -- apply Forall_forall. intros t Ht. unfold grid in Ht. apply in_map_iff in Ht. destruct Ht as [k [<- _]].
           unfold grid_at. unfold wf_window in Hw. nia.
      * apply Forall_forall. intros s Hs. apply in_map_iff in Hs. destruct Hs as [ts [<- _]]. apply Hgood.
    + intros ts.
      pose proof (step_ok_any Z 0 (jp_on p) (jp_ml p) (jp_incl p) (jp_card p) (jp_bool p) (jp_drops p) (jseries l) (jseries r) HA
                    (ts, fl ts, fr ts) (Hgood ts)) as Hstep. simpl in Hstep.
      split.
      * split.
        -- intros iv Hiv.
           pose proof (pure_step_ids_in_range Z (jp_op p) (jp_b2v p) (jp_on p) (jp_ml p) (jp_card p) (jp_bool p)
                         (jseries l) (jseries r) _ _ _ Hstep iv Hiv) as Hr.
           unfold new_table in Hr. rewrite repeat_length in Hr. exact Hr.
        -- apply pure_step_ids_unique. destruct Hstep as [_ [_ H]]. exact H.
      * intros R HR. simpl in HR.
        destruct (jref (c_lookback cf) l ts) as [L0|] eqn:EL; [|discriminate].
        destruct (jref (c_lookback cf) r ts) as [R0|] eqn:ER; [|discriminate].
        destruct (Pl ts) as [_ PL]. destruct (Pr ts) as [_ PR].
        specialize (PL L0 EL). specialize (PR R0 ER).
        destruct (ref_step_permutation Z (jp_op p) (jp_b2v p) (the_sig (jp_on p) (jp_ml p))
                    (ref_result_metric (jp_drops p) (jp_bool p) (jp_card p) (jp_on p) (jp_ml p) (jp_incl p))
                    (jp_card p) (jp_bool p) L0 R0 _ _ R (Permutation_sym PL) (Permutation_sym PR) HR) as [out' [Href' Pout]].
        pose proof (join_step_permutation Z (jp_op p) (jp_b2v p) (jp_on p) (jp_ml p) (jp_incl p) (jp_card p) (jp_bool p) (jp_drops p)
                      0 (jseries l) (jseries r) HA Hincl (ts, fl ts, fr ts) out' (Hgood ts) Href') as Pstep.
        eapply Permutation_trans; [exact Pstep|apply Permutation_sym; exact Pout].
  - destruct (IH single Hok w Hw Hstart Hsingle) as [Eg Pg]. cbn [jdenote]. set (g := jdenote (c_lookback cf) t) in *. split.
    + cbn [jrun]. rewrite Eg. rewrite map_map. reflexivity.
    + intros ts. destruct (Pg ts) as [[G1 G2] PG]. split.
      * split.
        -- intros iv Hiv. simpl. rewrite map_length. unfold func_step in Hiv. apply in_flat_map in Hiv.
           destruct Hiv as [x [Hx Hiv]]. destruct (f (snd x)); [|destruct Hiv]. destruct Hiv as [<-|[]]. simpl. apply G1. assumption.
        -- rewrite func_step_fst. apply NoDup_map_filter. assumption.
      * intros R HR. simpl in HR. destruct (jref (c_lookback cf) t ts) as [S0|] eqn:ES; [|discriminate].
        inversion HR; subst R. clear HR. specialize (PG S0 eq_refl).
        assert (E : labelled Z (jseries (JMap drops f t)) (func_step Z f (g ts)) =
                    flat_map (fun mv => match f (snd mv) with
                                        | Some v => [((if drops then del_name (fst mv) else fst mv), v)]
                                        | None => []
                                        end) (labelled Z (jseries t) (g ts))).
        { unfold labelled, func_step. simpl jseries. generalize G1. generalize (g ts). intros vec Hr.
          induction vec as [|iv vec IHv]; simpl; [reflexivity|].
          rewrite map_app, IHv by (intros x Hx; apply Hr; right; assumption).
          destruct (f (snd iv)) as [v|]; simpl; [|reflexivity]. f_equal. f_equal.
          apply nth_map_labels. apply Hr. left. reflexivity. }
        rewrite E. apply Permutation_flat_map. exact PG.
  - destruct (IH single Hok w Hw Hstart Hsingle) as [Eg Pg]. cbn [jdenote]. set (g := jdenote (c_lookback cf) t) in *.
    set (sl := jseries t) in *. set (ng := length (groups without grouping sl)).
    set (fresh := repeat dacc ng). split.
    + cbn [jrun]. rewrite Eg. fold sl. rewrite count_stream_fresh by apply repeat_length. rewrite map_map. reflexivity.
    + intros ts. destruct (Pg ts) as [[G1 G2] PG].
      set (ids := map fst (g ts)).
      assert (Hr : Forall (fun i => (i < length (keys without grouping sl))%nat) ids).
      { apply Forall_forall. intros i Hi. unfold ids in Hi. apply in_map_iff in Hi. destruct Hi as [iv [<- Hiv]].
        unfold keys. rewrite map_length. apply G1. assumption. }
      assert (Hslot : forall gi, (gi < ng)%nat ->
                nth gi (count_step without grouping sl fresh (sv_of ts (g ts))) dacc =
                match members_of without grouping sl gi ids with [] => dacc | ms => mkAcc nat true (length ms) end).
      { intros gi Hgi. apply (slot_value without grouping sl (map (fun _ => []) sl)); [rewrite map_length; reflexivity|exact Hgi]. }
      split.
      * split.
        -- intros iv Hiv. simpl jseries. fold sl. unfold emit_ids in Hiv. apply in_flat_map in Hiv.
           destruct Hiv as [gi [Hgi Hiv]]. apply in_seq in Hgi.
           destruct (a_has nat (nth gi _ dacc)); [|destruct Hiv]. destruct Hiv as [<-|[]]. simpl. unfold ng in Hgi. lia.
        -- rewrite emit_ids_fst. apply NoDup_filter. apply seq_NoDup.
      * intros R HR. simpl in HR. destruct (jref (c_lookback cf) t ts) as [S0|] eqn:ES; [|discriminate].
        inversion HR; subst R. clear HR. specialize (PG S0 eq_refl).
        set (present := map (fun mv : labels * Z => group_labels without grouping (fst mv)) S0).
        set (keysE := map (fun i => nth i (keys without grouping sl) []) ids).
        assert (Pk : Permutation keysE present).
        { unfold keysE, present, ids. rewrite map_map.
          assert (E : map (fun x : nat * Z => nth (fst x) (keys without grouping sl) []) (g ts) =
                      map (fun mv : labels * Z => group_labels without grouping (fst mv)) (labelled Z sl (g ts))).
          { unfold labelled. rewrite map_map. apply map_ext_in. intros iv Hiv. simpl. apply nth_keys. apply G1. assumption. }
          rewrite E. apply Permutation_map. exact PG. }
        destruct (groups_spec without grouping sl) as [Hgnd [_ Hgn]].
        apply NoDup_Permutation.
        -- (* the engine's groups are distinct *)
           apply labelled_nodup.
           ++ simpl jseries. fold sl. exact Hgnd.
           ++ rewrite emit_ids_fst. apply NoDup_filter. apply seq_NoDup.
           ++ intros iv Hiv. simpl jseries. fold sl. unfold emit_ids in Hiv. apply in_flat_map in Hiv.
              destruct Hiv as [gi [Hgi Hiv]]. apply in_seq in Hgi.
              destruct (a_has nat (nth gi _ dacc)); [|destruct Hiv]. destruct Hiv as [<-|[]]. simpl. unfold ng in Hgi. lia.
        -- apply (NoDup_map_inv fst). rewrite map_map. simpl. rewrite map_id. apply NoDup_nodup.
        -- intros [m n]. unfold labelled. rewrite in_map_iff. rewrite in_map_iff. split.
           ++ intros [[gi cnt] [Heq Hin]]. simpl in Heq. inversion Heq; subst m n. clear Heq.
              unfold emit_ids in Hin. apply in_flat_map in Hin. destruct Hin as [gi' [Hgi Hin]]. apply in_seq in Hgi.
              rewrite Hslot in Hin by lia.
              destruct (members_of without grouping sl gi' ids) as [|i0 ms] eqn:Em; [destruct Hin|].
              simpl in Hin. destruct Hin as [Heq|[]]. inversion Heq; subst gi cnt. clear Heq.
              exists (nth gi' (groups without grouping sl) []). split.
              ** simpl jseries. fold sl. f_equal. f_equal.
                 rewrite <- (count_occ_perm _ _ _ Pk). unfold keysE.
                 rewrite <- (members_length without grouping sl gi' ids) by (assumption || (unfold ng in Hgi; lia)).
                 rewrite Em. reflexivity.
              ** apply nodup_In. apply (Permutation_in _ Pk). unfold keysE.
                 assert (Hi0 : In i0 (members_of without grouping sl gi' ids)) by (rewrite Em; left; reflexivity).
                 unfold members_of in Hi0. apply filter_In in Hi0. destruct Hi0 as [Hi0 He]. apply Nat.eqb_eq in He.
                 apply in_map_iff. exists i0. split; [|assumption].
                 apply (member_iff_key without grouping sl); [unfold ng in Hgi; lia| |assumption].
                 rewrite Forall_forall in Hr. apply Hr. assumption.
           ++ intros [k [Heq Hk]]. inversion Heq; subst m n. clear Heq.
              apply nodup_In in Hk. apply (Permutation_in _ (Permutation_sym Pk)) in Hk. unfold keysE in Hk.
              apply in_map_iff in Hk. destruct Hk as [i [Hki Hi]].
              rewrite Forall_forall in Hr. pose proof (Hr i Hi) as Hil. specialize (Hgn i Hil).
              assert (Hg : (nth i (inputs without grouping sl) 0 < ng)%nat).
              { unfold ng. apply nth_error_Some. rewrite Hgn. apply nth_error_Some. assumption. }
              set (gi := nth i (inputs without grouping sl) 0%nat) in *.
              assert (Hmem : In i (members_of without grouping sl gi ids)).
              { unfold members_of. apply filter_In. split; [assumption|apply Nat.eqb_refl]. }
              assert (Hkey : nth gi (groups without grouping sl) [] = k).
              { rewrite <- Hki. symmetry. apply (member_iff_key without grouping sl); [exact Hg|exact Hil|reflexivity]. }
              exists (gi, conv (length (members_of without grouping sl gi ids))). split.
              ** simpl. simpl jseries. fold sl. rewrite Hkey. f_equal. f_equal.
                 rewrite <- (count_occ_perm _ _ _ Pk). unfold keysE. rewrite <- Hkey.
                 apply (members_length without grouping sl gi ids Hg). apply Forall_forall. assumption.
              ** unfold emit_ids. apply in_flat_map. exists gi. split; [apply in_seq; lia|].
                 rewrite Hslot by exact Hg.
                 destruct (members_of without grouping sl gi ids) as [|i0 ms] eqn:Em; [destruct Hmem|].
                 simpl. left. reflexivity.
  - destruct Hok as [Hok [Hcs Hrc]].
    destruct (IH single Hok w Hw Hstart Hsingle) as [Eg Pg]. cbn [jdenote]. set (g := jdenote (c_lookback cf) t) in *.
    set (sl := jseries t) in *. set (ng := length (groups without grouping sl)).
    set (fresh := repeat doacc ng). split.
    + cbn [jrun]. rewrite Eg. fold sl. rewrite agg_stream_fresh by apply repeat_length. rewrite map_map. reflexivity.
    + intros ts. destruct (Pg ts) as [[G1 G2] PG].
      assert (Hslot : forall gi, (gi < ng)%nat ->
                nth gi (agg_step init add without grouping sl fresh (g ts)) doacc =
                match members Z (inputs without grouping sl) gi (g ts) with
                | [] => mkAcc (option Z) false None
                | ms => mkAcc (option Z) true (agg_fold init add ms)
                end).
      { intros gi Hgi. unfold agg_step.
        apply (aggregate_group_value Z (option Z) (fun _ => None) (agg_add init add)).
        unfold fresh. rewrite repeat_length. exact Hgi. }
      assert (Hrange : forall iv, In iv (agg_emit ng (agg_step init add without grouping sl fresh (g ts))) -> (fst iv < ng)%nat).
      { intros [gi v] Hiv. apply agg_emit_in in Hiv. simpl. tauto. }
      split.
      * split.
        -- intros iv Hiv. simpl jseries. fold sl. apply Hrange. exact Hiv.
        -- rewrite agg_emit_fst. apply NoDup_filter. apply seq_NoDup.
      * intros R HR. simpl in HR. destruct (jref (c_lookback cf) t ts) as [S0|] eqn:ES; [|discriminate].
        inversion HR; subst R. clear HR. specialize (PG S0 eq_refl).
        destruct (groups_spec without grouping sl) as [Hgnd [_ Hgn]].
        (* the members of a group and the reference's samples with the group's key *)
        assert (Hmem : forall gi, (gi < ng)%nat ->
                  Permutation (members Z (inputs without grouping sl) gi (g ts))
                              (map snd (filter (fun mv : labels * Z =>
                                 if labels_dec (group_labels without grouping (fst mv)) (nth gi (groups without grouping sl) []) then true else false) S0))).
        { intros gi Hgi. rewrite (members_as_filter without grouping sl (g ts) gi Hgi G1).
          apply Permutation_map. apply Permutation_filter'. exact PG. }
        apply NoDup_Permutation.
        -- apply labelled_nodup.
           ++ simpl jseries. fold sl. exact Hgnd.
           ++ rewrite agg_emit_fst. apply NoDup_filter. apply seq_NoDup.
           ++ intros iv Hiv. simpl jseries. fold sl. apply Hrange. exact Hiv.
        -- apply (NoDup_map_inv fst). apply ref_agg_keys_nodup.
        -- intros [m v]. unfold labelled. rewrite in_map_iff. split.
           ++ intros [[gi v'] [Heq Hin]]. simpl in Heq. inversion Heq; subst m v'. clear Heq.
              apply agg_emit_in in Hin. destruct Hin as [Hgi [Hhas Hst]].
              rewrite (Hslot gi Hgi) in Hhas, Hst.
              destruct (members Z (inputs without grouping sl) gi (g ts)) as [|v0 ms] eqn:Em; [discriminate|].
              cbn [a_st a_has] in Hst. simpl jseries. fold sl.
              pose proof (agg_fold_perm init add Hcs Hrc _ _ (Hmem gi Hgi)) as Ef. rewrite Em, Hst in Ef.
              set (k := nth gi (groups without grouping sl) []) in *.
              unfold ref_agg. cbv zeta. apply in_flat_map. exists k. split.
              ** apply nodup_In.
                 assert (Hv0 : In v0 (map snd (filter (fun mv : labels * Z =>
                                 if labels_dec (group_labels without grouping (fst mv)) k then true else false) S0))).
                 { apply (Permutation_in _ (Hmem gi Hgi)). rewrite Em. left. reflexivity. }
                 apply in_map_iff in Hv0. destruct Hv0 as [mv [_ Hmv]]. apply filter_In in Hmv. destruct Hmv as [Hmv Hkey].
                 destruct (labels_dec (group_labels without grouping (fst mv)) k) as [Ek|]; [|discriminate].
                 apply in_map_iff. exists mv. split; assumption.
              ** rewrite <- Ef. left. reflexivity.
           ++ intros Hin. unfold ref_agg in Hin. cbv zeta in Hin. apply in_flat_map in Hin. destruct Hin as [k [Hk Hin]].
              apply nodup_In in Hk. apply in_map_iff in Hk. destruct Hk as [mv [Ek Hmv]].
              apply (Permutation_in _ (Permutation_sym PG)) in Hmv. unfold labelled in Hmv. apply in_map_iff in Hmv.
              destruct Hmv as [iv [Eiv Hiv]].
              pose proof (G1 iv Hiv) as Hil.
              assert (Hilk : (fst iv < length (keys without grouping sl))%nat) by (unfold keys; rewrite map_length; exact Hil).
              specialize (Hgn (fst iv) Hilk).
              set (gi := nth (fst iv) (inputs without grouping sl) 0%nat) in *.
              assert (Hg : (gi < ng)%nat).
              { unfold ng. apply nth_error_Some. rewrite Hgn. apply nth_error_Some. assumption. }
              assert (Hkey : nth gi (groups without grouping sl) [] = k).
              { rewrite <- Ek, <- Eiv. simpl. rewrite <- (nth_keys without grouping sl (fst iv) Hil). symmetry.
                apply (member_iff_key without grouping sl); [exact Hg|exact Hilk|reflexivity]. }
              assert (Hne : In (snd iv) (members Z (inputs without grouping sl) gi (g ts))).
              { unfold members. apply in_map. apply filter_In. split; [assumption|apply Nat.eqb_refl]. }
              rewrite <- Hkey in Hin.
              rewrite <- (agg_fold_perm init add Hcs Hrc _ _ (Hmem gi Hg)) in Hin.
              destruct (agg_fold init add (members Z (inputs without grouping sl) gi (g ts))) as [r|] eqn:Ef; [|destruct Hin].
              destruct Hin as [Heq|[]]. inversion Heq; subst m v. clear Heq.
              exists (gi, r). split; [simpl; simpl jseries; fold sl; reflexivity|].
              apply agg_emit_in. split; [exact Hg|]. rewrite (Hslot gi Hg).
              destruct (members Z (inputs without grouping sl) gi (g ts)) as [|v0 ms]; [destruct Hne|].
              simpl. split; [reflexivity|exact Ef].
  - destruct (IH single Hok w Hw Hstart Hsingle) as [Eg Pg]. cbn [jdenote]. set (g := jdenote (c_lookback cf) t) in *.
    set (sl := jseries t) in *. split.
    + cbn [jrun]. rewrite Eg. fold sl. rewrite map_map. reflexivity.
    + intros ts. destruct (Pg ts) as [[G1 G2] PG].
      destruct (topk_step_shape Z (ltk bottom) (ltk_irrefl bottom) (ltk_trans bottom) (ltk_total bottom) Z.eq_dec
                  (inputs without grouping sl) k (length (groups without grouping sl)) (g ts) G2) as [Hincl Hnd].
      split.
      * split.
        -- intros iv Hiv. simpl jseries. fold sl. apply G1. apply Hincl. exact Hiv.
        -- exact Hnd.
      * intros R HR. simpl in HR. destruct (jref (c_lookback cf) t ts) as [S0|] eqn:ES; [|discriminate].
        specialize (PG S0 eq_refl). unfold ref_topk in HR.
        destruct (ties_free without grouping S0) eqn:Et; [|discriminate]. inversion HR; subst R. clear HR.
        simpl jseries. fold sl.
        destruct (Nat.ltb_spec k 1) as [Hk0|Hk].
        { (* k = 0: nothing is kept on either side *)
          assert (k = 0)%nat by lia. subst k. unfold topk_vec, topk_step. simpl.
          rewrite (filter_ext _ (fun _ => false)); [|intros x; unfold ref_keep; apply Nat.ltb_ge; lia].
          assert (E : forall l : list (labels * Z), filter (fun _ => false) l = []) by (induction l; simpl; auto).
          rewrite E. constructor. }
        destruct (groups_spec without grouping sl) as [_ [_ Hgn]].
        assert (Hrange : forall e, In e (g ts) -> (group_of Z (inputs without grouping sl) e < length (groups without grouping sl))%nat).
        { intros e He. unfold group_of. apply nth_error_Some. rewrite Hgn; [|unfold keys; rewrite map_length; apply G1; assumption].
          apply nth_error_Some. unfold keys. rewrite map_length. apply G1. assumption. }
        assert (Hties : forall gi, NoDup (map snd (filter (in_group Z (inputs without grouping sl) gi) (g ts)))).
        { intros gi. destruct (lt_dec gi (length (groups without grouping sl))) as [Hgi|Hge].
          - change (map snd (filter (in_group Z (inputs without grouping sl) gi) (g ts)))
              with (members Z (inputs without grouping sl) gi (g ts)).
            rewrite (members_as_filter without grouping sl (g ts) gi Hgi G1).
            eapply Permutation_NoDup; [apply Permutation_sym; apply Permutation_map; apply Permutation_filter'; exact PG|].
            apply (ties_free_all without grouping S0 Et).
          - assert (E : filter (in_group Z (inputs without grouping sl) gi) (g ts) = []).
            { assert (F : forall l : list (nat * Z), (forall e, In e l -> (group_of Z (inputs without grouping sl) e < length (groups without grouping sl))%nat) ->
                          filter (in_group Z (inputs without grouping sl) gi) l = []).
              { induction l as [|e l IHl]; intros Hl; simpl; [reflexivity|].
                unfold in_group at 1. destruct (Nat.eqb_spec (group_of Z (inputs without grouping sl) e) gi) as [Eq|_].
                - exfalso. specialize (Hl e (or_introl eq_refl)). lia.
                - apply IHl. intros e' He'. apply Hl. right. assumption. }
              apply F. exact Hrange. }
            rewrite E. constructor. }
        eapply Permutation_trans.
        { unfold labelled. apply Permutation_map. unfold topk_vec.
          apply (topk_step_rank Z (ltk bottom) (ltk_irrefl bottom) (ltk_trans bottom) (ltk_total bottom) Z.eq_dec
                   (inputs without grouping sl) k (length (groups without grouping sl)) (g ts) Hk G2 Hrange Hties). }
        fold (labelled Z sl (filter (step_keep Z (ltk bottom) (inputs without grouping sl) k (g ts)) (g ts))).
        rewrite (labelled_filter_keep bottom k without grouping sl (g ts) G1).
        apply ref_keep_filter_perm. exact PG.
  - (* remote execution *)
    destruct (IH single Hok w Hw Hstart Hsingle) as [Eg Pg]. cbn [jdenote jseries jref]. set (g := jdenote (c_lookback cf) t) in *.
    set (sl := jseries t) in *. split.
    + cbn [jrun]. rewrite Eg. fold sl. rewrite (reread_identity (c_batch cf) w (length sl) g HB Hw). reflexivity.
    + intros ts. destruct (Pg ts) as [[G1 G2] PG].
      assert (Hwf : wf_stepvec (length sl) (by_id (length sl) ts (g ts))).
      { unfold by_id. rewrite <- (seq_length (length sl) 0) at 1. rewrite <- (map_length (fun i => vlookup i (g ts))). apply stepvec_of_wf. }
      destruct (vec_of_good _ _ Hwf) as [B1 B2]. split; [split; assumption|].
      intros R HR. eapply Permutation_trans; [|exact (PG R HR)].
      unfold labelled. apply Permutation_map. apply NoDup_Permutation.
      * apply (NoDup_map_inv fst). exact B2.
      * apply (NoDup_map_inv fst). exact G2.
      * intros [i v]. apply by_id_in; assumption.
  - (* coalesce *)
    destruct Hok as [Hokl Hokr].
    destruct (IHl single Hokl w Hw Hstart Hsingle) as [El Pl]. destruct (IHr single Hokr w Hw Hstart Hsingle) as [Er Pr].
    cbn [jdenote jseries jref]. set (fl := jdenote (c_lookback cf) l) in *. set (fr := jdenote (c_lookback cf) r) in *.
    set (n1 := length (jseries l)). split.
    + cbn [jrun]. rewrite El, Er, zip_vecs_map, map_map. reflexivity.
    + intros ts. destruct (Pl ts) as [[A1 A2] PL]. destruct (Pr ts) as [[B1 B2] PR]. split.
      * split.
        -- intros iv Hiv. rewrite app_length. apply in_app_or in Hiv. destruct Hiv as [Hiv|Hiv].
           ++ specialize (A1 iv Hiv). lia.
           ++ unfold shift_ids in Hiv. apply in_map_iff in Hiv. destruct Hiv as [jv [<- Hjv]]. simpl. specialize (B1 jv Hjv). fold n1. lia.
        -- rewrite map_app. apply NoDup_app_disjoint; [exact A2| |].
           ++ unfold shift_ids. rewrite map_map. simpl. rewrite <- (map_map fst (fun i => (n1 + i)%nat)).
              apply FinFun.Injective_map_NoDup; [intros a b; lia|exact B2].
           ++ intros i Hi1 Hi2. apply in_map_iff in Hi1. destruct Hi1 as [iv [<- Hiv]]. specialize (A1 iv Hiv).
              unfold shift_ids in Hi2. rewrite map_map in Hi2. apply in_map_iff in Hi2. destruct Hi2 as [jv [E _]]. simpl in E. fold n1 in A1. lia.
      * intros R HR. destruct (jref (c_lookback cf) l ts) as [A|] eqn:EA; [|discriminate].
        destruct (jref (c_lookback cf) r ts) as [B|] eqn:EB; [|discriminate]. inversion HR; subst R.
        unfold labelled. rewrite map_app. apply Permutation_app.
        -- erewrite map_ext_in; [exact (PL A eq_refl)|]. intros iv Hiv. simpl. rewrite app_nth1 by (apply A1; assumption). reflexivity.
        -- unfold shift_ids. rewrite map_map. erewrite map_ext_in; [exact (PR B eq_refl)|]. intros iv Hiv. simpl.
           rewrite app_nth2 by (fold n1; lia). fold n1. replace (n1 + fst iv - n1)%nat with (fst iv) by lia. reflexivity.
  - destruct Hok as [Hok Hp]. cbn [jrun jdenote jseries jref].
    assert (Hwp : wf_window (pinned_window w)).
    { destruct Hw as [_ [Hst _]]. unfold pinned_window, wf_window. simpl. repeat split; try lia. }
    destruct (IH true Hok (pinned_window w) Hwp Hstart (fun _ => eq_refl)) as [Eg Pg].
    split; [|exact Pg].
    rewrite Eg. rewrite (grid_single (pinned_window w) Hwp eq_refl). cbn [map pinned_window w_start].
    rewrite (counter_batches_cover_grid (c_batch cf) w HB Hw).
    f_equal. apply map_ext. intros ts. f_equal. apply jdenote_pinned_indep. exact Hp.
Qed.

(* C01 for operator trees: vector/vector joins, per-sample operators, aggregations, over vector
   selectors and range functions of matrix selectors, with step-invariant (@) subtrees:
   every node's stream is a function of the grid timestamp; its sample IDs are
   distinct and name series of the node; and at every timestamp at which the
   reference evaluation of the node succeeds, the node's samples are a
   permutation of the reference's. *)
Theorem jtree_matches_reference cf w :
  (0 < c_shards cf)%nat -> (0 < c_batch cf)%nat -> 0 <= c_lookback cf -> wf_window w -> noT < w_start w ->
  forall t, jok t ->
    jrun cf w t = inl (map (fun ts => (ts, jdenote (c_lookback cf) t ts)) (grid w)) /\
    forall ts, good_vec (length (jseries t)) (jdenote (c_lookback cf) t ts) /\
               forall R, jref (c_lookback cf) t ts = Some R ->
                         Permutation (labelled Z (jseries t) (jdenote (c_lookback cf) t ts)) R.
Proof.
  intros HN HB Hlb Hw Hstart t Hok.
  apply (jtree_matches_reference_gen cf HN HB Hlb t false Hok w Hw Hstart). discriminate.
Qed.

(* C11 for operator trees: the stream does not depend on the shard count or the batch size *)
Corollary jtree_independent_of_sharding_and_batching cf cf' w t :
  (0 < c_shards cf)%nat -> (0 < c_batch cf)%nat -> (0 < c_shards cf')%nat -> (0 < c_batch cf')%nat ->
  0 <= c_lookback cf -> c_lookback cf' = c_lookback cf -> wf_window w -> noT < w_start w -> jok t ->
  jrun cf w t = jrun cf' w t.
Proof.
  intros HN HB HN' HB' Hlb Heq Hw Hs Hok.
  destruct (jtree_matches_reference cf w HN HB Hlb Hw Hs t Hok) as [E _].
  destruct (jtree_matches_reference cf' w HN' HB' ltac:(lia) Hw Hs t Hok) as [E' _].
  rewrite E, E', Heq. reflexivity.
Qed.

(* C07 for operator trees: what a range query produces at a grid step is what the
   instant query at that timestamp produces *)
Corollary jtree_range_is_instants cf cf' w t ts :
  (0 < c_shards cf)%nat -> (0 < c_batch cf)%nat -> (0 < c_shards cf')%nat -> (0 < c_batch cf')%nat ->
  0 <= c_lookback cf -> c_lookback cf' = c_lookback cf -> wf_window w -> noT < w_start w -> jok t ->
  In ts (grid w) ->
  exists outs,
    jrun cf w t = inl outs /\ In (ts, jdenote (c_lookback cf) t ts) outs /\
    jrun cf' (mkW ts ts 0) t = inl [(ts, jdenote (c_lookback cf) t ts)].
Proof.
  intros HN HB HN' HB' Hlb Heq Hw Hs Hok Hin.
  destruct (jtree_matches_reference cf w HN HB Hlb Hw Hs t Hok) as [E _].
  assert (Hts : noT < ts).
  { unfold grid in Hin. apply in_map_iff in Hin. destruct Hin as [k [<- _]]. unfold grid_at. unfold wf_window in Hw. nia. }
  destruct (jtree_matches_reference cf' (mkW ts ts 0) HN' HB' ltac:(lia)) with (t := t) as [E' _];
    [unfold wf_window; simpl; lia|simpl; exact Hts|exact Hok|].
  eexists. split; [exact E|]. split.
  - apply in_map_iff. exists ts. split; [reflexivity|assumption].
  - rewrite E'. rewrite (grid_instant (c_batch cf') (mkW ts ts 0) HB' eq_refl). simpl. rewrite Heq. reflexivity.
Qed.

(* C06: a step-invariant subtree (every selector carries @) is evaluated once, at the query's start,
   and its vector is what every step of the window gets; it is also what the reference gets at
   every step (jtree_matches_reference: jdenote of a pinned subtree does not depend on the step) *)
Corollary jinvariant_evaluated_once cf w t :
  (0 < c_shards cf)%nat -> (0 < c_batch cf)%nat -> 0 <= c_lookback cf -> wf_window w -> noT < w_start w ->
  jok (JInvariant t) ->
  jrun cf w (JInvariant t) = inl (map (fun ts => (ts, jdenote (c_lookback cf) t (w_start w))) (grid w)) /\
  forall ts, jdenote (c_lookback cf) (JInvariant t) ts = jdenote (c_lookback cf) t (w_start w).
Proof.
  intros HN HB Hlb Hw Hs Hok.
  destruct (jtree_matches_reference cf w HN HB Hlb Hw Hs (JInvariant t) Hok) as [E _].
  destruct Hok as [_ Hp]. split.
  - rewrite E. f_equal. apply map_ext. intros ts. f_equal. cbn [jdenote]. apply jdenote_pinned_indep. exact Hp.
  - intros ts. cbn [jdenote]. apply jdenote_pinned_indep. exact Hp.
Qed.
