(* Step locality of operator trees. Every operator of the engine consumes its
   children batch by batch and produces, for the j-th vector of a batch, a
   value computed from the children's j-th vectors (functions, unary minus,
   scalar and vector binary operators, aggregations - whose accumulator tables
   are reset per vector, see Agg.v). [plan] is that skeleton: leaves are the
   sharded selectors and number literals, inner nodes apply a per-step function
   to their children's streams position by position, as the Go operators do. *)
From Coq Require Import List ZArith NArith Bool Lia.
From Verif Require Import Base Grid Select SelectProofs Shard SelectorProofs Exec.
Import ListNotations.
Open Scope Z_scope.

Inductive plan :=
| PSelect (sers : list (list sample)) (off : Z)
| PLiteral (v : Z)
| PMap (f : stepvec -> stepvec) (p : plan)
| PZip (f : stepvec -> stepvec -> stepvec) (p q : plan).

Record cfg := mkCfg { c_shards : nat; c_batch : nat; c_lookback : Z }.

Fixpoint zip_with {A B C} (f : A -> B -> C) (l1 : list A) (l2 : list B) : list C :=
  match l1, l2 with
  | a :: r1, b :: r2 => f a b :: zip_with f r1 r2
  | _, _ => []
  end.

(* numberLiteralSelector: one series, ID 0, the value at every step *)
Definition literal_step (v : Z) (t : Z) : stepvec := mkSV t [0%nat] [v].

(* the operator tree executed on a window: a list of batches *)
Fixpoint run (c : cfg) (w : window) (p : plan) : list batch :=
  match p with
  | PSelect sers off =>
      sharded_selector (c_lookback c) (c_lookback c) off (c_shards c) sers (selector_batches (c_batch c) w)
  | PLiteral v => map (map (literal_step v)) (selector_batches (c_batch c) w)
  | PMap f q => map (map f) (run c w q)
  | PZip f q r => zip_with (zip_with f) (run c w q) (run c w r)
  end.

(* the per-step denotation: what the tree computes at one timestamp *)
Fixpoint denote (lb : Z) (p : plan) (t : Z) : stepvec :=
  match p with
  | PSelect sers off => select_step lb off sers t
  | PLiteral v => literal_step v t
  | PMap f q => f (denote lb q t)
  | PZip f q r => f (denote lb q t) (denote lb r t)
  end.

Fixpoint plan_ok (p : plan) : Prop :=
  match p with
  | PSelect sers _ => Forall sorted_ts sers
  | PLiteral _ => True
  | PMap _ q => plan_ok q
  | PZip _ q r => plan_ok q /\ plan_ok r
  end.

Lemma zip_with_map {A B C D} (f : B -> C -> D) (g : A -> B) (h : A -> C) (l : list A) :
  zip_with f (map g l) (map h l) = map (fun a => f (g a) (h a)) l.
Proof. induction l as [|a l IH]; simpl; [reflexivity|f_equal; exact IH]. Qed.

(* Step locality: every operator's stream is the query's batch structure mapped
   by the per-step denotation - whatever was consumed before, however the grid
   is cut into batches, however many shards there are. *)
Theorem run_step_local c w p :
  (0 < c_shards c)%nat -> (0 < c_batch c)%nat -> 0 <= c_lookback c -> wf_window w -> plan_ok p ->
  run c w p = map (map (denote (c_lookback c) p)) (selector_batches (c_batch c) w).
Proof.
  intros HN HB Hlb Hw. induction p as [sers off|v|f q IH|f q IHq r IHr]; intros Hok; simpl.
  - apply sharded_selector_spec; auto. lia.
  - reflexivity.
  - rewrite (IH Hok). rewrite map_map. apply map_ext. intros b. rewrite map_map. reflexivity.
  - destruct Hok as [Hq Hr]. rewrite (IHq Hq), (IHr Hr).
    rewrite zip_with_map. apply map_ext. intros b. apply zip_with_map.
Qed.

Corollary run_covers_grid c w p :
  (0 < c_shards c)%nat -> (0 < c_batch c)%nat -> 0 <= c_lookback c -> wf_window w -> plan_ok p ->
  concat (run c w p) = map (denote (c_lookback c) p) (grid w).
Proof.
  intros HN HB Hlb Hw Hok. rewrite run_step_local by assumption.
  rewrite <- concat_map. rewrite (selector_batches_cover_grid (c_batch c) w HB Hw). reflexivity.
Qed.

(* C07: the vector a range query produces at grid time t is the vector of the
   instant query at t (any shard counts, any batch sizes on either side). *)
Corollary range_is_instants c c' w p t :
  (0 < c_shards c)%nat -> (0 < c_batch c)%nat -> (0 < c_shards c')%nat -> (0 < c_batch c')%nat ->
  0 <= c_lookback c -> c_lookback c' = c_lookback c -> wf_window w -> plan_ok p ->
  concat (run c' (mkW t t 0) p) = [denote (c_lookback c) p t] /\
  (In t (grid w) -> In (denote (c_lookback c) p t) (concat (run c w p))).
Proof.
  intros HN HB HN' HB' Hlb Heq Hw Hok. split.
  - rewrite run_covers_grid; auto; [|lia|unfold wf_window; simpl; lia].
    rewrite Heq. rewrite (grid_instant (c_batch c') (mkW t t 0) HB' eq_refl). reflexivity.
  - intros Hin. rewrite run_covers_grid by assumption. apply in_map. assumption.
Qed.

(* C11: the stream, as a sequence of step vectors, does not depend on the shard
   count or the batch size. *)
Corollary run_independent_of_sharding_and_batching c c' w p :
  (0 < c_shards c)%nat -> (0 < c_batch c)%nat -> (0 < c_shards c')%nat -> (0 < c_batch c')%nat ->
  0 <= c_lookback c -> c_lookback c' = c_lookback c -> wf_window w -> plan_ok p ->
  concat (run c w p) = concat (run c' w p).
Proof.
  intros. rewrite !run_covers_grid by (auto; lia). congruence.
Qed.
