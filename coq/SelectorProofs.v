(* The sharded, batched vector selector equals the stateless selection at every
   step of the grid (property C02), for every shard count and batch size. *)
From Coq Require Import List ZArith NArith Bool Lia.
From Verif Require Import Base Grid Select SelectProofs Shard.
Import ListNotations.
Open Scope Z_scope.

Lemma nondecr_from_map_seq (f : nat -> Z) : (forall k, f k <= f (S k)) ->
  forall n k lo, lo <= f k -> nondecr_from lo (map f (seq k n)).
Proof.
  intros Hm. induction n as [|n IH]; intros k lo Hlo; simpl; [exact I|].
  split; [assumption|]. apply IH. apply Hm.
Qed.

Lemma grid_nondecr w : 0 <= w_step w -> nondecr_from (w_start w) (grid w).
Proof.
  intros Hst. unfold grid. apply nondecr_from_map_seq.
  - intros k. unfold grid_at. nia.
  - unfold grid_at. simpl. lia.
Qed.

Lemma Forall_concat_parts {A} (P : A -> Prop) (parts : list (list A)) :
  Forall P (concat parts) -> Forall (Forall P) parts.
Proof.
  induction parts as [|p parts IH]; simpl; intros H; constructor.
  - apply Forall_app in H. tauto.
  - apply IH. apply Forall_app in H. tauto.
Qed.

Lemma nth_map_default {A B} (g : A -> B) (l : list A) (d : A) k : nth k (map g l) (g d) = g (nth k l d).
Proof. apply map_nth. Qed.

Section Sharded.
  Variables delta lb off : Z.
  Variable N B : nat.
  Variable w : window.
  Variable sers : list (list sample).
  Hypothesis HN : (0 < N)%nat.
  Hypothesis HB : (0 < B)%nat.
  Hypothesis Hw : wf_window w.
  Hypothesis Hs : Forall sorted_ts sers.
  Hypothesis Hlb : 0 <= lb <= delta.

  Let times := selector_batches B w.

  Lemma times_nondecr : nondecr_from (w_start w) (concat times).
  Proof.
    unfold times. rewrite selector_batches_cover_grid by assumption.
    apply grid_nondecr. destruct Hw as [_ [H _]]. exact H.
  Qed.

  Lemma child_stream_spec p : Forall sorted_ts p ->
    vs_run delta lb off (map mit_reset p) times = map (map (select_step lb off p)) times.
  Proof.
    intros Hp. apply (vs_run_spec delta lb off Hlb p Hp times _ (w_start w)).
    - apply ok_states_reset.
    - apply times_nondecr.
  Qed.

  Theorem sharded_selector_spec :
    sharded_selector delta lb off N sers times = map (map (select_step lb off sers)) times.
  Proof.
    unfold sharded_selector.
    set (parts := shards sers N).
    assert (Hparts : concat parts = sers) by (apply shards_partition; assumption).
    assert (Hps : Forall (Forall sorted_ts) parts).
    { apply Forall_concat_parts. rewrite Hparts. assumption. }
    assert (Hch : map (fun p => vs_run delta lb off (map mit_reset p) times) parts =
                  map (fun p => map (map (select_step lb off p)) times) parts).
    { apply map_ext_in. intros p Hin. apply child_stream_spec.
      rewrite Forall_forall in Hps. apply Hps. assumption. }
    rewrite Hch. unfold co_run.
    rewrite <- (map_nth_seq (map (select_step lb off sers)) times []).
    apply map_ext_in. intros k Hk. apply in_seq in Hk.
    cbv zeta.
    rewrite <- (map_nth_seq (select_step lb off sers) (nth k times []) 0).
    apply map_ext_in. intros j Hj. apply in_seq in Hj.
    rewrite map_map.
    assert (Hin : map (fun p => nth j (nth k (map (map (select_step lb off p)) times) []) empty_sv) parts =
                  map (fun p => select_step lb off p (nth j (nth k times []) 0)) parts).
    { apply map_ext. intros p.
      change (@nil stepvec) with (map (select_step lb off p) []).
      rewrite (nth_map_default (map (select_step lb off p)) times [] k).
      rewrite (nth_indep _ empty_sv (select_step lb off p 0)) by (rewrite map_length; lia).
      apply (nth_map_default (select_step lb off p)). }
    rewrite Hin. rewrite merge_step_select_0. rewrite Hparts. reflexivity.
  Qed.
End Sharded.
