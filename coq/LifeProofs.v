(* Proofs about Life.v (C13, C15, C17). *)
From Coq Require Import List ZArith NArith Bool Lia.
From Verif Require Import Life.
Import ListNotations.

(* C13: if every goroutine recovers, no fault pattern crashes the process *)
Theorem no_crash : forall p faults k, all_go_recover p = true -> snd (run p faults k) <> SCrash.
Proof.
  induction p as [|site|a IHa b IHb|id body IH|r a IH|a IH]; intros faults k Hr; simpl in *.
  - discriminate.
  - destruct (faults k); discriminate.
  - apply andb_true_iff in Hr. destruct Hr as [Ha Hb].
    specialize (IHa faults k Ha). destruct (run a faults k) as [[k1 t1] s1]. simpl in IHa.
    destruct s1; simpl; try discriminate; try congruence.
    specialize (IHb faults k1 Hb). destruct (run b faults k1) as [[k2 t2] s2]. exact IHb.
  - specialize (IH faults k Hr). destruct (run body faults k) as [[k1 t1] s1]. simpl in IH.
    destruct s1; simpl; congruence.
  - apply andb_true_iff in Hr. destruct Hr as [-> Ha].
    specialize (IH faults k Ha). destruct (run a faults k) as [[k1 t1] s1]. simpl in IH.
    destruct s1; simpl; congruence.
  - specialize (IH faults k Hr). destruct (run a faults k) as [[k1 t1] s1]. simpl in IH.
    destruct s1; simpl; congruence.
Qed.

(* ... and below a recover() boundary the outcome is a value or an error *)
Theorem exec_value_or_error p faults :
  all_go_recover p = true -> status_of (Recover p) faults = SOk \/ status_of (Recover p) faults = SErr.
Proof.
  intros Hr. unfold status_of. simpl. pose proof (no_crash p faults 0 Hr) as Hn.
  destruct (run p faults 0) as [[k1 t1] s1]. simpl in *. destruct s1; auto. congruence.
Qed.

(* C15: a successful outcome means that no executed callback failed or panicked:
   no fault is ever swallowed *)
Theorem ok_means_no_fault : forall p faults k k' t,
  run p faults k = (k', t, SOk) -> k <= k' /\ forall j, k <= j < k' -> faults j = FNone.
Proof.
  induction p as [|site|a IHa b IHb|id body IH|r a IH|a IH]; intros faults k k' t H; simpl in H.
  - inversion H; subst. split; [lia|]. intros; lia.
  - destruct (faults k) eqn:Ef; inversion H; subst. split; [lia|].
    intros j Hj. assert (j = k) by lia. subst. assumption.
  - destruct (run a faults k) as [[k1 t1] s1] eqn:Ea.
    destruct s1; try (inversion H; fail).
    destruct (run b faults k1) as [[k2 t2] s2] eqn:Eb. inversion H; subst.
    destruct (IHa _ _ _ _ Ea) as [L1 F1]. destruct (IHb _ _ _ _ Eb) as [L2 F2].
    split; [lia|]. intros j Hj. destruct (Nat.lt_ge_cases j k1); [apply F1|apply F2]; lia.
  - destruct (run body faults k) as [[k1 t1] s1] eqn:Eb.
    destruct s1; inversion H; subst. exact (IH _ _ _ _ Eb).
  - destruct (run a faults k) as [[k1 t1] s1] eqn:Ea.
    destruct s1; try (destruct r); inversion H; subst; exact (IH _ _ _ _ Ea).
  - destruct (run a faults k) as [[k1 t1] s1] eqn:Ea.
    destruct s1; inversion H; subst. exact (IH _ _ _ _ Ea).
Qed.

Corollary fault_reached_means_not_ok p faults k k' t s j :
  run p faults k = (k', t, s) -> k <= j < k' -> faults j <> FNone -> s <> SOk.
Proof.
  intros H Hj Hf Hs. subst. destruct (ok_means_no_fault _ _ _ _ _ H) as [_ F]. apply Hf, F, Hj.
Qed.

(* C17: unless the process crashed, every querier that was opened has been
   closed, exactly as often, when the execution returns - on success, error and
   panic alike *)
Lemma count_open_app id t1 t2 : count_open id (t1 ++ t2) = count_open id t1 + count_open id t2.
Proof. induction t1 as [|e t1 IH]; simpl; [reflexivity|]. destruct e; simpl; rewrite IH; lia. Qed.

Lemma count_close_app id t1 t2 : count_close id (t1 ++ t2) = count_close id t1 + count_close id t2.
Proof. induction t1 as [|e t1 IH]; simpl; [reflexivity|]. destruct e; simpl; rewrite IH; lia. Qed.

Theorem queriers_balanced : forall p faults k k' t s,
  run p faults k = (k', t, s) -> s <> SCrash -> forall id, count_open id t = count_close id t.
Proof.
  induction p as [|site|a IHa b IHb|qid body IH|r a IH|a IH]; intros faults k k' t s H Hs id; simpl in H.
  - inversion H; reflexivity.
  - inversion H; reflexivity.
  - destruct (run a faults k) as [[k1 t1] s1] eqn:Ea.
    destruct s1.
    + destruct (run b faults k1) as [[k2 t2] s2] eqn:Eb. inversion H; subst.
      rewrite count_open_app, count_close_app.
      rewrite (IHa _ _ _ _ _ Ea ltac:(discriminate) id), (IHb _ _ _ _ _ Eb Hs id). reflexivity.
    + inversion H; subst. eapply IHa; eauto.
    + inversion H; subst. eapply IHa; eauto.
    + inversion H; subst. congruence.
  - destruct (run body faults k) as [[k1 t1] s1] eqn:Eb.
    destruct s1; inversion H; subst; try congruence;
      simpl; rewrite count_open_app, count_close_app; simpl;
      rewrite (IH _ _ _ _ _ Eb ltac:(discriminate) id); destruct (Nat.eqb qid id); lia.
  - destruct (run a faults k) as [[k1 t1] s1] eqn:Ea.
    destruct s1; try (destruct r); inversion H; subst; try congruence; eapply IH; eauto; discriminate.
  - destruct (run a faults k) as [[k1 t1] s1] eqn:Ea.
    destruct s1; inversion H; subst; try congruence; eapply IH; eauto; discriminate.
Qed.

(* the engine's skeleton satisfies the hypotheses *)
Lemma agr_fold_seq {A} site base (l : list A) : all_go_recover base = true ->
  all_go_recover (fold_right (fun _ acc => Seq (Ev site) acc) base l) = true.
Proof. intros Hb. induction l as [|x l IH]; simpl; assumption. Qed.

Lemma exec_prog_recovers sels nsteps : all_go_recover (exec_prog true sels nsteps) = true.
Proof.
  unfold exec_prog. simpl. induction sels as [|[id n] sels IH]; simpl; [reflexivity|].
  rewrite IH, andb_true_r. unfold selector_prog, load_select. simpl.
  rewrite !agr_fold_seq by reflexivity. reflexivity.
Qed.

(* non-vacuity: a panic in the second select's series iteration, on a goroutine *)
Example life_example :
  let p := exec_prog true [(0, 2); (1, 3)] 2 in
  let faults := fun k => if Nat.eqb k 12 then FPanic else FNone in
  status_of p faults = SErr /\
  count_open 1 (trace_of p faults) = 1 /\ count_close 1 (trace_of p faults) = 1 /\
  status_of (exec_prog false [(0, 2); (1, 3)] 2) faults = SCrash.
Proof. repeat split; vm_compute; reflexivity. Qed.
