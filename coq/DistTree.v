(* C10 end to end for operator trees: a per-series expression (selectors, range functions,
   per-sample operators) over series partitioned across two engines, alone or under a sum / max /
   min aggregation, evaluated (a) centrally over the union and (b) as the distributed optimizer
   arranges it - every engine evaluates the expression (and the aggregation) over its partition,
   the results are read back (Remote.v), coalesced, and aggregated again - gives the same
   labelled samples at every step. Both sides go through Trees.jtree_matches_reference; what
   is added here is that the two reference values agree. *)
From Coq Require Import List ZArith NArith Bool Lia Permutation.
From Verif Require Import Base Grid Select SelectProofs Shard Exec Compose StreamWF Range MatrixRun Agg AggProofs Func Bin BinProofs
                          EndToEnd AggEnd Remote Trees.
Import ListNotations.
Open Scope Z_scope.

(* expressions that act on every series separately: what the optimizer sends to the engines as is *)
Inductive pshape :=
| SLeaf (off : Z) (pin : option Z)
| SRange (keep_name : bool) (fn : Z -> list point -> option Z) (range off : Z) (pin : option Z)
| SMap (drops : bool) (f : Z -> option Z) (s : pshape).

Fixpoint inst (s : pshape) (ls : list labels) (sers : list (list sample)) : jtree :=
  match s with
  | SLeaf off pin => JLeaf ls sers off pin
  | SRange keep fn range off pin => JRange keep fn range ls sers off pin
  | SMap drops f s1 => JMap drops f (inst s1 ls sers)
  end.

(* the reference value of the expression on given series at one timestamp *)
Fixpoint pref (lb : Z) (s : pshape) (ls : list labels) (sers : list (list sample)) (ts : Z) : list (labels * Z) :=
  match s with
  | SLeaf off pin => labelled Z ls (vec_of (select_step lb off sers (eval_time pin ts)))
  | SRange keep fn range off pin =>
      present_with_labels (map (fun m => if keep then m else del_name m) ls)
                          (map (fun ss => range_value fn range off ss (eval_time pin ts)) sers)
  | SMap drops f s1 =>
      flat_map (fun mv => match f (snd mv) with
                          | Some v => [((if drops then del_name (fst mv) else fst mv), v)]
                          | None => []
                          end) (pref lb s1 ls sers ts)
  end.

Lemma jref_inst lb s ls sers ts : jref lb (inst s ls sers) ts = Some (pref lb s ls sers ts).
Proof. induction s as [off pin|keep fn range off pin|drops f s IH]; simpl; [reflexivity|reflexivity|rewrite IH; reflexivity]. Qed.

Lemma present_with_labels_app ls1 ls2 (c1 c2 : list (option Z)) : length ls1 = length c1 ->
  present_with_labels (ls1 ++ ls2) (c1 ++ c2) = present_with_labels ls1 c1 ++ present_with_labels ls2 c2.
Proof.
  unfold present_with_labels. revert c1. induction ls1 as [|l ls1 IH]; intros [|c c1] Hl; simpl in *; try discriminate; [reflexivity|].
  rewrite IH by lia. destruct c; reflexivity.
Qed.

Lemma labelled_select_app lb off (ls1 ls2 : list labels) (s1 s2 : list (list sample)) t :
  length ls1 = length s1 -> length ls2 = length s2 ->
  labelled Z (ls1 ++ ls2) (vec_of (select_step lb off (s1 ++ s2) t)) =
  labelled Z ls1 (vec_of (select_step lb off s1 t)) ++ labelled Z ls2 (vec_of (select_step lb off s2 t)).
Proof.
  intros H1 H2. unfold labelled, vec_of, select_step.
  rewrite !labelled_stepvec by (rewrite ?app_length, !map_length, ?app_length; lia).
  rewrite map_app. apply present_with_labels_app. rewrite map_length. assumption.
Qed.

(* the expression over the union of two partitions: the two partitions' values, side by side *)
Lemma pref_app lb s ls1 ls2 s1 s2 ts : length ls1 = length s1 -> length ls2 = length s2 ->
  pref lb s (ls1 ++ ls2) (s1 ++ s2) ts = pref lb s ls1 s1 ts ++ pref lb s ls2 s2 ts.
Proof.
  intros H1 H2. induction s as [off pin|keep fn range off pin|drops f s IH]; simpl.
  - apply labelled_select_app; assumption.
  - rewrite !map_app. apply present_with_labels_app. rewrite !map_length. assumption.
  - rewrite IH. apply flat_map_app.
Qed.

Fixpoint sok (s : pshape) : Prop :=
  match s with
  | SLeaf _ pin => pin = None
  | SRange _ _ range _ pin => 0 <= range /\ pin = None
  | SMap _ _ s1 => sok s1
  end.

Lemma jok_inst s ls sers : sok s -> length ls = length sers -> Forall sorted_ts sers -> jok (inst s ls sers).
Proof.
  unfold jok. intros Hs Hl Hso. induction s as [off pin|keep fn range off pin|drops f s IH]; simpl in *.
  - repeat split; auto.
  - destruct Hs as [Hr Hp]. repeat split; auto.
  - apply IH. assumption.
Qed.

(* ---- non-aggregating expressions: Coalesce(Remote(e), Remote(e)) ------------------------------ *)

Definition step_of (outs : list (Z * list (nat * Z))) (ts : Z) : list (nat * Z) :=
  match find (fun tv => Z.eqb (fst tv) ts) outs with Some tv => snd tv | None => [] end.

Lemma step_of_map (f : Z -> list (nat * Z)) (g : list Z) ts : In ts g -> step_of (map (fun t => (t, f t)) g) ts = f ts.
Proof.
  unfold step_of. induction g as [|t g IH]; intros Hin; [destruct Hin|]. simpl.
  destruct (Z.eqb_spec t ts) as [->|Hne]; [reflexivity|]. destruct Hin as [->|Hin]; [congruence|]. apply IH. assumption.
Qed.

Section Distributed.
  Variable cf : cfg.
  Variable w : window.
  Hypothesis HN : (0 < c_shards cf)%nat.
  Hypothesis HB : (0 < c_batch cf)%nat.
  Hypothesis Hlb : 0 <= c_lookback cf.
  Hypothesis Hw : wf_window w.
  Hypothesis Hstart : noT < w_start w.

  Variable s : pshape.
  Variables ls1 ls2 : list labels.
  Variables s1 s2 : list (list sample).
  Hypothesis Hs : sok s.
  Hypothesis Hl1 : length ls1 = length s1.
  Hypothesis Hl2 : length ls2 = length s2.
  Hypothesis Hso1 : Forall sorted_ts s1.
  Hypothesis Hso2 : Forall sorted_ts s2.

  Let central := inst s (ls1 ++ ls2) (s1 ++ s2).
  Let part1 := inst s ls1 s1.
  Let part2 := inst s ls2 s2.

  Lemma central_ok : jok central.
  Proof. apply jok_inst; [assumption|rewrite !app_length; lia|apply Forall_app; split; assumption]. Qed.

  (* what a tree hands to its consumer at a grid step, labelled, is a permutation of its reference value *)
  Lemma tree_step t R ts : jok t -> In ts (grid w) -> jref (c_lookback cf) t ts = Some R ->
    exists outs, jrun cf w t = inl outs /\ Permutation (labelled Z (jseries t) (step_of outs ts)) R.
  Proof.
    intros Hok Hts HR. destruct (jtree_matches_reference cf w HN HB Hlb Hw Hstart t Hok) as [E P].
    eexists. split; [exact E|]. rewrite step_of_map by assumption. destruct (P ts) as [_ Pr]. apply Pr. assumption.
  Qed.

  Theorem distributed_expression_equals_central ts : In ts (grid w) ->
    exists outs_c outs_d,
      jrun cf w central = inl outs_c /\
      jrun cf w (JConcat (JRemote part1) (JRemote part2)) = inl outs_d /\
      Permutation (labelled Z (jseries central) (step_of outs_c ts))
                  (labelled Z (jseries (JConcat (JRemote part1) (JRemote part2))) (step_of outs_d ts)).
  Proof.
    intros Hts.
    assert (Hok1 : jok part1) by (apply jok_inst; assumption).
    assert (Hok2 : jok part2) by (apply jok_inst; assumption).
    destruct (tree_step central _ ts central_ok Hts (jref_inst _ _ _ _ _)) as [oc [Ec Pc]].
    assert (Hokd : jok (JConcat (JRemote part1) (JRemote part2))) by (split; assumption).
    assert (Rd : jref (c_lookback cf) (JConcat (JRemote part1) (JRemote part2)) ts =
                 Some (pref (c_lookback cf) s ls1 s1 ts ++ pref (c_lookback cf) s ls2 s2 ts)).
    { simpl. unfold part1, part2. rewrite !jref_inst. reflexivity. }
    destruct (tree_step _ _ ts Hokd Hts Rd) as [od [Ed Pd]].
    exists oc, od. split; [exact Ec|]. split; [exact Ed|].
    eapply Permutation_trans; [exact Pc|]. unfold central. rewrite pref_app by assumption. apply Permutation_sym. exact Pd.
  Qed.
End Distributed.

(* ---- aggregations: agg(Coalesce(Remote(agg(e)), Remote(agg(e)))) ------------------------------- *)

Section AggPushdown.
  Variable add : Z -> Z -> Z.
  Hypothesis add_assoc : forall a b c, add (add a b) c = add a (add b c).
  Hypothesis add_comm : forall a b, add a b = add b a.
  Variable without : bool.
  Variable grouping : list N.

  Notation init := (fun v : Z => v).
  Notation key := (fun mv : labels * Z => group_labels without grouping (fst mv)).
  Notation haskey k := (fun mv : labels * Z => if labels_dec (group_labels without grouping (fst mv)) k then true else false).
  Notation vals k X := (map snd (filter (haskey k) X)).
  Notation ragg := (ref_agg init add without grouping).
  Notation afold := (agg_fold init add).

  Lemma laws : (forall a b, add (init a) b = add (init b) a) /\ (forall x a b, add (add x a) b = add (add x b) a).
  Proof. split; intros; [apply add_comm|rewrite !add_assoc, (add_comm a b); reflexivity]. Qed.

  Lemma group_labels_idem l : group_labels without grouping (group_labels without grouping l) = group_labels without grouping l.
  Proof.
    unfold group_labels. destruct without.
    - induction l as [|kv l IH]; simpl; [reflexivity|].
      destruct (negb (mem_n (fst kv) grouping) && negb (fst kv =? 0)%N) eqn:E; simpl; [rewrite E, IH; reflexivity|exact IH].
    - induction l as [|kv l IH]; simpl; [reflexivity|].
      destruct (mem_n (fst kv) grouping) eqn:E; simpl; [rewrite E, IH; reflexivity|exact IH].
  Qed.

  Lemma ragg_in X k v : In (k, v) (ragg X) <-> In k (map key X) /\ afold (vals k X) = Some v.
  Proof.
    unfold ref_agg. cbv zeta. rewrite in_flat_map. split.
    - intros [k' [Hk' Hin]]. apply nodup_In in Hk'.
      destruct (afold (vals k' X)) as [r|] eqn:E; [|destruct Hin]. destruct Hin as [Heq|[]]. inversion Heq; subst. split; assumption.
    - intros [Hk E]. exists k. split; [apply nodup_In; assumption|]. rewrite E. left. reflexivity.
  Qed.

  Lemma vals_nonempty X k : In k (map key X) -> exists v vs, vals k X = v :: vs.
  Proof.
    intros Hk. apply in_map_iff in Hk. destruct Hk as [mv [Ek Hmv]].
    assert (Hin : In (snd mv) (vals k X)).
    { apply in_map. apply filter_In. split; [assumption|]. destruct (labels_dec _ k); [reflexivity|contradiction]. }
    destruct (vals k X) as [|v vs]; [destruct Hin|]. eauto.
  Qed.

  Lemma vals_empty X k : ~ In k (map key X) -> vals k X = [].
  Proof.
    intros Hn. induction X as [|mv X IH]; simpl; [reflexivity|]. simpl in Hn.
    destruct (labels_dec (group_labels without grouping (fst mv)) k) as [E|NE]; [exfalso; apply Hn; left; assumption|].
    apply IH. intros H. apply Hn. right. assumption.
  Qed.

  Lemma afold_cons v vs : afold (v :: vs) = Some (fold_left add vs v).
  Proof.
    unfold agg_fold. simpl. generalize v. induction vs as [|x vs IH]; intros a; simpl; [reflexivity|apply IH].
  Qed.

  Lemma fold_left_add_assoc vs a b : fold_left add vs (add a b) = add a (fold_left add vs b).
  Proof. revert b. induction vs as [|x vs IH]; intros b; simpl; [reflexivity|]. rewrite add_assoc. apply IH. Qed.

  (* the accumulated value of two batches of members is the sum of the batches' values *)
  Lemma afold_app a as' b bs : afold ((a :: as') ++ (b :: bs)) = Some (add (fold_left add as' a) (fold_left add bs b)).
  Proof.
    simpl app. rewrite afold_cons, fold_left_app. simpl. rewrite fold_left_add_assoc. reflexivity.
  Qed.

  Lemma afold_some_key X k v : afold (vals k X) = Some v -> In k (map key X).
  Proof.
    intros H. destruct (in_dec labels_dec k (map key X)) as [Hin|Hn]; [assumption|].
    rewrite (vals_empty X k Hn) in H. discriminate.
  Qed.

  Lemma ragg_in' X k v : In (k, v) (ragg X) <-> afold (vals k X) = Some v.
  Proof. rewrite ragg_in. split; [tauto|]. intros H. split; [apply (afold_some_key X k v H)|exact H]. Qed.

  (* the values with key k among the partial results of one partition: its value for k, if any *)
  Lemma vals_ragg X k : vals k (ragg X) = match afold (vals k X) with Some v => [v] | None => [] end.
  Proof.
    unfold ref_agg. cbv zeta.
    assert (G : forall ks, NoDup ks -> (forall k', In k' ks -> group_labels without grouping k' = k') ->
              map snd (filter (haskey k) (flat_map (fun k' => match afold (vals k' X) with Some v => [(k', v)] | None => [] end) ks)) =
              match afold (vals k X) with Some v => if in_dec labels_dec k ks then [v] else [] | None => [] end).
    { induction ks as [|k' ks IH]; intros Hnd Hid; simpl.
      - destruct (afold (vals k X)); reflexivity.
      - inversion Hnd as [|? ? Hn Hnd']; subst. rewrite filter_app, map_app, (IH Hnd') by (intros x Hx; apply Hid; right; assumption).
        pose proof (Hid k' (or_introl eq_refl)) as Hk'.
        destruct (labels_dec k' k) as [->|NE].
        + destruct (afold (vals k X)) as [v|]; simpl; [|reflexivity].
          rewrite Hk'. destruct (labels_dec k k) as [_|N2]; [|contradiction].
          simpl. destruct (in_dec labels_dec k ks); [contradiction|reflexivity].
        + assert (E : map snd (filter (haskey k) match afold (vals k' X) with Some v => [(k', v)] | None => [] end) = []).
          { destruct (afold (vals k' X)) as [v'|]; simpl; [|reflexivity]. rewrite Hk'.
            destruct (labels_dec k' k); [contradiction|reflexivity]. }
          rewrite E. simpl. destruct (afold (vals k X)) as [v|]; [|reflexivity].
          destruct (in_dec labels_dec k ks) as [Hi|Hni]; reflexivity. }
    rewrite (G (nodup labels_dec (map key X)) (NoDup_nodup _ _)).
    - destruct (afold (vals k X)) as [v|] eqn:E; [|reflexivity].
      destruct (in_dec labels_dec k (nodup labels_dec (map key X))) as [_|Hn]; [reflexivity|].
      exfalso. apply Hn. apply nodup_In. apply (afold_some_key X k v E).
    - intros k' Hk'. apply nodup_In in Hk'. apply in_map_iff in Hk'. destruct Hk' as [mv [<- _]]. apply group_labels_idem.
  Qed.

  Lemma vals_app k (A B : list (labels * Z)) : vals k (A ++ B) = vals k A ++ vals k B.
  Proof. rewrite filter_app, map_app. reflexivity. Qed.

  (* a group's value over the union is its value over the partitions' partial results *)
  Lemma value_distributes A B k : afold (vals k (A ++ B)) = afold (vals k (ragg A ++ ragg B)).
  Proof.
    rewrite !vals_app, !vals_ragg.
    destruct (vals k A) as [|a as'], (vals k B) as [|b bs].
    - reflexivity.
    - rewrite (afold_cons b bs). simpl app. rewrite afold_cons. reflexivity.
    - rewrite app_nil_r. rewrite (afold_cons a as'). simpl app. rewrite afold_cons. reflexivity.
    - rewrite afold_app. rewrite (afold_cons a as'), (afold_cons b bs). simpl app. rewrite afold_cons. reflexivity.
  Qed.

  Theorem ref_agg_distributes A B : Permutation (ragg (A ++ B)) (ragg (ragg A ++ ragg B)).
  Proof.
    apply NoDup_Permutation.
    - apply (NoDup_map_inv fst). apply ref_agg_keys_nodup.
    - apply (NoDup_map_inv fst). apply ref_agg_keys_nodup.
    - intros [k v]. rewrite !ragg_in', value_distributes. reflexivity.
  Qed.
  (* ---- any number of partitions ------------------------------------------------------- *)

  Definition oplus (a b : option Z) : option Z :=
    match a, b with Some x, Some y => Some (add x y) | None, y => y | x, None => x end.

  Lemma afold_vals_app k A B : afold (vals k (A ++ B)) = oplus (afold (vals k A)) (afold (vals k B)).
  Proof.
    rewrite vals_app. destruct (vals k A) as [|a as'], (vals k B) as [|b bs].
    - reflexivity.
    - simpl app. rewrite (afold_cons b bs). reflexivity.
    - rewrite app_nil_r, (afold_cons a as'). reflexivity.
    - rewrite (afold_app a as' b bs), (afold_cons a as'), (afold_cons b bs). reflexivity.
  Qed.

  Lemma afold_vals_ragg k X : afold (vals k (ragg X)) = afold (vals k X).
  Proof. rewrite vals_ragg. destruct (afold (vals k X)) as [v|]; [rewrite afold_cons; reflexivity|reflexivity]. Qed.

  Lemma value_distributes_list (Xs : list (list (labels * Z))) k :
    afold (vals k (concat Xs)) = afold (vals k (concat (map (fun X => ragg X) Xs))).
  Proof.
    induction Xs as [|X Xs IH]; simpl; [reflexivity|].
    rewrite !afold_vals_app, afold_vals_ragg, IH. reflexivity.
  Qed.

  Theorem ref_agg_distributes_list (Xs : list (list (labels * Z))) :
    Permutation (ragg (concat Xs)) (ragg (concat (map (fun X => ragg X) Xs))).
  Proof.
    apply NoDup_Permutation.
    - apply (NoDup_map_inv fst). apply ref_agg_keys_nodup.
    - apply (NoDup_map_inv fst). apply ref_agg_keys_nodup.
    - intros [k v]. rewrite !ragg_in', value_distributes_list. reflexivity.
  Qed.
End AggPushdown.

Section DistributedAgg.
  Variable cf : cfg.
  Variable w : window.
  Hypothesis HN : (0 < c_shards cf)%nat.
  Hypothesis HB : (0 < c_batch cf)%nat.
  Hypothesis Hlb : 0 <= c_lookback cf.
  Hypothesis Hw : wf_window w.
  Hypothesis Hstart : noT < w_start w.

  Variable add : Z -> Z -> Z.
  Hypothesis add_assoc : forall a b c, add (add a b) c = add a (add b c).
  Hypothesis add_comm : forall a b, add a b = add b a.
  Variable without : bool.
  Variable grouping : list N.

  Variable s : pshape.
  Variables ls1 ls2 : list labels.
  Variables s1 s2 : list (list sample).
  Hypothesis Hs : sok s.
  Hypothesis Hl1 : length ls1 = length s1.
  Hypothesis Hl2 : length ls2 = length s2.
  Hypothesis Hso1 : Forall sorted_ts s1.
  Hypothesis Hso2 : Forall sorted_ts s2.

  Let agg (t : jtree) : jtree := JAgg (fun v => v) add without grouping t.
  Let central := agg (inst s (ls1 ++ ls2) (s1 ++ s2)).
  Let distributed := agg (JConcat (JRemote (agg (inst s ls1 s1))) (JRemote (agg (inst s ls2 s2)))).

  (* sum / max / min [by|without] (e) over the union of the partitions, and the same aggregation
     of the partitions' own aggregations read back from the remote engines: the same groups with
     the same values at every step of the window, for every partitioning of the series, every
     shard count and batch size on either side *)
  Theorem distributed_aggregation_equals_central ts : In ts (grid w) ->
    exists outs_c outs_d,
      jrun cf w central = inl outs_c /\
      jrun cf w distributed = inl outs_d /\
      Permutation (labelled Z (jseries central) (step_of outs_c ts))
                  (labelled Z (jseries distributed) (step_of outs_d ts)).
  Proof.
    intros Hts. destruct (laws add add_assoc add_comm) as [L1 L2].
    assert (Hok1 : jok (inst s ls1 s1)) by (apply jok_inst; assumption).
    assert (Hok2 : jok (inst s ls2 s2)) by (apply jok_inst; assumption).
    assert (Hokc : jok central).
    { unfold central, agg, jok. simpl. split; [|split; assumption].
      apply jok_inst; [assumption|rewrite !app_length; lia|apply Forall_app; split; assumption]. }
    assert (Hokd : jok distributed).
    { unfold distributed, agg, jok. simpl. unfold jok in Hok1, Hok2. repeat split; assumption. }
    assert (Rc : jref (c_lookback cf) central ts =
                 Some (ref_agg (fun v => v) add without grouping
                               (pref (c_lookback cf) s ls1 s1 ts ++ pref (c_lookback cf) s ls2 s2 ts))).
    { unfold central, agg. simpl. rewrite jref_inst, pref_app by assumption. reflexivity. }
    assert (Rd : jref (c_lookback cf) distributed ts =
                 Some (ref_agg (fun v => v) add without grouping
                               (ref_agg (fun v => v) add without grouping (pref (c_lookback cf) s ls1 s1 ts) ++
                                ref_agg (fun v => v) add without grouping (pref (c_lookback cf) s ls2 s2 ts)))).
    { unfold distributed, agg. simpl. rewrite !jref_inst. reflexivity. }
    destruct (tree_step cf w HN HB Hlb Hw Hstart central _ ts Hokc Hts Rc) as [oc [Ec Pc]].
    destruct (tree_step cf w HN HB Hlb Hw Hstart distributed _ ts Hokd Hts Rd) as [od [Ed Pd]].
    exists oc, od. split; [exact Ec|]. split; [exact Ed|].
    eapply Permutation_trans; [exact Pc|].
    eapply Permutation_trans; [apply (ref_agg_distributes add add_assoc)|].
    apply Permutation_sym. exact Pd.
  Qed.
End DistributedAgg.

(* ---- count: pushed down as count, merged with sum ------------------------------------------- *)

Section CountPushdown.
  Variable conv : nat -> Z.                     (* the count as a sample value *)
  Hypothesis conv_add : forall a b, conv (a + b) = conv a + conv b.
  Variable without : bool.
  Variable grouping : list N.

  Notation key := (fun mv : labels * Z => group_labels without grouping (fst mv)).
  Notation haskey k := (fun mv : labels * Z => if labels_dec (group_labels without grouping (fst mv)) k then true else false).
  Notation vals k X := (map snd (filter (haskey k) X)).
  Notation rsum := (ref_agg (fun v => v) Z.add without grouping).
  Notation afold := (agg_fold (fun v => v) Z.add).

  Let zassoc : forall a b c, a + b + c = a + (b + c) := fun a b c => eq_sym (Z.add_assoc a b c).

  Definition rcount (X : list (labels * Z)) : list (labels * Z) :=
    map (fun k => (k, conv (count_occ labels_dec (map key X) k))) (nodup labels_dec (map key X)).

  Lemma conv_0 : conv 0 = 0.
  Proof. pose proof (conv_add 0 0) as H. simpl in H. lia. Qed.

  Lemma rcount_in X k v : In (k, v) (rcount X) <-> In k (map key X) /\ v = conv (count_occ labels_dec (map key X) k).
  Proof.
    unfold rcount. rewrite in_map_iff. split.
    - intros [k' [E Hk']]. inversion E; subst. split; [apply nodup_In in Hk'; assumption|reflexivity].
    - intros [Hk ->]. exists k. split; [reflexivity|apply nodup_In; assumption].
  Qed.

  (* the partial counts with key k in one partition's result: its count for k, if the key occurs *)
  Lemma vals_rcount X k :
    vals k (rcount X) = if in_dec labels_dec k (map key X) then [conv (count_occ labels_dec (map key X) k)] else [].
  Proof.
    unfold rcount.
    assert (G : forall ks, NoDup ks -> (forall k', In k' ks -> group_labels without grouping k' = k') ->
              vals k (map (fun k' => (k', conv (count_occ labels_dec (map key X) k'))) ks) =
              if in_dec labels_dec k ks then [conv (count_occ labels_dec (map key X) k)] else []).
    { induction ks as [|k' ks IH]; intros Hnd Hid; simpl; [reflexivity|].
      inversion Hnd as [|? ? Hn Hnd']; subst.
      rewrite (Hid k' (or_introl eq_refl)).
      destruct (labels_dec k' k) as [->|NE]; simpl.
      - rewrite (IH Hnd') by (intros x Hx; apply Hid; right; assumption).
        destruct (in_dec labels_dec k ks); [contradiction|reflexivity].
      - rewrite (IH Hnd') by (intros x Hx; apply Hid; right; assumption).
        destruct (in_dec labels_dec k ks); reflexivity. }
    rewrite (G (nodup labels_dec (map key X)) (NoDup_nodup _ _)).
    - destruct (in_dec labels_dec k (nodup labels_dec (map key X))) as [Hi|Hn], (in_dec labels_dec k (map key X)) as [Hi'|Hn']; try reflexivity.
      + exfalso. apply Hn'. apply nodup_In in Hi. assumption.
      + exfalso. apply Hn. apply nodup_In. assumption.
    - intros k' Hk'. apply nodup_In in Hk'. apply in_map_iff in Hk'. destruct Hk' as [mv [<- _]].
      apply (group_labels_idem without grouping).
  Qed.

  Theorem count_distributes A B : Permutation (rcount (A ++ B)) (rsum (rcount A ++ rcount B)).
  Proof.
    apply NoDup_Permutation.
    - unfold rcount. apply (NoDup_map_inv fst). rewrite map_map. simpl. rewrite map_id. apply NoDup_nodup.
    - apply (NoDup_map_inv fst). apply ref_agg_keys_nodup.
    - intros [k v]. rewrite rcount_in, (ragg_in' Z.add without grouping).
      rewrite (vals_app without grouping), !vals_rcount.
      rewrite !map_app, count_occ_app, conv_add, in_app_iff.
      destruct (in_dec labels_dec k (map key A)) as [HA|HA], (in_dec labels_dec k (map key B)) as [HB|HB]; simpl.
      + rewrite (afold_cons Z.add). simpl. split; [intros [_ ->]; reflexivity|intros E; inversion E; split; [left; assumption|reflexivity]].
      + rewrite (afold_cons Z.add). simpl. rewrite (proj1 (count_occ_not_In labels_dec (map key B) k) HB), conv_0.
        split; [intros [_ ->]; f_equal; lia|intros E; inversion E; split; [left; assumption|lia]].
      + rewrite (afold_cons Z.add). simpl. rewrite (proj1 (count_occ_not_In labels_dec (map key A) k) HA), conv_0.
        split; [intros [_ ->]; f_equal; lia|intros E; inversion E; split; [right; assumption|lia]].
      + split; [intros [[H|H] _]; contradiction|discriminate].
  Qed.
  (* any number of partitions *)
  Lemma afold_vals_rcount X k :
    afold (vals k (rcount X)) =
    if in_dec labels_dec k (map key X) then Some (conv (count_occ labels_dec (map key X) k)) else None.
  Proof. rewrite vals_rcount. destruct (in_dec labels_dec k (map key X)); [rewrite (afold_cons Z.add); reflexivity|reflexivity]. Qed.

  Lemma value_count_list (Xs : list (list (labels * Z))) k :
    afold (vals k (concat (map rcount Xs))) =
    if in_dec labels_dec k (map key (concat Xs)) then Some (conv (count_occ labels_dec (map key (concat Xs)) k)) else None.
  Proof.
    induction Xs as [|X Xs IH]; [reflexivity|]. cbn [map concat].
    rewrite (afold_vals_app Z.add zassoc without grouping), afold_vals_rcount, IH.
    rewrite !map_app, count_occ_app, conv_add.
    destruct (in_dec labels_dec k (map key X)) as [HA|HA], (in_dec labels_dec k (map key (concat Xs))) as [HB|HB];
      destruct (in_dec labels_dec k (map key X ++ map key (concat Xs))) as [HC|HC]; simpl; try reflexivity;
      try (exfalso; apply HC; apply in_or_app; tauto).
    all: try (rewrite (proj1 (count_occ_not_In labels_dec (map key (concat Xs)) k) HB), conv_0; f_equal; lia).
    all: try (rewrite (proj1 (count_occ_not_In labels_dec (map key X) k) HA), conv_0; f_equal; lia).
    all: try (exfalso; apply in_app_or in HC; tauto).
  Qed.

  Theorem count_distributes_list (Xs : list (list (labels * Z))) :
    Permutation (rcount (concat Xs)) (rsum (concat (map rcount Xs))).
  Proof.
    apply NoDup_Permutation.
    - unfold rcount. apply (NoDup_map_inv fst). rewrite map_map. simpl. rewrite map_id. apply NoDup_nodup.
    - apply (NoDup_map_inv fst). apply ref_agg_keys_nodup.
    - intros [k v]. rewrite rcount_in, (ragg_in' Z.add without grouping), value_count_list.
      destruct (in_dec labels_dec k (map key (concat Xs))) as [H|H].
      + split; [intros [_ ->]; reflexivity|intros E; inversion E; split; [assumption|reflexivity]].
      + split; [intros [H' _]; contradiction|discriminate].
  Qed.
End CountPushdown.

Section DistributedCount.
  Variable cf : cfg.
  Variable w : window.
  Hypothesis HN : (0 < c_shards cf)%nat.
  Hypothesis HB : (0 < c_batch cf)%nat.
  Hypothesis Hlb : 0 <= c_lookback cf.
  Hypothesis Hw : wf_window w.
  Hypothesis Hstart : noT < w_start w.

  Variable conv : nat -> Z.
  Hypothesis conv_add : forall a b, conv (a + b) = conv a + conv b.
  Variable without : bool.
  Variable grouping : list N.

  Variable s : pshape.
  Variables ls1 ls2 : list labels.
  Variables s1 s2 : list (list sample).
  Hypothesis Hs : sok s.
  Hypothesis Hl1 : length ls1 = length s1.
  Hypothesis Hl2 : length ls2 = length s2.
  Hypothesis Hso1 : Forall sorted_ts s1.
  Hypothesis Hso2 : Forall sorted_ts s2.

  Let cnt (t : jtree) : jtree := JCount conv without grouping t.
  Let central := cnt (inst s (ls1 ++ ls2) (s1 ++ s2)).
  Let distributed := JAgg (fun v => v) Z.add without grouping (JConcat (JRemote (cnt (inst s ls1 s1))) (JRemote (cnt (inst s ls2 s2)))).

  (* count [by|without] (e) over the union, and the sum of the partitions' counts *)
  Theorem distributed_count_equals_central ts : In ts (grid w) ->
    exists outs_c outs_d,
      jrun cf w central = inl outs_c /\
      jrun cf w distributed = inl outs_d /\
      Permutation (labelled Z (jseries central) (step_of outs_c ts))
                  (labelled Z (jseries distributed) (step_of outs_d ts)).
  Proof.
    intros Hts.
    assert (Hok1 : jok (inst s ls1 s1)) by (apply jok_inst; assumption).
    assert (Hok2 : jok (inst s ls2 s2)) by (apply jok_inst; assumption).
    assert (Hokc : jok central).
    { unfold central, cnt, jok. simpl. apply jok_inst; [assumption|rewrite !app_length; lia|apply Forall_app; split; assumption]. }
    assert (Hokd : jok distributed).
    { unfold distributed, cnt, jok. simpl. unfold jok in Hok1, Hok2. repeat split; try assumption; intros; lia. }
    assert (Rc : jref (c_lookback cf) central ts =
                 Some (rcount conv without grouping (pref (c_lookback cf) s ls1 s1 ts ++ pref (c_lookback cf) s ls2 s2 ts))).
    { unfold central, cnt. simpl. rewrite jref_inst, pref_app by assumption. reflexivity. }
    assert (Rd : jref (c_lookback cf) distributed ts =
                 Some (ref_agg (fun v => v) Z.add without grouping
                               (rcount conv without grouping (pref (c_lookback cf) s ls1 s1 ts) ++
                                rcount conv without grouping (pref (c_lookback cf) s ls2 s2 ts)))).
    { unfold distributed, cnt. simpl. rewrite !jref_inst. reflexivity. }
    destruct (tree_step cf w HN HB Hlb Hw Hstart central _ ts Hokc Hts Rc) as [oc [Ec Pc]].
    destruct (tree_step cf w HN HB Hlb Hw Hstart distributed _ ts Hokd Hts Rd) as [od [Ed Pd]].
    exists oc, od. split; [exact Ec|]. split; [exact Ed|].
    eapply Permutation_trans; [exact Pc|].
    eapply Permutation_trans; [apply (count_distributes conv conv_add)|].
    apply Permutation_sym. exact Pd.
  Qed.
End DistributedCount.


(* ---- any number of engines: Coalesce of n remote executions (nested two by two) --------------- *)

Fixpoint jcoalesce (t : jtree) (rest : list jtree) : jtree :=
  match rest with
  | [] => t
  | u :: r => JConcat t (jcoalesce u r)
  end.

Section DistributedAggN.
  Variable cf : cfg.
  Variable w : window.
  Hypothesis HN : (0 < c_shards cf)%nat.
  Hypothesis HB : (0 < c_batch cf)%nat.
  Hypothesis Hlb : 0 <= c_lookback cf.
  Hypothesis Hw : wf_window w.
  Hypothesis Hstart : noT < w_start w.

  Variable add : Z -> Z -> Z.
  Hypothesis add_assoc : forall a b c, add (add a b) c = add a (add b c).
  Hypothesis add_comm : forall a b, add a b = add b a.
  Variable without : bool.
  Variable grouping : list N.
  Variable s : pshape.
  Hypothesis Hs : sok s.

  (* the partitions: labels and samples of each engine's series *)
  Definition part_ok (p : list labels * list (list sample)) : Prop :=
    length (fst p) = length (snd p) /\ Forall sorted_ts (snd p).

  Let agg (t : jtree) : jtree := JAgg (fun v => v) add without grouping t.
  Definition remote_of (p : list labels * list (list sample)) : jtree := JRemote (agg (inst s (fst p) (snd p))).

  Lemma pref_concat lb (ps : list (list labels * list (list sample))) ts : Forall part_ok ps ->
    pref lb s (concat (map fst ps)) (concat (map snd ps)) ts = concat (map (fun p => pref lb s (fst p) (snd p) ts) ps).
  Proof.
    induction ps as [|p ps IH]; intros Hok; simpl.
    - induction s as [off pin|keep fn range off pin|drops f s0 IHs]; simpl; [reflexivity|reflexivity|].
      rewrite IHs by assumption. reflexivity.
    - inversion Hok as [|? ? [Hl Hso] Hok']; subst.
      rewrite pref_app; [rewrite IH by assumption; reflexivity|assumption|].
      clear IH. induction ps as [|q ps IHq]; simpl; [reflexivity|].
      inversion Hok' as [|? ? [Hlq _] Hok'']; subst. rewrite !app_length, Hlq. f_equal. apply IHq; [constructor; [split; assumption|assumption]|assumption].
  Qed.

  Lemma parts_length l : Forall part_ok l -> length (concat (map fst l)) = length (concat (map snd l)).
  Proof. induction 1 as [|q qs [Hq _] _ IH]; simpl; [reflexivity|]. rewrite !app_length, Hq, IH. reflexivity. Qed.

  Lemma parts_sorted l : Forall part_ok l -> Forall sorted_ts (concat (map snd l)).
  Proof. induction 1 as [|q qs [_ Hso] _ IH]; simpl; [constructor|]. apply Forall_app. split; assumption. Qed.

  Lemma jref_concat lb A B ts :
    jref lb (JConcat A B) ts = match jref lb A ts, jref lb B ts with Some a, Some b => Some (a ++ b) | _, _ => None end.
  Proof. reflexivity. Qed.

  Lemma jref_remote_of lb p ts :
    jref lb (remote_of p) ts = Some (ref_agg (fun v => v) add without grouping (pref lb s (fst p) (snd p) ts)).
  Proof. unfold remote_of, agg. cbn [jref]. rewrite jref_inst. reflexivity. Qed.

  Lemma jref_coalesce lb (p : list labels * list (list sample)) ps ts :
    jref lb (jcoalesce (remote_of p) (map remote_of ps)) ts =
    Some (concat (map (fun q => ref_agg (fun v => v) add without grouping (pref lb s (fst q) (snd q) ts)) (p :: ps))).
  Proof.
    revert p. induction ps as [|q ps IH]; intros p.
    - cbn [map jcoalesce concat]. rewrite jref_remote_of, app_nil_r. reflexivity.
    - cbn [map jcoalesce]. rewrite jref_concat, jref_remote_of, (IH q). reflexivity.
  Qed.

  Lemma jok_coalesce (p : list labels * list (list sample)) ps : part_ok p -> Forall part_ok ps ->
    jok (jcoalesce (remote_of p) (map remote_of ps)).
  Proof.
    destruct (laws add add_assoc add_comm) as [L1 L2].
    assert (Hr : forall q, part_ok q -> jok (remote_of q)).
    { intros q [Hl Hso]. unfold remote_of, agg, jok. simpl. split; [|split; assumption].
      apply (jok_inst s (fst q) (snd q) Hs Hl Hso). }
    revert p. induction ps as [|q ps IH]; intros p Hp Hps; simpl; [apply Hr; assumption|].
    inversion Hps; subst. split; [apply Hr; assumption|apply IH; assumption].
  Qed.

  (* sum / max / min over the union of any number of partitions (empty ones included) and the same
     aggregation of the engines' own aggregations *)
  Theorem distributed_aggregation_equals_central_n (p : list labels * list (list sample)) ps ts :
    part_ok p -> Forall part_ok ps -> In ts (grid w) ->
    let central := agg (inst s (concat (map fst (p :: ps))) (concat (map snd (p :: ps)))) in
    let distributed := agg (jcoalesce (remote_of p) (map remote_of ps)) in
    exists outs_c outs_d,
      jrun cf w central = inl outs_c /\ jrun cf w distributed = inl outs_d /\
      Permutation (labelled Z (jseries central) (step_of outs_c ts))
                  (labelled Z (jseries distributed) (step_of outs_d ts)).
  Proof.
    intros Hp Hps Hts central distributed. destruct (laws add add_assoc add_comm) as [L1 L2].
    assert (Hall : Forall part_ok (p :: ps)) by (constructor; assumption).
    assert (Hokc : jok central).
    { unfold central, agg, jok. simpl jokw. split; [|split; assumption].
      apply jok_inst; [assumption| |].
      - exact (parts_length (p :: ps) Hall).
      - exact (parts_sorted (p :: ps) Hall). }
    assert (Hokd : jok distributed).
    { unfold distributed, agg, jok. simpl jokw. split; [|split; assumption]. apply jok_coalesce; assumption. }
    assert (Rc : jref (c_lookback cf) central ts =
                 Some (ref_agg (fun v => v) add without grouping
                               (concat (map (fun q => pref (c_lookback cf) s (fst q) (snd q) ts) (p :: ps))))).
    { unfold central, agg. cbn [jref]. rewrite jref_inst, pref_concat by assumption. reflexivity. }
    assert (Rd : jref (c_lookback cf) distributed ts =
                 Some (ref_agg (fun v => v) add without grouping
                               (concat (map (fun X => ref_agg (fun v => v) add without grouping X)
                                            (map (fun q => pref (c_lookback cf) s (fst q) (snd q) ts) (p :: ps)))))).
    { unfold distributed, agg. cbn [jref]. rewrite jref_coalesce, map_map. reflexivity. }
    destruct (tree_step cf w HN HB Hlb Hw Hstart central _ ts Hokc Hts Rc) as [oc [Ec Pc]].
    destruct (tree_step cf w HN HB Hlb Hw Hstart distributed _ ts Hokd Hts Rd) as [od [Ed Pd]].
    exists oc, od. split; [exact Ec|]. split; [exact Ed|].
    eapply Permutation_trans; [exact Pc|].
    eapply Permutation_trans; [apply (ref_agg_distributes_list add add_assoc)|].
    apply Permutation_sym. exact Pd.
  Qed.
End DistributedAggN.
