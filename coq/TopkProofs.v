(* Proofs about Topk.v (property C04): what a group keeps is a k-subset of its
   samples such that no dropped sample is strictly better than a kept one. *)
From Coq Require Import List ZArith NArith Bool Lia.
From Verif Require Import Topk.
Import ListNotations.

Section TopKProofs.
  Variable V : Type.
  Variable lt : V -> V -> bool.
  Variable isnan : V -> bool.

  (* the comparison is a strict weak order on the values that are not NaN, and
     false whenever a NaN is involved (IEEE <) *)
  Hypothesis lt_nan_r : forall a b, isnan b = true -> lt a b = false.
  Hypothesis lt_irrefl : forall a, lt a a = false.
  Hypothesis lt_trans : forall a b c, lt a b = true -> lt b c = true -> lt a c = true.
  Hypothesis lt_negtrans : forall a b c, isnan c = false -> lt a b = true -> lt a c = true \/ lt c b = true.

  Notation entry := (entry V).
  Notation less := (less V lt isnan).
  Notation min_entry := (min_entry V lt isnan).
  Notation remove_id := (remove_id V).
  Notation offer := (offer V lt isnan).
  Notation topk_group := (topk_group V lt isnan).

  (* a is strictly worse than b: b is a number and a is NaN or compares below it *)
  Definition worse (a b : V) : bool := if isnan b then false else isnan a || lt a b.

  Lemma lt_asym a b : lt a b = true -> lt b a = false.
  Proof.
    intros H. destruct (lt b a) eqn:E; [|reflexivity].
    pose proof (lt_trans _ _ _ H E) as H'. rewrite lt_irrefl in H'. discriminate.
  Qed.

  Lemma worse_less a b : isnan b = false -> worse a b = less a b.
  Proof. intros H. unfold worse, Topk.less. rewrite H. reflexivity. Qed.

  (* ---- the root ---------------------------------------------------------- *)

  Lemma min_entry_In : forall l m, In (min_entry m l) (m :: l).
  Proof.
    induction l as [|x l IH]; intros m; simpl; [left; reflexivity|].
    destruct (less (snd x) (snd m)).
    - destruct (IH x) as [H|H]; [right; left; exact H|right; right; exact H].
    - destruct (IH m) as [H|H]; [left; exact H|right; right; exact H].
  Qed.

  Lemma worse_irrefl a : worse a a = false.
  Proof. unfold worse. destruct (isnan a) eqn:E; [reflexivity|]. simpl. apply lt_irrefl. Qed.

  Lemma min_entry_minimal : forall l m (P : entry -> Prop),
    (forall x, P x -> worse (snd x) (snd m) = false) ->
    forall x, P x \/ x = m \/ In x l -> worse (snd x) (snd (min_entry m l)) = false.
  Proof.
    induction l as [|y l IH]; intros m P HP x Hx; simpl.
    - destruct Hx as [Hx|[Hx|[]]]; [apply HP; assumption|subst x; apply worse_irrefl].
    - destruct (less (snd y) (snd m)) eqn:El.
      + apply (IH y (fun z => P z \/ z = m)).
        * intros z Hz. unfold worse. destruct (isnan (snd y)) eqn:Ny; [reflexivity|].
          unfold Topk.less in El. rewrite Ny in El. simpl in El.
          assert (Nm : isnan (snd m) = false).
          { destruct (isnan (snd m)) eqn:E; [|reflexivity]. rewrite lt_nan_r in El by assumption. discriminate. }
          assert (Hzm : worse (snd z) (snd m) = false).
          { destruct Hz as [Hz|Hz]; [apply HP; assumption|subst z; apply worse_irrefl]. }
          unfold worse in Hzm. rewrite Nm in Hzm. apply orb_false_iff in Hzm. destruct Hzm as [Nz Lz].
          rewrite Nz. simpl. destruct (lt (snd z) (snd y)) eqn:E; [|reflexivity].
          rewrite (lt_trans _ _ _ E El) in Lz. discriminate.
        * destruct Hx as [Hx|[Hx|[Hx|Hx]]]; auto.
      + apply (IH m (fun z => P z \/ z = y)).
        * intros z [Hz|Hz]; [apply HP; assumption|subst z].
          unfold worse. destruct (isnan (snd m)); [reflexivity|exact El].
        * destruct Hx as [Hx|[Hx|[Hx|Hx]]]; auto.
  Qed.

  Corollary root_minimal x0 r x : In x (x0 :: r) -> worse (snd x) (snd (min_entry x0 r)) = false.
  Proof.
    intros Hx. apply (min_entry_minimal r x0 (fun _ => False)); [intros z []|].
    destruct Hx as [<-|Hx]; auto.
  Qed.

  (* ---- the replacement test ------------------------------------------------ *)

  Lemma replace_ok m e : lt m e || isnan m = true -> worse e m = false.
  Proof.
    intros H. unfold worse. destruct (isnan m) eqn:Nm; [reflexivity|].
    rewrite orb_false_r in H.
    assert (Ne : isnan e = false).
    { destruct (isnan e) eqn:E; [|reflexivity]. rewrite lt_nan_r in H by assumption. discriminate. }
    rewrite Ne. simpl. apply lt_asym. assumption.
  Qed.

  Lemma replace_trans m e y : lt m e || isnan m = true -> worse m y = false -> worse e y = false.
  Proof.
    intros H Hm. unfold worse in *. destruct (isnan y) eqn:Ny; [reflexivity|].
    apply orb_false_iff in Hm. destruct Hm as [Nm Lm]. rewrite Nm, orb_false_r in H.
    assert (Ne : isnan e = false).
    { destruct (isnan e) eqn:E; [|reflexivity]. rewrite lt_nan_r in H by assumption. discriminate. }
    rewrite Ne. simpl. destruct (lt e y) eqn:E; [|reflexivity].
    rewrite (lt_trans _ _ _ H E) in Lm. discriminate.
  Qed.

  Lemma keep_ok m e a : lt m e || isnan m = false -> worse a m = false -> worse a e = false.
  Proof.
    intros H Ha. apply orb_false_iff in H. destruct H as [Lme Nm].
    unfold worse in *. rewrite Nm in Ha. apply orb_false_iff in Ha. destruct Ha as [Na Lam].
    destruct (isnan e) eqn:Ne; [reflexivity|]. rewrite Na. simpl.
    destruct (lt a e) eqn:E; [|reflexivity].
    destruct (lt_negtrans a e m Nm E) as [H|H]; congruence.
  Qed.

  Lemma nodup_fst_eq (l : list entry) x y : NoDup (map fst l) -> In x l -> In y l -> fst x = fst y -> x = y.
  Proof.
    induction l as [|a l IH]; intros Hnd Hx Hy E; [destruct Hx|].
    simpl in Hnd. inversion Hnd as [|? ? Hna Hnd']; subst.
    destruct Hx as [->|Hx], Hy as [->|Hy]; try reflexivity.
    - exfalso. apply Hna. rewrite E. apply in_map. assumption.
    - exfalso. apply Hna. rewrite <- E. apply in_map. assumption.
    - apply IH; assumption.
  Qed.

  (* ---- one offer ----------------------------------------------------------- *)

  Lemma remove_id_spec : forall (h : list entry) m, NoDup (map fst h) -> In m h ->
    (forall x, In x (remove_id (fst m) h) <-> In x h /\ x <> m) /\
    S (length (remove_id (fst m) h)) = length h /\ NoDup (map fst (remove_id (fst m) h)).
  Proof.
    induction h as [|y h IH]; intros m Hnd Hin; [destruct Hin|].
    simpl in Hnd. inversion Hnd as [|? ? Hny Hnd']; subst. simpl.
    destruct (Nat.eqb_spec (fst y) (fst m)) as [E|NE].
    - assert (y = m).
      { destruct Hin as [->|Hin]; [reflexivity|]. exfalso. apply Hny. rewrite E. apply in_map. assumption. }
      subst y. split; [|split; [reflexivity|assumption]].
      intros x. split.
      + intros Hx. split; [right; assumption|]. intros ->. apply Hny. apply in_map. assumption.
      + intros [[<-|Hx] Hne]; [congruence|assumption].
    - destruct Hin as [->|Hin]; [congruence|].
      destruct (IH m Hnd' Hin) as [I1 [I2 I3]]. split; [|split].
      + intros x. simpl. rewrite I1. split.
        * intros [<-|[Hx Hne]]; [split; [left; reflexivity|intros ->; congruence]|split; [right; assumption|assumption]].
        * intros [[<-|Hx] Hne]; [left; reflexivity|right; split; assumption].
      + simpl. lia.
      + simpl. constructor; [|assumption]. intros Hc. apply in_map_iff in Hc. destruct Hc as [z [Ez Hz]].
        apply I1 in Hz. destruct Hz as [Hz _]. apply Hny. rewrite <- Ez. apply in_map. assumption.
  Qed.

  (* what is kept, relative to what has been offered *)
  Definition kept_ok (h seen : list entry) : Prop :=
    incl h seen /\ NoDup (map fst h) /\
    forall x y, In x h -> In y seen -> ~ In y h -> worse (snd x) (snd y) = false.

  Lemma all_kept (h seen : list entry) : incl h seen -> NoDup (map fst h) -> NoDup (map fst seen) ->
    length h = length seen -> incl seen h.
  Proof.
    intros Hi Hh Hs Hl. apply NoDup_length_incl; [apply (NoDup_map_inv fst); assumption|lia|assumption].
  Qed.

  Lemma offer_spec k h seen e : 1 <= k -> NoDup (map fst (seen ++ [e])) ->
    kept_ok h seen -> length h = Nat.min k (length seen) ->
    kept_ok (offer k h e) (seen ++ [e]) /\ length (offer k h e) = Nat.min k (length (seen ++ [e])).
  Proof.
    intros Hk Hnd [Hincl [Hndh Hord]] Hlen.
    rewrite map_app in Hnd. simpl in Hnd.
    assert (Hnds : NoDup (map fst seen)) by (apply NoDup_remove_1 in Hnd; rewrite app_nil_r in Hnd; exact Hnd).
    assert (Hne : ~ In (fst e) (map fst seen)) by (apply NoDup_remove_2 in Hnd; rewrite app_nil_r in Hnd; exact Hnd).
    assert (Hneh : ~ In (fst e) (map fst h)).
    { intros Hc. apply Hne. apply in_map_iff in Hc. destruct Hc as [z [Ez Hz]]. rewrite <- Ez. apply in_map. apply Hincl. assumption. }
    rewrite app_length. simpl length.
    destruct h as [|x r].
    - assert (length seen = 0) by (simpl length in Hlen; lia). destruct seen; [|simpl in *; lia]. simpl.
      split; [|lia]. split; [intros z Hz; exact Hz|]. split; [repeat constructor; intros []|].
      intros x y [<-|[]] [<-|[]] Hn. exfalso. apply Hn. left. reflexivity.
    - unfold Topk.offer. destruct (Nat.ltb_spec (length (x :: r)) k) as [Hlt|Hge].
      + (* room left: nothing has been dropped so far *)
        assert (Hall : incl seen (x :: r)) by (apply all_kept; [assumption|assumption|assumption|unfold Topk.entry in *; lia]).
        split; [|rewrite app_length; simpl length in *; lia].
        split; [intros z Hz; apply in_app_or in Hz; apply in_or_app; destruct Hz as [Hz|Hz]; [left; apply Hincl; assumption|right; assumption]|].
        split.
        * rewrite map_app. simpl. apply NoDup_Add with (a := fst e) (l := map fst (x :: r)).
          -- rewrite <- (app_nil_r (map fst (x :: r))) at 1. apply Add_app.
          -- split; assumption.
        * intros a b Ha Hb Hnb. exfalso. apply Hnb. apply in_app_or in Hb. apply in_or_app.
          destruct Hb as [Hb|Hb]; [left; apply Hall; assumption|right; assumption].
      + (* full *)
        assert (Hfull : length (x :: r) = k) by lia.
        set (m := min_entry x r).
        assert (Hm : In m (x :: r)) by apply min_entry_In.
        assert (Hmin : forall z, In z (x :: r) -> worse (snd z) (snd m) = false) by (intros z Hz; apply root_minimal; assumption).
        destruct (lt (snd m) (snd e) || isnan (snd m)) eqn:Erep.
        * (* the root is replaced *)
          destruct (remove_id_spec (x :: r) m Hndh Hm) as [R1 [R2 R3]].
          split; [|rewrite app_length; simpl length in *; lia].
          split; [intros z Hz; apply in_app_or in Hz; apply in_or_app; destruct Hz as [Hz|Hz];
                  [left; apply Hincl; apply R1 in Hz; tauto|right; assumption]|].
          split.
          -- rewrite map_app. simpl. apply NoDup_Add with (a := fst e) (l := map fst (remove_id (fst m) (x :: r))).
             ++ rewrite <- (app_nil_r (map fst (remove_id (fst m) (x :: r)))) at 1. apply Add_app.
             ++ split; [assumption|]. intros Hc. apply Hneh. apply in_map_iff in Hc. destruct Hc as [z [Ez Hz]].
                rewrite <- Ez. apply in_map. apply R1 in Hz. tauto.
          -- intros a b Ha Hb Hnb.
             assert (Hbs : In b seen).
             { apply in_app_or in Hb. destruct Hb as [Hb|[<-|[]]]; [assumption|].
               exfalso. apply Hnb. apply in_or_app. right. left. reflexivity. }
             assert (Ha' : In a (x :: r) \/ a = e).
             { apply in_app_or in Ha. destruct Ha as [Ha|[<-|[]]]; [left; apply R1 in Ha; tauto|right; reflexivity]. }
             destruct (Nat.eq_dec (fst b) (fst m)) as [Ebm|Nbm].
             ++ assert (b = m) by (apply (nodup_fst_eq seen); [assumption|assumption|apply Hincl; assumption|assumption]).
                subst b. destruct Ha' as [Ha'| ->]; [apply Hmin; assumption|apply replace_ok; assumption].
             ++ assert (Hnbh : ~ In b (x :: r)).
                { intros Hc. apply Hnb. apply in_or_app. left. apply R1. split; [assumption|]. intros ->. congruence. }
                destruct Ha' as [Ha'| ->]; [apply Hord; assumption|].
                apply (replace_trans (snd m)); [assumption|]. apply Hord; assumption.
        * (* the sample is dropped *)
          split; [|simpl length in *; lia].
          split; [intros z Hz; apply in_or_app; left; apply Hincl; assumption|].
          split; [assumption|].
          intros a b Ha Hb Hnb. apply in_app_or in Hb. destruct Hb as [Hb|[<-|[]]]; [apply Hord; assumption|].
          apply (keep_ok (snd m)); [assumption|]. apply Hmin. assumption.
  Qed.
  (* ---- a group over one step ------------------------------------------------ *)

  Lemma NoDup_app_l {A} (l1 l2 : list A) : NoDup (l1 ++ l2) -> NoDup l1.
  Proof.
    induction l1 as [|a l1 IH]; simpl; intros H; [constructor|].
    inversion H as [|? ? Hn Hnd]; subst. constructor; [|apply IH; assumption].
    intros Hin. apply Hn. apply in_or_app. left. assumption.
  Qed.

  Lemma fold_offer_spec k : 1 <= k -> forall rest h seen,
    NoDup (map fst (seen ++ rest)) -> kept_ok h seen -> length h = Nat.min k (length seen) ->
    kept_ok (fold_left (offer k) rest h) (seen ++ rest) /\
    length (fold_left (offer k) rest h) = Nat.min k (length (seen ++ rest)).
  Proof.
    intros Hk. induction rest as [|e rest IH]; intros h seen Hnd Hok Hlen; simpl.
    - rewrite app_nil_r. split; assumption.
    - replace (seen ++ e :: rest) with ((seen ++ [e]) ++ rest) in * by (rewrite <- app_assoc; reflexivity).
      destruct (offer_spec k h seen e Hk) as [Hok' Hlen']; [|assumption|assumption|].
      + rewrite map_app in Hnd. apply NoDup_app_l in Hnd. exact Hnd.
      + apply IH; assumption.
  Qed.

  (* What a group keeps at a step: its samples (each at most once), min(k, n) of
     them, and no dropped sample is strictly better than a kept one. *)
  Theorem topk_group_spec k samples : 1 <= k -> NoDup (map fst samples) ->
    incl (topk_group k samples) samples /\
    NoDup (map fst (topk_group k samples)) /\
    length (topk_group k samples) = Nat.min k (length samples) /\
    forall x y, In x (topk_group k samples) -> In y samples -> ~ In y (topk_group k samples) ->
                worse (snd x) (snd y) = false.
  Proof.
    intros Hk Hnd. unfold Topk.topk_group.
    destruct (fold_offer_spec k Hk samples [] []) as [[H1 [H2 H3]] H4].
    - exact Hnd.
    - split; [intros z []|]. split; [constructor|]. intros x y [].
    - simpl. destruct k; reflexivity.
    - simpl in *. repeat split; assumption.
  Qed.
End TopKProofs.

(* the hypotheses are satisfiable: integers, no NaN *)
Theorem topk_group_Z k samples : 1 <= k -> NoDup (map fst samples) ->
  length (topk_group Z Z.ltb (fun _ => false) k samples) = Nat.min k (length samples) /\
  (forall x y, In x (topk_group Z Z.ltb (fun _ => false) k samples) -> In y samples ->
               ~ In y (topk_group Z Z.ltb (fun _ => false) k samples) -> (snd y <= snd x)%Z) /\
  (forall x y, In x (topk_group Z (fun a b => Z.ltb b a) (fun _ => false) k samples) -> In y samples ->
               ~ In y (topk_group Z (fun a b => Z.ltb b a) (fun _ => false) k samples) -> (snd x <= snd y)%Z).
Proof.
  intros Hk Hnd.
  assert (T : forall a b c : Z, (a <? b)%Z = true -> (b <? c)%Z = true -> (a <? c)%Z = true) by (intros; lia).
  assert (NT : forall a b c : Z, false = false -> (a <? b)%Z = true -> (a <? c)%Z = true \/ (c <? b)%Z = true) by (intros; lia).
  assert (T' : forall a b c : Z, (b <? a)%Z = true -> (c <? b)%Z = true -> (c <? a)%Z = true) by (intros; lia).
  assert (NT' : forall a b c : Z, false = false -> (b <? a)%Z = true -> (c <? a)%Z = true \/ (b <? c)%Z = true) by (intros; lia).
  destruct (topk_group_spec Z Z.ltb (fun _ => false)
              (fun _ _ H => False_ind _ (Bool.diff_false_true H)) Z.ltb_irrefl T NT k samples Hk Hnd) as [_ [_ [L W]]].
  destruct (topk_group_spec Z (fun a b => Z.ltb b a) (fun _ => false)
              (fun _ _ H => False_ind _ (Bool.diff_false_true H)) Z.ltb_irrefl T' NT' k samples Hk Hnd) as [_ [_ [_ W']]].
  split; [exact L|]. split.
  - intros x y Hx Hy Hn. specialize (W x y Hx Hy Hn). unfold worse in W. simpl in W. lia.
  - intros x y Hx Hy Hn. specialize (W' x y Hx Hy Hn). unfold worse in W'. simpl in W'. lia.
Qed.

(* ---- all groups of a step ------------------------------------------------------ *)

Section TopKStep.
  Variable V : Type.
  Variable lt : V -> V -> bool.
  Variable isnan : V -> bool.

  Notation entry := (entry V).
  Notation offer := (offer V lt isnan).
  Notation set_group := (set_group V).

  Lemma set_group_length (hs : list (list entry)) g f : length (set_group hs g f) = length hs.
  Proof. revert g. induction hs as [|h hs IH]; intros g; simpl; [reflexivity|]. destruct g; simpl; auto. Qed.

  Lemma nth_set_group_same (hs : list (list entry)) g f : g < length hs -> nth g (set_group hs g f) [] = f (nth g hs []).
  Proof. revert g. induction hs as [|h hs IH]; intros g Hg; simpl in *; [lia|]. destruct g; simpl; [reflexivity|]. apply IH. lia. Qed.

  Lemma nth_set_group_other (hs : list (list entry)) g g' f : g <> g' -> nth g' (set_group hs g f) [] = nth g' hs [].
  Proof.
    revert g g'. induction hs as [|h hs IH]; intros g g' Hne; simpl; [reflexivity|].
    destruct g, g'; simpl; try reflexivity; try lia. apply IH. lia.
  Qed.

  (* the heap of group g after a step: the offers of the group's own samples, in arrival order *)
  Lemma group_heap k (inputs : list nat) g : forall (vec : list entry) (hs : list (list entry)),
    g < length hs ->
    nth g (fold_left (fun hs e => set_group hs (nth (fst e) inputs 0) (fun h => offer k h e)) vec hs) [] =
    fold_left (offer k) (filter (fun e => Nat.eqb (nth (fst e) inputs 0) g) vec) (nth g hs []).
  Proof.
    induction vec as [|e vec IH]; intros hs Hg; simpl; [reflexivity|].
    rewrite IH by (rewrite set_group_length; assumption).
    destruct (Nat.eqb_spec (nth (fst e) inputs 0) g) as [E|NE]; simpl.
    - rewrite E, nth_set_group_same by assumption. reflexivity.
    - rewrite nth_set_group_other by assumption. reflexivity.
  Qed.

  Corollary topk_step_group k inputs ngroups vec g : 1 <= k -> g < ngroups ->
    nth g (fold_left (fun hs e => set_group hs (nth (fst e) inputs 0) (fun h => offer k h e)) vec (repeat [] ngroups)) [] =
    topk_group V lt isnan k (filter (fun e => Nat.eqb (nth (fst e) inputs 0) g) vec).
  Proof.
    intros Hk Hg. rewrite group_heap by (rewrite repeat_length; assumption).
    rewrite nth_repeat. reflexivity.
  Qed.
End TopKStep.

(* ---- C10: topk is distributive over a partition of the samples ------------------- *)

Section TopKDistributed.
  Variable V : Type.
  Variable lt : V -> V -> bool.
  Variable isnan : V -> bool.
  Hypothesis lt_nan_l : forall a b, isnan a = true -> lt a b = false.
  Hypothesis lt_nan_r : forall a b, isnan b = true -> lt a b = false.
  Hypothesis lt_irrefl : forall a, lt a a = false.
  Hypothesis lt_trans : forall a b c, lt a b = true -> lt b c = true -> lt a c = true.
  Hypothesis lt_negtrans : forall a b c, isnan c = false -> lt a b = true -> lt a c = true \/ lt c b = true.

  Notation entry := (entry V).
  Notation worse := (worse V lt isnan).
  Hypothesis V_eq_dec : forall a b : V, {a = b} + {a <> b}.

  Lemma in_dec_by_id (l : list entry) (y : entry) : {In y l} + {~ In y l}.
  Proof. apply in_dec. intros a b. decide equality; try apply V_eq_dec; apply Nat.eq_dec. Qed.

  (* K is a top-k selection of S *)
  Definition is_topk (k : nat) (K S : list entry) : Prop :=
    incl K S /\ NoDup (map fst K) /\ length K = Nat.min k (length S) /\
    forall x y, In x K -> In y S -> ~ In y K -> worse (snd x) (snd y) = false.

  (* if x is strictly worse than y, then every z is strictly better than x or strictly worse than y *)
  Lemma worse_negtrans x y z : worse x y = true -> worse x z = true \/ worse z y = true.
  Proof.
    unfold TopkProofs.worse. intros H. destruct (isnan y) eqn:Ny; [discriminate|].
    destruct (isnan z) eqn:Nz.
    - right. reflexivity.
    - destruct (isnan x) eqn:Nx; [left; reflexivity|]. simpl in *.
      destruct (lt_negtrans x y z Nz H) as [H1|H1]; [left|right]; assumption.
  Qed.

  Lemma min_sum_min k (l : list nat) :
    Nat.min k (list_sum (map (Nat.min k) l)) = Nat.min k (list_sum l).
  Proof. induction l as [|a l IH]; simpl; [reflexivity|]. lia. Qed.

  Lemma length_concat_sum {A} (ls : list (list A)) : length (concat ls) = list_sum (map (@length A) ls).
  Proof. induction ls as [|l ls IH]; simpl; [reflexivity|]. rewrite app_length, IH. reflexivity. Qed.

  Lemma forall2_lengths k (Ks parts : list (list entry)) :
    Forall2 (is_topk k) Ks parts -> map (@length entry) Ks = map (Nat.min k) (map (@length entry) parts).
  Proof. induction 1 as [|K S Ks parts [_ [_ [HL _]]] _ IH]; simpl; [reflexivity|]. rewrite HL, IH. reflexivity. Qed.

  Lemma forall2_incl k (Ks parts : list (list entry)) :
    Forall2 (is_topk k) Ks parts -> incl (concat Ks) (concat parts).
  Proof.
    induction 1 as [|K S Ks parts [HI _] _ IH]; simpl; [intros x []|].
    intros x Hx. apply in_app_or in Hx. apply in_or_app. destruct Hx as [Hx|Hx]; [left; apply HI; assumption|right; apply IH; assumption].
  Qed.

  Lemma forall2_find k (Ks parts : list (list entry)) y :
    Forall2 (is_topk k) Ks parts -> In y (concat parts) ->
    exists K S, is_topk k K S /\ In y S /\ incl K (concat Ks).
  Proof.
    induction 1 as [|K S Ks parts HP _ IH]; simpl; intros Hy; [destruct Hy|].
    apply in_app_or in Hy. destruct Hy as [Hy|Hy].
    - exists K, S. split; [assumption|]. split; [assumption|]. intros z Hz. apply in_or_app. left. assumption.
    - destruct (IH Hy) as [K' [S' [H1 [H2 H3]]]]. exists K', S'. split; [assumption|]. split; [assumption|].
      intros z Hz. apply in_or_app. right. apply H3. assumption.
  Qed.

  (* topk over the union of disjoint parts = topk over the union of the parts' topk:
     what the distributed plan computes is a top-k selection of all the samples *)
  Theorem topk_distributive k (parts Ks : list (list entry)) K : 1 <= k ->
    Forall2 (is_topk k) Ks parts -> is_topk k K (concat Ks) -> is_topk k K (concat parts).
  Proof.
    intros Hk HF [HI [HN [HL HW]]]. split; [|split; [assumption|split]].
    - intros x Hx. apply (forall2_incl k Ks parts HF). apply HI. assumption.
    - rewrite HL, !length_concat_sum, (forall2_lengths k Ks parts HF). apply min_sum_min.
    - intros x y Hx Hy Hny. destruct (worse (snd x) (snd y)) eqn:Ew; [exfalso|reflexivity].
      destruct (forall2_find k Ks parts y HF Hy) as [Ki [Si [[HIi [HNi [HLi HWi]]] [Hyi HKi]]]].
      destruct (in_dec_by_id Ki y) as [Hin|Hnin].
      + (* y was kept by its part and dropped by the merge *)
        rewrite (HW x y Hx (HKi y Hin) Hny) in Ew. discriminate.
      + (* y was dropped by its part: the part's k kept samples are all in K *)
        assert (HNe : NoDup Ki) by (apply (NoDup_map_inv fst); assumption).
        assert (HNK : NoDup K) by (apply (NoDup_map_inv fst); assumption).
        assert (Hfull : length Ki = k).
        { assert (Hlt : S (length Ki) <= length Si).
          { apply (NoDup_incl_length (l := y :: Ki)); [constructor; assumption|].
            intros z [<-|Hz]; [assumption|apply HIi; assumption]. }
          lia. }
        assert (Hsub : incl Ki K).
        { intros z Hz. destruct (in_dec_by_id K z) as [HzK|HzK]; [assumption|exfalso].
          pose proof (HW x z Hx (HKi z Hz) HzK) as H1.
          destruct (worse_negtrans _ _ (snd z) Ew) as [H2|H2]; [congruence|].
          rewrite (HWi z y Hz Hyi Hnin) in H2. discriminate. }
        assert (HKsub : incl K Ki).
        { apply NoDup_length_incl; [assumption| |assumption]. rewrite HL, Hfull. lia. }
        rewrite (HWi x y (HKsub x Hx) Hyi Hnin) in Ew. discriminate.
  Qed.

  Lemma nodup_app_parts {A} (a b : list A) : NoDup (a ++ b) -> NoDup a /\ NoDup b /\ forall x, In x a -> In x b -> False.
  Proof.
    induction a as [|x a IH]; simpl; intros H; [split; [constructor|split; [assumption|intros ? []]]|].
    inversion H as [|? ? Hn Hnd]; subst. destruct (IH Hnd) as [N1 [N2 D]].
    split; [constructor; [intros Hin; apply Hn; apply in_or_app; left; assumption|assumption]|].
    split; [assumption|]. intros y [->|Hy] Hy2; [apply Hn; apply in_or_app; right; assumption|exact (D y Hy Hy2)].
  Qed.

  Lemma nodup_app_join {A} (a b : list A) :
    NoDup a -> NoDup b -> (forall x, In x a -> In x b -> False) -> NoDup (a ++ b).
  Proof.
    induction a as [|x a IH]; intros Ha Hb Hd; simpl; [assumption|].
    inversion Ha as [|? ? Hn Ha']; subst. constructor.
    - intros Hin. apply in_app_or in Hin. destruct Hin as [Hin|Hin]; [contradiction|].
      apply (Hd x); [left; reflexivity|assumption].
    - apply IH; [assumption|assumption|]. intros y Hy. apply Hd. right. assumption.
  Qed.

  Lemma nodup_concat_kept k (Ks parts : list (list entry)) :
    Forall2 (is_topk k) Ks parts -> NoDup (map fst (concat parts)) -> NoDup (map fst (concat Ks)).
  Proof.
    induction 1 as [|K S Ks parts [HI [HN _]] HF IH]; simpl; intros Hnd; [constructor|].
    rewrite map_app in *. destruct (nodup_app_parts _ _ Hnd) as [N1 [N2 D]].
    specialize (IH N2).
    apply nodup_app_join; [assumption|assumption|].
    intros i Hi Hi2. apply (D i); [apply (incl_map fst HI); assumption|].
    apply (incl_map fst (forall2_incl k Ks parts HF)). assumption.
  Qed.

  Notation topk_group := (topk_group V lt isnan).

  (* the engine's own selection satisfies the specification ... *)
  Lemma topk_group_is_topk k samples : 1 <= k -> NoDup (map fst samples) -> is_topk k (topk_group k samples) samples.
  Proof. intros Hk Hnd. apply (topk_group_spec V lt isnan lt_nan_r lt_irrefl lt_trans lt_negtrans k samples Hk Hnd). Qed.

  (* ... so merging the partitions' selections with the same operator selects a top-k of everything *)
  Corollary topk_pushdown k (parts : list (list entry)) : 1 <= k -> NoDup (map fst (concat parts)) ->
    is_topk k (topk_group k (concat (map (topk_group k) parts))) (concat parts).
  Proof.
    intros Hk Hnd.
    assert (HF : Forall2 (is_topk k) (map (topk_group k) parts) parts).
    { clear -Hk Hnd lt_nan_r lt_irrefl lt_trans lt_negtrans. induction parts as [|S parts IH]; simpl; [constructor|].
      simpl in Hnd. rewrite map_app in Hnd. destruct (nodup_app_parts _ _ Hnd) as [N1 [N2 _]].
      constructor; [apply topk_group_is_topk; assumption|apply IH; assumption]. }
    apply (topk_distributive k parts _ _ Hk HF).
    apply topk_group_is_topk; [assumption|]. apply (nodup_concat_kept k _ parts HF Hnd).
  Qed.
End TopKDistributed.
