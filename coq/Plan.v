(* Model of query creation: execution.newOperator's support decision,
   engine.NewInstantQuery/NewRangeQuery's path choice and the per-path counter.
   Mirrors /repo/execution/execution.go and /repo/engine/engine.go; the
   vocabulary tables come from Generated.v (regenerated from the built code). *)
From Coq Require Import List String ZArith NArith Bool Lia.
From Verif Require Import Ast Generated.
Import ListNotations.
Open Scope string_scope.

Inductive perr := PNotSupported | PNotImplemented | POther.

Inductive res (A : Type) := Ok (a : A) | Err (e : perr).
Arguments Ok {A} a.
Arguments Err {A} e.

Definition is_ok {A} (r : res A) : bool := match r with Ok _ => true | Err _ => false end.

Fixpoint lookup_fn (f : string) (tab : list (string * (list vtype * Z * vtype))) :=
  match tab with
  | [] => None
  | (g, info) :: rest => if String.eqb f g then Some info else lookup_fn f rest
  end.

Definition fn_info (f : string) := lookup_fn f parser_functions.

Definition fn_ret (f : string) : vtype :=
  match fn_info f with Some (_, _, r) => r | None => TNone end.

Definition fn_variadic (f : string) : Z :=
  match fn_info f with Some (_, v, _) => v | None => 0%Z end.

(* parser.Expr.Type() *)
Fixpoint etype (e : expr) : vtype :=
  match e with
  | ENum _ => TScalar
  | EStr => TString
  | EVec _ => TVector
  | EMat _ _ => TMatrix
  | ESubq _ => TMatrix
  | ECall f _ => fn_ret f
  | EAgg _ _ _ _ _ => TVector
  | EBin _ _ _ _ _ _ l r =>
      match etype l, etype r with TScalar, TScalar => TScalar | _, _ => TVector end
  | EUn _ e => etype e
  | EParen e => etype e
  | EStepInv e => etype e
  | ECoalesce _ => TMatrix
  | ERemote _ _ => TMatrix
  end.

Definition is_mat (e : expr) : bool := match e with EMat _ _ => true | _ => false end.

(* first error of a list of results, in order (Go: return on the first err) *)
Fixpoint first_err (rs : list (res unit)) : res unit :=
  match rs with
  | [] => Ok tt
  | Ok _ :: rest => first_err rest
  | Err e :: _ => Err e
  end.

(* vectorIndex of NewFunctionOperator: the first vector-typed argument, else 0 *)
Fixpoint first_vector_arg (args : list expr) : option expr :=
  match args with
  | [] => None
  | a :: rest => match etype a with TVector => Some a | _ => first_vector_arg rest end
  end.

Definition function_operator_ok (args : list expr) : res unit :=
  match args with
  | [] => Ok tt                                  (* noArgFunctionOperator *)
  | a0 :: _ =>
      let sel := match first_vector_arg args with Some a => a | None => a0 end in
      match etype sel with
      | TVector | TScalar => Ok tt
      | _ => Err PNotImplemented
      end
  end.

(* function.NewFunctionCall *)
Definition function_call (f : string) : res unit :=
  if mem_str f engine_funcs then Ok tt
  else if (match fn_info f with Some _ => true | None => false end) then Err PNotImplemented
  else Err PNotSupported.

Definition binop_ok (op : string) (l r : expr) : res unit :=
  match etype l, etype r with
  | TScalar, TScalar => if mem_str op scalar_scalar_binops then Ok tt else Err PNotSupported
  | TScalar, _ | _, TScalar => if mem_str op scalar_binops then Ok tt else Err PNotSupported
  | _, _ => if mem_str op vector_binops then Ok tt else Err PNotSupported
  end.

Definition agg_ok (op : string) : res unit :=
  if String.eqb op "topk" || String.eqb op "bottomk" then Ok tt
  else if mem_str op hash_aggs then Ok tt else Err PNotSupported.

Definition bind (r : res unit) (k : res unit) : res unit :=
  match r with Ok _ => k | Err e => Err e end.

(* execution.newOperator, reduced to its outcome *)
Fixpoint plan (e : expr) : res unit :=
  match e with
  | ENum _ => Ok tt
  | EVec _ => Ok tt
  | ECall f args =>
      if String.eqb f "histogram_quantile" then first_err (map plan args)
      else
        bind (function_call f)
          (if negb (Z.eqb (fn_variadic f) 0) then Err PNotImplemented
           else if existsb is_mat args then Ok tt
           else bind (first_err (map plan args)) (function_operator_ok args))
  | EAgg op _ _ param e1 =>
      bind (plan e1)
        (bind (match param with Some p => plan p | None => Ok tt end) (agg_ok op))
  | EBin op _ _ _ _ _ l r => bind (plan l) (bind (plan r) (binop_ok op l r))
  | EParen e1 => plan e1
  | EStr => Err PNotImplemented
  | EUn _ e1 => plan e1
  | EStepInv e1 => match e1 with ENum _ => Ok tt | _ => plan e1 end
  | ECoalesce es => first_err (map plan es)
  | ERemote _ _ => Ok tt
  | EMat _ _ => Err PNotSupported
  | ESubq _ => Err PNotSupported
  end.

(* ---------------------------------------------------------------------- *)
(* Declarative description of the natively supported fragment: a predicate
   on single nodes, required of every node the planner descends into. *)

Definition hq : string := "histogram_quantile".

Inductive native : expr -> Prop :=
| NNum b : native (ENum b)
| NVec v : native (EVec v)
| NHist args : Forall native args -> native (ECall hq args)
| NCallMat f args :
    f <> hq -> In f engine_funcs -> fn_variadic f = 0%Z ->
    existsb is_mat args = true -> native (ECall f args)
| NCall f args :
    f <> hq -> In f engine_funcs -> fn_variadic f = 0%Z ->
    existsb is_mat args = false -> Forall native args ->
    function_operator_ok args = Ok tt -> native (ECall f args)
| NAgg op w g p e :
    native e -> (forall pe, p = Some pe -> native pe) -> agg_ok op = Ok tt -> native (EAgg op w g p e)
| NBin op b c on ml incl l r :
    native l -> native r -> binop_ok op l r = Ok tt -> native (EBin op b c on ml incl l r)
| NParen e : native e -> native (EParen e)
| NUn n e : native e -> native (EUn n e)
| NStepInv e : native e -> native (EStepInv e)
| NCoalesce es : Forall native es -> native (ECoalesce es)
| NRemote n q : native (ERemote n q).

(* ---------------------------------------------------------------------- *)
(* Query creation. *)

Inductive outcome := O_Native | O_Fallback | O_ErrUnsupported | O_ErrOther.

Definition outcome_eqb (a b : outcome) : bool :=
  match a, b with
  | O_Native, O_Native | O_Fallback, O_Fallback | O_ErrUnsupported, O_ErrUnsupported | O_ErrOther, O_ErrOther => true
  | _, _ => false
  end.

(* [ty] is the type of the parsed expression (before planning). A range query
   over a non-scalar, non-vector expression is rejected before planning, as in
   the reference engine. *)
Definition new_query (fallback is_range : bool) (ty : vtype) (e : expr) : outcome :=
  if is_range && negb (vtype_eqb ty TVector || vtype_eqb ty TScalar) then O_ErrOther
  else match plan e with
       | Ok _ => O_Native
       | Err POther => O_ErrOther
       | Err _ => if fallback then O_Fallback else O_ErrUnsupported
       end.

(* The counter pair (fallback="false", fallback="true"). The engine increments
   "false" before returning a planning error when fallback is disabled. *)
Definition counter_delta (fallback is_range : bool) (ty : vtype) (e : expr) : nat * nat :=
  if is_range && negb (vtype_eqb ty TVector || vtype_eqb ty TScalar) then (0, 0)
  else match plan e with
       | Ok _ => (1, 0)
       | Err POther => (1, 0)
       | Err _ => if fallback then (0, 1) else (1, 0)
       end.

Record creation := mkCr { cr_range : bool; cr_ty : vtype; cr_expr : expr }.

Record engine_state := mkES { es_false : nat; es_true : nat }.

Definition create (fallback : bool) (s : engine_state) (c : creation) : engine_state * outcome :=
  let d := counter_delta fallback (cr_range c) (cr_ty c) (cr_expr c) in
  (mkES (es_false s + fst d) (es_true s + snd d),
   new_query fallback (cr_range c) (cr_ty c) (cr_expr c)).

Fixpoint run_creations (fallback : bool) (s : engine_state) (cs : list creation) : engine_state * list outcome :=
  match cs with
  | [] => (s, [])
  | c :: rest =>
      let '(s1, o) := create fallback s c in
      let '(s2, os) := run_creations fallback s1 rest in
      (s2, o :: os)
  end.

Definition count_outcome (o : outcome) (os : list outcome) : nat :=
  List.length (filter (outcome_eqb o) os).
