(* C19, label sets: the output series of an aggregation - the groups, numbered by first appearance -
   are pairwise distinct, whatever the operand's series (colliding ones included). *)
From Coq Require Import List NArith Bool.
From Verif Require Import Base Agg AggProofs AggEnd BucketProofs Trees.
Import ListNotations.

Lemma assign_groups_nodup : forall keys groups, NoDup groups -> NoDup (snd (assign_groups keys groups)).
Proof.
  induction keys as [|k rest IH]; intros groups Hnd; cbn [assign_groups]; [exact Hnd|].
  destruct (index_of k groups) as [i|] eqn:E.
  - specialize (IH groups Hnd). destruct (assign_groups rest groups) as [ids gs]. exact IH.
  - assert (Hnd' : NoDup (groups ++ [k])) by (apply NoDup_app_disjoint_single; [exact Hnd|apply index_of_none; exact E]).
    specialize (IH _ Hnd'). destruct (assign_groups rest (groups ++ [k])) as [ids gs]. exact IH.
Qed.

Theorem groups_distinct without grouping slabels : NoDup (groups without grouping slabels).
Proof. unfold groups. apply assign_groups_nodup. constructor. Qed.

(* the series lists of the aggregation nodes of an operator tree *)
Theorem aggregation_series_distinct t :
  match t with
  | JCount _ _ _ _ | JAgg _ _ _ _ _ => NoDup (jseries t)
  | _ => True
  end.
Proof. destruct t; try exact I; cbn [jseries]; apply groups_distinct. Qed.
