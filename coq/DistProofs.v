(* Proofs about Dist.v (property C10): what is sent to the remote engines. *)
From Coq Require Import List String ZArith NArith Bool Lia.
From Verif Require Import Ast Generated Plan Dist.
Import ListNotations.
Open Scope string_scope.

(* expressions that may be evaluated per partition: selectors under functions,
   unary/paren/step-invariant wrappers and distributive aggregations whose
   parameter does not read the storage - no binary expression, no other
   aggregation, no literal, no absent() / absent_over_time(), no function called without its
   vector argument *)
Fixpoint pushable (e : expr) : bool :=
  match e with
  | EVec _ | EMat _ _ => true
  | EAgg op _ _ p e1 => mem_str op distributive_aggs && negb (match p with Some pe => reads_storage pe | None => false end) && pushable e1
  | ECall f args => negb (global_call f args) && forallb pushable args
  | EUn _ e1 | EParen e1 | EStepInv e1 | ESubq e1 => pushable e1
  | _ => false
  end.

(* every remote sub-query of a rewritten plan is pushable *)
Fixpoint remotes_pushable (e : expr) : bool :=
  match e with
  | ERemote _ q => pushable q
  | ECoalesce es => forallb remotes_pushable es
  | ECall _ args => forallb remotes_pushable args
  | EAgg _ _ _ p e1 => remotes_pushable e1 && match p with Some q => remotes_pushable q | None => true end
  | EBin _ _ _ _ _ _ l r => remotes_pushable l && remotes_pushable r
  | EUn _ e1 | EParen e1 | EStepInv e1 | ESubq e1 => remotes_pushable e1
  | _ => true
  end.

(* the input of the optimizer: no remote / coalesce nodes yet *)
Fixpoint plain (e : expr) : bool :=
  match e with
  | ERemote _ _ | ECoalesce _ => false
  | ECall _ args => forallb plain args
  | EAgg _ _ _ p e1 => plain e1 && match p with Some q => plain q | None => true end
  | EBin _ _ _ _ _ _ l r => plain l && plain r
  | EUn _ e1 | EParen e1 | EStepInv e1 | ESubq e1 => plain e1
  | _ => true
  end.

Lemma plain_remotes_pushable : forall e, plain e = true -> remotes_pushable e = true.
Proof.
  induction e using expr_ind'; simpl; intros Hp; auto; try discriminate.
  - rewrite forallb_forall in *. rewrite Forall_forall in H. intros a Ha. apply H; auto.
  - apply andb_true_iff in Hp. destruct Hp as [H1 H2]. rewrite (IHe H1). simpl.
    destruct p as [q|]; [apply (H q eq_refl); assumption|reflexivity].
  - apply andb_true_iff in Hp. destruct Hp as [H1 H2]. rewrite IHe1, IHe2; auto.
Qed.

Lemma remotes_spec n e : pushable e = true -> remotes_pushable (remotes n e) = true.
Proof.
  intros Hp. unfold remotes. simpl. apply forallb_forall. intros x Hx.
  apply in_map_iff in Hx. destruct Hx as [i [<- _]]. simpl. assumption.
Qed.

(* the callback: given a plain, pushable-or-not current node *)
Lemma dist_transform_spec n pd e e' s :
  plain e = true -> (distributive e = true -> vtype_eqb (etype e) TScalar = false -> pushable e = true) ->
  dist_transform n pd e = (e', s) ->
  remotes_pushable e' = true /\ (s = false -> e' = e /\ pushable e = true).
Proof.
  intros Hpl Hpush. unfold dist_transform.
  destruct (distributive e) eqn:Ed; simpl; [|intros H; inversion H; subst; split; [apply plain_remotes_pushable; assumption|discriminate]].
  destruct (vtype_eqb (etype e) TScalar) eqn:Et; [intros H; inversion H; subst; split; [apply plain_remotes_pushable; assumption|discriminate]|].
  specialize (Hpush eq_refl eq_refl).
  destruct e; try (destruct pd; intros H; inversion H; subst;
                   (split; [first [apply plain_remotes_pushable; assumption | apply remotes_spec; assumption]
                           | first [discriminate | intros _; split; [reflexivity|assumption]]])).
  (* aggregation *)
  intros H; inversion H; subst. split; [|discriminate].
  simpl in Hpl. apply andb_true_iff in Hpl. destruct Hpl as [_ Hp2].
  cbn [remotes_pushable]. rewrite (remotes_spec n _ Hpush). cbn [andb].
  destruct param as [q|]; [apply plain_remotes_pushable; assumption|reflexivity].
Qed.

Definition tbu_ok (e : expr) (r : expr * bool) : Prop :=
  remotes_pushable (fst r) = true /\ (snd r = false -> fst r = e /\ pushable e = true).

Lemma tbu_args_spec (rec : expr -> expr * bool) args :
  Forall (fun a => plain a = true -> tbu_ok a (rec a)) args -> forallb plain args = true ->
  forallb remotes_pushable (fst (tbu_args rec args)) = true /\
  (snd (tbu_args rec args) = false -> fst (tbu_args rec args) = args /\ forallb pushable args = true).
Proof.
  induction 1 as [|a rest Ha _ IH]; intros Hp; simpl; [auto|].
  simpl in Hp. apply andb_true_iff in Hp. destruct Hp as [Hpa Hpr].
  destruct (Ha Hpa) as [H1 H2]. destruct (rec a) as [a' s]. simpl in H1, H2.
  destruct s; simpl.
  - split; [|discriminate]. rewrite H1. simpl.
    rewrite forallb_forall in Hpr. apply forallb_forall. intros x Hx. apply plain_remotes_pushable. auto.
  - destruct (IH Hpr) as [I1 I2]. destruct (tbu_args rec rest) as [rest' s']. simpl in *.
    destruct (H2 eq_refl) as [-> Hpa']. split.
    + rewrite H1, I1. reflexivity.
    + intros Hs. destruct (I2 Hs) as [-> Hr]. rewrite Hpa', Hr. auto.
Qed.

Theorem tbu_spec n : forall e pd, plain e = true -> tbu_ok e (tbu n pd e).
Proof.
  induction e using expr_ind'; intros pd Hpl; simpl in Hpl; try discriminate; unfold tbu_ok in *.
  - (* num *) split; [reflexivity|discriminate].
  - (* str *) split; [reflexivity|discriminate].
  - (* vec *)
    destruct (dist_transform n pd (EVec v)) as [e' s] eqn:E.
    pose proof (dist_transform_spec n pd (EVec v) e' s eq_refl (fun _ _ => eq_refl) E) as H.
    simpl. rewrite E. exact H.
  - (* mat *) simpl. split; [reflexivity|]. simpl. intros H. split; reflexivity.
  - (* subq *)
    specialize (IHe true Hpl). simpl.
    destruct (tbu n true e) as [e1' s]. destruct IHe as [I1 I2]. simpl in *.
    split; [assumption|]. intros Hs. destruct (I2 Hs) as [-> Hp]. auto.
  - (* call *)
    set (d := distributive (ECall f args)).
    assert (Hargs : Forall (fun a => plain a = true -> tbu_ok a (tbu n d a)) args).
    { eapply Forall_impl; [|exact H]. simpl. intros a Ha Hp. unfold tbu_ok. apply Ha. assumption. }
    destruct (tbu_args_spec _ args Hargs Hpl) as [A1 A2].
    change (tbu n pd (ECall f args)) with
      (let '(args', s) := tbu_args (tbu n d) args in
       if s then (ECall f args', true) else dist_transform n pd (ECall f args')).
    destruct (tbu_args (tbu n d) args) as [args' s]. simpl in A1, A2.
    destruct s.
    + split; [exact A1|discriminate].
    + destruct (A2 eq_refl) as [-> Hpa].
      destruct (dist_transform n pd (ECall f args)) as [e' s'] eqn:E.
      refine (dist_transform_spec n pd (ECall f args) e' s' Hpl _ E).
      intros Hd _. cbn [pushable]. cbn [distributive] in Hd. rewrite Hd, Hpa. reflexivity.
  - (* agg *)
    apply andb_true_iff in Hpl. destruct Hpl as [Hp1 Hp2].
    change (tbu n pd (EAgg op w g p e)) with
      (let '(e1', s) := tbu n (distributive (EAgg op w g p e)) e in
       if s then (EAgg op w g p e1', true) else dist_transform n pd (EAgg op w g p e1')).
    specialize (IHe (distributive (EAgg op w g p e)) Hp1).
    destruct (tbu n (distributive (EAgg op w g p e)) e) as [e1' s]. destruct IHe as [I1 I2]. simpl in I1, I2.
    destruct s.
    + split; [|discriminate]. simpl. rewrite I1. simpl.
      destruct p as [q|]; [apply plain_remotes_pushable; assumption|reflexivity].
    + destruct (I2 eq_refl) as [-> Hpe].
      destruct (dist_transform n pd (EAgg op w g p e)) as [e' s'] eqn:E.
      refine (dist_transform_spec n pd (EAgg op w g p e) e' s' _ _ E).
      * simpl. rewrite Hp1, Hp2. reflexivity.
      * intros Hd _. simpl in Hd. simpl. rewrite Hd, Hpe. reflexivity.
  - (* bin *)
    apply andb_true_iff in Hpl. destruct Hpl as [Hp1 Hp2].
    specialize (IHe1 false Hp1). specialize (IHe2 false Hp2). simpl.
    destruct (tbu n false e1) as [l' ls]. destruct (tbu n false e2) as [r' rs].
    destruct IHe1 as [L1 L2], IHe2 as [R1 R2]. simpl in *.
    destruct (ls || rs) eqn:Es.
    + split; [simpl; rewrite L1, R1; reflexivity|discriminate].
    + apply orb_false_iff in Es. destruct Es as [-> ->].
      destruct (L2 eq_refl) as [-> _]. destruct (R2 eq_refl) as [-> _].
      split; [simpl; rewrite L1, R1; reflexivity|discriminate].
  - (* unary *)
    specialize (IHe true Hpl). simpl.
    destruct (tbu n true e) as [e1' s]. destruct IHe as [I1 I2]. simpl in *.
    split; [assumption|]. intros Hs. destruct (I2 Hs) as [-> Hp]. auto.
  - (* paren *)
    specialize (IHe true Hpl). simpl.
    destruct (tbu n true e) as [e1' s]. destruct IHe as [I1 I2]. simpl in *.
    split; [assumption|]. intros Hs. destruct (I2 Hs) as [-> Hp]. auto.
  - (* step invariant *)
    specialize (IHe true Hpl). simpl.
    destruct (tbu n true e) as [e1' s]. destruct IHe as [I1 I2]. simpl in *.
    split; [assumption|]. intros Hs. destruct (I2 Hs) as [-> Hp]. auto.
Qed.

(* Every sub-query the distributed optimizer sends to the remote engines is
   pushable: selectors under functions and distributive aggregations only. *)
Corollary distributed_remotes_pushable n e : plain e = true -> remotes_pushable (opt_distribute n e) = true.
Proof. intros Hp. unfold opt_distribute. apply (tbu_spec n e false Hp). Qed.
