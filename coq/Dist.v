(* Distributed execution (property C10): DistributedExecutionOptimizer with
   traverseBottomUp (logicalplan/distribute.go, plan.go) on the AST, and the
   algebra that makes pushing an aggregation to the partitions sound. *)
From Coq Require Import List String ZArith NArith Bool Lia Permutation.
From Verif Require Import Ast Generated Plan.
Import ListNotations.
Open Scope string_scope.

(* readsStorage: the expression contains a selector *)
Fixpoint reads_storage (e : expr) : bool :=
  match e with
  | EVec _ | EMat _ _ => true
  | ESubq e1 | EUn _ e1 | EParen e1 | EStepInv e1 => reads_storage e1
  | ECall _ args => (fix go (l : list expr) : bool := match l with [] => false | a :: r => reads_storage a || go r end) args
  | EAgg _ _ _ p e1 => (match p with Some pe => reads_storage pe | None => false end) || reads_storage e1
  | EBin _ _ _ _ _ _ l r => reads_storage l || reads_storage r
  | ECoalesce es => (fix go (l : list expr) : bool := match l with [] => false | a :: r => reads_storage a || go r end) es
  | ERemote _ q => reads_storage q
  | ENum _ | EStr => false
  end.

(* isDistributive on a non-nil expression: binary expressions are joins over the
   whole data set; an aggregation must be in the table and its parameter must
   not read the storage (it would be evaluated per partition); a call must be
   one that is evaluated series by series *)
(* calls that are not evaluated series by series: absent() and absent_over_time() look at all series
   at once, a function without its vector argument (hour(), year(), ...) evaluates vector(time()) *)
Definition global_call (f : string) (args : list expr) : bool :=
  String.eqb f "absent" || String.eqb f "absent_over_time" || match args with [] => true | _ => false end.

Definition distributive (e : expr) : bool :=
  match e with
  | EBin _ _ _ _ _ _ _ _ => false
  | ECall f args => negb (global_call f args)
  | EAgg op _ _ p _ => mem_str op distributive_aggs &&
                       negb (match p with Some pe => reads_storage pe | None => false end)
  | _ => true
  end.

Definition remotes (engines : nat) (e : expr) : expr :=
  ECoalesce (map (fun i => ERemote (N.of_nat i) e) (seq 0 engines)).

(* the callback of DistributedExecutionOptimizer.Optimize: [pd] = isDistributive(parent) *)
Definition dist_transform (engines : nat) (pd : bool) (e : expr) : expr * bool :=
  if negb (distributive e) then (e, true)
  else if vtype_eqb (etype e) TScalar then (e, true)
  else match e with
       | EAgg op w g p e1 =>
           let local := if String.eqb op "count" then "sum" else op in
           (EAgg local w g p (remotes engines e), true)
       | _ => if pd then (e, false) else (remotes engines e, true)
       end.

(* the arguments of a call, left to right, stopping at the first that stops *)
Definition tbu_args (rec : expr -> expr * bool) : list expr -> list expr * bool :=
  fix go (l : list expr) : list expr * bool :=
    match l with
    | [] => ([], false)
    | a :: rest =>
        let '(a', s) := rec a in
        if s then (a' :: rest, true) else let '(rest', s') := go rest in (a' :: rest', s')
    end.

(* traverseBottomUp; returns the rewritten expression and the stop flag *)
Fixpoint tbu (engines : nat) (pd : bool) (e : expr) : expr * bool :=
  match e with
  | EStepInv e1 => let '(e1', s) := tbu engines (distributive e) e1 in (EStepInv e1', s)
  | EVec _ => dist_transform engines pd e
  | EMat _ _ => (e, negb pd)       (* transform on the inner selector with the caller's parent *)
  | EAgg op w g p e1 =>
      let '(e1', s) := tbu engines (distributive e) e1 in
      if s then (EAgg op w g p e1', true) else dist_transform engines pd (EAgg op w g p e1')
  | ECall f args =>
      let '(args', s) := tbu_args (tbu engines (distributive e)) args in
      if s then (ECall f args', true) else dist_transform engines pd (ECall f args')
  | EBin op b c on ml incl l r =>
      let '(l', ls) := tbu engines false l in
      let '(r', rs) := tbu engines false r in
      if ls || rs then (EBin op b c on ml incl l' r', true)
      else dist_transform engines pd (EBin op b c on ml incl l' r')
  | EUn n e1 => let '(e1', s) := tbu engines (distributive e) e1 in (EUn n e1', s)
  | EParen e1 => let '(e1', s) := tbu engines (distributive e) e1 in (EParen e1', s)
  | ESubq e1 => let '(e1', s) := tbu engines (distributive e) e1 in (ESubq e1', s)
  | _ => (e, true)
  end.

Definition opt_distribute (engines : nat) (e : expr) : expr := fst (tbu engines false e).

(* ---- the algebra of pushing down --------------------------------------- *)

Section Algebra.
  Variable V : Type.
  Variable f : V -> V -> V.
  Variable u : V.
  Hypothesis f_assoc : forall a b c, f a (f b c) = f (f a b) c.
  Hypothesis f_comm : forall a b, f a b = f b a.
  Hypothesis f_unit : forall a, f u a = a.

  Definition reduce (l : list V) : V := fold_right f u l.

  Lemma reduce_app l1 l2 : reduce (l1 ++ l2) = f (reduce l1) (reduce l2).
  Proof.
    induction l1 as [|a l1 IH]; simpl; [rewrite f_unit; reflexivity|].
    rewrite IH. apply f_assoc.
  Qed.

  (* the members of one group at one step, split over the partitions in any way *)
  Theorem reduce_partition (parts : list (list V)) : reduce (List.concat parts) = reduce (map reduce parts).
  Proof.
    induction parts as [|p parts IH]; simpl; [reflexivity|].
    rewrite reduce_app, IH. reflexivity.
  Qed.

  Theorem reduce_perm l l' : Permutation l l' -> reduce l = reduce l'.
  Proof.
    induction 1; simpl; auto.
    - congruence.
    - rewrite !f_assoc, (f_comm y x). reflexivity.
    - congruence.
  Qed.

  (* any assignment of the group's members to partitions gives the central value *)
  Corollary pushdown_sound members parts :
    Permutation members (List.concat parts) -> reduce members = reduce (map reduce parts).
  Proof. intros H. rewrite (reduce_perm _ _ H). apply reduce_partition. Qed.
End Algebra.

(* count is pushed down as count and merged with sum *)
Lemma count_partition {A} (parts : list (list A)) :
  List.length (List.concat parts) = fold_right Nat.add 0%nat (map (@List.length A) parts).
Proof. induction parts as [|p parts IH]; simpl; [reflexivity|]. rewrite app_length, IH. reflexivity. Qed.

Example distribute_example :
  opt_distribute 2 (EAgg "max" false [] None (EAgg "count" false [] None (EVec (mkVS [] 0 0 None None 0)))) =
  EAgg "max" false [] None
    (EAgg "sum" false [] None
       (ECoalesce [ERemote 0 (EAgg "count" false [] None (EVec (mkVS [] 0 0 None None 0)));
                   ERemote 1 (EAgg "count" false [] None (EVec (mkVS [] 0 0 None None 0)))])) /\
  opt_distribute 2 (EAgg "avg" false [] None (EVec (mkVS [] 0 0 None None 0))) =
  EAgg "avg" false [] None (ECoalesce [ERemote 0 (EVec (mkVS [] 0 0 None None 0)); ERemote 1 (EVec (mkVS [] 0 0 None None 0))]).
Proof. split; vm_compute; reflexivity. Qed.
