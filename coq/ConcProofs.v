(* Proofs about Conc.v (C14): exhaustive over the finite state space, for every
   number of child batches from 0 to 6 and every interleaving of the consumer,
   the producer, the drain goroutine and the cancellation. *)
From Coq Require Import List ZArith NArith Bool Lia MSets.MSetPositive.
From Verif Require Import Conc.
Import ListNotations.

Definition totals : list nat := [0; 1; 2; 3; 4; 5; 6].

(* With the re-check of the context after Exec's loop, for every explored state:
   - a successful return carries the complete result (all batches received);
   - a state without successor is final: Exec has returned and the producer and
     drain goroutines have terminated (no deadlock, no leaked goroutine);
   - the channel never holds more than its capacity;
   and the explored set contains the initial state and is closed under the
   transition relation (it contains every reachable state). *)
Theorem concurrency_operator_safe : forallb (check_all true) totals = true.
Proof. vm_compute. reflexivity. Qed.

Lemma check_all_spec recheck total : check_all recheck total = true ->
  forall s, In s (fst (reachable recheck total)) ->
            safe total s = true /\ quiescent_or_moving recheck s = true /\ within_capacity s = true.
Proof.
  unfold check_all, reachable. destruct (reachable3 recheck total) as [[states seen] complete]. simpl.
  intros H s Hin. repeat (apply andb_true_iff in H; destruct H as [H ?]).
  repeat match goal with Hx : forallb _ states = true |- _ => rewrite forallb_forall in Hx end.
  auto.
Qed.

Theorem exec_ok_is_complete total s :
  In total totals -> In s (fst (reachable true total)) -> cons s = CRetOk -> received s = total.
Proof.
  intros Ht Hin Hc. pose proof concurrency_operator_safe as H. rewrite forallb_forall in H.
  destruct (check_all_spec true total (H total Ht) s Hin) as [Hs _].
  unfold safe in Hs. rewrite Hc in Hs. apply Nat.eqb_eq. assumption.
Qed.

(* Without the re-check (the engine before the fix recorded in
   known_findings.json) a successful partial result is reachable: the drain
   goroutine consumes the producer's error, the consumer sees a closed channel. *)
Theorem partial_success_reachable_without_recheck :
  exists s, In s (fst (reachable false 3)) /\ cons s = CRetOk /\ received s <> 3.
Proof.
  assert (H : existsb (fun s => negb (safe 3 s)) (fst (reachable false 3)) = true) by (vm_compute; reflexivity).
  apply existsb_exists in H. destruct H as [s [Hin Hs]]. exists s. split; [assumption|].
  clear Hin. unfold safe in Hs. destruct (cons s); try discriminate. split; [reflexivity|].
  apply negb_true_iff in Hs. apply Nat.eqb_neq in Hs. assumption.
Qed.

(* ---- the operator driven directly (no immediate deferred cancel) ----------- *)

Theorem concurrency_operator_safe_raw : forallb (check_all_raw true) totals = true.
Proof. vm_compute. reflexivity. Qed.
