(* Instant-vector selection: storage.MemoizedSeriesIterator (behavioural model
   of the Prometheus library type the engine uses), scan.selectPoint, and the
   series-major batch loop of vectorSelector.Next. The specification is [pick]:
   the most recent sample not older than the lookback delta, unless stale. *)
From Coq Require Import List ZArith NArith Bool Lia.
From Verif Require Import Base.
Import ListNotations.
Open Scope Z_scope.

(* ---- specification ---------------------------------------------------- *)

(* last sample with timestamp <= r *)
Fixpoint last_le (ss : list sample) (r : Z) : option sample :=
  match ss with
  | [] => None
  | x :: rest =>
      if ts x <=? r then
        match last_le rest r with Some y => Some y | None => Some x end
      else None
  end.

Definition pick (lb : Z) (ss : list sample) (r : Z) : option Z :=
  match last_le ss r with
  | Some x => if ts x <? r - lb then None else sv x
  | None => None
  end.

(* ---- MemoizedSeriesIterator ------------------------------------------- *)

(* [mcur]: the samples from the current one on ([] = ValNone);
   [mlast]: lastTime (None = math.MinInt64); [mprev]: the remembered previous sample. *)
Record mit := mkMit { mcur : list sample; mlast : option Z; mprev : option sample }.

Definition mit_reset (ss : list sample) : mit := mkMit ss None None.

Fixpoint drop_lt (t : Z) (l : list sample) : list sample :=
  match l with
  | [] => []
  | x :: rest => if ts x <? t then drop_lt t rest else l
  end.

(* MemoizedSeriesIterator.Next *)
Definition mit_next (m : mit) : mit :=
  match mcur m with
  | [] => m
  | x :: rest =>
      mkMit rest (match rest with y :: _ => Some (ts y) | [] => mlast m end) (Some x)
  end.

(* the loop "for b.Next() != ValNone { if b.lastTime >= t { return } }";
   the fuel is the number of remaining samples *)
Fixpoint mit_advance (fuel : nat) (t : Z) (m : mit) : mit :=
  match fuel with
  | O => m
  | S f =>
      match mcur m with
      | [] => m
      | _ :: _ =>
          let m' := mit_next m in
          match mcur m' with
          | [] => m'
          | y :: _ => if ts y >=? t then m' else mit_advance f t m'
          end
      end
  end.

Definition last_ge (m : mit) (t : Z) : bool :=
  match mlast m with Some l => l >=? t | None => false end.

(* MemoizedSeriesIterator.Seek *)
Definition mit_seek (delta : Z) (m : mit) (t : Z) : mit :=
  let t0 := t - delta in
  let jump := match mcur m with
              | [] => false
              | _ => match mlast m with None => true | Some l => t0 >? l end
              end in
  let m1 :=
    if jump then
      let c := drop_lt t0 (mcur m) in
      mkMit c (match c with y :: _ => Some (ts y) | [] => mlast m end) None
    else m in
  match mcur m1 with
  | [] => m1
  | _ => if last_ge m1 t then m1 else mit_advance (length (mcur m1)) t m1
  end.

(* scan.selectPoint: returns the new iterator state and the selected value *)
Definition select_point (delta lb off : Z) (m : mit) (t : Z) : mit * option Z :=
  let r := t - off in
  let m' := mit_seek delta m r in
  let from_prev :=
    match mprev m' with
    | Some p => if ts p <? r - lb then None else sv p
    | None => None
    end in
  (m', match mcur m' with
       | x :: _ => if ts x >? r then from_prev else sv x
       | [] => from_prev
       end).

(* one series over a list of step timestamps *)
Fixpoint scan_steps (delta lb off : Z) (m : mit) (steps : list Z) : mit * list (option Z) :=
  match steps with
  | [] => (m, [])
  | t :: rest =>
      let '(m1, v) := select_point delta lb off m t in
      let '(m2, vs) := scan_steps delta lb off m1 rest in
      (m2, v :: vs)
  end.

(* ---- vectorSelector.Next ---------------------------------------------- *)

(* IDs/values of one step from the per-series results of that step *)
Fixpoint collect (i : nat) (col : list (option Z)) : list nat * list Z :=
  match col with
  | [] => ([], [])
  | c :: rest =>
      let '(ids, vs) := collect (S i) rest in
      match c with Some v => (i :: ids, v :: vs) | None => (ids, vs) end
  end.

Definition stepvec_of (t : Z) (col : list (option Z)) : stepvec :=
  let '(ids, vs) := collect 0 col in mkSV t ids vs.

Definition column (rows : list (list (option Z))) (j : nat) : list (option Z) :=
  map (fun row => nth j row None) rows.

(* one call of Next over the batch timestamps [steps] *)
Definition vs_next (delta lb off : Z) (sts : list mit) (steps : list Z) : list mit * batch :=
  let res := map (fun m => scan_steps delta lb off m steps) sts in
  (map fst res,
   map (fun j => stepvec_of (nth j steps 0) (column (map snd res) j)) (seq 0 (length steps))).

Fixpoint vs_run (delta lb off : Z) (sts : list mit) (batches : list (list Z)) : list batch :=
  match batches with
  | [] => []
  | b :: rest =>
      let '(sts', out) := vs_next delta lb off sts b in
      out :: vs_run delta lb off sts' rest
  end.

(* the stateless description of the selector's output at one step *)
Definition select_step (lb off : Z) (sers : list (list sample)) (t : Z) : stepvec :=
  stepvec_of t (map (fun ss => pick lb ss (t - off)) sers).
