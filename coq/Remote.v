(* remote.Execution (execution/remote/operator.go): the result of a query run by
   another engine on the same window is turned into series (one per result
   series, a sample for every step at which it has a point) and read back by a
   vector selector with lookback 0 and no offset. Reading back is the identity:
   at every step of the window the selector yields exactly the samples the
   remote query produced at that step - applying the query's lookback again
   would extend every series past its last point (the defect repaired earlier,
   see known_findings.json). The remote result's series are kept in the remote
   operator's order; the real result is sorted by label set and omits series
   without points, which renumbers sample IDs but leaves every labelled sample
   as it is. *)
From Coq Require Import List ZArith NArith Bool Lia.
From Verif Require Import Base Grid Select SelectProofs Shard SelectorProofs Exec Compose StreamWF MatrixRun EndToEnd.
Import ListNotations.
Open Scope Z_scope.

Definition vlookup (i : nat) (vec : list (nat * Z)) : option Z :=
  option_map snd (find (fun iv => Nat.eqb (fst iv) i) vec).

(* the points of result series i, in step order *)
Definition series_of_stream_at (i : nat) (strm : list (Z * list (nat * Z))) : list sample :=
  flat_map (fun tv => match vlookup i (snd tv) with Some v => [mkS (fst tv) (Some v)] | None => [] end) strm.

Definition series_of_stream (n : nat) (strm : list (Z * list (nat * Z))) : list (list sample) :=
  map (fun i => series_of_stream_at i strm) (seq 0 n).

(* the samples of a step re-ordered by series ID: what the selector over the result yields *)
Definition by_id (n : nat) (t : Z) (vec : list (nat * Z)) : stepvec :=
  stepvec_of t (map (fun i => vlookup i vec) (seq 0 n)).

(* the operator: the remote stream, re-read on the window with lookback 0 by one selector *)
Definition reread (B : nat) (w : window) (n : nat) (strm : list (Z * list (nat * Z))) : list (Z * list (nat * Z)) :=
  map (fun sv => (svT sv, vec_of sv)) (concat (run (mkCfg 1 B 0) w (PSelect (series_of_stream n strm) 0))).

Lemma option_ext {A} (a b : option A) : (forall v, a = Some v <-> b = Some v) -> a = b.
Proof.
  intros H. destruct a as [x|], b as [y|]; try reflexivity.
  - apply H. reflexivity.
  - assert (E : @None A = Some x) by (apply H; reflexivity). discriminate.
  - assert (E : @None A = Some y) by (apply H; reflexivity). discriminate.
Qed.

Section Reread.
  Variable f : Z -> list (nat * Z).
  Variable g : list Z.
  Hypothesis Hinc : increasing g.

  Let strm := map (fun t => (t, f t)) g.

  Lemma in_series i x : In x (series_of_stream_at i strm) <-> exists t v, In t g /\ vlookup i (f t) = Some v /\ x = mkS t (Some v).
  Proof.
    unfold series_of_stream_at, strm. rewrite in_flat_map. split.
    - intros [tv [Htv Hx]]. apply in_map_iff in Htv. destruct Htv as [t [<- Ht]]. simpl in Hx.
      destruct (vlookup i (f t)) as [v|] eqn:E; [|destruct Hx]. destruct Hx as [<-|[]]. exists t, v. auto.
    - intros [t [v [Ht [E ->]]]]. exists (t, f t). split; [exact (in_map (fun t0 => (t0, f t0)) g t Ht)|]. simpl. rewrite E. left. reflexivity.
  Qed.

  Lemma series_sorted i : sorted_ts (series_of_stream_at i strm).
  Proof.
    unfold series_of_stream_at, strm. clear strm. induction g as [|t rest IH]; simpl; [exact I|].
    destruct Hinc as [Hlt Hinc']. specialize (IH Hinc').
    destruct (vlookup i (f t)) as [v|]; simpl; [|exact IH].
    split; [|exact IH].
    destruct (flat_map _ (map (fun t0 => (t0, f t0)) rest)) as [|y ys] eqn:E; [exact I|].
    assert (Hy : In y (flat_map (fun tv : Z * list (nat * Z) =>
                match vlookup i (snd tv) with Some v0 => [mkS (fst tv) (Some v0)] | None => [] end)
                (map (fun t0 => (t0, f t0)) rest))) by (rewrite E; left; reflexivity).
    apply in_flat_map in Hy. destruct Hy as [tv [Htv Hy]]. apply in_map_iff in Htv. destruct Htv as [t' [<- Ht']].
    simpl in Hy. destruct (vlookup i (f t')); [|destruct Hy]. destruct Hy as [<-|[]]. simpl.
    rewrite Forall_forall in Hlt. apply Hlt. assumption.
  Qed.

  (* lookback 0: the sample at exactly the step's time, or nothing *)
  Lemma pick_zero i t : In t g -> pick 0 (series_of_stream_at i strm) t = vlookup i (f t).
  Proof.
    intros Ht. apply option_ext. intros v. rewrite (pick_meaning 0 _ t v (series_sorted i)). split.
    - intros [x [Hx [Hle [_ [Hge Hv]]]]]. apply in_series in Hx. destruct Hx as [t' [v' [_ [E ->]]]].
      simpl in *. assert (t' = t) by lia. subst t'. congruence.
    - intros E. exists (mkS t (Some v)). split; [apply in_series; exists t, v; auto|]. simpl.
      split; [lia|]. split; [|split; [lia|reflexivity]].
      intros y Hy Hyt. assumption.
  Qed.

  Lemma reread_step n t : In t g ->
    select_step 0 0 (series_of_stream n strm) t = by_id n t (f t).
  Proof.
    intros Ht. unfold select_step, by_id, series_of_stream. rewrite map_map. f_equal.
    apply map_ext. intros i. replace (t - 0) with t by lia. apply pick_zero. assumption.
  Qed.

  Lemma series_all_sorted n : Forall sorted_ts (series_of_stream n strm).
  Proof. unfold series_of_stream. apply Forall_forall. intros ss Hss. apply in_map_iff in Hss. destruct Hss as [i [<- _]]. apply series_sorted. Qed.
End Reread.

(* reading the remote stream back on its own window gives, at every step, the remote samples of
   that step (ordered by series ID) *)
Theorem reread_identity B w n f : (0 < B)%nat -> wf_window w ->
  reread B w n (map (fun t => (t, f t)) (grid w)) = map (fun t => (t, vec_of (by_id n t (f t)))) (grid w).
Proof.
  intros HB Hw. unfold reread.
  assert (Hinc : increasing (grid w)).
  { destruct (Z.eq_dec (w_step w) 0) as [E0|NE0].
    - rewrite (grid_instant B w HB E0). simpl. split; [constructor|exact I].
    - apply grid_increasing_list. destruct Hw as [_ [H _]]. lia. }
  rewrite (run_covers_grid (mkCfg 1 B 0) w (PSelect (series_of_stream n (map (fun t => (t, f t)) (grid w))) 0));
    try (simpl; lia); try assumption; [|simpl; apply series_all_sorted; assumption].
  rewrite map_map. apply map_ext_in. intros t Ht. simpl denote.
  rewrite (reread_step f (grid w) Hinc n t Ht). unfold by_id. rewrite stepvec_of_T. reflexivity.
Qed.

(* ---- the re-ordered vector has the same samples ---------------------------------------- *)

Lemma collect_in : forall (col : list (option Z)) o i v,
  In (i, v) (combine (fst (collect o col)) (snd (collect o col))) <->
  exists j, i = (o + j)%nat /\ nth_error col j = Some (Some v).
Proof.
  induction col as [|c col IH]; intros o i v; simpl.
  - split; [intros []|intros [j [_ H]]; destruct j; discriminate].
  - specialize (IH (S o) i v). destruct (collect (S o) col) as [ids vs]. simpl in IH.
    destruct c as [x|]; simpl.
    + split.
      * intros [H|H]; [inversion H; subst; exists 0%nat; split; [lia|reflexivity]|].
        apply IH in H. destruct H as [j [-> Hj]]. exists (S j). split; [lia|exact Hj].
      * intros [[|j] [-> Hj]]; simpl in Hj.
        -- inversion Hj; subst. left. f_equal. lia.
        -- right. apply IH. exists j. split; [lia|exact Hj].
    + split.
      * intros H. apply IH in H. destruct H as [j [-> Hj]]. exists (S j). split; [lia|exact Hj].
      * intros [[|j] [-> Hj]]; simpl in Hj; [discriminate|]. apply IH. exists j. split; [lia|exact Hj].
Qed.

Lemma vlookup_in (vec : list (nat * Z)) i v : NoDup (map fst vec) -> (vlookup i vec = Some v <-> In (i, v) vec).
Proof.
  unfold vlookup. induction vec as [|[j x] vec IH]; simpl; intros Hnd.
  - split; [discriminate|tauto].
  - inversion Hnd as [|? ? Hn Hnd']; subst. destruct (Nat.eqb_spec j i) as [->|Hne]; simpl.
    + split.
      * intros H. inversion H; subst. left. reflexivity.
      * intros [H|H]; [inversion H; reflexivity|]. exfalso. apply Hn. apply in_map_iff. exists (i, v). auto.
    + rewrite (IH Hnd'). split; [tauto|]. intros [H|H]; [inversion H; subst; contradiction|assumption].
Qed.

Lemma by_id_in n t vec i v : NoDup (map fst vec) -> (forall iv, In iv vec -> (fst iv < n)%nat) ->
  (In (i, v) (vec_of (by_id n t vec)) <-> In (i, v) vec).
Proof.
  intros Hnd Hr. unfold by_id, vec_of, stepvec_of.
  pose proof (collect_in (map (fun i => vlookup i vec) (seq 0 n)) 0 i v) as H.
  destruct (collect 0 _) as [ids vs]. simpl in *. rewrite H. split.
  - intros [j [-> Hj]]. simpl in Hj. rewrite nth_error_map in Hj.
    destruct (nth_error (seq 0 n) j) as [k|] eqn:Ek; [|discriminate]. simpl in Hj.
    assert (Hjn : (j < n)%nat).
    { rewrite <- (seq_length n 0). apply nth_error_Some. rewrite Ek. discriminate. }
    assert (k = j).
    { apply nth_error_nth with (d := 0%nat) in Ek. rewrite seq_nth in Ek by exact Hjn. lia. }
    subst k. inversion Hj as [Hv]. apply vlookup_in; assumption.
  - intros Hin. exists i. split; [reflexivity|]. rewrite nth_error_map.
    pose proof (Hr (i, v) Hin) as Hi. simpl in Hi.
    assert (E : nth_error (seq 0 n) i = Some i).
    { rewrite (nth_error_nth' (seq 0 n) 0%nat) by (rewrite seq_length; assumption). rewrite seq_nth by assumption. reflexivity. }
    rewrite E. simpl. f_equal. apply vlookup_in; assumption.
Qed.
