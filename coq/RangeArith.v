(* The arithmetic kernels of execution/function/functions.go (KahanSumInc,
   sumOverTime, avgOverTime, varianceOverTime, linearRegression) and the
   mean/variance accumulators of execution/aggregate/accumulator.go, generic
   in the number type and its operations. RangeFns.v and AggFloat.v instantiate
   them on primitive floats (compared bit for bit with the real kernels on every
   run); RangeArithProofs.v instantiates them on the rationals, where no
   rounding happens, and proves that they compute the sum, the mean, the
   population variance and the least-squares slope. No Floats import here. *)
From Coq Require Import List ZArith Bool.
Import ListNotations.

Record ops (V : Type) := mkOps {
  zero : V; one : V; add : V -> V -> V; sub : V -> V -> V; mul : V -> V -> V; div : V -> V -> V;
  abs : V -> V; leb : V -> V -> bool; ltb : V -> V -> bool; eqb : V -> V -> bool;
  isinf : V -> bool; isnan : V -> bool; ofZ : Z -> V; thousand : V; nanv : V }.
Arguments zero {V}. Arguments one {V}. Arguments add {V}. Arguments sub {V}. Arguments mul {V}.
Arguments div {V}. Arguments abs {V}. Arguments leb {V}. Arguments ltb {V}. Arguments eqb {V}.
Arguments isinf {V}. Arguments isnan {V}. Arguments ofZ {V}. Arguments thousand {V}. Arguments nanv {V}.

Section Kernels.
  Variable V : Type.
  Variable o : ops V.
  Let zero := zero o. Let one := one o. Let add := add o. Let sub := sub o. Let mul := mul o.
  Let div := div o. Let abs := abs o. Let leb := leb o. Let ltb := ltb o. Let eqb := eqb o.
  Let isinf := isinf o. Let isnan := isnan o. Let ofZ := ofZ o. Let thousand := thousand o.

  (* KahanSumInc(inc, sum, c) *)
  Definition gkahan (inc sum c : V) : V * V :=
    let t := add sum inc in
    if leb (abs inc) (abs sum)
    then (t, add c (add (sub sum t) inc))
    else (t, add c (add (sub inc t) sum)).

  (* sumOverTime *)
  Definition gsum_over (vs : list V) : V :=
    let '(s, c) := fold_left (fun sc v => gkahan v (fst sc) (snd sc)) vs (zero, zero) in
    if isinf s then s else add s c.

  (* avgOverTime: the running mean, compensated *)
  Definition gavg_step (st : V * V * V) (v : V) : V * V * V :=
    let '(mean, count, c) := st in
    let count := add count one in
    if isinf mean && ((isinf v && Bool.eqb (ltb zero mean) (ltb zero v))
                      || (negb (isinf v) && negb (isnan v)))
    then (mean, count, c)
    else let '(m', c') := gkahan (sub (div v count) (div mean count)) mean c in (m', count, c').

  Definition gavg_over (vs : list V) : V :=
    let '(mean, _, c) := fold_left gavg_step vs (zero, zero, zero) in
    if isinf mean then mean else add mean c.

  (* varianceOverTime: Welford's recurrence, both sums compensated *)
  Definition gwelford_step (st : V * V * V * V * V) (v : V) : V * V * V * V * V :=
    let '(count, mean, cmean, aux, caux) := st in
    let count := add count one in
    let delta := sub v (add mean cmean) in
    let '(mean', cmean') := gkahan (div delta count) mean cmean in
    let '(aux', caux') := gkahan (mul delta (sub v (add mean' cmean'))) aux caux in
    (count, mean', cmean', aux', caux').

  Definition gvariance_over (vs : list V) : V :=
    let '(count, _, _, aux, caux) := fold_left gwelford_step vs (zero, zero, zero, zero, zero) in
    div (add aux caux) count.

  (* the stddev/stdvar accumulator of the aggregations: the first value is stored directly *)
  Definition gacc_welford_step (st : V * V * V * V * V) (v : V) : V * V * V * V * V :=
    let '(count, mean, cmean, aux, caux) := st in
    let count' := add count one in
    if eqb count' one then (count', v, cmean, aux, caux)
    else
      let delta := sub v (add mean cmean) in
      let '(mean', cmean') := gkahan (div delta count') mean cmean in
      let '(aux', caux') := gkahan (mul delta (sub v (add mean' cmean'))) aux caux in
      (count', mean', cmean', aux', caux').

  Definition gacc_variance (vs : list V) : V :=
    let '(count, _, _, aux, caux) := fold_left gacc_welford_step vs (zero, zero, zero, zero, zero) in
    div (add aux caux) count.

  (* the avg accumulator of the aggregations: count and plain sum *)
  Definition gacc_avg_step (cs : V * V) (v : V) : V * V := (add (fst cs) one, add (snd cs) v).

  Definition gacc_avg (vs : list V) : V :=
    let '(count, sum) := fold_left gacc_avg_step vs (zero, zero) in
    div sum count.

  (* linearRegression(points, interceptTime = points[0].T): the slope *)
  Definition gderiv_step (t0 : Z) (init_y : V)
             (st : V * V * V * V * V * V * V * V * V * bool * bool) (p : Z * V)
    : V * V * V * V * V * V * V * V * V * bool * bool :=
    let '(n, sx, cx, sy, cy, sxy, cxy, sx2, cx2, const_y, first) := st in
    let const_y := if const_y && negb first && negb (eqb (snd p) init_y) then false else const_y in
    let x := div (ofZ (fst p - t0)) thousand in
    let '(sx, cx) := gkahan x sx cx in
    let '(sy, cy) := gkahan (snd p) sy cy in
    let '(sxy, cxy) := gkahan (mul x (snd p)) sxy cxy in
    let '(sx2, cx2) := gkahan (mul x x) sx2 cx2 in
    (add n one, sx, cx, sy, cy, sxy, cxy, sx2, cx2, const_y, false).

  Definition gderiv (ps : list (Z * V)) : V :=
    match ps with
    | [] => nanv o
    | p0 :: _ =>
        let init_y := snd p0 in
        let '(n, sx, cx, sy, cy, sxy, cxy, sx2, cx2, const_y, _) :=
          fold_left (gderiv_step (fst p0) init_y) ps
                    (zero, zero, zero, zero, zero, zero, zero, zero, zero, true, true) in
        if const_y then (if isinf init_y then nanv o else zero)
        else
          let sx := add sx cx in let sy := add sy cy in let sxy := add sxy cxy in let sx2 := add sx2 cx2 in
          let cov := sub sxy (div (mul sx sy) n) in
          let var := sub sx2 (div (mul sx sx) n) in
          div cov var
    end.

  (* ---- quantile(q, points) of execution/aggregate/scalar_table.go ---------------------------- *)

  (* sort.Float64s: NaN sorts first *)
  Definition gless (x y : V) : bool := ltb x y || (isnan x && negb (isnan y)).
  Fixpoint ginsert (x : V) (l : list V) : list V :=
    match l with
    | [] => [x]
    | y :: r => if gless y x then y :: ginsert x r else x :: l
    end.
  Definition gsort (l : list V) : list V := fold_right ginsert [] l.

  (* the largest i <= n with i <= x (x >= 0) *)
  Fixpoint gfloor_upto (n : nat) (x : V) : nat :=
    match n with
    | O => O
    | S k => if leb (ofZ (Z.of_nat n)) x then n else gfloor_upto k x
    end.

  Definition gquantile (pinf ninf : V) (q : V) (points : list V) : V :=
    match points with
    | [] => nanv o
    | _ =>
        if isnan q then nanv o
        else if ltb q zero then ninf
        else if ltb one q then pinf
        else
          let sorted := gsort points in
          let n := length points in
          let rank := mul q (sub (ofZ (Z.of_nat n)) one) in
          let lo := gfloor_upto n rank in
          let hi := Nat.min (n - 1) (lo + 1) in
          let weight := sub rank (ofZ (Z.of_nat lo)) in
          add (mul (nth lo sorted (nanv o)) (sub one weight)) (mul (nth hi sorted (nanv o)) weight)
    end.
End Kernels.
