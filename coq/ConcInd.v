(* The concurrency operator of Conc.v for EVERY number of child batches (C14):
   an inductive invariant of the transition system, a measure that every
   transition decreases, and a second measure - independent of the number of
   batches the child could still produce - that every transition decreases once
   the context is cancelled. Together: under every schedule of the consumer,
   the producer, the drain goroutine and the cancellation,
   - a successful return carries the complete result and the channel stays
     within its capacity (invariant);
   - every execution is finite, at most 6*total+15 transitions (no livelock);
   - a state without successor is final: Exec has returned, both goroutines
     have terminated, the channel is closed and empty (no deadlock, no leak);
   - after the cancellation at most 22 further transitions are possible,
     however many batches remain (promptness).
   Nothing here is bounded: the exploration of ConcProofs.v (0..6 batches) is
   kept for the labelled system the recorded logs are checked against. *)
From Coq Require Import List Arith Bool Lia.
From Verif Require Import Conc.
Import ListNotations.

Fixpoint ndata (b : list msg) : nat :=
  match b with [] => 0 | MData :: r => S (ndata r) | MErr :: r => ndata r end.
Fixpoint nerr (b : list msg) : nat :=
  match b with [] => 0 | MErr :: r => S (nerr r) | MData :: r => nerr r end.
Definition inflight (p : pullst) : nat := match p with PSendData => 1 | _ => 0 end.

Definition Inv (total : nat) (s : st) : Prop :=
  length (buf s) <= cap
  /\ (closed s = true <-> pull s = PDone)
  /\ (done_ s = false -> drain s = DWait)
  /\ (done_ s = false -> nerr (buf s) = 0 -> pull s <> PSendErr -> cons s <> CRetErr ->
        (* no failure of the child so far: every batch is accounted for *)
        received s + ndata (buf s) + inflight (pull s) + remaining s = total
        /\ (pull s = PClose \/ pull s = PDone -> remaining s = 0))
  /\ (drain s = DStopped -> closed s = true /\ buf s = [])
  /\ (cons s = CAfterLoop -> closed s = true /\ buf s = [])
  /\ (cons s = CRetOk -> received s = total).

Lemma inv_init total : Inv total (init total).
Proof.
  unfold Inv, init, cap; simpl. repeat split; try discriminate; try lia.
  all: try (intros [E|E]; discriminate).
Qed.

Lemma inv_after_return total s : Inv total s -> Inv total (after_return s).
Proof.
  unfold after_return. destruct (finished_consumer s); [|auto].
  unfold Inv; simpl. intros (H1 & H2 & _ & _ & H4 & H5 & H6). repeat split; try tauto; try discriminate; apply H2.
Qed.

Ltac inv_crush :=
  unfold Inv, cap in *; simpl in *;
  repeat match goal with
         | H : _ /\ _ |- _ => destruct H
         end;
  repeat split; intros;
  repeat match goal with
         | H : ?a = ?a -> _ |- _ => specialize (H eq_refl)
         | H : ?P -> _, H' : ?P |- _ => specialize (H H')
         | H : ?a <> ?b -> _ |- _ => let N := fresh "N" in assert (N : a <> b) by discriminate; specialize (H N); clear N
         | H : _ /\ _ |- _ => destruct H
         | H : _ <-> _ |- _ => destruct H
         | H : _ = _ \/ _ = _ |- _ => destruct H
         end;
  try discriminate; try congruence; try lia; try tauto;
  try (subst; simpl in *;
       repeat match goal with
              | H : _ \/ _ -> _ |- _ => first [specialize (H (or_introl eq_refl)) | specialize (H (or_intror eq_refl))]
              | H : ?P -> _ |- _ =>
                  match type of P with Prop => idtac end;
                  let N := fresh "N" in assert (N : P) by (first [reflexivity | discriminate | lia | congruence]); specialize (H N); clear N
              | H : _ /\ _ |- _ => destruct H
              end;
       first [lia | congruence | tauto]).

Lemma inv_step total s s' : Inv total s -> In s' (steps true s) -> Inv total s'.
Proof.
  intros HI Hin. unfold steps in Hin.
  apply in_app_or in Hin. destruct Hin as [Hin|Hin].
  { (* cancellation *)
    destruct s as [d b c p r dr cs rc]; simpl in *. destruct d; [destruct Hin|].
    destruct Hin as [<-|[]]. inv_crush. }
  apply in_app_or in Hin. destruct Hin as [Hin|Hin].
  { (* consumer *)
    destruct s as [d b c p r dr cs rc]; simpl in *.
    destruct cs; simpl in Hin.
    - destruct d; destruct Hin as [<-|[]]; inv_crush.
    - destruct d; destruct Hin as [<-|[]]; inv_crush.
    - destruct b as [|[] b].
      + destruct c; [|destruct Hin]. destruct Hin as [<-|[]]. inv_crush.
      + destruct Hin as [<-|[]]. inv_crush.
      + destruct Hin as [<-|[]]. inv_crush.
    - destruct d; simpl in Hin; destruct Hin as [<-|[]]; inv_crush.
      (* CAfterLoop -> CRetOk while the context is live: everything was delivered *)
    - destruct Hin.
    - destruct Hin. }
  apply in_app_or in Hin. destruct Hin as [Hin|Hin].
  { (* producer *)
    destruct s as [d b c p r dr cs rc]; simpl in *.
    destruct p; simpl in Hin.
    - destruct d; destruct Hin as [<-|[]]; inv_crush.
    - destruct Hin as [<-|Hin].
      + inv_crush.
      + destruct r; destruct Hin as [<-|[]]; inv_crush.
    - destruct b as [|m1 [|m2 [|m3 b]]]; simpl in Hin; try (destruct Hin; fail);
        destruct Hin as [<-|[]]; try destruct m1; inv_crush.
    - destruct b as [|m1 [|m2 [|m3 b]]]; simpl in Hin; try (destruct Hin; fail);
        destruct Hin as [<-|[]]; try destruct m1; inv_crush.
    - destruct Hin as [<-|[]]. inv_crush.
    - destruct Hin. }
  { (* drain *)
    destruct s as [d b c p r dr cs rc]; simpl in *.
    destruct dr; simpl in Hin.
    - destruct d; [|destruct Hin]. destruct Hin as [<-|[]]. inv_crush.
    - destruct b as [|m b].
      + destruct c; [|destruct Hin]. destruct Hin as [<-|[]]. inv_crush.
      + destruct Hin as [<-|[]]. destruct d; [|exfalso; inv_crush]. inv_crush.
    - destruct Hin. }
Qed.

Lemma inv_next total s s' : Inv total s -> In s' (next_states true s) -> Inv total s'.
Proof.
  unfold next_states. intros HI Hin. apply in_map_iff in Hin. destruct Hin as [x [<- Hx]].
  apply inv_after_return. eapply inv_step; eassumption.
Qed.

(* states reachable under Exec (deferred cancel on return) and under a consumer driving the operator directly *)
Inductive reach (total : nat) : st -> Prop :=
| reach_init : reach total (init total)
| reach_step s s' : reach total s -> In s' (next_states true s) -> reach total s'.

Inductive reach_raw (total : nat) : st -> Prop :=
| reach_raw_init : reach_raw total (init total)
| reach_raw_step s s' : reach_raw total s -> In s' (steps true s) -> reach_raw total s'.

Lemma reach_inv total s : reach total s -> Inv total s.
Proof. induction 1; [apply inv_init|eapply inv_next; eassumption]. Qed.

Lemma reach_raw_inv total s : reach_raw total s -> Inv total s.
Proof. induction 1; [apply inv_init|eapply inv_step; eassumption]. Qed.

(* ---- no deadlock, no leak ------------------------------------------------------------- *)

Definition final (s : st) : Prop :=
  finished_consumer s = true /\ pull s = PDone /\ drain s = DStopped /\ closed s = true /\ buf s = [].

Lemma stuck_is_final total s : Inv total s -> steps true s = [] -> final s.
Proof.
  intros HI Hs. destruct s as [d b c p r dr cs rc]. unfold steps in Hs; simpl in Hs.
  apply app_eq_nil in Hs. destruct Hs as [Hd Hs].
  destruct d; [|discriminate]. clear Hd.
  apply app_eq_nil in Hs. destruct Hs as [Hc Hs]. apply app_eq_nil in Hs. destruct Hs as [Hp Hdr].
  unfold final, Inv, cap in *; simpl in *.
  destruct HI as (H1 & H2 & _ & _ & H4 & H5 & H6).
  (* the producer *)
  assert (Ep : p = PDone).
  { destruct p; try discriminate; try reflexivity.
    - (* blocked on a full channel: the drain goroutine is in DDrain or DWait and can move, or stopped: closed *)
      destruct b as [|m1 [|m2 b]]; simpl in Hp; try discriminate.
      destruct dr; try discriminate. destruct (H4 eq_refl) as [_ E]. discriminate.
    - destruct b as [|m1 [|m2 b]]; simpl in Hp; try discriminate.
      destruct dr; try discriminate. destruct (H4 eq_refl) as [_ E]. discriminate. }
  subst p. assert (Ec : c = true) by (apply H2; reflexivity). subst c.
  assert (Edr : dr = DStopped).
  { destruct dr; try discriminate; try reflexivity. destruct b; discriminate. }
  subst dr. destruct (H4 eq_refl) as [_ ->].
  destruct cs; try discriminate; auto.
Qed.

Lemma next_nil s : next_states true s = [] -> steps true s = [].
Proof. unfold next_states. destruct (steps true s); [reflexivity|discriminate]. Qed.

(* ---- every execution is finite --------------------------------------------------------- *)

Definition pull_rank (p : pullst) : nat :=
  match p with PDone => 0 | PClose => 1 | PSendErr => 5 | PSendData => 6 | PCalling => 7 | PTop => 8 end.
Definition cons_rank (c : consst) : nat :=
  match c with CRetOk | CRetErr => 0 | CAfterLoop => 1 | CRecv => 2 | CNext => 3 | CIdle => 4 end.
Definition drain_rank (d : drainst) : nat := match d with DStopped => 0 | DDrain => 1 | DWait => 2 end.

Definition mu (s : st) : nat :=
  (if done_ s then 0 else 1) + 6 * remaining s + 6 * inflight (pull s) + 3 * length (buf s)
  + pull_rank (pull s) + cons_rank (cons s) + drain_rank (drain s).

Lemma mu_after_return s : mu (after_return s) <= mu s.
Proof. unfold after_return. destruct (finished_consumer s); [|lia]. unfold mu; simpl. destruct (done_ s); lia. Qed.

Lemma mu_step s s' : In s' (steps true s) -> mu s' < mu s.
Proof.
  intros Hin. unfold steps in Hin. destruct s as [d b c p r dr cs rc]; simpl in Hin.
  apply in_app_or in Hin. destruct Hin as [Hin|Hin].
  { destruct d; [destruct Hin|]. destruct Hin as [<-|[]]. unfold mu; simpl. lia. }
  apply in_app_or in Hin. destruct Hin as [Hin|Hin].
  { destruct cs; simpl in Hin.
    - destruct d; destruct Hin as [<-|[]]; unfold mu; simpl; lia.
    - destruct d; destruct Hin as [<-|[]]; unfold mu; simpl; lia.
    - destruct b as [|[] b].
      + destruct c; [|destruct Hin]. destruct Hin as [<-|[]]. unfold mu; simpl; lia.
      + destruct Hin as [<-|[]]. unfold mu; simpl; lia.
      + destruct Hin as [<-|[]]. unfold mu; simpl; lia.
    - destruct d; simpl in Hin; destruct Hin as [<-|[]]; unfold mu; simpl; lia.
    - destruct Hin.
    - destruct Hin. }
  apply in_app_or in Hin. destruct Hin as [Hin|Hin].
  { destruct p; simpl in Hin.
    - destruct d; destruct Hin as [<-|[]]; unfold mu; simpl; lia.
    - destruct Hin as [<-|Hin].
      + unfold mu; simpl; lia.
      + destruct r; destruct Hin as [<-|[]]; unfold mu; simpl; lia.
    - destruct (Nat.ltb (length b) cap); [|destruct Hin]. destruct Hin as [<-|[]].
      unfold mu; simpl. rewrite app_length. simpl. lia.
    - destruct (Nat.ltb (length b) cap); [|destruct Hin]. destruct Hin as [<-|[]].
      unfold mu; simpl. rewrite app_length. simpl. lia.
    - destruct Hin as [<-|[]]. unfold mu; simpl; lia.
    - destruct Hin. }
  { destruct dr; simpl in Hin.
    - destruct d; [|destruct Hin]. destruct Hin as [<-|[]]. unfold mu; simpl; lia.
    - destruct b as [|m b].
      + destruct c; [|destruct Hin]. destruct Hin as [<-|[]]. unfold mu; simpl; lia.
      + destruct Hin as [<-|[]]. unfold mu; simpl; lia.
    - destruct Hin. }
Qed.

Lemma mu_next s s' : In s' (next_states true s) -> mu s' < mu s.
Proof.
  unfold next_states. intros Hin. apply in_map_iff in Hin. destruct Hin as [x [<- Hx]].
  pose proof (mu_after_return x). pose proof (mu_step s x Hx). lia.
Qed.

(* an execution: consecutive states related by the transition relation *)
Fixpoint chain (next : st -> list st) (s : st) (l : list st) : Prop :=
  match l with
  | [] => True
  | s' :: rest => In s' (next s) /\ chain next s' rest
  end.

Lemma last_shift {A} (l : list A) (x s : A) : last (x :: l) s = last l x.
Proof.
  revert x s. induction l as [|a l IH]; intros x s; [reflexivity|].
  change (last (x :: a :: l) s) with (last (a :: l) s). rewrite IH. symmetry. apply IH.
Qed.

Lemma chain_bounded next (m : st -> nat) : (forall s s', In s' (next s) -> m s' < m s) ->
  forall l s, chain next s l -> length l + m (last l s) <= m s.
Proof.
  intros Hm. induction l as [|x l IH]; intros s Hc; [simpl; lia|].
  destruct Hc as [Hx Hc]. specialize (IH x Hc). specialize (Hm s x Hx).
  rewrite last_shift. simpl length. lia.
Qed.

Lemma mu_init total : mu (init total) = 6 * total + 15.
Proof. unfold mu, init; simpl. lia. Qed.

Theorem executions_finite total l : chain (next_states true) (init total) l -> length l <= 6 * total + 15.
Proof. intros Hc. pose proof (chain_bounded _ mu mu_next l _ Hc). rewrite mu_init in *. lia. Qed.

Theorem executions_finite_raw total l : chain (steps true) (init total) l -> length l <= 6 * total + 15.
Proof. intros Hc. pose proof (chain_bounded _ mu mu_step l _ Hc). rewrite mu_init in *. lia. Qed.

Lemma chain_reach total : forall l s, reach total s -> chain (next_states true) s l -> reach total (last l s).
Proof.
  induction l as [|x l IH]; intros s Hr Hc; [exact Hr|]. destruct Hc as [Hx Hc].
  assert (Hrx : reach total x) by (eapply reach_step; eassumption).
  specialize (IH x Hrx Hc). rewrite last_shift. exact IH.
Qed.

Lemma chain_reach_raw total : forall l s, reach_raw total s -> chain (steps true) s l -> reach_raw total (last l s).
Proof.
  induction l as [|x l IH]; intros s Hr Hc; [exact Hr|]. destruct Hc as [Hx Hc].
  assert (Hrx : reach_raw total x) by (eapply reach_raw_step; eassumption).
  specialize (IH x Hrx Hc). rewrite last_shift. exact IH.
Qed.

(* ---- promptness: after the cancellation the remaining work does not depend on the child ---- *)

Definition pull_rank_c (p : pullst) : nat :=
  match p with PDone => 0 | PClose => 1 | PSendErr => 5 | PTop => 6 | PSendData => 10 | PCalling => 11 end.
Definition cons_rank_c (c : consst) : nat :=
  match c with CRetOk | CRetErr => 0 | CAfterLoop | CIdle | CNext => 1 | CRecv => 3 end.

Definition nu (s : st) : nat :=
  3 * length (buf s) + pull_rank_c (pull s) + cons_rank_c (cons s) + drain_rank (drain s).

Lemma nu_after_return s : nu (after_return s) = nu s.
Proof. unfold after_return. destruct (finished_consumer s); reflexivity. Qed.

Lemma done_step s s' : done_ s = true -> In s' (steps true s) -> done_ s' = true.
Proof.
  intros Hd Hin. unfold steps in Hin. destruct s as [d b c p r dr cs rc]; simpl in *. subst d.
  simpl in Hin.
  apply in_app_or in Hin. destruct Hin as [Hin|Hin].
  { destruct cs; simpl in Hin; try (destruct Hin as [<-|[]]; reflexivity); try (destruct Hin; fail).
    destruct b as [|[] b]; [destruct c; [|destruct Hin]| |]; destruct Hin as [<-|[]]; reflexivity. }
  apply in_app_or in Hin. destruct Hin as [Hin|Hin].
  { destruct p; simpl in Hin; try (destruct Hin as [<-|[]]; reflexivity); try (destruct Hin; fail).
    - destruct Hin as [<-|Hin]; [reflexivity|]. destruct r; destruct Hin as [<-|[]]; reflexivity.
    - destruct (Nat.ltb (length b) cap); [|destruct Hin]. destruct Hin as [<-|[]]; reflexivity.
    - destruct (Nat.ltb (length b) cap); [|destruct Hin]. destruct Hin as [<-|[]]; reflexivity. }
  { destruct dr; simpl in Hin; try (destruct Hin as [<-|[]]; reflexivity); try (destruct Hin; fail).
    destruct b as [|m b]; [destruct c; [|destruct Hin]|]; destruct Hin as [<-|[]]; reflexivity. }
Qed.

Lemma nu_step s s' : done_ s = true -> In s' (steps true s) -> nu s' < nu s.
Proof.
  intros Hd Hin. unfold steps in Hin. destruct s as [d b c p r dr cs rc]; simpl in *. subst d.
  simpl in Hin.
  apply in_app_or in Hin. destruct Hin as [Hin|Hin].
  { destruct cs; simpl in Hin; try (destruct Hin as [<-|[]]; unfold nu; simpl; lia); try (destruct Hin; fail).
    destruct b as [|[] b]; [destruct c; [|destruct Hin]| |]; destruct Hin as [<-|[]]; unfold nu; simpl; lia. }
  apply in_app_or in Hin. destruct Hin as [Hin|Hin].
  { destruct p; simpl in Hin; try (destruct Hin as [<-|[]]; unfold nu; simpl; lia); try (destruct Hin; fail).
    - destruct Hin as [<-|Hin]; [unfold nu; simpl; lia|]. destruct r; destruct Hin as [<-|[]]; unfold nu; simpl; lia.
    - destruct (Nat.ltb (length b) cap); [|destruct Hin]. destruct Hin as [<-|[]]. unfold nu; simpl. rewrite app_length; simpl; lia.
    - destruct (Nat.ltb (length b) cap); [|destruct Hin]. destruct Hin as [<-|[]]. unfold nu; simpl. rewrite app_length; simpl; lia. }
  { destruct dr; simpl in Hin; try (destruct Hin as [<-|[]]; unfold nu; simpl; lia); try (destruct Hin; fail).
    destruct b as [|m b]; [destruct c; [|destruct Hin]|]; destruct Hin as [<-|[]]; unfold nu; simpl; lia. }
Qed.

Lemma after_return_done s : done_ s = true -> done_ (after_return s) = true.
Proof. unfold after_return. destruct (finished_consumer s); auto. Qed.

Lemma chain_done_bounded : forall l s, done_ s = true -> chain (next_states true) s l -> length l + nu (last l s) <= nu s.
Proof.
  induction l as [|x l IH]; intros s Hd Hc; [simpl; lia|].
  destruct Hc as [Hx Hc]. unfold next_states in Hx. apply in_map_iff in Hx. destruct Hx as [y [<- Hy]].
  pose proof (nu_step s y Hd Hy) as Hlt. pose proof (done_step s y Hd Hy) as Hdy.
  specialize (IH (after_return y) (after_return_done y Hdy) Hc). rewrite nu_after_return in IH.
  rewrite last_shift. simpl length. lia.
Qed.

Lemma nu_bound total s : Inv total s -> nu s <= 22.
Proof.
  unfold Inv, cap, nu. intros (H1 & _). destruct (pull s), (cons s), (drain s); simpl; lia.
Qed.

(* once the context is cancelled, at most 22 transitions remain, whatever the child could still produce *)
Theorem cancellation_is_prompt total s l :
  reach total s -> done_ s = true -> chain (next_states true) s l -> length l <= 22.
Proof.
  intros Hr Hd Hc. pose proof (chain_done_bounded l s Hd Hc). pose proof (nu_bound total s (reach_inv _ _ Hr)). lia.
Qed.

(* ---- the statements of C14 for every number of batches ------------------------------------ *)

Theorem operator_safe_unbounded total s : reach total s ->
  (cons s = CRetOk -> received s = total) /\ length (buf s) <= cap
  /\ (next_states true s = [] -> final s).
Proof.
  intros Hr. pose proof (reach_inv _ _ Hr) as HI. split; [apply HI|]. split; [apply HI|].
  intros Hn. eapply stuck_is_final; [eassumption|apply next_nil; assumption].
Qed.

Theorem operator_safe_unbounded_raw total s : reach_raw total s ->
  (cons s = CRetOk -> received s = total) /\ length (buf s) <= cap
  /\ (steps true s = [] -> final s).
Proof.
  intros Hr. pose proof (reach_raw_inv _ _ Hr) as HI. split; [apply HI|]. split; [apply HI|].
  intros Hn. eapply stuck_is_final; eassumption.
Qed.

(* every maximal execution ends, after at most 6*total+15 transitions, in the final state *)
Theorem every_execution_terminates_final total l :
  chain (next_states true) (init total) l ->
  length l <= 6 * total + 15 /\
  (next_states true (last l (init total)) = [] -> final (last l (init total))).
Proof.
  intros Hc. split; [apply executions_finite; assumption|].
  apply (operator_safe_unbounded total). apply chain_reach; [constructor|assumption].
Qed.

(* the exhaustive exploration agrees: its state lists are reachable states (non-vacuity of [reach]) *)
Example reach_nontrivial : exists s, reach 2 s /\ cons s = CRetOk /\ received s = 2.
Proof.
  assert (P : forall l s, reach 2 s -> chain (next_states true) s l -> reach 2 (last l s)) by apply chain_reach.
  pose (sts := [
    mkSt false [] false PCalling 2 DWait CIdle 0;
    mkSt false [] false PSendData 1 DWait CIdle 0;
    mkSt false [MData] false PTop 1 DWait CIdle 0;
    mkSt false [MData] false PCalling 1 DWait CIdle 0;
    mkSt false [MData] false PSendData 0 DWait CIdle 0;
    mkSt false [MData; MData] false PTop 0 DWait CIdle 0;
    mkSt false [MData; MData] false PCalling 0 DWait CIdle 0;
    mkSt false [MData; MData] false PClose 0 DWait CIdle 0;
    mkSt false [MData; MData] true PDone 0 DWait CIdle 0;
    mkSt false [MData; MData] true PDone 0 DWait CNext 0;
    mkSt false [MData; MData] true PDone 0 DWait CRecv 0;
    mkSt false [MData] true PDone 0 DWait CIdle 1;
    mkSt false [MData] true PDone 0 DWait CNext 1;
    mkSt false [MData] true PDone 0 DWait CRecv 1;
    mkSt false [] true PDone 0 DWait CIdle 2;
    mkSt false [] true PDone 0 DWait CNext 2;
    mkSt false [] true PDone 0 DWait CRecv 2;
    mkSt false [] true PDone 0 DWait CAfterLoop 2;
    mkSt true [] true PDone 0 DWait CRetOk 2]).
  exists (last sts (init 2)). split; [|split; reflexivity].
  apply P; [constructor|]. unfold sts. simpl. tauto.
Qed.
