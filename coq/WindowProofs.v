(* The incremental window maintenance of matrixSelector (Range.v) equals the
   stateless window at every step (property C03). *)
From Coq Require Import List ZArith NArith Bool Lia.
From Verif Require Import Base Select SelectProofs Range RangeProofs.
Import ListNotations.
Open Scope Z_scope.

(* ---- points of a list of samples, windows as filters -------------------- *)

Definition pts (l : list sample) : list point :=
  flat_map (fun x => match sv x with Some v => [(ts x, v)] | None => [] end) l.

Lemma pts_app l1 l2 : pts (l1 ++ l2) = pts l1 ++ pts l2.
Proof. unfold pts. apply flat_map_app. Qed.

Definition inwin (a b : Z) (x : sample) : bool := (a <=? ts x) && (ts x <=? b).

Lemma win_points_filter a b l : win_points a b l = pts (filter (inwin a b) l).
Proof.
  induction l as [|x l IH]; simpl; [reflexivity|]. unfold inwin at 1.
  destruct (sv x) as [v|] eqn:Ev.
  - destruct ((a <=? ts x) && (ts x <=? b)); simpl; rewrite ?Ev; simpl; rewrite IH; reflexivity.
  - destruct ((a <=? ts x) && (ts x <=? b)); simpl; rewrite ?Ev; simpl; exact IH.
Qed.

Lemma ring_points_filter lo l : ring_points lo l = pts (filter (fun x => lo <=? ts x) l).
Proof.
  induction l as [|x l IH]; simpl; [reflexivity|].
  destruct (sv x) as [v|] eqn:Ev.
  - destruct (Z.geb_spec (ts x) lo); destruct (Z.leb_spec lo (ts x)); try lia; simpl; rewrite ?Ev; simpl; rewrite IH; reflexivity.
  - destruct (lo <=? ts x); simpl; rewrite ?Ev; simpl; exact IH.
Qed.

Lemma pts_filter_ext p q l :
  (forall x, In x l -> sv x <> None -> p x = q x) -> pts (filter p l) = pts (filter q l).
Proof.
  induction l as [|x l IH]; intros H; simpl; [reflexivity|].
  assert (IH' : pts (filter p l) = pts (filter q l)) by (apply IH; intros y Hy; apply H; right; assumption).
  destruct (sv x) as [v|] eqn:Ev.
  - rewrite (H x (or_introl eq_refl)) by congruence. destruct (q x); simpl; rewrite ?Ev, IH'; reflexivity.
  - destruct (p x), (q x); simpl; rewrite ?Ev; simpl; exact IH'.
Qed.

Lemma filter_nil_of_none {A} (p : A -> bool) l : (forall y, In y l -> p y = false) -> filter p l = [].
Proof.
  induction l as [|y l IH]; intros H; simpl; [reflexivity|].
  rewrite (H y (or_introl eq_refl)). apply IH. intros z Hz. apply H. right; assumption.
Qed.

Lemma filter_all {A} (p : A -> bool) l : (forall y, In y l -> p y = true) -> filter p l = l.
Proof.
  induction l as [|y l IH]; intros H; simpl; [reflexivity|].
  rewrite (H y (or_introl eq_refl)). f_equal. apply IH. intros z Hz. apply H. right; assumption.
Qed.

(* sorted lists: take/drop are filters *)
Lemma take_lt_filter t l : sorted_ts l -> take_lt t l = filter (fun x => ts x <? t) l.
Proof.
  induction l as [|x l IH]; intros Hs; simpl; [reflexivity|].
  pose proof (sorted_ts_tail _ _ Hs) as Hs'. pose proof (sorted_ts_lt _ _ Hs) as Hlt.
  rewrite Forall_forall in Hlt.
  destruct (Z.ltb_spec (ts x) t); [rewrite IH by assumption; reflexivity|].
  symmetry. apply filter_nil_of_none. intros y Hy. specialize (Hlt y Hy).
  destruct (Z.ltb_spec (ts y) t); [lia|reflexivity].
Qed.

Lemma drop_lt_filter t l : sorted_ts l -> drop_lt t l = filter (fun x => t <=? ts x) l.
Proof.
  induction l as [|x l IH]; intros Hs; simpl; [reflexivity|].
  pose proof (sorted_ts_tail _ _ Hs) as Hs'. pose proof (sorted_ts_lt _ _ Hs) as Hlt.
  rewrite Forall_forall in Hlt.
  destruct (Z.ltb_spec (ts x) t).
  - destruct (Z.leb_spec t (ts x)); [lia|]. apply IH; assumption.
  - destruct (Z.leb_spec t (ts x)); [|lia]. f_equal. symmetry. apply filter_all.
    intros y Hy. specialize (Hlt y Hy). destruct (Z.leb_spec t (ts y)); [reflexivity|lia].
Qed.

Lemma filter_filter {A} (p q : A -> bool) l : filter p (filter q l) = filter (fun x => q x && p x) l.
Proof.
  induction l as [|x l IH]; simpl; [reflexivity|].
  destruct (q x); simpl; [destruct (p x); simpl; rewrite IH; reflexivity|exact IH].
Qed.

Lemma sorted_filter p l : sorted_ts l -> sorted_ts (filter p l).
Proof.
  induction l as [|x l IH]; intros Hs; simpl; [exact I|].
  pose proof (sorted_ts_tail _ _ Hs) as Hs'. pose proof (sorted_ts_lt _ _ Hs) as Hlt.
  rewrite Forall_forall in Hlt. specialize (IH Hs').
  destruct (p x); [|exact IH]. simpl. split; [|exact IH].
  destruct (filter p l) as [|y r] eqn:E; [exact I|].
  apply Hlt. assert (Hin : In y (filter p l)) by (rewrite E; left; reflexivity).
  apply filter_In in Hin. tauto.
Qed.

(* the ring buffer's shape: the samples before the cursor from a threshold on *)
Lemma ring_shape theta t l : sorted_ts l ->
  drop_lt theta (take_lt t l) = filter (fun x => (theta <=? ts x) && (ts x <? t)) l.
Proof.
  intros Hs. rewrite take_lt_filter by assumption.
  rewrite drop_lt_filter by (apply sorted_filter; assumption).
  rewrite filter_filter. apply filter_ext. intros x. apply andb_comm.
Qed.

(* ---- the ring buffer under sampleRing.add -------------------------------- *)

Lemma sorted_app_inv l1 l2 : sorted_ts (l1 ++ l2) ->
  sorted_ts l1 /\ sorted_ts l2 /\ forall x y, In x l1 -> In y l2 -> ts x < ts y.
Proof.
  induction l1 as [|a l1 IH]; intros Hs; simpl in *.
  - repeat split; auto. intros x y [].
  - pose proof (sorted_ts_tail _ _ Hs) as Hs'. pose proof (sorted_ts_lt _ _ Hs) as Hlt.
    rewrite Forall_forall in Hlt. destruct (IH Hs') as [S1 [S2 Hc]].
    repeat split; auto.
    + destruct l1 as [|b l1']; [exact I|].
      apply Hlt; simpl; auto.
    + intros x y [->|Hx] Hy; [apply Hlt; apply in_or_app; right; assumption|apply Hc; assumption].
Qed.

Lemma drop_lt_snoc theta pre s :
  (forall x, In x pre -> ts x < ts s) -> theta <= ts s -> drop_lt theta (pre ++ [s]) = drop_lt theta pre ++ [s].
Proof.
  intros Hp Ht. induction pre as [|x pre IH]; simpl.
  - destruct (Z.ltb_spec (ts s) theta); [lia|reflexivity].
  - destruct (Z.ltb_spec (ts x) theta); [apply IH; intros y Hy; apply Hp; right; assumption|reflexivity].
Qed.

Lemma drop_lt_max a b l : sorted_ts l -> drop_lt a (drop_lt b l) = drop_lt (Z.max a b) l.
Proof.
  intros Hs. destruct (Z.le_gt_cases a b).
  - rewrite Z.max_r by assumption. apply drop_lt_id.
    eapply Forall_impl; [|apply drop_lt_ge; assumption]. simpl. intros; lia.
  - rewrite Z.max_l by lia. apply drop_lt_mono; [assumption|lia].
Qed.

Lemma ring_add_shape d theta pre s :
  sorted_ts (pre ++ [s]) -> theta <= ts s -> 0 <= d ->
  ring_add d (drop_lt theta pre) s = drop_lt (Z.max (ts s - d) theta) (pre ++ [s]).
Proof.
  intros Hs Ht Hd. unfold ring_add.
  destruct (sorted_app_inv _ _ Hs) as [_ [_ Hc]].
  rewrite <- drop_lt_snoc; [|intros x Hx; apply Hc; [assumption|left; reflexivity]|assumption].
  apply drop_lt_max. assumption.
Qed.

(* ---- BufferedSeriesIterator: advance and seek ----------------------------- *)

Lemma bit_advance_spec t d : forall fuel pre x rest theta last,
  sorted_ts (pre ++ x :: rest) -> theta <= ts x -> ts x < t -> 0 <= d ->
  (length (x :: rest) <= fuel)%nat ->
  let b' := bit_advance fuel t (mkBit (x :: rest) last (drop_lt theta pre) d) in
  bcur b' = drop_lt t (x :: rest) /\ bdelta b' = d /\
  (forall y r, bcur b' = y :: r -> blast b' = Some (ts y)) /\
  exists theta', bbuf b' = drop_lt theta' (pre ++ take_lt t (x :: rest)) /\ theta' <= Z.max theta (t - d).
Proof.
  induction fuel as [|f IH]; intros pre x rest theta last Hs Hth Hx Hd Hf; [simpl in Hf; lia|].
  assert (Hsx : sorted_ts (pre ++ [x])).
  { replace (pre ++ x :: rest) with ((pre ++ [x]) ++ rest) in Hs by (rewrite <- app_assoc; reflexivity).
    apply sorted_app_inv in Hs. tauto. }
  cbv zeta. simpl bit_advance. unfold bit_next. simpl bcur. simpl bbuf. simpl bdelta.
  rewrite !(ring_add_shape d theta pre x Hsx Hth Hd).
  simpl take_lt. simpl drop_lt. destruct (Z.ltb_spec (ts x) t); [|lia].
  destruct rest as [|y rest'].
  - simpl. repeat split; auto; [intros; discriminate|].
    exists (Z.max (ts x - d) theta). split; [reflexivity|lia].
  - assert (Hxy : ts x < ts y).
    { apply sorted_app_inv in Hs. destruct Hs as [_ [Hs2 _]]. simpl in Hs2. tauto. }
    destruct (Z.geb_spec (ts y) t) as [Hge|Hlt].
    + simpl. destruct (Z.ltb_spec (ts y) t); [lia|]. simpl.
      repeat split; auto.
      * intros y0 r0 Heq. inversion Heq; subst. reflexivity.
      * exists (Z.max (ts x - d) theta). split; [reflexivity|lia].
    + assert (Hs' : sorted_ts ((pre ++ [x]) ++ y :: rest')) by (rewrite <- app_assoc; exact Hs).
      specialize (IH (pre ++ [x]) y rest' (Z.max (ts x - d) theta) (Some (ts y)) Hs' ltac:(lia) ltac:(lia) Hd).
      simpl in Hf. specialize (IH ltac:(simpl; lia)).
      destruct IH as [I1 [I2 [I3 [theta' [I4 I5]]]]].
      split; [exact I1|]. split; [exact I2|]. split; [exact I3|].
      exists theta'. split; [|lia].
      rewrite I4. rewrite <- app_assoc. reflexivity.
Qed.

(* the iterator's shape relative to the series: everything before the cursor
   position [c] is in the ring from the threshold [theta] on *)
Definition shaped (ss : list sample) (b : bit) (c theta : Z) : Prop :=
  bcur b = drop_lt c ss /\ bbuf b = drop_lt theta (take_lt c ss) /\ theta <= c /\
  (forall y r, bcur b = y :: r -> blast b = Some (ts y)).

Lemma cursor_move ss c M : sorted_ts ss -> c <= M ->
  Forall (fun y => M <= ts y) (drop_lt c ss) ->
  drop_lt M ss = drop_lt c ss /\ take_lt M ss = take_lt c ss.
Proof.
  intros Hs Hc Hall. split.
  - rewrite <- (drop_lt_mono M c ss Hs Hc). apply drop_lt_id. assumption.
  - rewrite (take_lt_mono M c ss Hs Hc). rewrite (take_lt_nil M _ Hall). apply app_nil_r.
Qed.

Lemma seek_tail ss b1 c theta M : sorted_ts ss -> shaped ss b1 c theta -> c <= M -> 0 <= bdelta b1 ->
  let b' := match bcur b1 with
            | [] => b1
            | _ => if blast_ge b1 M then b1 else bit_advance (length (bcur b1)) M b1
            end in
  bdelta b' = bdelta b1 /\ exists theta', shaped ss b' M theta' /\ theta' <= Z.max theta (M - bdelta b1).
Proof.
  intros Hs [Hcur [Hbuf [Hth Hlast]]] Hc Hd. cbv zeta.
  destruct b1 as [cur last buf d]. simpl in *.
  destruct cur as [|x rest].
  - split; [reflexivity|]. exists theta.
    destruct (cursor_move ss c M Hs Hc) as [E1 E2]; [rewrite <- Hcur; constructor|].
    split; [|lia]. unfold shaped; simpl. rewrite E1, E2. repeat split; auto; try lia; intros; discriminate.
  - specialize (Hlast x rest eq_refl). subst last. unfold blast_ge. cbn [blast bcur bdelta].
    assert (Hsc : sorted_ts (x :: rest)) by (rewrite Hcur; apply drop_lt_sorted; assumption).
    assert (Hcx : c <= ts x).
    { pose proof (drop_lt_ge c ss Hs) as Hg. rewrite <- Hcur in Hg. inversion Hg; subst. assumption. }
    destruct (Z.geb_spec (ts x) M) as [Hge|Hlt].
    + split; [reflexivity|]. exists theta.
      destruct (cursor_move ss c M Hs Hc) as [E1 E2].
      { rewrite <- Hcur. eapply Forall_impl; [|apply sorted_ts_Forall_ge; exact Hsc]. simpl. intros; lia. }
      split; [|lia]. unfold shaped; simpl. rewrite E1, E2. repeat split; auto; try lia.
      intros y r Heq. inversion Heq; subst. reflexivity.
    + assert (Hss : sorted_ts (take_lt c ss ++ x :: rest)) by (rewrite Hcur, take_drop_lt; assumption).
      pose proof (bit_advance_spec M d (length (x :: rest)) (take_lt c ss) x rest theta (Some (ts x))
                    Hss ltac:(lia) Hlt Hd (le_n _)) as Hadv.
      cbv zeta in Hadv. rewrite <- Hbuf in Hadv.
      destruct Hadv as [A1 [A2 [A3 [theta' [A4 A5]]]]].
      assert (E1 : drop_lt M (x :: rest) = drop_lt M ss) by (rewrite Hcur; apply drop_lt_mono; assumption).
      assert (E2 : take_lt c ss ++ take_lt M (x :: rest) = take_lt M ss)
        by (rewrite Hcur; symmetry; apply take_lt_mono; assumption).
      rewrite E1 in A1. rewrite E2 in A4.
      split; [exact A2|]. exists theta'. split; [|lia].
      unfold shaped. split; [exact A1|]. split; [exact A4|]. split; [lia|exact A3].
Qed.

Lemma drop_take_same t l : drop_lt t (take_lt t l) = [].
Proof.
  rewrite <- (app_nil_r (take_lt t l)). rewrite drop_lt_app_lt by apply take_lt_all. reflexivity.
Qed.

Lemma jump_shaped ss t0 last d :
  shaped ss (mkBit (drop_lt t0 ss) (match drop_lt t0 ss with y :: _ => Some (ts y) | [] => last end) [] d) t0 t0.
Proof.
  unfold shaped; simpl. split; [reflexivity|]. split; [symmetry; apply drop_take_same|]. split; [lia|].
  intros y r Hy. rewrite Hy. reflexivity.
Qed.

Lemma seek_shaped ss b c theta M : sorted_ts ss -> shaped ss b c theta -> c <= M -> 0 <= bdelta b ->
  bdelta (bit_seek b M) = bdelta b /\
  exists theta', shaped ss (bit_seek b M) M theta' /\ theta' <= Z.max theta (M - bdelta b).
Proof.
  intros Hs Hsh Hc Hd. pose proof Hsh as [Hcur [Hbuf [Hth Hlast]]].
  unfold bit_seek. destruct (bcur b) as [|x rest] eqn:Ecur.
  - cbv zeta. cbn iota. pose proof (seek_tail ss b c theta M Hs Hsh Hc Hd) as T. cbv zeta in T.
    rewrite Ecur in T. rewrite Ecur. exact T.
  - rewrite (Hlast x rest eq_refl). cbv zeta.
    destruct (Z.gtb_spec (M - bdelta b) (ts x)) as [Hj|Hnj].
    + assert (Hcx : c <= ts x).
      { pose proof (drop_lt_ge c ss Hs) as Hg. rewrite <- Hcur in Hg. inversion Hg; subst. assumption. }
      assert (E : drop_lt (M - bdelta b) (x :: rest) = drop_lt (M - bdelta b) ss)
        by (rewrite Hcur; apply drop_lt_mono; [assumption|lia]).
      rewrite E.
      pose proof (seek_tail ss _ (M - bdelta b) (M - bdelta b) M Hs
                    (jump_shaped ss (M - bdelta b) (Some (ts x)) (bdelta b)) ltac:(lia) Hd) as T.
      cbv zeta in T. cbn [bdelta bcur] in T. cbn [bcur bdelta].
      destruct T as [T1 [theta' [T2 T3]]]. split; [exact T1|]. exists theta'. split; [exact T2|lia].
    + pose proof (seek_tail ss b c theta M Hs Hsh Hc Hd) as T. cbv zeta in T.
      rewrite Ecur in T. rewrite Ecur. exact T.
Qed.

Lemma seek_first ss range M : sorted_ts ss -> 0 <= range ->
  bdelta (bit_seek (bit_reset ss range) M) = range /\
  exists theta', shaped ss (bit_seek (bit_reset ss range) M) M theta' /\ theta' <= M - range.
Proof.
  intros Hs Hr. unfold bit_seek, bit_reset. cbn [bcur blast bdelta].
  destruct ss as [|x rest].
  - cbn. split; [reflexivity|]. exists (M - range). split; [|lia].
    unfold shaped; simpl. repeat split; auto; try lia; intros; discriminate.
  - cbv zeta.
    pose proof (seek_tail (x :: rest) _ (M - range) (M - range) M Hs
                  (jump_shaped (x :: rest) (M - range) None range) ltac:(lia) Hr) as T.
    cbv zeta in T. cbn [bdelta bcur] in T. cbn [bcur bdelta].
    destruct T as [T1 [theta' [T2 T3]]]. split; [exact T1|]. exists theta'. split; [exact T2|lia].
Qed.

Lemma take_lt_sorted t l : sorted_ts l -> sorted_ts (take_lt t l).
Proof. intros Hs. rewrite take_lt_filter by assumption. apply sorted_filter. assumption. Qed.

Lemma drop_lt_In t l x : In x (drop_lt t l) -> In x l.
Proof. intros H. rewrite <- (take_drop_lt t l). apply in_or_app. right. assumption. Qed.

Lemma reduce_shaped ss b M theta d : sorted_ts ss -> shaped ss b M theta ->
  d <= bdelta b -> 0 <= d -> theta <= M - d ->
  bdelta (bit_reduce_delta b d) = d /\
  exists theta', shaped ss (bit_reduce_delta b d) M theta' /\ theta' <= M - d.
Proof.
  intros Hs [Hcur [Hbuf [Hth Hlast]]] Hd Hd0 Hthd. unfold bit_reduce_delta.
  destruct (Z.gtb_spec d (bdelta b)) as [Hgt|_]; [lia|]. cbn [bdelta]. split; [reflexivity|].
  destruct (rev (bbuf b)) as [|newest rb] eqn:Er.
  - exists theta. split; [|assumption]. unfold shaped; cbn [bcur bbuf blast].
    assert (bbuf b = []) as Eb by (rewrite <- (rev_involutive (bbuf b)), Er; reflexivity).
    rewrite <- Hbuf, Eb. repeat split; auto.
  - assert (Hin : In newest (bbuf b)) by (apply in_rev; rewrite Er; left; reflexivity).
    rewrite Hbuf in Hin. apply drop_lt_In in Hin.
    pose proof (take_lt_all M ss) as Hall. rewrite Forall_forall in Hall. specialize (Hall _ Hin).
    exists (Z.max (ts newest - d) theta). split; [|lia].
    unfold shaped; cbn [bcur bbuf blast]. split; [assumption|]. split; [|split; [lia|assumption]].
    rewrite Hbuf. apply drop_lt_max. apply take_lt_sorted. assumption.
Qed.

(* ---- the previous step's points ------------------------------------------ *)

Lemma last_point_t_cons p l :
  last_point_t (p :: l) = match last_point_t l with Some t => Some t | None => Some (fst p) end.
Proof.
  unfold last_point_t. cbn [rev].
  match goal with |- context [@rev ?A l] => destruct (@rev A l) as [|q r] end; reflexivity.
Qed.

Lemma last_point_t_In l t : last_point_t l = Some t -> exists v, In (t, v) l.
Proof.
  unfold last_point_t. intros H. pose proof (in_rev l) as Hr.
  match type of H with context [@rev ?A l] => destruct (@rev A l) as [|[t' v] r] eqn:Er end; [discriminate|].
  inversion H; subst. exists v. apply Hr. left. reflexivity.
Qed.

Lemma last_point_bound m0 M0 ss x v : sorted_ts ss -> In x ss -> sv x = Some v -> m0 <= ts x <= M0 ->
  exists lt, last_point_t (win_points m0 M0 ss) = Some lt /\ ts x <= lt.
Proof.
  induction ss as [|y rest IH]; intros Hs Hin Hv Hw; [destruct Hin|].
  pose proof (sorted_ts_tail _ _ Hs) as Hs'. pose proof (sorted_ts_lt _ _ Hs) as Hlt.
  rewrite Forall_forall in Hlt. simpl.
  destruct Hin as [->|Hin].
  - rewrite Hv. destruct (Z.leb_spec m0 (ts x)); [|lia]. destruct (Z.leb_spec (ts x) M0); [|lia]. simpl.
    rewrite last_point_t_cons. simpl.
    destruct (last_point_t (win_points m0 M0 rest)) as [t|] eqn:El.
    + exists t. split; [reflexivity|]. apply last_point_t_In in El. destruct El as [v' El].
      apply win_points_meaning in El. destruct El as [z [Hz [Htz _]]]. specialize (Hlt z Hz). lia.
    + exists (ts x). split; [reflexivity|lia].
  - destruct (IH Hs' Hin Hv Hw) as [lt [El Hle]]. exists lt. split; [|assumption].
    destruct (sv y) as [vy|]; [|assumption].
    destruct ((m0 <=? ts y) && (ts y <=? M0)); [|assumption].
    rewrite last_point_t_cons, El. reflexivity.
Qed.

Lemma last_point_in_window m0 M0 ss lt : last_point_t (win_points m0 M0 ss) = Some lt -> m0 <= lt <= M0.
Proof.
  intros H. apply last_point_t_In in H. destruct H as [v H]. apply win_points_meaning in H.
  destruct H as [x [_ [_ [_ Hw]]]]. exact Hw.
Qed.

Lemma win_points_lo_ext lo lo' hi l :
  Forall (fun z => lo <= ts z /\ lo' <= ts z) l -> win_points lo hi l = win_points lo' hi l.
Proof.
  induction 1 as [|z l [H1 H2] _ IH]; simpl; [reflexivity|].
  destruct (Z.leb_spec lo (ts z)); [|lia]. destruct (Z.leb_spec lo' (ts z)); [|lia]. simpl.
  rewrite IH. reflexivity.
Qed.

Lemma drop_points_win m0 M0 mint ss : sorted_ts ss -> m0 <= mint ->
  drop_points_lt mint (win_points m0 M0 ss) = win_points mint M0 ss.
Proof.
  intros Hs Hm. induction ss as [|y rest IH]; [reflexivity|].
  pose proof (sorted_ts_tail _ _ Hs) as Hs'. pose proof (sorted_ts_lt _ _ Hs) as Hlt.
  specialize (IH Hs'). simpl.
  destruct (sv y) as [vy|]; [|exact IH].
  destruct (Z.leb_spec m0 (ts y)) as [H1|H1]; destruct (Z.leb_spec (ts y) M0) as [H2|H2];
    destruct (Z.leb_spec mint (ts y)) as [H3|H3]; simpl; try exact IH; try lia.
  - destruct (Z.ltb_spec (ts y) mint); [lia|]. f_equal. apply win_points_lo_ext.
    eapply Forall_impl; [|exact Hlt]. simpl. intros; lia.
  - destruct (Z.ltb_spec (ts y) mint); [|lia]. exact IH.
Qed.

(* ---- splitting a filter of a sorted list at a time ------------------------ *)

Lemma filter_split_sorted (q : sample -> bool) k l : sorted_ts l ->
  filter q l = filter (fun x => q x && (ts x <? k)) l ++ filter (fun x => q x && (k <=? ts x)) l.
Proof.
  induction l as [|x l IH]; intros Hs; [reflexivity|].
  pose proof (sorted_ts_tail _ _ Hs) as Hs'. pose proof (sorted_ts_lt _ _ Hs) as Hlt.
  rewrite Forall_forall in Hlt. specialize (IH Hs'). simpl.
  destruct (Z.ltb_spec (ts x) k) as [Hx|Hx]; destruct (Z.leb_spec k (ts x)) as [Hx'|Hx']; try lia.
  - rewrite !andb_true_r, andb_false_r. destruct (q x); simpl; rewrite IH; reflexivity.
  - rewrite andb_false_r, andb_true_r.
    assert (E1 : filter (fun y => q y && (ts y <? k)) l = []).
    { apply filter_nil_of_none. intros y Hy. specialize (Hlt y Hy).
      destruct (Z.ltb_spec (ts y) k); [lia|]. apply andb_false_r. }
    assert (E2 : filter (fun y => q y && (k <=? ts y)) l = filter q l).
    { apply filter_ext_in. intros y Hy. specialize (Hlt y Hy).
      destruct (Z.leb_spec k (ts y)); [apply andb_true_r|lia]. }
    rewrite E1, E2. reflexivity.
Qed.

(* the sample at the cursor *)
Lemma pts_at_cursor M ss : sorted_ts ss ->
  pts (filter (fun x => ts x =? M) ss) =
  match drop_lt M ss with
  | x :: _ => match sv x with Some v => if ts x =? M then [(ts x, v)] else [] | None => [] end
  | [] => []
  end.
Proof.
  intros Hs. rewrite <- (take_drop_lt M ss) at 1. rewrite filter_app, pts_app.
  assert (E1 : filter (fun x => ts x =? M) (take_lt M ss) = []).
  { apply filter_nil_of_none. intros y Hy. pose proof (take_lt_all M ss) as Ha.
    rewrite Forall_forall in Ha. specialize (Ha y Hy). destruct (Z.eqb_spec (ts y) M); [lia|reflexivity]. }
  rewrite E1. simpl.
  pose proof (drop_lt_sorted M ss Hs) as Hsd. pose proof (drop_lt_ge M ss Hs) as Hge.
  destruct (drop_lt M ss) as [|x rest]; [reflexivity|].
  pose proof (sorted_ts_lt _ _ Hsd) as Hlt. rewrite Forall_forall in Hlt.
  inversion Hge; subst.
  assert (E2 : filter (fun x => ts x =? M) rest = []).
  { apply filter_nil_of_none. intros y Hy. specialize (Hlt y Hy). destruct (Z.eqb_spec (ts y) M); [lia|reflexivity]. }
  simpl. rewrite E2. destruct (Z.eqb_spec (ts x) M); simpl.
  - destruct (sv x); reflexivity.
  - destruct (sv x); reflexivity.
Qed.

(* ---- scan.selectPoints ---------------------------------------------------- *)

Definition assemble (b' : bit) (mint maxt : Z) (out : list point) : list point :=
  let '(out1, mint1) :=
    match last_point_t out with
    | Some lt => if lt >=? mint then (drop_points_lt mint out, lt + 1) else ([], mint)
    | None => ([], mint)
    end in
  let out2 := out1 ++ ring_points mint1 (bbuf b') in
  match bcur b' with
  | x :: _ => match sv x with
              | Some v => if ts x =? maxt then out2 ++ [(ts x, v)] else out2
              | None => out2
              end
  | [] => out2
  end.

Lemma select_points_unfold b mint maxt out :
  select_points b mint maxt out = (bit_seek b maxt, assemble (bit_seek b maxt) mint maxt out).
Proof.
  unfold select_points, assemble.
  destruct (last_point_t out) as [lt|]; [destruct (lt >=? mint)|]; reflexivity.
Qed.

Ltac bool_lia :=
  apply Bool.eq_iff_eq_true;
  rewrite ?andb_true_iff, ?Z.leb_le, ?Z.ltb_lt, ?Z.eqb_eq; lia.

Lemma assemble_spec ss b' M theta' mint m0 M0 :
  sorted_ts ss -> shaped ss b' M theta' -> m0 <= mint -> M0 < M -> mint <= M ->
  theta' <= Z.max M0 mint ->
  assemble b' mint M (win_points m0 M0 ss) = win_points mint M ss.
Proof.
  intros Hs [Hcur [Hbuf [Hth Hlast]]] Hm HM HmM Hbound.
  (* the target, split at the cursor *)
  rewrite (win_points_filter mint M ss).
  rewrite (filter_split_sorted (inwin mint M) M ss Hs), pts_app.
  assert (Ecur : pts (filter (fun x => inwin mint M x && (M <=? ts x)) ss) =
                 match bcur b' with
                 | x :: _ => match sv x with Some v => if ts x =? M then [(ts x, v)] else [] | None => [] end
                 | [] => []
                 end).
  { rewrite Hcur, <- pts_at_cursor by assumption. apply pts_filter_ext.
    intros x _ _. unfold inwin. bool_lia. }
  rewrite Ecur.
  (* the ring *)
  assert (Ering : forall lo, ring_points lo (bbuf b') =
                  pts (filter (fun x => ((theta' <=? ts x) && (ts x <? M)) && (lo <=? ts x)) ss)).
  { intros lo. rewrite ring_points_filter, Hbuf, ring_shape by assumption. rewrite filter_filter. reflexivity. }
  (* what the previous window says about the samples *)
  assert (Hprev : forall x, In x ss -> sv x <> None -> m0 <= ts x <= M0 ->
                  exists lt, last_point_t (win_points m0 M0 ss) = Some lt /\ ts x <= lt).
  { intros x Hx Hv Hw. destruct (sv x) as [v|] eqn:Ev; [|congruence]. eapply last_point_bound; eauto. }
  unfold assemble.
  assert (Hout2 : (let '(out1, mint1) :=
                     match last_point_t (win_points m0 M0 ss) with
                     | Some lt => if lt >=? mint then (drop_points_lt mint (win_points m0 M0 ss), lt + 1) else ([], mint)
                     | None => ([], mint)
                     end in out1 ++ ring_points mint1 (bbuf b')) =
                  pts (filter (fun x => inwin mint M x && (ts x <? M)) ss)).
  { destruct (last_point_t (win_points m0 M0 ss)) as [lt|] eqn:El.
    - pose proof (last_point_in_window _ _ _ _ El) as Hlt.
      destruct (Z.geb_spec lt mint) as [Hge|Hltm].
      + rewrite drop_points_win by assumption. rewrite win_points_filter, Ering.
        rewrite (filter_split_sorted (fun x => inwin mint M x && (ts x <? M)) (M0 + 1) ss Hs), pts_app.
        f_equal; apply pts_filter_ext; intros x Hx Hv; unfold inwin.
        * bool_lia.
        * assert (Hp : m0 <= ts x <= M0 -> ts x <= lt).
          { intros Hw. destruct (Hprev x Hx Hv Hw) as [lt' [E' Hle]]. congruence. }
          bool_lia.
      + simpl. rewrite Ering. apply pts_filter_ext; intros x Hx Hv; unfold inwin.
        assert (Hp : m0 <= ts x <= M0 -> ts x <= lt).
        { intros Hw. destruct (Hprev x Hx Hv Hw) as [lt' [E' Hle]]. congruence. }
        bool_lia.
    - simpl. rewrite Ering. apply pts_filter_ext; intros x Hx Hv; unfold inwin.
      assert (Hp : m0 <= ts x <= M0 -> False).
      { intros Hw. destruct (Hprev x Hx Hv Hw) as [lt' [E' Hle]]. congruence. }
      bool_lia. }
  destruct (match last_point_t (win_points m0 M0 ss) with
            | Some lt => if lt >=? mint then (drop_points_lt mint (win_points m0 M0 ss), lt + 1) else ([], mint)
            | None => ([], mint)
            end) as [out1 mint1].
  cbv zeta. rewrite Hout2.
  destruct (bcur b') as [|x r]; [rewrite app_nil_r; reflexivity|].
  destruct (sv x) as [v|]; [|rewrite app_nil_r; reflexivity].
  destruct (ts x =? M); [reflexivity|rewrite app_nil_r; reflexivity].
Qed.

(* ---- matrixSelector.Next over the step grid -------------------------------- *)

Lemma win_points_empty lo hi ss : hi < lo -> win_points lo hi ss = [].
Proof.
  intros H. induction ss as [|x ss IH]; simpl; [reflexivity|].
  destruct (sv x); [|exact IH].
  destruct (Z.leb_spec lo (ts x)); destruct (Z.leb_spec (ts x) hi); simpl; try exact IH; lia.
Qed.

Definition step_delta (range step : Z) : Z := if range >? step then step else range.

(* the scanner's state after the step whose window ends at M0 *)
Definition scan_inv (ss : list sample) (range step M0 : Z) (s : mscan) : Prop :=
  exists theta, shaped ss (ms_it s) M0 theta /\ theta <= M0 - step_delta range step /\
                bdelta (ms_it s) = step_delta range step /\
                ms_prev s = win_points (M0 - range) M0 ss.

Lemma step_delta_cases range step : 0 <= range -> 0 < step ->
  0 <= step_delta range step /\ step_delta range step <= range /\ step_delta range step <= step /\
  (step_delta range step = range \/ step_delta range step = step).
Proof. intros Hr Hst. unfold step_delta. destruct (Z.gtb_spec range step); lia. Qed.

Lemma ms_step_first ss range off step t : sorted_ts ss -> 0 <= range -> 0 < step ->
  snd (ms_step range off step (ms_reset ss range) t) = window_at range off ss t /\
  scan_inv ss range step (t - off) (fst (ms_step range off step (ms_reset ss range) t)).
Proof.
  intros Hs Hr Hst. unfold ms_step, ms_reset. cbn [ms_it ms_prev].
  rewrite select_points_unfold. cbn [fst snd]. fold (step_delta range step).
  destruct (step_delta_cases range step Hr Hst) as [D0 [D1 [D2 D3]]].
  destruct (seek_first ss range (t - off) Hs Hr) as [Hdel [theta' [Hsh Hth]]].
  assert (Hout : assemble (bit_seek (bit_reset ss range) (t - off)) (t - off - range) (t - off) [] =
                 win_points (t - off - range) (t - off) ss).
  { rewrite <- (win_points_empty (t - off - range) (t - off - range - 1) ss) at 1 by lia.
    eapply assemble_spec; eauto; lia. }
  rewrite Hout. split; [reflexivity|].
  destruct (reduce_shaped ss _ (t - off) theta' (step_delta range step) Hs Hsh ltac:(lia) D0 ltac:(lia))
    as [Hd' [theta'' [Hsh' Hth']]].
  exists theta''. cbn [ms_it ms_prev]. repeat split; try apply Hsh'; assumption.
Qed.

Lemma ms_step_next ss range off step s t : sorted_ts ss -> 0 <= range -> 0 < step ->
  scan_inv ss range step (t - step - off) s ->
  snd (ms_step range off step s t) = window_at range off ss t /\
  scan_inv ss range step (t - off) (fst (ms_step range off step s t)).
Proof.
  intros Hs Hr Hst [theta [Hsh [Hth [Hdel Hprev]]]]. unfold ms_step.
  rewrite select_points_unfold. cbn [fst snd]. fold (step_delta range step).
  destruct (step_delta_cases range step Hr Hst) as [D0 [D1 [D2 D3]]].
  destruct (seek_shaped ss (ms_it s) (t - step - off) theta (t - off) Hs Hsh ltac:(lia) ltac:(lia))
    as [Hdel' [theta' [Hsh' Hth']]].
  rewrite Hdel in Hth', Hdel'.
  assert (Hout : assemble (bit_seek (ms_it s) (t - off)) (t - off - range) (t - off) (ms_prev s) =
                 win_points (t - off - range) (t - off) ss).
  { rewrite Hprev. eapply assemble_spec; eauto; lia. }
  rewrite Hout. split; [reflexivity|].
  destruct (reduce_shaped ss _ (t - off) theta' (step_delta range step) Hs Hsh' ltac:(lia) D0 ltac:(lia))
    as [Hd'' [theta'' [Hsh'' Hth'']]].
  exists theta''. cbn [ms_it ms_prev]. repeat split; try apply Hsh''; assumption.
Qed.

Fixpoint zgrid (t step : Z) (n : nat) : list Z :=
  match n with O => [] | S k => t :: zgrid (t + step) step k end.

Lemma zgrid_map t step n : zgrid t step n = map (fun k => t + Z.of_nat k * step) (seq 0 n).
Proof.
  revert t. induction n as [|n IH]; intros t; [reflexivity|]. simpl zgrid. rewrite IH.
  cbn [seq map]. f_equal; [lia|]. rewrite <- seq_shift, map_map. apply map_ext. intros k. lia.
Qed.

Lemma ms_scan_from_inv ss range off step : sorted_ts ss -> 0 <= range -> 0 < step ->
  forall n s t, scan_inv ss range step (t - step - off) s ->
  snd (ms_scan range off step s (zgrid t step n)) = map (window_at range off ss) (zgrid t step n).
Proof.
  intros Hs Hr Hst. induction n as [|n IH]; intros s t Hinv; [reflexivity|].
  cbn [zgrid ms_scan map].
  destruct (ms_step_next ss range off step s t Hs Hr Hst Hinv) as [Hw Hinv'].
  destruct (ms_step range off step s t) as [s1 w] eqn:E1. cbn [fst snd] in Hw, Hinv'.
  specialize (IH s1 (t + step)). replace (t + step - step - off) with (t - off) in IH by lia.
  specialize (IH Hinv').
  destruct (ms_scan range off step s1 (zgrid (t + step) step n)) as [s2 ws]. cbn [snd] in *.
  rewrite Hw, IH. reflexivity.
Qed.

(* the windows handed to the range function at every step of the grid are
   exactly the specification windows, for every sample layout, range, offset,
   step and number of steps *)
Theorem ms_scan_windows ss range off step t0 n : sorted_ts ss -> 0 <= range -> 0 < step ->
  snd (ms_scan range off step (ms_reset ss range) (zgrid t0 step n)) =
  map (window_at range off ss) (zgrid t0 step n).
Proof.
  intros Hs Hr Hst. destruct n as [|n]; [reflexivity|].
  cbn [zgrid ms_scan map].
  destruct (ms_step_first ss range off step t0 Hs Hr Hst) as [Hw Hinv].
  destruct (ms_step range off step (ms_reset ss range) t0) as [s1 w] eqn:E1. cbn [fst snd] in Hw, Hinv.
  pose proof (ms_scan_from_inv ss range off step Hs Hr Hst n s1 (t0 + step)) as Hrest.
  replace (t0 + step - step - off) with (t0 - off) in Hrest by lia. specialize (Hrest Hinv).
  destruct (ms_scan range off step s1 (zgrid (t0 + step) step n)) as [s2 ws]. cbn [snd] in *.
  rewrite Hw, Hrest. reflexivity.
Qed.
