(* C10 for whole distributed plans: the reference value of an operator tree is a congruence for
   "same labelled samples" - joins, per-sample operators, aggregations, topk, coalesce, remote
   execution and step-invariant wrappers map permuted operand values to permuted results (and fail
   together) - so replacing, anywhere in a tree, an expression over the union of the partitions by
   the distributed optimizer's form of it (DistTree.v) leaves the reference value unchanged; with
   Trees.jtree_matches_reference on both plans, the central and the distributed engine return the
   same labelled samples at every step. *)
From Coq Require Import List ZArith NArith Bool Lia Permutation.
From Verif Require Import Base Grid Select SelectProofs Shard Exec Compose StreamWF Range MatrixRun Agg AggProofs Func Bin BinProofs
                          EndToEnd AggEnd Remote Trees DistTree.
From Verif Require Import DistGroup.
Import ListNotations.
Open Scope Z_scope.

Definition oequiv (a b : option (list (labels * Z))) : Prop :=
  match a, b with
  | Some x, Some y => Permutation x y
  | None, None => True
  | _, _ => False
  end.

Lemma oequiv_refl a : oequiv a a.
Proof. destruct a; simpl; auto. Qed.

Lemma oequiv_sym a b : oequiv a b -> oequiv b a.
Proof. destruct a, b; simpl; auto. apply Permutation_sym. Qed.

Lemma oequiv_trans a b c : oequiv a b -> oequiv b c -> oequiv a c.
Proof. destruct a, b, c; simpl; try tauto. apply Permutation_trans. Qed.

(* two trees have the same reference value at every timestamp *)
Definition requiv (lb : Z) (t t' : jtree) : Prop := forall ts, oequiv (jref lb t ts) (jref lb t' ts).

(* ---- the reference operators on permuted operands ------------------------------------------- *)

Lemma flat_map_perm {A B} (f : A -> list B) l l' : Permutation l l' -> Permutation (flat_map f l) (flat_map f l').
Proof. apply Permutation_flat_map. Qed.

Lemma filter_perm {A} (p : A -> bool) l l' : Permutation l l' -> Permutation (filter p l) (filter p l').
Proof. apply Permutation_filter'. Qed.

Section AggPerm.
  Variables (init : Z -> Z) (add : Z -> Z -> Z).
  Hypothesis comm_start : forall a b, add (init a) b = add (init b) a.
  Hypothesis right_comm : forall x a b, add (add x a) b = add (add x b) a.
  Variable without : bool.
  Variable grouping : list N.

  Notation key := (fun mv : labels * Z => group_labels without grouping (fst mv)).
  Notation haskey k := (fun mv : labels * Z => if labels_dec (group_labels without grouping (fst mv)) k then true else false).

  Lemma ref_agg_in X k v :
    In (k, v) (ref_agg init add without grouping X) <->
    In k (map key X) /\ agg_fold init add (map snd (filter (haskey k) X)) = Some v.
  Proof.
    unfold ref_agg. cbv zeta. rewrite in_flat_map. split.
    - intros [k' [Hk' Hin]]. apply nodup_In in Hk'.
      destruct (agg_fold init add _) as [r|] eqn:E; [|destruct Hin]. destruct Hin as [Heq|[]]. inversion Heq; subst. split; assumption.
    - intros [Hk E]. exists k. split; [apply nodup_In; assumption|]. rewrite E. left. reflexivity.
  Qed.

  Lemma ref_agg_perm A B : Permutation A B ->
    Permutation (ref_agg init add without grouping A) (ref_agg init add without grouping B).
  Proof.
    intros P. apply NoDup_Permutation.
    - apply (NoDup_map_inv fst). apply ref_agg_keys_nodup.
    - apply (NoDup_map_inv fst). apply ref_agg_keys_nodup.
    - intros [k v]. rewrite !ref_agg_in.
      assert (E : agg_fold init add (map snd (filter (haskey k) A)) = agg_fold init add (map snd (filter (haskey k) B))).
      { apply (agg_fold_perm init add comm_start right_comm). apply Permutation_map. apply filter_perm. exact P. }
      rewrite E. split; intros [Hk Hv]; (split; [|exact Hv]).
      + apply (Permutation_in _ (Permutation_map key P)). exact Hk.
      + apply (Permutation_in _ (Permutation_sym (Permutation_map key P))). exact Hk.
  Qed.
End AggPerm.

Lemma count_occ_perm' (l l' : list labels) k : Permutation l l' -> count_occ labels_dec l k = count_occ labels_dec l' k.
Proof. apply count_occ_perm. Qed.

Lemma ref_count_perm conv without grouping (A B : list (labels * Z)) : Permutation A B ->
  Permutation (rcount conv without grouping A) (rcount conv without grouping B).
Proof.
  intros P. unfold rcount.
  set (pa := map (fun mv : labels * Z => group_labels without grouping (fst mv)) A).
  set (pb := map (fun mv : labels * Z => group_labels without grouping (fst mv)) B).
  assert (Pp : Permutation pa pb) by (apply Permutation_map; exact P).
  apply NoDup_Permutation.
  - apply (NoDup_map_inv fst). rewrite map_map. simpl. rewrite map_id. apply NoDup_nodup.
  - apply (NoDup_map_inv fst). rewrite map_map. simpl. rewrite map_id. apply NoDup_nodup.
  - intros [k v]. rewrite !in_map_iff. split.
    + intros [k' [E Hk]]. inversion E; subst. exists k. split; [rewrite (count_occ_perm' _ _ k Pp); reflexivity|].
      apply nodup_In. apply nodup_In in Hk. apply (Permutation_in _ Pp). exact Hk.
    + intros [k' [E Hk]]. inversion E; subst. exists k. split; [rewrite (count_occ_perm' _ _ k Pp); reflexivity|].
      apply nodup_In. apply nodup_In in Hk. apply (Permutation_in _ (Permutation_sym Pp)). exact Hk.
Qed.

Lemma nodupb_perm l l' : Permutation l l' -> nodupb l = nodupb l'.
Proof.
  intros P. destruct (nodupb l) eqn:E, (nodupb l') eqn:E'; try reflexivity.
  - apply nodupb_spec in E. apply (Permutation_NoDup P) in E. apply nodupb_spec in E. congruence.
  - apply nodupb_spec in E'. apply (Permutation_NoDup (Permutation_sym P)) in E'. apply nodupb_spec in E'. congruence.
Qed.

Lemma ties_free_perm without grouping (A B : list (labels * Z)) : Permutation A B ->
  ties_free without grouping A = ties_free without grouping B.
Proof.
  intros P.
  assert (G : forall X Y, Permutation X Y -> ties_free without grouping X = true -> ties_free without grouping Y = true).
  { intros X Y Pxy H. unfold ties_free in *. rewrite forallb_forall in *. intros k Hk.
    apply nodup_In in Hk. apply (Permutation_in _ (Permutation_sym (Permutation_map (tkey without grouping) Pxy))) in Hk.
    rewrite <- (nodupb_perm _ _ (Permutation_map snd (filter_perm (has_key without grouping k) _ _ Pxy))).
    apply H. apply nodup_In. exact Hk. }
  destruct (ties_free without grouping A) eqn:Ea, (ties_free without grouping B) eqn:Eb; try reflexivity.
  - rewrite (G A B P Ea) in Eb. discriminate.
  - rewrite (G B A (Permutation_sym P) Eb) in Ea. discriminate.
Qed.

Lemma ref_topk_perm bottom k without grouping (A B : list (labels * Z)) : Permutation A B ->
  oequiv (ref_topk bottom k without grouping A) (ref_topk bottom k without grouping B).
Proof.
  intros P. unfold ref_topk. rewrite (ties_free_perm without grouping A B P).
  destruct (ties_free without grouping B); simpl; [|exact I]. apply ref_keep_filter_perm. exact P.
Qed.

(* the reference's binary operator: succeeds on permuted operands iff it succeeded, with a permuted result *)
Lemma ref_step_oequiv (p : jparams) (L L' R R' : list (labels * Z)) : Permutation L L' -> Permutation R R' ->
  let step := ref_step Z (jp_op p) (jp_b2v p) (the_sig (jp_on p) (jp_ml p))
                       (ref_result_metric (jp_drops p) (jp_bool p) (jp_card p) (jp_on p) (jp_ml p) (jp_incl p))
                       (jp_card p) (jp_bool p) in
  oequiv (step L R) (step L' R').
Proof.
  intros PL PR step.
  destruct (step L R) as [o|] eqn:E.
  - destruct (ref_step_permutation Z (jp_op p) (jp_b2v p) _ _ (jp_card p) (jp_bool p) L R L' R' o PL PR E) as [o' [E' Po]].
    unfold step. rewrite E'. exact Po.
  - destruct (step L' R') as [o'|] eqn:E'; [|exact I].
    destruct (ref_step_permutation Z (jp_op p) (jp_b2v p) _ _ (jp_card p) (jp_bool p) L' R' L R o'
                (Permutation_sym PL) (Permutation_sym PR) E') as [o [Eo _]].
    unfold step in E. rewrite Eo in E. discriminate.
Qed.

Lemma combine_map_r {A B C} (g : B -> C) (l : list A) (r : list B) :
  combine l (map g r) = map (fun p => (fst p, g (snd p))) (combine l r).
Proof. revert r. induction l as [|a l IH]; intros [|b r]; simpl; try reflexivity. rewrite IH. reflexivity. Qed.

Lemma combine_map_l {A B C} (g : A -> C) (l : list A) (r : list B) :
  combine (map g l) r = map (fun p => (g (fst p), snd p)) (combine l r).
Proof. revert r. induction l as [|a l IH]; intros [|b r]; simpl; try reflexivity. rewrite IH. reflexivity. Qed.

(* the labelled samples of a per-series step are a function of the (labels, samples) pairs *)
Lemma present_as_flat_map (h : labels -> labels) (g : list sample -> option Z) (ls : list labels) (sers : list (list sample)) :
  present_with_labels (map h ls) (map g sers) =
  flat_map (fun p : labels * list sample => match g (snd p) with Some v => [(h (fst p), v)] | None => [] end) (combine ls sers).
Proof.
  unfold present_with_labels. rewrite combine_map_r, combine_map_l, map_map. simpl.
  induction (combine ls sers) as [|p l IH]; simpl; [reflexivity|]. rewrite IH. reflexivity.
Qed.

(* ---- the congruence ---------------------------------------------------------------------- *)

(* the plans the distributed optimizer derives from a central plan: the same operators above
   distributed forms of per-series expressions and of sum/max/min/count/group aggregations of them *)
Inductive jsim : jtree -> jtree -> Prop :=
| sim_refl t : jsim t t
(* the storage returns the selected series in another order *)
| sim_leaf_order ls sers ls' sers' off pin :
    length ls = length sers -> length ls' = length sers' -> Permutation (combine ls sers) (combine ls' sers') ->
    jsim (JLeaf ls sers off pin) (JLeaf ls' sers' off pin)
| sim_range_order keep fn range ls sers ls' sers' off pin :
    length ls = length sers -> length ls' = length sers' -> Permutation (combine ls sers) (combine ls' sers') ->
    jsim (JRange keep fn range ls sers off pin) (JRange keep fn range ls' sers' off pin)
| sim_expr s p ps : sok s -> part_ok p -> Forall part_ok ps ->
    jsim (inst s (concat (map fst (p :: ps))) (concat (map snd (p :: ps))))
         (jcoalesce (JRemote (inst s (fst p) (snd p))) (map (fun q => JRemote (inst s (fst q) (snd q))) ps))
| sim_agg add without grouping s p ps :
    (forall a b c, add (add a b) c = add a (add b c)) -> (forall a b, add a b = add b a) ->
    sok s -> part_ok p -> Forall part_ok ps ->
    jsim (JAgg (fun v => v) add without grouping (inst s (concat (map fst (p :: ps))) (concat (map snd (p :: ps)))))
         (JAgg (fun v => v) add without grouping
               (jcoalesce (remote_of add without grouping s p) (map (remote_of add without grouping s) ps)))
| sim_count conv without grouping s p ps :
    (forall a b, conv (a + b)%nat = conv a + conv b) -> sok s -> part_ok p -> Forall part_ok ps ->
    jsim (JCount conv without grouping (inst s (concat (map fst (p :: ps))) (concat (map snd (p :: ps)))))
         (JAgg (fun v => v) Z.add without grouping
               (jcoalesce (JRemote (JCount conv without grouping (inst s (fst p) (snd p))))
                          (map (fun q => JRemote (JCount conv without grouping (inst s (fst q) (snd q)))) ps)))
| sim_group c without grouping s p ps : sok s -> part_ok p -> Forall part_ok ps ->
    jsim (JAgg (fun _ => c) (fun a _ => a) without grouping (inst s (concat (map fst (p :: ps))) (concat (map snd (p :: ps)))))
         (JAgg (fun _ => c) (fun a _ => a) without grouping
               (jcoalesce (remote_group_of c without grouping s p) (map (remote_group_of c without grouping s) ps)))
| sim_map drops f t t' : jsim t t' -> jsim (JMap drops f t) (JMap drops f t')
| sim_join p l l' r r' : jsim l l' -> jsim r r' -> jsim (JJoin p l r) (JJoin p l' r')
| sim_aggc init add without grouping t t' :
    (forall a b, add (init a) b = add (init b) a) -> (forall x a b, add (add x a) b = add (add x b) a) ->
    jsim t t' -> jsim (JAgg init add without grouping t) (JAgg init add without grouping t')
| sim_countc conv without grouping t t' : jsim t t' -> jsim (JCount conv without grouping t) (JCount conv without grouping t')
| sim_topkc bottom k without grouping t t' : jsim t t' -> jsim (JTopk bottom k without grouping t) (JTopk bottom k without grouping t')
| sim_invc t t' : jsim t t' -> jsim (JInvariant t) (JInvariant t')
| sim_concatc l l' r r' : jsim l l' -> jsim r r' -> jsim (JConcat l r) (JConcat l' r')
| sim_remotec t t' : jsim t t' -> jsim (JRemote t) (JRemote t').

Lemma jref_coalesce_expr lb s p ps ts :
  jref lb (jcoalesce (JRemote (inst s (fst p) (snd p))) (map (fun q => JRemote (inst s (fst q) (snd q))) ps)) ts =
  Some (concat (map (fun q => pref lb s (fst q) (snd q) ts) (p :: ps))).
Proof.
  revert p. induction ps as [|q ps IH]; intros p.
  - cbn [map jcoalesce concat jref]. rewrite jref_inst, app_nil_r. reflexivity.
  - cbn [map jcoalesce]. cbn [jref]. rewrite jref_inst.
    change (jref lb (jcoalesce (JRemote (inst s (fst q) (snd q))) (map (fun q0 => JRemote (inst s (fst q0) (snd q0))) ps)) ts)
      with (jref lb (jcoalesce (JRemote (inst s (fst q) (snd q))) (map (fun q0 => JRemote (inst s (fst q0) (snd q0))) ps)) ts).
    rewrite (IH q). reflexivity.
Qed.

Lemma jref_coalesce_count lb conv without grouping s p ps ts :
  jref lb (jcoalesce (JRemote (JCount conv without grouping (inst s (fst p) (snd p))))
                     (map (fun q => JRemote (JCount conv without grouping (inst s (fst q) (snd q)))) ps)) ts =
  Some (concat (map (fun q => rcount conv without grouping (pref lb s (fst q) (snd q) ts)) (p :: ps))).
Proof.
  revert p. induction ps as [|q ps IH]; intros p.
  - cbn [map jcoalesce concat jref]. rewrite jref_inst, app_nil_r. reflexivity.
  - cbn [map jcoalesce]. cbn [jref]. rewrite jref_inst.
    change (jref lb (jcoalesce (JRemote (JCount conv without grouping (inst s (fst q) (snd q))))
                               (map (fun q0 => JRemote (JCount conv without grouping (inst s (fst q0) (snd q0)))) ps)) ts)
      with (jref lb (jcoalesce (JRemote (JCount conv without grouping (inst s (fst q) (snd q))))
                               (map (fun q0 => JRemote (JCount conv without grouping (inst s (fst q0) (snd q0)))) ps)) ts).
    rewrite (IH q). reflexivity.
Qed.

Theorem jsim_requiv lb t t' : jsim t t' -> requiv lb t t'.
Proof.
  induction 1 as [t|ls sers ls' sers' off pin Hl Hl' Pc|keep fn range ls sers ls' sers' off pin Hl Hl' Pc|s p ps Hs Hp Hps|add without grouping s p ps Ha Hc Hs Hp Hps|conv without grouping s p ps Hconv Hs Hp Hps|c without grouping s p ps Hs Hp Hps|drops f t t' _ IH|p l l' r r' _ IHl _ IHr
                 |init add without grouping t t' L1 L2 _ IH|conv without grouping t t' _ IH|bottom k without grouping t t' _ IH
                 |t t' _ IH|l l' r r' _ IHl _ IHr|t t' _ IH]; intros ts.
  - apply oequiv_refl.
  - cbn [jref oequiv]. unfold labelled, vec_of, select_step.
    rewrite !labelled_stepvec by (rewrite map_length; assumption).
    rewrite <- (map_id ls), <- (map_id ls'), !present_as_flat_map. apply flat_map_perm. exact Pc.
  - cbn [jref oequiv]. rewrite !present_as_flat_map. apply flat_map_perm. exact Pc.
  - rewrite jref_inst, jref_coalesce_expr. unfold oequiv.
    rewrite (pref_concat s Hs lb (p :: ps) ts (Forall_cons p Hp Hps)). apply Permutation_refl.
  - destruct (laws add Ha Hc) as [L1 L2].
    cbn [jref]. rewrite jref_inst, (jref_coalesce add without grouping s lb p ps ts).
    rewrite (pref_concat s Hs lb (p :: ps) ts (Forall_cons p Hp Hps)). unfold oequiv.
    rewrite <- (map_map (fun q => pref lb s (fst q) (snd q) ts) (fun X => ref_agg (fun v => v) add without grouping X)).
    apply (ref_agg_distributes_list add Ha).
  - cbn [jref]. rewrite jref_inst, jref_coalesce_count.
    rewrite (pref_concat s Hs lb (p :: ps) ts (Forall_cons p Hp Hps)). unfold oequiv.
    rewrite <- (map_map (fun q => pref lb s (fst q) (snd q) ts) (fun X => rcount conv without grouping X)).
    apply (count_distributes_list conv Hconv).
  - cbn [jref]. rewrite jref_inst, (jref_coalesce_group c without grouping s lb p ps ts).
    rewrite (pref_concat s Hs lb (p :: ps) ts (Forall_cons p Hp Hps)). unfold oequiv.
    rewrite <- (map_map (fun q => pref lb s (fst q) (snd q) ts) (fun X => ref_agg (fun _ => c) (fun a _ => a) without grouping X)).
    apply (group_distributes_list c).
  - specialize (IH ts). cbn [jref]. destruct (jref lb t ts), (jref lb t' ts); simpl in *; try tauto. apply flat_map_perm. exact IH.
  - specialize (IHl ts). specialize (IHr ts). cbn [jref].
    destruct (jref lb l ts) as [L|], (jref lb l' ts) as [L'|]; simpl in IHl; try tauto;
      destruct (jref lb r ts) as [R|], (jref lb r' ts) as [R'|]; simpl in IHr; try tauto; try exact I.
    apply ref_step_oequiv; assumption.
  - specialize (IH ts). cbn [jref]. destruct (jref lb t ts), (jref lb t' ts); simpl in *; try tauto.
    apply ref_agg_perm; assumption.
  - specialize (IH ts). cbn [jref]. destruct (jref lb t ts), (jref lb t' ts); simpl in *; try tauto.
    apply (ref_count_perm conv without grouping). exact IH.
  - specialize (IH ts). cbn [jref]. destruct (jref lb t ts), (jref lb t' ts); simpl in *; try tauto.
    apply ref_topk_perm. exact IH.
  - exact (IH ts).
  - specialize (IHl ts). specialize (IHr ts). cbn [jref].
    destruct (jref lb l ts), (jref lb l' ts); simpl in IHl; try tauto; destruct (jref lb r ts), (jref lb r' ts); simpl in IHr; try tauto; try exact I.
    simpl. apply Permutation_app; assumption.
  - exact (IH ts).
Qed.

(* C10: the central plan and any plan derived from it (jsim) give the same labelled samples at every
   step of the window, and fail together - for every shard count, batch size and window *)
Theorem distributed_plan_equals_central cf w t t' ts :
  (0 < c_shards cf)%nat -> (0 < c_batch cf)%nat -> 0 <= c_lookback cf -> wf_window w -> noT < w_start w ->
  jsim t t' -> jok t -> jok t' -> In ts (grid w) ->
  exists outs outs',
    jrun cf w t = inl outs /\ jrun cf w t' = inl outs' /\
    forall R, jref (c_lookback cf) t ts = Some R ->
      Permutation (labelled Z (jseries t) (step_of outs ts)) (labelled Z (jseries t') (step_of outs' ts)).
Proof.
  intros HN HB Hlb Hw Hs Hsim Hok Hok' Hts.
  destruct (jtree_matches_reference cf w HN HB Hlb Hw Hs t Hok) as [E P].
  destruct (jtree_matches_reference cf w HN HB Hlb Hw Hs t' Hok') as [E' P'].
  eexists. eexists. split; [exact E|]. split; [exact E'|].
  intros R HR. rewrite !step_of_map by assumption.
  pose proof (jsim_requiv (c_lookback cf) t t' Hsim ts) as Q. rewrite HR in Q.
  destruct (jref (c_lookback cf) t' ts) as [R'|] eqn:HR'; simpl in Q; [|destruct Q].
  destruct (P ts) as [_ Pr]. destruct (P' ts) as [_ Pr'].
  eapply Permutation_trans; [apply Pr; exact HR|].
  eapply Permutation_trans; [exact Q|]. apply Permutation_sym. apply Pr'. exact HR'.
Qed.
