(* C05 Binary operators match, label, filter and fail exactly as the reference engine.
   Property theorems only; proofs in FuncProofs.v. Partial: see the note below. *)
From Coq Require Import List String ZArith NArith Bool.
From Verif Require Import Base Agg Func FuncProofs.
Import ListNotations.
Close Scope Z_scope.

(* vector/scalar: with bool every sample of the vector is kept (as 0/1); without
   bool exactly the samples for which the comparison holds, under their IDs. *)
Theorem C05_scalar_bool_keeps_all : forall (V : Type) op b2v sl s vec,
  map fst (scalar_binop_step V op true b2v sl s vec) = map fst vec.
Proof. exact scalar_binop_bool_keeps_all. Qed.
Print Assumptions C05_scalar_bool_keeps_all.

Theorem C05_scalar_filter : forall (V : Type) op b2v sl s vec,
  map fst (scalar_binop_step V op false b2v sl s vec) =
  map fst (filter (fun iv => snd (if sl then op s (snd iv) else op (snd iv) s)) vec).
Proof. exact scalar_binop_filter. Qed.
Print Assumptions C05_scalar_filter.

(* the metric name takes no part in ignoring-matching, and is dropped from the
   result exactly for + - * / ^ % and for every operator used with bool *)
Theorem C05_signature_ignores_metric_name : forall ml v l,
  signature false ml ((0%N, v) :: l) = signature false ml l.
Proof. exact signature_ignores_metric_name. Qed.
Print Assumptions C05_signature_ignores_metric_name.

Theorem C05_drops_name_table :
  map (fun op => drops_name op false) ["+"; "-"; "*"; "/"; "^"; "%"; "=="; "!="; ">"; "<"; ">="; "<="; "atan2"]%string =
  [true; true; true; true; true; true; false; false; false; false; false; false; false] /\
  forall op, drops_name op true = true.
Proof. exact drops_name_table. Qed.
Print Assumptions C05_drops_name_table.

(* PARTIAL. The vector/vector join (hash join built once over the series lists,
   per-step table with timestamp tags, error detection) is not modelled: the
   pinned engine deviates from the reference whenever two series of one side
   share a matching signature (known finding F20), so the full statement is
   false of a faithful model; outside that guard the property is decided by the
   reference oracle (profile bin) and the signature guard of harness/classify.go. *)
