(* C05 Binary operators match, label, filter and fail exactly as the reference engine.
   Property theorems only; proofs in FuncProofs.v and BinProofs.v. Partial: see the note at the end. *)
From Coq Require Import List String ZArith NArith Bool.
From Coq Require Import Lia.
From Verif Require Import Base Agg Func FuncProofs Bin BinProofs.
Import ListNotations.
Close Scope Z_scope.

(* vector/scalar: with bool every sample of the vector is kept (as 0/1); without
   bool exactly the samples for which the comparison holds, under their IDs. *)
Theorem C05_scalar_bool_keeps_all : forall (V : Type) op b2v sl s vec,
  map fst (scalar_binop_step V op true b2v sl s vec) = map fst vec.
Proof. exact scalar_binop_bool_keeps_all. Qed.
Print Assumptions C05_scalar_bool_keeps_all.

Theorem C05_scalar_filter : forall (V : Type) op b2v sl s vec,
  map fst (scalar_binop_step V op false b2v sl s vec) =
  map fst (filter (fun iv => snd (if sl then op s (snd iv) else op (snd iv) s)) vec).
Proof. exact scalar_binop_filter. Qed.
Print Assumptions C05_scalar_filter.

(* the metric name takes no part in ignoring-matching, and is dropped from the
   result exactly for + - * / ^ % and for every operator used with bool *)
Theorem C05_signature_ignores_metric_name : forall ml v l,
  signature false ml ((0%N, v) :: l) = signature false ml l.
Proof. exact signature_ignores_metric_name. Qed.
Print Assumptions C05_signature_ignores_metric_name.

Theorem C05_drops_name_table :
  map (fun op => drops_name op false) ["+"; "-"; "*"; "/"; "^"; "%"; "=="; "!="; ">"; "<"; ">="; "<="; "atan2"]%string =
  [true; true; true; true; true; true; false; false; false; false; false; false; false] /\
  forall op, drops_name op true = true.
Proof. exact drops_name_table. Qed.
Print Assumptions C05_drops_name_table.

(* ---- the vector/vector operator (Bin.v: hash join built once over the series
   lists, per-step table with timestamp tags, output labels, many-to-many
   errors; compared with the real operator on every run) ---------------------- *)

(* For one-to-one and many-to-one (group_left) matching, every step of a query
   - any number of steps, strictly increasing timestamps - is the table-free
   pairing of the samples with equal signatures: the timestamp tags of the
   reused table never carry a value from one step into another. Hypotheses:
   sample IDs are distinct and in range, and the signatures of the "one" side's
   SERIES are pairwise distinct (where they are not, the pinned engine deviates:
   known finding F20, refuted below). *)
Theorem C05_table_is_pairing :
  forall (V : Type) (dflt : V) (op : V -> V -> V * bool) (b2v : bool -> V) (on : bool) (ml incl : list N)
         (c : card) (return_bool op_drops_name : bool) (lhs_series rhs_series : list labels),
  is_one_to_many c = false -> one_side_unique on ml rhs_series ->
  forall steps prev, (noT <= prev)%Z -> increasing V prev steps -> Forall (good_step V lhs_series rhs_series) steps ->
  run_operator V dflt op b2v on ml incl c return_bool op_drops_name lhs_series rhs_series steps =
  inl (map (fun s => (fst (fst s),
                      relabel V on ml incl c return_bool op_drops_name lhs_series rhs_series
                        (pure_step V op b2v c return_bool (op_hidx on ml c lhs_series rhs_series)
                                   (op_lidx on ml c lhs_series rhs_series) (snd (fst s)) (snd s)))) steps).
Proof. exact run_operator_is_pairing. Qed.
Print Assumptions C05_table_is_pairing.

(* ... and at every step at which the reference engine's VectorBinop succeeds,
   that pairing contains exactly the reference's samples: same label sets
   (resultMetric, including group_left labels and the metric-name rule), same
   values, same filtering by comparisons, bool as 0/1. *)
Theorem C05_join_matches_reference :
  forall (V : Type) (op : V -> V -> V * bool) (b2v : bool -> V) (on : bool) (ml incl : list N)
         (c : card) (return_bool op_drops_name : bool) (lhs_series rhs_series : list labels),
  is_one_to_many c = false -> one_side_unique on ml rhs_series ->
  (is_one_to_one c = true -> incl = []) ->
  forall (s : Z * list (nat * V) * list (nat * V)) out, good_step V lhs_series rhs_series s ->
  ref_operator_step V op b2v on ml incl c return_bool op_drops_name lhs_series rhs_series (snd (fst s)) (snd s) = Some out ->
  forall m v,
    In (m, v) (relabel V on ml incl c return_bool op_drops_name lhs_series rhs_series
                 (pure_step V op b2v c return_bool (op_hidx on ml c lhs_series rhs_series)
                            (op_lidx on ml c lhs_series rhs_series) (snd (fst s)) (snd s))) <->
    In (m, v) out.
Proof. exact run_operator_matches_reference. Qed.
Print Assumptions C05_join_matches_reference.

(* the same two statements for one-to-many (group_right) matching, where the
   left-hand side is the "one" side *)
Theorem C05_table_is_pairing_group_right :
  forall (V : Type) (dflt : V) (op : V -> V -> V * bool) (b2v : bool -> V) (on : bool) (ml incl : list N)
         (c : card) (return_bool op_drops_name : bool) (lhs_series rhs_series : list labels),
  is_one_to_many c = true -> one_side_unique on ml lhs_series ->
  forall steps prev, (noT <= prev)%Z -> increasing V prev steps -> Forall (good_step V lhs_series rhs_series) steps ->
  run_operator V dflt op b2v on ml incl c return_bool op_drops_name lhs_series rhs_series steps =
  inl (map (fun s => (fst (fst s),
                      relabel V on ml incl c return_bool op_drops_name lhs_series rhs_series
                        (pure_step V op b2v c return_bool (op_hidx on ml c lhs_series rhs_series)
                                   (op_lidx on ml c lhs_series rhs_series) (snd (fst s)) (snd s)))) steps).
Proof. exact run_operator_is_pairing_otm. Qed.
Print Assumptions C05_table_is_pairing_group_right.

Theorem C05_join_matches_reference_group_right :
  forall (V : Type) (op : V -> V -> V * bool) (b2v : bool -> V) (on : bool) (ml incl : list N)
         (c : card) (return_bool op_drops_name : bool) (lhs_series rhs_series : list labels),
  is_one_to_many c = true -> one_side_unique on ml lhs_series ->
  forall (s : Z * list (nat * V) * list (nat * V)) out, good_step V lhs_series rhs_series s ->
  ref_operator_step V op b2v on ml incl c return_bool op_drops_name lhs_series rhs_series (snd (fst s)) (snd s) = Some out ->
  forall m v,
    In (m, v) (relabel V on ml incl c return_bool op_drops_name lhs_series rhs_series
                 (pure_step V op b2v c return_bool (op_hidx on ml c lhs_series rhs_series)
                            (op_lidx on ml c lhs_series rhs_series) (snd (fst s)) (snd s))) <->
    In (m, v) out.
Proof. exact run_operator_matches_reference_otm. Qed.
Print Assumptions C05_join_matches_reference_group_right.

(* ... with multiplicities, for every cardinality: the engine's samples at a step
   are a permutation of the reference's (where the reference succeeds) *)
Theorem C05_join_step_is_permutation :
  forall (V : Type) (op : V -> V -> V * bool) (b2v : bool -> V) (on : bool) (ml incl : list N)
         (c : card) (return_bool op_drops_name : bool) (dflt : V) (lhs_series rhs_series : list labels),
  one_side_unique on ml (one_side_series c lhs_series rhs_series) ->
  (is_one_to_one c = true -> incl = []) ->
  forall (s : Z * list (nat * V) * list (nat * V)) out, good_step V lhs_series rhs_series s ->
  ref_operator_step V op b2v on ml incl c return_bool op_drops_name lhs_series rhs_series (snd (fst s)) (snd s) = Some out ->
  Permutation.Permutation (step_samples V op b2v on ml incl c return_bool op_drops_name lhs_series rhs_series s) out.
Proof. exact join_step_permutation. Qed.
Print Assumptions C05_join_step_is_permutation.

(* the label sets of the output series are the reference's resultMetric *)
Theorem C05_output_labels :
  forall on ml incl c return_bool op_drops_name lm rm,
  (is_one_to_one c = true -> incl = []) ->
  build_output incl return_bool (the_lbl on ml c return_bool op_drops_name lm) rm =
  ref_result_metric op_drops_name return_bool c on ml incl lm rm.
Proof. exact labels_agree. Qed.
Print Assumptions C05_output_labels.

(* Known finding F20, as a theorem about the model: when two series of the "one"
   side share a signature (never at the same step), the engine copies the
   included label from the first of them, the reference from the one present.
   1 = a, 3 = c; rhs series {a=20,c=41} and {a=20,c=42}; only the second has a sample. *)
Theorem C05_series_level_join_refuted :
  exists lhs_series rhs_series lhs rhs,
    let mul (a b : Z) := ((a * b)%Z, true) in
    let b2z (b : bool) := if b then 1%Z else 0%Z in
    good_step Z lhs_series rhs_series (0%Z, lhs, rhs) /\
    run_operator Z 0%Z mul b2z true [1%N] [3%N] ManyToOne false true lhs_series rhs_series [(0%Z, lhs, rhs)] =
      inl [(0%Z, [([(1, 20); (3, 41)]%N, 6%Z)])] /\
    ref_operator_step Z mul b2z true [1%N] [3%N] ManyToOne false true lhs_series rhs_series lhs rhs =
      Some [([(1, 20); (3, 42)]%N, 6%Z)].
Proof.
  exists [[(0, 10); (1, 20)]%N], [[(0, 11); (1, 20); (3, 41)]; [(0, 11); (1, 20); (3, 42)]]%N, [(0, 2%Z)], [(1, 3%Z)].
  cbv zeta. split; [|split; vm_compute; reflexivity].
  unfold good_step; simpl; repeat split; try (intros iv H; intuition (subst; simpl; lia));
    repeat (apply NoDup_cons; [simpl; intuition lia|]); apply NoDup_nil.
Qed.
Print Assumptions C05_series_level_join_refuted.

(* PARTIAL. Values of the arithmetic operators are IEEE doubles in the
   correspondence check and abstract in the theorems; the reference's behaviour
   on inputs where it fails (duplicate signatures at a step) is not related to
   the engine's errors by a theorem: the engine deviates there (F20). *)
