(* C10 Distributed execution equals central execution over the union of the partitions.
   Property theorems only; proofs in Dist.v and DistProofs.v. Partial: see the note. *)
From Coq Require Import List String ZArith NArith Bool Permutation.
From Verif Require Import Ast Generated Plan Dist DistProofs.
Import ListNotations.
From Verif Require Topk TopkProofs.

(* Whatever the expression, every sub-query the optimizer sends to the remote
   engines consists of selectors under functions, unary/paren/step-invariant
   wrappers and distributive aggregations whose parameter does not read the
   storage: no binary expression (a join needs the whole data set), no
   non-distributive aggregation, no aggregation whose parameter would be
   evaluated per partition, no literal. *)
Theorem C10_remote_subqueries_pushable : forall n e,
  plain e = true -> remotes_pushable (opt_distribute n e) = true.
Proof. exact distributed_remotes_pushable. Qed.
Print Assumptions C10_remote_subqueries_pushable.

(* Pushing an aggregation down is sound for every associative, commutative
   reduction with a unit (sum; min/max/group on values extended with a unit;
   topk/bottomk membership is not covered): however the members of a group at
   one step are assigned to the partitions, reducing the partial results gives
   the central value. *)
Theorem C10_pushdown_sound : forall (V : Type) (f : V -> V -> V) (u : V),
  (forall a b c, f a (f b c) = f (f a b) c) -> (forall a b, f a b = f b a) -> (forall a, f u a = a) ->
  forall members parts, Permutation members (List.concat parts) ->
  reduce V f u members = reduce V f u (map (reduce V f u) parts).
Proof. exact pushdown_sound. Qed.
Print Assumptions C10_pushdown_sound.

(* count is evaluated per partition and merged with sum *)
Theorem C10_count_pushdown : forall (A : Type) (parts : list (list A)),
  List.length (List.concat parts) = fold_right Nat.add 0%nat (map (@List.length A) parts).
Proof. exact @count_partition. Qed.
Print Assumptions C10_count_pushdown.

(* the generated table of distributive aggregations is what the algebra covers *)
Theorem C10_distributive_table : distributive_aggs = ["bottomk"; "count"; "group"; "max"; "min"; "sum"; "topk"]%string.
Proof. vm_compute. reflexivity. Qed.
Print Assumptions C10_distributive_table.


(* topk / bottomk are pushed down as well: every partition selects its own top k
   and the coordinator selects the top k of what it receives. With the engine's
   selection operator (Topk.topk_group) on both levels, the result is a top-k
   selection of ALL the samples: min(k, n) of them, none strictly worse than a
   dropped one - for any partition of the series into disjoint parts (empty
   parts included), any k >= 1, any comparison that is a strict weak order on
   the numbers with NaN lowest. *)
Theorem C10_topk_pushdown :
  forall (V : Type) (lt : V -> V -> bool) (isnan : V -> bool),
  (forall a b, isnan b = true -> lt a b = false) ->
  (forall a, lt a a = false) ->
  (forall a b c, lt a b = true -> lt b c = true -> lt a c = true) ->
  (forall a b c, isnan c = false -> lt a b = true -> lt a c = true \/ lt c b = true) ->
  (forall a b : V, {a = b} + {a <> b}) ->
  forall k (parts : list (list (nat * V))), 1 <= k -> NoDup (map fst (List.concat parts)) ->
  TopkProofs.is_topk V lt isnan k
    (Topk.topk_group V lt isnan k (List.concat (map (Topk.topk_group V lt isnan k) parts))) (List.concat parts).
Proof. exact TopkProofs.topk_pushdown. Qed.
Print Assumptions C10_topk_pushdown.

(* PARTIAL. Proved: the shape of what is sent to the partitions and the algebra
   of the distributive reductions, for every partitioning. Not proved: the
   end-to-end equality through remote.Execution (a remote range result re-read
   with lookback 0 on the query's own grid is the identity - see the fix recorded
   in known_findings.json) and topk/bottomk, whose pushed-down form is sound only
   for tie-free data. Those are decided by the dist oracle of the check. *)
