(* C10 Distributed execution equals central execution over the union of the partitions.
   Property theorems only; proofs in Dist.v and DistProofs.v. Partial: see the note. *)
From Coq Require Import List String ZArith NArith Bool Permutation Lia.
From Verif Require Import Ast Generated Plan Dist DistProofs.
Import ListNotations.
From Verif Require Topk TopkProofs.

(* Whatever the expression, every sub-query the optimizer sends to the remote
   engines consists of selectors under functions, unary/paren/step-invariant
   wrappers and distributive aggregations whose parameter does not read the
   storage: no binary expression (a join needs the whole data set), no
   non-distributive aggregation, no aggregation whose parameter would be
   evaluated per partition, no literal, no absent() / absent_over_time() and no function
   called without its vector argument. *)
Theorem C10_remote_subqueries_pushable : forall n e,
  plain e = true -> remotes_pushable (opt_distribute n e) = true.
Proof. exact distributed_remotes_pushable. Qed.
Print Assumptions C10_remote_subqueries_pushable.

(* absent() is answered by the coordinator over the distributed operand, and a date function without
   its argument is not distributed at all (the pinned tree pushed both down whole: repaired by 0f854f7) *)
Example C10_global_calls_stay_on_the_coordinator :
  let v := EVec (mkVS [] 0 0 None None 0) in
  Dist.opt_distribute 2 (ECall "absent" [v]) = ECall "absent" [ECoalesce [ERemote 0 v; ERemote 1 v]] /\
  Dist.opt_distribute 2 (ECall "year" []) = ECall "year" [] /\
  Dist.opt_distribute 2 (ECall "abs" [v]) = ECoalesce [ERemote 0 (ECall "abs" [v]); ERemote 1 (ECall "abs" [v])].
Proof. cbv zeta. repeat split; vm_compute; reflexivity. Qed.

(* Pushing an aggregation down is sound for every associative, commutative
   reduction with a unit (sum; min/max/group on values extended with a unit;
   topk/bottomk membership is not covered): however the members of a group at
   one step are assigned to the partitions, reducing the partial results gives
   the central value. *)
Theorem C10_pushdown_sound : forall (V : Type) (f : V -> V -> V) (u : V),
  (forall a b c, f a (f b c) = f (f a b) c) -> (forall a b, f a b = f b a) -> (forall a, f u a = a) ->
  forall members parts, Permutation members (List.concat parts) ->
  reduce V f u members = reduce V f u (map (reduce V f u) parts).
Proof. exact pushdown_sound. Qed.
Print Assumptions C10_pushdown_sound.

(* count is evaluated per partition and merged with sum *)
Theorem C10_count_pushdown : forall (A : Type) (parts : list (list A)),
  List.length (List.concat parts) = fold_right Nat.add 0%nat (map (@List.length A) parts).
Proof. exact @count_partition. Qed.
Print Assumptions C10_count_pushdown.

(* the generated table of distributive aggregations is what the algebra covers *)
Theorem C10_distributive_table : distributive_aggs = ["bottomk"; "count"; "group"; "max"; "min"; "sum"; "topk"]%string.
Proof. vm_compute. reflexivity. Qed.
Print Assumptions C10_distributive_table.


(* topk / bottomk are pushed down as well: every partition selects its own top k
   and the coordinator selects the top k of what it receives. With the engine's
   selection operator (Topk.topk_group) on both levels, the result is a top-k
   selection of ALL the samples: min(k, n) of them, none strictly worse than a
   dropped one - for any partition of the series into disjoint parts (empty
   parts included), any k >= 1, any comparison that is a strict weak order on
   the numbers with NaN lowest. *)
Theorem C10_topk_pushdown :
  forall (V : Type) (lt : V -> V -> bool) (isnan : V -> bool),
  (forall a b, isnan b = true -> lt a b = false) ->
  (forall a, lt a a = false) ->
  (forall a b c, lt a b = true -> lt b c = true -> lt a c = true) ->
  (forall a b c, isnan c = false -> lt a b = true -> lt a c = true \/ lt c b = true) ->
  (forall a b : V, {a = b} + {a <> b}) ->
  forall k (parts : list (list (nat * V))), 1 <= k -> NoDup (map fst (List.concat parts)) ->
  TopkProofs.is_topk V lt isnan k
    (Topk.topk_group V lt isnan k (List.concat (map (Topk.topk_group V lt isnan k) parts))) (List.concat parts).
Proof. exact TopkProofs.topk_pushdown. Qed.
Print Assumptions C10_topk_pushdown.

(* ---- end to end, for operator trees (Remote.v, Trees.v, DistTree.v) ------------------------- *)
From Verif Require Base Grid Compose Bin Remote Trees DistTree.

(* remote.Execution: the result of the remote query, turned into series and read back on the same
   window by a vector selector with lookback 0, is at every step the remote samples of that step
   (ordered by series ID) - for every remote stream, batch size and window *)
Theorem C10_remote_result_read_back_is_identity : forall B w n (f : Z -> list (nat * Z)),
  (0 < B)%nat -> Base.wf_window w ->
  Remote.reread B w n (map (fun t => (t, f t)) (Grid.grid w)) =
  map (fun t => (t, EndToEnd.vec_of (Remote.by_id n t (f t)))) (Grid.grid w).
Proof. exact Remote.reread_identity. Qed.
Print Assumptions C10_remote_result_read_back_is_identity.

(* a per-series expression e (selectors, range functions, per-sample operators) over series dealt
   to two engines in any way: Coalesce(Remote(e), Remote(e)) and e over the union give the same
   labelled samples at every step, for every shard count, batch size and window *)
Theorem C10_distributed_expression_equals_central :
  forall cf w, (0 < Compose.c_shards cf)%nat -> (0 < Compose.c_batch cf)%nat -> (0 <= Compose.c_lookback cf)%Z ->
  Base.wf_window w -> (Bin.noT < Base.w_start w)%Z ->
  forall s ls1 ls2 s1 s2, DistTree.sok s -> List.length ls1 = List.length s1 -> List.length ls2 = List.length s2 ->
  Forall Base.sorted_ts s1 -> Forall Base.sorted_ts s2 ->
  forall ts, In ts (Grid.grid w) ->
  exists outs_c outs_d,
    Trees.jrun cf w (DistTree.inst s (ls1 ++ ls2) (s1 ++ s2)) = inl outs_c /\
    Trees.jrun cf w (Trees.JConcat (Trees.JRemote (DistTree.inst s ls1 s1)) (Trees.JRemote (DistTree.inst s ls2 s2))) = inl outs_d /\
    Permutation (Bin.labelled Z (Trees.jseries (DistTree.inst s (ls1 ++ ls2) (s1 ++ s2))) (DistTree.step_of outs_c ts))
                (Bin.labelled Z (Trees.jseries (Trees.JConcat (Trees.JRemote (DistTree.inst s ls1 s1)) (Trees.JRemote (DistTree.inst s ls2 s2))))
                              (DistTree.step_of outs_d ts)).
Proof. exact DistTree.distributed_expression_equals_central. Qed.
Print Assumptions C10_distributed_expression_equals_central.

(* ... and under an aggregation with an associative, commutative accumulator (sum, max, min):
   agg(Coalesce(Remote(agg(e)), Remote(agg(e)))) and agg(e) over the union give the same groups
   with the same values at every step *)
Theorem C10_distributed_aggregation_equals_central :
  forall cf w, (0 < Compose.c_shards cf)%nat -> (0 < Compose.c_batch cf)%nat -> (0 <= Compose.c_lookback cf)%Z ->
  Base.wf_window w -> (Bin.noT < Base.w_start w)%Z ->
  forall (add : Z -> Z -> Z), (forall a b c, add (add a b) c = add a (add b c)) -> (forall a b, add a b = add b a) ->
  forall without grouping s ls1 ls2 s1 s2, DistTree.sok s -> List.length ls1 = List.length s1 -> List.length ls2 = List.length s2 ->
  Forall Base.sorted_ts s1 -> Forall Base.sorted_ts s2 ->
  forall ts, In ts (Grid.grid w) ->
  let agg := fun t => Trees.JAgg (fun v => v) add without grouping t in
  let central := agg (DistTree.inst s (ls1 ++ ls2) (s1 ++ s2)) in
  let distributed := agg (Trees.JConcat (Trees.JRemote (agg (DistTree.inst s ls1 s1))) (Trees.JRemote (agg (DistTree.inst s ls2 s2)))) in
  exists outs_c outs_d,
    Trees.jrun cf w central = inl outs_c /\ Trees.jrun cf w distributed = inl outs_d /\
    Permutation (Bin.labelled Z (Trees.jseries central) (DistTree.step_of outs_c ts))
                (Bin.labelled Z (Trees.jseries distributed) (DistTree.step_of outs_d ts)).
Proof. exact DistTree.distributed_aggregation_equals_central. Qed.
Print Assumptions C10_distributed_aggregation_equals_central.

(* ... for any number of engines (Coalesce of n remote executions, nested two by two), empty
   partitions included *)
Theorem C10_distributed_aggregation_equals_central_any_number_of_engines :
  forall cf w, (0 < Compose.c_shards cf)%nat -> (0 < Compose.c_batch cf)%nat -> (0 <= Compose.c_lookback cf)%Z ->
  Base.wf_window w -> (Bin.noT < Base.w_start w)%Z ->
  forall (add : Z -> Z -> Z), (forall a b c, add (add a b) c = add a (add b c)) -> (forall a b, add a b = add b a) ->
  forall without grouping s, DistTree.sok s ->
  forall p ps ts, DistTree.part_ok p -> Forall DistTree.part_ok ps -> In ts (Grid.grid w) ->
  let agg := fun t => Trees.JAgg (fun v => v) add without grouping t in
  let central := agg (DistTree.inst s (List.concat (map fst (p :: ps))) (List.concat (map snd (p :: ps)))) in
  let distributed := agg (DistTree.jcoalesce (DistTree.remote_of add without grouping s p) (map (DistTree.remote_of add without grouping s) ps)) in
  exists outs_c outs_d,
    Trees.jrun cf w central = inl outs_c /\ Trees.jrun cf w distributed = inl outs_d /\
    Permutation (Bin.labelled Z (Trees.jseries central) (DistTree.step_of outs_c ts))
                (Bin.labelled Z (Trees.jseries distributed) (DistTree.step_of outs_d ts)).
Proof. exact DistTree.distributed_aggregation_equals_central_n. Qed.
Print Assumptions C10_distributed_aggregation_equals_central_any_number_of_engines.

(* count: every engine counts its own partition and the coordinator sums the counts
   (conv: the count as a sample value, additive) *)
Theorem C10_distributed_count_equals_central :
  forall cf w, (0 < Compose.c_shards cf)%nat -> (0 < Compose.c_batch cf)%nat -> (0 <= Compose.c_lookback cf)%Z ->
  Base.wf_window w -> (Bin.noT < Base.w_start w)%Z ->
  forall (conv : nat -> Z), (forall a b, conv (a + b)%nat = (conv a + conv b)%Z) ->
  forall without grouping s ls1 ls2 s1 s2, DistTree.sok s -> List.length ls1 = List.length s1 -> List.length ls2 = List.length s2 ->
  Forall Base.sorted_ts s1 -> Forall Base.sorted_ts s2 ->
  forall ts, In ts (Grid.grid w) ->
  let cnt := fun t => Trees.JCount conv without grouping t in
  let central := cnt (DistTree.inst s (ls1 ++ ls2) (s1 ++ s2)) in
  let distributed := Trees.JAgg (fun v => v) Z.add without grouping
                       (Trees.JConcat (Trees.JRemote (cnt (DistTree.inst s ls1 s1))) (Trees.JRemote (cnt (DistTree.inst s ls2 s2)))) in
  exists outs_c outs_d,
    Trees.jrun cf w central = inl outs_c /\ Trees.jrun cf w distributed = inl outs_d /\
    Permutation (Bin.labelled Z (Trees.jseries central) (DistTree.step_of outs_c ts))
                (Bin.labelled Z (Trees.jseries distributed) (DistTree.step_of outs_d ts)).
Proof. exact DistTree.distributed_count_equals_central. Qed.
Print Assumptions C10_distributed_count_equals_central.

(* group: every engine forms the groups of its own partition, the coordinator the groups of those
   (the operator is kept: group of the engines' groups; a group's value is c = 1 whenever it has a member) *)
From Verif Require DistGroup TreeOps.
Theorem C10_distributed_group_equals_central_any_number_of_engines :
  forall cf w, (0 < Compose.c_shards cf)%nat -> (0 < Compose.c_batch cf)%nat -> (0 <= Compose.c_lookback cf)%Z ->
  Base.wf_window w -> (Bin.noT < Base.w_start w)%Z ->
  forall (c : Z) without grouping s, DistTree.sok s ->
  forall p ps ts, DistTree.part_ok p -> Forall DistTree.part_ok ps -> In ts (Grid.grid w) ->
  let grp := fun t => Trees.JAgg (fun _ => c) (fun a _ => a) without grouping t in
  let central := grp (DistTree.inst s (List.concat (map fst (p :: ps))) (List.concat (map snd (p :: ps)))) in
  let distributed := grp (DistTree.jcoalesce (DistGroup.remote_group_of c without grouping s p)
                                             (map (DistGroup.remote_group_of c without grouping s) ps)) in
  exists outs_c outs_d,
    Trees.jrun cf w central = inl outs_c /\ Trees.jrun cf w distributed = inl outs_d /\
    Permutation (Bin.labelled Z (Trees.jseries central) (DistTree.step_of outs_c ts))
                (Bin.labelled Z (Trees.jseries distributed) (DistTree.step_of outs_d ts)).
Proof. exact DistGroup.distributed_group_equals_central_n. Qed.
Print Assumptions C10_distributed_group_equals_central_any_number_of_engines.

(* the accumulator of the tree correspondence's group (TreeOps.zinit 3, zadd 3: values are 4 * value) is that one *)
Example C10_group_accumulator_is_the_modelled_one :
  (forall v, TreeOps.zinit 3%N v = 4%Z) /\ (forall a v, TreeOps.zadd 3%N a v = a).
Proof. split; reflexivity. Qed.

(* topk / bottomk: every engine selects among its own series, the coordinator among the selected.
   At every step at which no two samples of a group of the union have the same value, the distributed
   plan returns the central plan's labelled samples (TopkDist.v: cg_selected_iff - a value has fewer
   than k better ones among the partitions' selections iff it has among all - resting on
   rank_count: exactly min(k, n) of n distinct values have fewer than k better ones). With ties the
   reference's own choice is its heap's, and the set-level statement C10_topk_pushdown applies. *)
From Verif Require TopkDist.
Theorem C10_distributed_topk_equals_central :
  forall cf w, (0 < Compose.c_shards cf)%nat -> (0 < Compose.c_batch cf)%nat -> (0 <= Compose.c_lookback cf)%Z ->
  Base.wf_window w -> (Bin.noT < Base.w_start w)%Z ->
  forall bottom k without grouping s, DistTree.sok s ->
  forall p ps ts, DistTree.part_ok p -> Forall DistTree.part_ok ps -> In ts (Grid.grid w) ->
  Trees.ties_free without grouping
    (List.concat (map (fun q => DistTree.pref (Compose.c_lookback cf) s (fst q) (snd q) ts) (p :: ps))) = true ->
  let tk := fun t => Trees.JTopk bottom k without grouping t in
  let central := tk (DistTree.inst s (List.concat (map fst (p :: ps))) (List.concat (map snd (p :: ps)))) in
  let distributed := tk (DistTree.jcoalesce (TopkDist.remote_topk bottom k without grouping s p)
                                            (map (TopkDist.remote_topk bottom k without grouping s) ps)) in
  exists outs_c outs_d,
    Trees.jrun cf w central = inl outs_c /\ Trees.jrun cf w distributed = inl outs_d /\
    Permutation (Bin.labelled Z (Trees.jseries central) (DistTree.step_of outs_c ts))
                (Bin.labelled Z (Trees.jseries distributed) (DistTree.step_of outs_d ts)).
Proof. exact TopkDist.distributed_topk_equals_central. Qed.
Print Assumptions C10_distributed_topk_equals_central.

(* Whole plans: Trees.jref is a congruence for "same labelled samples" (DistEquiv.jsim_requiv: joins,
   per-sample operators, aggregations, topk, coalesce, remote execution and step-invariant wrappers
   map permuted operand values to permuted results and fail together), so a plan in which, anywhere,
   per-series expressions and sum/max/min/count/group aggregations over the union of the partitions are
   replaced by their distributed forms (DistEquiv.jsim) returns, step by step, the labelled samples of the
   central plan. *)
From Verif Require DistEquiv.
Theorem C10_distributed_plan_equals_central :
  forall cf w t t' ts, (0 < Compose.c_shards cf)%nat -> (0 < Compose.c_batch cf)%nat -> (0 <= Compose.c_lookback cf)%Z ->
  Base.wf_window w -> (Bin.noT < Base.w_start w)%Z ->
  DistEquiv.jsim t t' -> Trees.jok t -> Trees.jok t' -> In ts (Grid.grid w) ->
  exists outs outs',
    Trees.jrun cf w t = inl outs /\ Trees.jrun cf w t' = inl outs' /\
    forall R, Trees.jref (Compose.c_lookback cf) t ts = Some R ->
      Permutation (Bin.labelled Z (Trees.jseries t) (DistTree.step_of outs ts))
                  (Bin.labelled Z (Trees.jseries t') (DistTree.step_of outs' ts)).
Proof. exact DistEquiv.distributed_plan_equals_central. Qed.
Print Assumptions C10_distributed_plan_equals_central.

(* ... and plans that use a distributed topk / bottomk below other operators: the relation is indexed by
   the lookback and the step (DistEquivAt.jsim_at contains jsim and the distributed topk at a step at
   which no two samples of a group of the union tie, and is closed under the operators) *)
From Verif Require DistEquivAt.
Theorem C10_distributed_plan_with_topk_equals_central :
  forall cf w t t' ts, (0 < Compose.c_shards cf)%nat -> (0 < Compose.c_batch cf)%nat -> (0 <= Compose.c_lookback cf)%Z ->
  Base.wf_window w -> (Bin.noT < Base.w_start w)%Z ->
  DistEquivAt.jsim_at (Compose.c_lookback cf) ts t t' -> Trees.jok t -> Trees.jok t' -> In ts (Grid.grid w) ->
  exists outs outs',
    Trees.jrun cf w t = inl outs /\ Trees.jrun cf w t' = inl outs' /\
    forall R, Trees.jref (Compose.c_lookback cf) t ts = Some R ->
      Permutation (Bin.labelled Z (Trees.jseries t) (DistTree.step_of outs ts))
                  (Bin.labelled Z (Trees.jseries t') (DistTree.step_of outs' ts)).
Proof. exact DistEquivAt.distributed_plan_with_topk_equals_central. Qed.
Print Assumptions C10_distributed_plan_with_topk_equals_central.

(* non-vacuity: sum by (b) (topk by (b) (1, foo)) with foo's series on two engines, at a step without ties *)
Example C10_plan_with_topk_example :
  let f1 := ([[(0, 10); (1, 20); (2, 31)]; [(0, 10); (1, 22); (2, 31)]]%N, [[Base.mkS 990 (Some 2)]; [Base.mkS 992 (Some 9)]]%Z) in
  let f2 := ([[(0, 10); (1, 21); (2, 31)]]%N, [[Base.mkS 995 (Some 5)]]%Z) in
  let s := DistTree.SLeaf 0%Z None in
  DistEquivAt.jsim_at 300%Z 1000%Z
    (Trees.JAgg (fun v => v) Z.add false [2%N]
       (Trees.JTopk false 1 false [2%N] (DistTree.inst s (List.concat (map fst [f1; f2])) (List.concat (map snd [f1; f2])))))
    (Trees.JAgg (fun v => v) Z.add false [2%N]
       (Trees.JTopk false 1 false [2%N]
          (DistTree.jcoalesce (TopkDist.remote_topk false 1 false [2%N] s f1) (map (TopkDist.remote_topk false 1 false [2%N] s) [f2])))).
Proof.
  cbv zeta. apply DistEquivAt.sat_aggc; try (intros; lia). apply DistEquivAt.sat_topk.
  - simpl; auto.
  - unfold DistTree.part_ok; simpl. split; [reflexivity|repeat constructor].
  - repeat constructor.
  - vm_compute. reflexivity.
Qed.

(* non-vacuity of the plan relation: sum by (b) (foo) - on (b) max by (b) (bar), both sides distributed
   over two engines (one partition of bar is empty) *)
Example C10_plan_example :
  let f1 := ([[(0, 10); (1, 20); (2, 31)]]%N, [[Base.mkS 990 (Some 2)]]%Z) in
  let f2 := ([[(0, 10); (1, 21); (2, 31)]]%N, [[Base.mkS 995 (Some 5)]]%Z) in
  let b1 := ([[(0, 11); (2, 31)]]%N, [[Base.mkS 980 (Some 100)]]%Z) in
  let b2 := (@nil Base.labels, @nil (list Base.sample)) in
  let s := DistTree.SLeaf 0%Z None in
  let jp := Trees.mkJP (fun x y => ((x - y)%Z, true)) (fun _ => 0%Z) true [2%N] [] Bin.OneToOne false true in
  DistEquiv.jsim
    (Trees.JJoin jp (Trees.JAgg (fun v => v) Z.add false [2%N] (DistTree.inst s (List.concat (map fst [f1; f2])) (List.concat (map snd [f1; f2]))))
                    (Trees.JAgg (fun v => v) Z.max false [2%N] (DistTree.inst s (List.concat (map fst [b1; b2])) (List.concat (map snd [b1; b2])))))
    (Trees.JJoin jp (Trees.JAgg (fun v => v) Z.add false [2%N]
                       (DistTree.jcoalesce (DistTree.remote_of Z.add false [2%N] s f1) (map (DistTree.remote_of Z.add false [2%N] s) [f2])))
                    (Trees.JAgg (fun v => v) Z.max false [2%N]
                       (DistTree.jcoalesce (DistTree.remote_of Z.max false [2%N] s b1) (map (DistTree.remote_of Z.max false [2%N] s) [b2])))).
Proof.
  cbv zeta. apply DistEquiv.sim_join; apply DistEquiv.sim_agg; try (intros; lia); try reflexivity;
    repeat (constructor; simpl); auto; unfold DistTree.part_ok; simpl; repeat constructor.
Qed.

(* non-vacuity: sum by (b) (foo) with foo's three series on two engines, two steps *)
Example C10_distributed_example :
  let l1 := [[(0, 10); (1, 20); (2, 31)]; [(0, 10); (1, 22); (2, 32)]]%N in
  let d1 := [[Base.mkS 940 (Some 2); Base.mkS 1040 (Some 9)]; [Base.mkS 1000 (Some 1)]]%Z in
  let l2 := [[(0, 10); (1, 21); (2, 31)]]%N in
  let d2 := [[Base.mkS 950 (Some 5)]]%Z in
  let agg := fun t => Trees.JAgg (fun v => v) Z.add false [2%N] t in
  let central := agg (Trees.JLeaf (l1 ++ l2) (d1 ++ d2) 0%Z None) in
  let distributed := agg (Trees.JConcat (Trees.JRemote (agg (Trees.JLeaf l1 d1 0%Z None))) (Trees.JRemote (agg (Trees.JLeaf l2 d2 0%Z None)))) in
  Trees.jrun (Compose.mkCfg 2 10 300%Z) (Base.mkW 1000 1050 50)%Z central = inl [(1000, [(0%nat, 7); (1%nat, 1)]); (1050, [(0%nat, 14); (1%nat, 1)])]%Z /\
  Trees.jrun (Compose.mkCfg 2 10 300%Z) (Base.mkW 1000 1050 50)%Z distributed = inl [(1000, [(0%nat, 7); (1%nat, 1)]); (1050, [(0%nat, 14); (1%nat, 1)])]%Z.
Proof. cbv zeta. split; vm_compute; reflexivity. Qed.

From Verif Require Lookback.

(* The parts of a query that are pushed down run on the remote engines with the
   lookback of the query - the one its options set, else the coordinator's -
   whatever lookback the remote engines are configured with, through any number
   of levels of distribution. *)
Theorem C10_pushed_down_parts_run_with_the_query_lookback : forall remote_configured configured opts,
  (0 <= configured)%Z ->
  Lookback.remote_lookback remote_configured configured opts = Lookback.query_lookback configured opts.
Proof. exact Lookback.remote_lookback_is_the_querys. Qed.
Print Assumptions C10_pushed_down_parts_run_with_the_query_lookback.

Theorem C10_nested_distribution_keeps_the_query_lookback : forall remotes configured opts,
  (0 <= configured)%Z ->
  Lookback.nested_remote_lookback remotes configured opts = Lookback.query_lookback configured opts.
Proof. exact Lookback.nested_remote_lookback_is_the_querys. Qed.
Print Assumptions C10_nested_distribution_keeps_the_query_lookback.

(* PARTIAL. Proved: the shape of what is sent to the partitions, the algebra of the
   distributive reductions for every partitioning, and end to end - through the remote
   execution's read-back and the coalesce operator - per-series expressions, sum/max/min,
   count and group aggregations and (tie-free) topk/bottomk of them over any number of engines, and
   whole plans built from the expression, sum/max/min, count and group forms by the other operators
   (C10_distributed_plan_equals_central), and plans that use a distributed tie-free topk below other
   operators (C10_distributed_plan_with_topk_equals_central). Not proved end to end: topk
   with ties (C10_topk_pushdown: a top-k selection, not necessarily the central engine's). Those are decided by the dist
   oracle and the distributed tree correspondence of the check. *)
