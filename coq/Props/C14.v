(* C14 Cancellation is prompt and final; queries never hang or leak goroutines.
   Property theorems only; proofs in ConcProofs.v. Partial: see the note below. *)
From Coq Require Import List ZArith NArith Bool.
From Verif Require Import Conc ConcProofs.
From Verif Require ConcTrace ConcTraceProofs.
Import ListNotations.

(* The concurrency operator (producer, drain goroutine, channel of capacity 2)
   under Exec's consumer loop, with cancellation at any moment, for 0..6 child
   batches and every interleaving: a successful return carries the complete
   result; a state without successor is final with both goroutines terminated
   (no deadlock, no leak); the channel never exceeds its capacity; the explored
   set is closed under the transition relation. *)
Theorem C14_concurrency_operator_safe : forallb (check_all true) totals = true.
Proof. exact concurrency_operator_safe. Qed.
Print Assumptions C14_concurrency_operator_safe.

Theorem C14_exec_ok_is_complete : forall total s,
  In total totals -> In s (fst (reachable true total)) -> cons s = CRetOk -> received s = total.
Proof. exact exec_ok_is_complete. Qed.
Print Assumptions C14_exec_ok_is_complete.

(* Without Exec's re-check of the context after its loop (the engine before the
   fix recorded in known_findings.json) a successful partial result is reachable. *)
Theorem C14_partial_success_without_recheck :
  exists s, In s (fst (reachable false 3)) /\ cons s = CRetOk /\ received s <> 3.
Proof. exact partial_success_reachable_without_recheck. Qed.
Print Assumptions C14_partial_success_without_recheck.

(* The operator driven directly by a consumer (the context is cancelled only by
   an explicit cancel(), at any moment): the same safety properties. *)
Theorem C14_concurrency_operator_safe_raw : forallb (check_all_raw true) totals = true.
Proof. exact concurrency_operator_safe_raw. Qed.
Print Assumptions C14_concurrency_operator_safe_raw.

(* The transition system with observable labels (calls into the child and
   their results, what Next returns to the consumer, begin and end of cancel()),
   against which the logs of the real operator are checked on every run,
   refines the system the safety theorems are about. *)
Theorem C14_labelled_system_refines : forallb (ConcTrace.refinement_ok true) totals = true.
Proof. exact ConcTraceProofs.labelled_system_refines. Qed.
Print Assumptions C14_labelled_system_refines.

(* PARTIAL. Finite-state, bounded (0..6 batches) model of one concurrency
   operator below Exec (tied to the real operator by trace conformance:
   ConcTrace.accepts on logs recorded by the harness); workers, the coalesce fan-out and remote execution are
   not in the LTS, wall-clock bounds and scheduler fairness are runtime facts.
   Those are decided by the cancellation oracles (every callback index, blocking
   storage, Cancel() racing Exec, goroutine count after Close, stress loop). *)
