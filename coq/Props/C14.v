(* C14 Cancellation is prompt and final; queries never hang or leak goroutines.
   Property theorems only; proofs in ConcProofs.v. Partial: see the note below. *)
From Coq Require Import List ZArith NArith Bool.
From Verif Require Import Conc ConcProofs.
From Verif Require ConcTrace ConcTraceProofs ConcInd ConcTraceInd.
Import ListNotations.

(* ---- for EVERY number of child batches and every schedule (induction, ConcInd.v) ---------- *)

(* Every state reachable under Exec's consumer loop, with cancellation at any moment:
   a successful return carries the complete result, the channel is within its capacity,
   and a state without successor is final - Exec has returned, the producer and the
   drain goroutine have terminated, the channel is closed and empty (no deadlock, no leak). *)
Theorem C14_operator_safe_for_every_number_of_batches : forall total s, ConcInd.reach total s ->
  (cons s = CRetOk -> received s = total) /\ length (buf s) <= cap
  /\ (next_states true s = [] -> ConcInd.final s).
Proof. exact ConcInd.operator_safe_unbounded. Qed.
Print Assumptions C14_operator_safe_for_every_number_of_batches.

(* the same for a consumer that drives the operator directly (no deferred cancel) *)
Theorem C14_operator_safe_for_every_number_of_batches_raw : forall total s, ConcInd.reach_raw total s ->
  (cons s = CRetOk -> received s = total) /\ length (buf s) <= cap
  /\ (steps true s = [] -> ConcInd.final s).
Proof. exact ConcInd.operator_safe_unbounded_raw. Qed.
Print Assumptions C14_operator_safe_for_every_number_of_batches_raw.

(* Queries never hang: every execution (any schedule, fair or not) has at most 6*total+15
   transitions, and if it cannot be extended it has ended in the final state. *)
Theorem C14_every_execution_terminates : forall total l,
  ConcInd.chain (next_states true) (init total) l ->
  length l <= 6 * total + 15 /\
  (next_states true (last l (init total)) = [] -> ConcInd.final (last l (init total))).
Proof. exact ConcInd.every_execution_terminates_final. Qed.
Print Assumptions C14_every_execution_terminates.

(* Cancellation is prompt: once the context is cancelled at most 22 further transitions are
   possible, however many batches the child could still produce. *)
Theorem C14_cancellation_is_prompt : forall total s l,
  ConcInd.reach total s -> done_ s = true -> ConcInd.chain (next_states true) s l -> length l <= 22.
Proof. exact ConcInd.cancellation_is_prompt. Qed.
Print Assumptions C14_cancellation_is_prompt.

(* The labelled system the recorded logs are checked against refines the transition system for
   every number of batches, and the acceptance check only follows its steps: a log that is
   accepted is explained by a run whose states are reachable and satisfy the statements above. *)
Theorem C14_labelled_system_refines_for_every_number_of_batches : forall total x,
  ConcTraceInd.lreach total x -> ConcInd.reach_raw total (ConcTrace.base x).
Proof. exact ConcTraceInd.labelled_reach_refines. Qed.
Print Assumptions C14_labelled_system_refines_for_every_number_of_batches.

Theorem C14_accepted_log_has_a_safe_run : forall total trace, ConcTrace.accepts true total trace = true ->
  exists x, In x (ConcTrace.after true (ConcTrace.close true [ConcTrace.linit total]) trace) /\ ConcTraceInd.lreach total x /\
            (cons (ConcTrace.base x) = CRetOk -> received (ConcTrace.base x) = total) /\ length (buf (ConcTrace.base x)) <= cap.
Proof. exact ConcTraceInd.accepted_log_has_a_safe_run. Qed.
Print Assumptions C14_accepted_log_has_a_safe_run.

(* the premises are met: a complete run of two batches is reachable *)
Example C14_reach_nontrivial : exists s, ConcInd.reach 2 s /\ cons s = CRetOk /\ received s = 2.
Proof. exact ConcInd.reach_nontrivial. Qed.

(* ---- the exhaustive exploration (0..6 batches), kept as an independent check ---------------- *)

(* The concurrency operator (producer, drain goroutine, channel of capacity 2)
   under Exec's consumer loop, with cancellation at any moment, for 0..6 child
   batches and every interleaving: a successful return carries the complete
   result; a state without successor is final with both goroutines terminated
   (no deadlock, no leak); the channel never exceeds its capacity; the explored
   set is closed under the transition relation. *)
Theorem C14_concurrency_operator_safe : forallb (check_all true) totals = true.
Proof. exact concurrency_operator_safe. Qed.
Print Assumptions C14_concurrency_operator_safe.

Theorem C14_exec_ok_is_complete : forall total s,
  In total totals -> In s (fst (reachable true total)) -> cons s = CRetOk -> received s = total.
Proof. exact exec_ok_is_complete. Qed.
Print Assumptions C14_exec_ok_is_complete.

(* Without Exec's re-check of the context after its loop (the engine before the
   fix recorded in known_findings.json) a successful partial result is reachable. *)
Theorem C14_partial_success_without_recheck :
  exists s, In s (fst (reachable false 3)) /\ cons s = CRetOk /\ received s <> 3.
Proof. exact partial_success_reachable_without_recheck. Qed.
Print Assumptions C14_partial_success_without_recheck.

(* The operator driven directly by a consumer (the context is cancelled only by
   an explicit cancel(), at any moment): the same safety properties. *)
Theorem C14_concurrency_operator_safe_raw : forallb (check_all_raw true) totals = true.
Proof. exact concurrency_operator_safe_raw. Qed.
Print Assumptions C14_concurrency_operator_safe_raw.

(* The transition system with observable labels (calls into the child and
   their results, what Next returns to the consumer, begin and end of cancel()),
   against which the logs of the real operator are checked on every run,
   refines the system the safety theorems are about. *)
Theorem C14_labelled_system_refines : forallb (ConcTrace.refinement_ok true) totals = true.
Proof. exact ConcTraceProofs.labelled_system_refines. Qed.
Print Assumptions C14_labelled_system_refines.

(* PARTIAL. Model of one concurrency operator below Exec, for every number of
   batches (tied to the real operator by trace conformance: ConcTrace.accepts on
   logs recorded by the harness); workers, the coalesce fan-out and remote execution are
   not in the LTS, wall-clock bounds and scheduler fairness are runtime facts.
   Those are decided by the cancellation oracles (every callback index, blocking
   storage, Cancel() racing Exec, goroutine count after Close, stress loop). *)
