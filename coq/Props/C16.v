(* C16 Storage selects carry the reference engine's matchers, time range and hints.
   Property theorems only; proofs in HintsProofs.v. *)
From Coq Require Import List String ZArith NArith Bool.
From Verif Require Import Ast Generated Plan PlanProofs Base Hints HintsProofs Select SelectProofs.
Import ListNotations.
Open Scope Z_scope.

(* For every natively planned, preprocessed expression the selects registered by
   the engine's planner (matchers, hinted start/end, step, range, function,
   grouping and by/without) are, in order, the selects the reference engine
   issues - at the top level ([hints] empty, empty path) and in every context
   related by [R]. *)
Theorem C16_selects_eq_reference : forall e win lb hh pp,
  native e -> stepinv_ok e = true -> mat_calls_unary e = true -> R hh pp ->
  eng_selects win lb hh e = ref_selects win lb pp e.
Proof. exact selects_eq_reference. Qed.
Print Assumptions C16_selects_eq_reference.

Theorem C16_top_level : forall e win lb,
  native e -> stepinv_ok e = true -> mat_calls_unary e = true ->
  eng_selects win lb (mkH "" [] false) e = ref_selects win lb [] e.
Proof. intros. apply selects_eq_reference; auto. apply R_top. Qed.
Print Assumptions C16_top_level.

(* Sufficiency of the hinted range for instant-vector selection: a storage that
   omits every sample outside [lo, hi] with lo <= ref - lookback and ref <= hi
   yields the same selected sample. (The hinted range of a select is
   [start - lookback - offset, end - offset], which contains [ref - lookback, ref]
   for every step's reference time ref = t - offset.) *)
Theorem C16_hinted_range_sufficient_for_selection : forall lb ss r lo hi,
  sorted_ts ss -> 0 <= lb -> lo <= r - lb -> r <= hi ->
  pick lb (clip lo hi ss) r = pick lb ss r.
Proof. exact pick_clip. Qed.
Print Assumptions C16_hinted_range_sufficient_for_selection.

(* Sufficiency of every select's hinted range, for whole operator trees: trimming, for every selector
   of the plan (instant-vector or matrix selector, with offset, @ pin, inside step-invariant subtrees
   and in the sub-queries of remote engines), the storage to that selector's own hinted range
   [Hints.sel_range] leaves the engine's stream - at every node, so the result - exactly as it is;
   every window, shard count and batch size. (With plan rewrites the selects are other selects with
   their own ranges; the hints oracle of the check decides those on the real engine.) *)
From Verif Require Compose Bin Trees HintsTree.
Theorem C16_hinted_ranges_sufficient_for_operator_trees : forall cf w t,
  (0 < Compose.c_shards cf)%nat -> (0 < Compose.c_batch cf)%nat -> 0 <= Compose.c_lookback cf ->
  wf_window w -> Bin.noT < w_start w -> Trees.jok t ->
  Trees.jrun cf w (HintsTree.jclip w (Compose.c_lookback cf) t) = Trees.jrun cf w t.
Proof. exact HintsTree.hinted_ranges_sufficient. Qed.
Print Assumptions C16_hinted_ranges_sufficient_for_operator_trees.

(* the range each selector's storage is trimmed to is the range the planner hints *)
Theorem C16_trimmed_range_is_the_hinted_range : forall w lb v r,
  HintsTree.leaf_range w lb r (vorig v) (vat v) = sel_range w lb v r.
Proof. exact HintsTree.leaf_range_is_sel_range. Qed.
Print Assumptions C16_trimmed_range_is_the_hinted_range.

(* the range is tight at its lower end: without the sample at hints.Start the first step loses its sample *)
Example C16_hinted_range_is_tight :
  let w := mkW 1000 1060 30 in
  let t := Trees.JLeaf [[(0%N, 1%N)]] [[mkS 700 (Some 5); mkS 1050 (Some 6)]] 0 None in
  HintsTree.leaf_range w 300 0 0 None = (700, 1060) /\
  Trees.jrun (Compose.mkCfg 1 10 300) w t = inl [(1000, [(0%nat, 5)]); (1030, []); (1060, [(0%nat, 6)])] /\
  Trees.jrun (Compose.mkCfg 1 10 300) w (Trees.JLeaf [[(0%N, 1%N)]] [clip 701 1060 [mkS 700 (Some 5); mkS 1050 (Some 6)]] 0 None)
    = inl [(1000, []); (1030, []); (1060, [(0%nat, 6)])].
Proof. exact HintsTree.hinted_range_is_tight. Qed.

(* The selector pool shares selectors between the operators of a query by a key that leaves out
   hints.Range; whenever the requests of a query that agree on the key agree on the whole select
   (checked on the select list of every recorded query, CasesLib.hint_case_ok), every operator is
   handed a selector that issues exactly the select it asked for. *)
From Verif Require Pool.
Theorem C16_selector_pool_transparent : forall rs, Pool.keys_determine rs = true ->
  forall p, (forall x, In x p -> In x rs) -> Pool.pool_run p rs = rs.
Proof. exact Pool.pool_transparent. Qed.
Print Assumptions C16_selector_pool_transparent.

Example C16_example :
  let v := mkVS [mkM 0 MEq 1] 60000 60000 None None 1 in
  let e := EAgg "sum" false [2%N] None (EParen (EBin "+" false OneToOne false [] [] (ECall "rate" [EMat v 300000]) (EVec v))) in
  native e /\ stepinv_ok e = true /\ mat_calls_unary e = true /\
  map (fun s => (s_func s, s_grp s, s_range s, s_start s, s_end s)) (eng_selects (mkW 1000000 1600000 30000) 300000 (mkH "" [] false) e) =
  [("rate"%string, [], 300000, 640000, 1540000); (""%string, [], 0, 640000, 1540000)].
Proof. repeat split; try (vm_compute; reflexivity). apply plan_ok_iff_native. vm_compute. reflexivity. Qed.
