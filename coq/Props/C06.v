(* C06 Instant functions, scalars, unary minus and @-pinned parts match the reference.
   Property theorems only; proofs in FuncProofs.v, Grid.v, Compose.v. Partial: see the note. *)
From Coq Require Import List String ZArith NArith Bool.
From Verif Require Import Base Grid Select Shard Exec Compose Agg Func FuncProofs.
Import ListNotations.

(* scalar(v) delivers exactly one value at every step: the element's value if v
   has exactly one element at that step, NaN otherwise *)
Theorem C06_scalar_one_value : forall (V : Type) (nan : V) vec, exists v, scalar_step V nan vec = [(0%nat, v)].
Proof. exact scalar_step_one_value. Qed.
Print Assumptions C06_scalar_one_value.

Theorem C06_scalar_nan_unless_singleton : forall (V : Type) (nan : V) vec,
  List.length vec <> 1%nat -> scalar_step V nan vec = [(0%nat, nan)].
Proof. exact scalar_step_nan_unless_singleton. Qed.
Print Assumptions C06_scalar_nan_unless_singleton.

(* instant functions: applied to every sample, IDs kept; a sample is dropped
   exactly where the function has no result (clamp with max < min drops all) *)
Theorem C06_function_ids : forall (V : Type) f vec,
  map fst (func_step V f vec) = map fst (filter (fun iv => match f (snd iv) with Some _ => true | None => false end) vec).
Proof. exact func_step_ids. Qed.
Print Assumptions C06_function_ids.

Theorem C06_clamp_inverted_is_empty : forall (V : Type) ltb vmax vmin lo hi vec,
  ltb hi lo = true -> func_step V (clamp_fn V ltb vmax vmin lo hi) vec = [].
Proof. exact clamp_inverted_is_empty. Qed.
Print Assumptions C06_clamp_inverted_is_empty.

(* scalar-typed generators (literals, time(), pi()) and the step-invariant
   operator emit one vector for every step of any window, in grid order *)
Theorem C06_scalar_streams_cover_every_step : forall B w, (0 < B)%nat -> wf_window w ->
  List.concat (selector_batches B w) = grid w /\ List.concat (counter_batches B w) = grid w.
Proof.
  intros B w HB Hw. split.
  - exact (selector_batches_cover_grid B w HB Hw).
  - exact (counter_batches_cover_grid B w HB Hw).
Qed.
Print Assumptions C06_scalar_streams_cover_every_step.

(* a literal contributes its value at every step (one series, ID 0) *)
Theorem C06_literal_every_step : forall c w v,
  (0 < c_shards c)%nat -> (0 < c_batch c)%nat -> (0 <= c_lookback c)%Z -> wf_window w ->
  List.concat (run c w (PLiteral v)) = map (literal_step v) (grid w).
Proof. intros. apply (run_covers_grid c w (PLiteral v)); simpl; auto. Qed.
Print Assumptions C06_literal_every_step.

(* PARTIAL. timestamp() is a known finding (F02): the full statement is false of
   the pinned engine. Values of the libm functions are not modelled; they are
   decided by the reference oracle (profile func). *)
