(* C06 Instant functions, scalars, unary minus and @-pinned parts match the reference.
   Property theorems only; proofs in FuncProofs.v, Grid.v, Compose.v. Partial: see the note. *)
From Coq Require Import List String ZArith NArith Bool Lia.
From Verif Require Import Base Grid Select Shard Exec Compose Agg Func FuncProofs.
Import ListNotations.

(* scalar(v) delivers exactly one value at every step: the element's value if v
   has exactly one element at that step, NaN otherwise *)
Theorem C06_scalar_one_value : forall (V : Type) (nan : V) vec, exists v, scalar_step V nan vec = [(0%nat, v)].
Proof. exact scalar_step_one_value. Qed.
Print Assumptions C06_scalar_one_value.

Theorem C06_scalar_nan_unless_singleton : forall (V : Type) (nan : V) vec,
  List.length vec <> 1%nat -> scalar_step V nan vec = [(0%nat, nan)].
Proof. exact scalar_step_nan_unless_singleton. Qed.
Print Assumptions C06_scalar_nan_unless_singleton.

(* instant functions: applied to every sample, IDs kept; a sample is dropped
   exactly where the function has no result (clamp with max < min drops all) *)
Theorem C06_function_ids : forall (V : Type) f vec,
  map fst (func_step V f vec) = map fst (filter (fun iv => match f (snd iv) with Some _ => true | None => false end) vec).
Proof. exact func_step_ids. Qed.
Print Assumptions C06_function_ids.

Theorem C06_clamp_inverted_is_empty : forall (V : Type) ltb vmax vmin lo hi vec,
  ltb hi lo = true -> func_step V (clamp_fn V ltb vmax vmin lo hi) vec = [].
Proof. exact clamp_inverted_is_empty. Qed.
Print Assumptions C06_clamp_inverted_is_empty.

(* scalar-typed generators (literals, time(), pi()) and the step-invariant
   operator emit one vector for every step of any window, in grid order *)
Theorem C06_scalar_streams_cover_every_step : forall B w, (0 < B)%nat -> wf_window w ->
  List.concat (selector_batches B w) = grid w /\ List.concat (counter_batches B w) = grid w.
Proof.
  intros B w HB Hw. split.
  - exact (selector_batches_cover_grid B w HB Hw).
  - exact (counter_batches_cover_grid B w HB Hw).
Qed.
Print Assumptions C06_scalar_streams_cover_every_step.

(* a literal contributes its value at every step (one series, ID 0) *)
Theorem C06_literal_every_step : forall c w v,
  (0 < c_shards c)%nat -> (0 < c_batch c)%nat -> (0 <= c_lookback c)%Z -> wf_window w ->
  List.concat (run c w (PLiteral v)) = map (literal_step v) (grid w).
Proof. intros. apply (run_covers_grid c w (PLiteral v)); simpl; auto. Qed.
Print Assumptions C06_literal_every_step.

(* A subexpression pinned by @ (every selector below it carries @, start()/end() resolved): the
   stepInvariantOperator evaluates it once, on the window [start, start], where a selector with
   @ a and offset o reads the time a - o, and hands that vector to every step of the window; that
   is also the reference's value at every step (C01_join_trees covers Trees.JInvariant nodes
   anywhere in an operator tree; the trees are compared with the real engine on every run,
   treecases, with @ t, @ start() and @ end() on vector and matrix selectors). *)
From Verif Require Bin Trees.
Theorem C06_pinned_subtree_is_evaluated_once : forall cf w t,
  (0 < c_shards cf)%nat -> (0 < c_batch cf)%nat -> (0 <= c_lookback cf)%Z -> wf_window w -> (Bin.noT < w_start w)%Z ->
  Trees.jok (Trees.JInvariant t) ->
  Trees.jrun cf w (Trees.JInvariant t) = inl (map (fun ts => (ts, Trees.jdenote (c_lookback cf) t (w_start w))) (grid w)) /\
  forall ts, Trees.jdenote (c_lookback cf) (Trees.JInvariant t) ts = Trees.jdenote (c_lookback cf) t (w_start w).
Proof. exact Trees.jinvariant_evaluated_once. Qed.
Print Assumptions C06_pinned_subtree_is_evaluated_once.

(* non-vacuity: abs(foo @ 0.95) + bar over three steps *)
Example C06_pinned_example :
  let foo := Trees.JLeaf [[(0, 10); (1, 20)]]%N [[mkS 940 (Some (-2)); mkS 990 (Some 7); mkS 1040 (Some 3)]]%Z 0%Z (Some 950%Z) in
  let inv := Trees.JInvariant (Trees.JMap true (fun v => Some (Z.abs v)) foo) in
  let bar := Trees.JLeaf [[(0, 11); (1, 20)]]%N [[mkS 990 (Some 10); mkS 1040 (Some 20)]]%Z 0%Z None in
  let t := Trees.JJoin (Trees.mkJP (fun x y => ((x + y)%Z, true)) (fun _ => 0%Z) false [] [] Bin.OneToOne false true) inv bar in
  Trees.jok t /\
  Trees.jrun (mkCfg 2 10 300) (mkW 1000 1100 50) t =
    inl [(1000, [(0%nat, 12)]); (1050, [(0%nat, 22)]); (1100, [(0%nat, 22)])]%Z.
Proof.
  cbv zeta. split; [|vm_compute; reflexivity].
  unfold Trees.jok. simpl. repeat split; try discriminate; try (repeat constructor; simpl; lia); auto.
  intros i j Hi Hj _. simpl in Hi, Hj. lia.
Qed.

(* histogram_quantile (Bucket.v: le parsing result, grouping of the bucket series into output series,
   per-step buckets, bucketQuantile with its sort, merging of equal upper bounds, monotonicity repair,
   bisection and interpolation; compared with the real operator on primitive floats on every run).
   On exact numbers - any number type whose order is a strict total order and whose addition is
   associative and commutative, instantiated on the rationals - its value at a step is a function of the
   set of the step's bucket samples: neither the order of the buckets handed to bucketQuantile nor the
   order in which the operand lists its samples matters. (On floats the counts of buckets with one upper
   bound are added in arrival order, so the last bit may depend on it.) *)
From Verif Require RangeArith Bucket BucketProofs.
Theorem C06_histogram_quantile_independent_of_bucket_order : forall (pinf ninf q : Qcanon.Qc) l l',
  Permutation.Permutation l l' ->
  Bucket.bucket_quantile Qcanon.Qc BucketProofs.qcops pinf ninf q l = Bucket.bucket_quantile Qcanon.Qc BucketProofs.qcops pinf ninf q l'.
Proof. exact BucketProofs.bucket_quantile_order_independent. Qed.
Print Assumptions C06_histogram_quantile_independent_of_bucket_order.

Theorem C06_histogram_step_independent_of_sample_order : forall (pinf ninf : Qcanon.Qc) nout idx q vec vec',
  Permutation.Permutation vec vec' ->
  Bucket.hist_step Qcanon.Qc BucketProofs.qcops pinf ninf nout idx q vec = Bucket.hist_step Qcanon.Qc BucketProofs.qcops pinf ninf nout idx q vec'.
Proof. exact BucketProofs.hist_step_order_independent. Qed.
Print Assumptions C06_histogram_step_independent_of_sample_order.

(* for every number type with the stated order and addition laws *)
Theorem C06_histogram_quantile_order_independent_generic : forall (V : Type) (o : RangeArith.ops V) (pinf ninf : V),
  (forall a, RangeArith.ltb o a a = false) ->
  (forall a b c, RangeArith.ltb o a b = true -> RangeArith.ltb o b c = true -> RangeArith.ltb o a c = true) ->
  (forall a b, RangeArith.ltb o a b = false -> RangeArith.ltb o b a = false -> a = b) ->
  (forall a b, RangeArith.eqb o a b = true <-> a = b) ->
  (forall a b, RangeArith.add o a b = RangeArith.add o b a) ->
  (forall a b c, RangeArith.add o (RangeArith.add o a b) c = RangeArith.add o a (RangeArith.add o b c)) ->
  forall q l l', Permutation.Permutation l l' ->
  Bucket.bucket_quantile V o pinf ninf q l = Bucket.bucket_quantile V o pinf ninf q l'.
Proof. exact BucketProofs.bucket_quantile_perm. Qed.
Print Assumptions C06_histogram_quantile_order_independent_generic.

(* On the rationals, for a well-formed histogram (at least two buckets, cumulative counts non-decreasing,
   a positive total, finite strictly increasing upper bounds before the last bucket) and 0 <= q <= 1:
   the bisection finds the first bucket whose cumulative count reaches the rank q * total; in the last
   (+Inf) bucket the result is the highest finite bound; otherwise it lies between the previous bound
   (0 for the first bucket when its bound is positive; the bound itself when it is not) and the bucket's own.
   [bq_core] is what [bucket_quantile] applies to the sorted, merged, monotone buckets. *)
From Verif Require RangeArithProofs BucketRange.
Theorem C06_histogram_quantile_lies_in_the_rank_bucket : forall (pinf : QArith_base.Q) m us q,
  BucketRange.wf_hist m us -> QArith_base.Qle (QArith_base.inject_Z 0) q -> QArith_base.Qle q (QArith_base.inject_Z 1) ->
  let n := List.length m in
  let rank := QArith_base.Qmult q (Bucket.cnt QArith_base.Q (BucketRange.qnth m (n - 1))) in
  let b := BucketRange.rank_bucket q m in
  let r := Bucket.bq_core QArith_base.Q RangeArithProofs.qops pinf q m in
  (b <= n - 1)%nat /\
  (forall k, (k < b)%nat -> QArith_base.Qlt (Bucket.cnt QArith_base.Q (BucketRange.qnth m k)) rank) /\
  QArith_base.Qle rank (Bucket.cnt QArith_base.Q (BucketRange.qnth m b)) /\
  (b = (n - 1)%nat -> r = us (n - 2)%nat) /\
  ((b < n - 1)%nat -> b = 0%nat -> QArith_base.Qle (us 0%nat) (QArith_base.inject_Z 0) -> r = us 0%nat) /\
  ((b < n - 1)%nat -> b = 0%nat -> QArith_base.Qlt (QArith_base.inject_Z 0) (us 0%nat) ->
     QArith_base.Qle (QArith_base.inject_Z 0) r /\ QArith_base.Qle r (us 0%nat)) /\
  ((b < n - 1)%nat -> forall b', b = S b' -> QArith_base.Qle (us b') r /\ QArith_base.Qle r (us b)).
Proof. exact BucketRange.quantile_in_rank_bucket. Qed.
Print Assumptions C06_histogram_quantile_lies_in_the_rank_bucket.

(* on a histogram that is already sorted, merged and monotone the preprocessing changes nothing:
   bucket_quantile is bq_core, so the statement above is about histogram_quantile's value *)
Theorem C06_histogram_quantile_is_core_on_wellformed_histograms : forall (pinf ninf q : QArith_base.Q) m,
  BucketRange.chain m -> QArith_base.Qle (QArith_base.inject_Z 0) q -> QArith_base.Qle q (QArith_base.inject_Z 1) ->
  Bucket.bucket_quantile QArith_base.Q RangeArithProofs.qops pinf ninf q m = Bucket.bq_core QArith_base.Q RangeArithProofs.qops pinf q m.
Proof. exact BucketRange.bucket_quantile_is_core. Qed.
Print Assumptions C06_histogram_quantile_is_core_on_wellformed_histograms.

Example C06_histogram_chain_example :
  BucketRange.chain [Bucket.mkB QArith_base.Q (Some (QArith_base.inject_Z 1)) (QArith_base.inject_Z 2);
                     Bucket.mkB QArith_base.Q (Some (QArith_base.inject_Z 2)) (QArith_base.inject_Z 6);
                     Bucket.mkB QArith_base.Q None (QArith_base.inject_Z 8)].
Proof. exact BucketRange.chain_example. Qed.

Example C06_histogram_wellformed_example :
  BucketRange.wf_hist [Bucket.mkB QArith_base.Q (Some (QArith_base.inject_Z 1)) (QArith_base.inject_Z 2);
                       Bucket.mkB QArith_base.Q (Some (QArith_base.inject_Z 2)) (QArith_base.inject_Z 6);
                       Bucket.mkB QArith_base.Q None (QArith_base.inject_Z 8)]
                      (fun i => QArith_base.inject_Z (Z.of_nat (S i))).
Proof. exact BucketRange.wf_example. Qed.

(* non-vacuity: the median of the histogram le=1:2, le=2:6, le=+Inf:8 (rank 4, second bucket: 1 + (2-1)*(4-2)/(6-2) = 3/2),
   from the buckets in two orders, one of them with the second bucket split in two series *)
Example C06_histogram_example :
  let q := (Qcanon.Q2Qc (QArith_base.Qmake 1 2)) in
  let n := fun z => Qcanon.Q2Qc (QArith_base.inject_Z z) in
  let b := fun u c => Bucket.mkB Qcanon.Qc u (n c) in
  Bucket.bucket_quantile Qcanon.Qc BucketProofs.qcops (n 0%Z) (n 0%Z) q [b (Some (n 1%Z)) 2%Z; b (Some (n 2%Z)) 6%Z; b None 8%Z] = Qcanon.Q2Qc (QArith_base.Qmake 3 2) /\
  Bucket.bucket_quantile Qcanon.Qc BucketProofs.qcops (n 0%Z) (n 0%Z) q [b None 8%Z; b (Some (n 2%Z)) 1%Z; b (Some (n 1%Z)) 2%Z; b (Some (n 2%Z)) 5%Z] = Qcanon.Q2Qc (QArith_base.Qmake 3 2).
Proof. cbv zeta. split; apply Qcanon.Qc_is_canon; vm_compute; reflexivity. Qed.

(* PARTIAL. timestamp() is a known finding (F02): the full statement is false of
   the pinned engine. Values of the libm functions are not modelled; they are
   decided by the reference oracle (profile func); le="NaN" as an upper bound is outside the
   histogram model. *)
