(* C09 Logical-plan optimizers never change a query's result.
   Property theorems only; proofs in OptProofs.v. They hold for every
   regular-expression semantics [re], every matcher type, empty values, repeated
   label names and series lacking any label. *)
From Coq Require Import List String ZArith NArith Bool Permutation.
From Verif Require Import Ast Base Opt OptProofs.
Import ListNotations.

(* SortMatchers and MergeSelectsOptimizer leave every selector's denotation (the
   list of series it selects, with offset and @) unchanged, in every position
   reached by the plan traversal; the rest of the expression is untouched. *)
Theorem C09_sort_preserves : forall re e, eequiv re e (opt_sort e).
Proof. exact opt_sort_eequiv. Qed.
Print Assumptions C09_sort_preserves.

Theorem C09_merge_preserves : forall re e, eequiv re e (opt_merge e).
Proof. exact opt_merge_eequiv. Qed.
Print Assumptions C09_merge_preserves.

(* The rewritten selector (broader storage select + in-engine filter) selects
   exactly the original series, whatever the selector heap contains. *)
Theorem C09_merged_selector_same_series : forall re h v D,
  denote_sel re (merge_sel h v) D = denote_sel re v D.
Proof. intros. apply vequiv_denote. apply merge_sel_vequiv. Qed.
Print Assumptions C09_merged_selector_same_series.

(* Equivalent expressions have the same selected series at every leaf. *)
Theorem C09_equivalent_selectors_same_series : forall re v v' D,
  vequiv re v v' -> denote_sel re v' D = denote_sel re v D.
Proof. exact vequiv_denote. Qed.
Print Assumptions C09_equivalent_selectors_same_series.

(* PropagateMatchersOptimizer: under one-to-one matching on all labels, a pair
   of series that agree on every label but the metric name is selected by the
   two sides after propagation iff it was before: only series without a partner
   are removed, so the matched pairs - and hence the result - are unchanged. *)
Theorem C09_propagate_preserves_pairs : forall re lms rms a b,
  same_signature a b ->
  (sel_matches re (with_propagated lms rms) a && sel_matches re (with_propagated rms lms) b) =
  (sel_matches re lms a && sel_matches re rms b).
Proof. exact propagate_preserves_pairs. Qed.
Print Assumptions C09_propagate_preserves_pairs.

Example C09_example :
  let re := fun (_ _ : N) => false in
  let broad := [mkM 0 MEq 1] in
  let narrow := [mkM 0 MEq 1; mkM 2 MEq 3; mkM 2 MNeq 4] in
  let e := EBin "/" false OneToOne false [] [] (ECall "abs" [EVec (mkVS narrow 0 0 None None 1)]) (EVec (mkVS broad 0 0 None None 1)) in
  opt_merge e =
  EBin "/" false OneToOne false [] [] (ECall "abs" [EVec (mkVS broad 0 0 None (Some [mkM 2 MEq 3; mkM 2 MNeq 4]) 1)])
       (EVec (mkVS broad 0 0 None None 1)).
Proof. vm_compute. reflexivity. Qed.
