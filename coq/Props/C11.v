(* C11 Results do not depend on core count, scheduling, series order or unrelated data.
   Property theorems only; proofs in Compose.v, Shard.v. Partial: see the note below. *)
From Coq Require Import List ZArith NArith Bool.
From Verif Require Import Base Grid Select Shard Exec Compose Bin BinProofs.
From Verif Require Agg AggProofs Trees.
Import ListNotations.
Open Scope Z_scope.

(* The sequence of step vectors an operator tree emits is the same for every
   shard count (GOMAXPROCS) and every batch size. *)
Theorem C11_independent_of_sharding_and_batching_partial : forall c c' w p,
  (0 < c_shards c)%nat -> (0 < c_batch c)%nat -> (0 < c_shards c')%nat -> (0 < c_batch c')%nat ->
  0 <= c_lookback c -> c_lookback c' = c_lookback c -> wf_window w -> plan_ok p ->
  concat (run c w p) = concat (run c' w p).
Proof. exact run_independent_of_sharding_and_batching. Qed.
Print Assumptions C11_independent_of_sharding_and_batching_partial.

(* Every series is in exactly one shard, in storage order. *)
Theorem C11_shards_partition : forall (A : Type) (l : list A) N, (0 < N)%nat -> concat (shards l N) = l.
Proof. exact @shards_partition. Qed.
Print Assumptions C11_shards_partition.

(* The coalesce merge (in operator order, IDs re-based) of the shards' step
   vectors is the step vector of the unsharded selection. *)
Theorem C11_merge_is_unsharded_selection : forall lb off t parts,
  merge_step t (offsets_from 0 parts) (map (fun p => select_step lb off p t) parts) =
  select_step lb off (concat parts) t.
Proof. exact merge_step_select_0. Qed.
Print Assumptions C11_merge_is_unsharded_selection.

(* The vector/vector binary operator: the same labelled samples, presented
   through two different series lists (another storage order, another sharding:
   other series IDs) and in another order inside the step vectors, give the same
   samples - at every step at which the reference evaluation succeeds. *)
Theorem C11_join_order_independent :
  forall (V : Type) (op : V -> V -> V * bool) (b2v : bool -> V) (on : bool) (ml incl : list N)
         (c : Bin.card) (return_bool op_drops_name : bool)
         lhs_series rhs_series lhs_series' rhs_series' (s s' : Z * list (nat * V) * list (nat * V)) out out',
  BinProofs.one_side_unique on ml (BinProofs.one_side_series c lhs_series rhs_series) ->
  BinProofs.one_side_unique on ml (BinProofs.one_side_series c lhs_series' rhs_series') ->
  (Bin.is_one_to_one c = true -> incl = []) ->
  BinProofs.good_step V lhs_series rhs_series s -> BinProofs.good_step V lhs_series' rhs_series' s' ->
  Permutation.Permutation (Bin.labelled V lhs_series (snd (fst s))) (Bin.labelled V lhs_series' (snd (fst s'))) ->
  Permutation.Permutation (Bin.labelled V rhs_series (snd s)) (Bin.labelled V rhs_series' (snd s')) ->
  Bin.ref_operator_step V op b2v on ml incl c return_bool op_drops_name lhs_series rhs_series (snd (fst s)) (snd s) = Some out ->
  Bin.ref_operator_step V op b2v on ml incl c return_bool op_drops_name lhs_series' rhs_series' (snd (fst s')) (snd s') = Some out' ->
  forall m v,
    In (m, v) (BinProofs.step_samples V op b2v on ml incl c return_bool op_drops_name lhs_series rhs_series s) <->
    In (m, v) (BinProofs.step_samples V op b2v on ml incl c return_bool op_drops_name lhs_series' rhs_series' s').
Proof. exact BinProofs.join_order_independent. Qed.
Print Assumptions C11_join_order_independent.

(* Aggregations: the table after a step does not depend on the order of the
   samples inside the step vector (the storage's series order, the sharding),
   for every accumulator whose additions commute - count, group, min, max
   exactly; the floating-point sums only up to rounding, which is what the
   property allows. *)
Theorem C11_aggregate_order_independent :
  forall (V A : Type) (empty : V -> A) (add : A -> V -> A),
  (forall a x y, add (add a x) y = add (add a y) x) ->
  forall inputs param (old : list (Agg.acc A)) vec vec',
  Permutation.Permutation vec vec' ->
  Agg.aggregate V A empty add inputs param old vec = Agg.aggregate V A empty add inputs param old vec'.
Proof. exact AggProofs.aggregate_order_independent. Qed.
Print Assumptions C11_aggregate_order_independent.

(* count satisfies the hypothesis *)
Example C11_count_commutes : forall (a : nat) (x y : unit), S (S a) = S (S a).
Proof. reflexivity. Qed.

(* Whole operator trees (joins with their reused tables, per-sample operators,
   count tables over sharded, batched selectors): the stream does not depend on
   the shard count or the batch size. *)
Theorem C11_tree_independent_of_sharding_and_batching :
  forall (cf cf' : cfg) (w : window) (t : Trees.jtree),
  (0 < c_shards cf)%nat -> (0 < c_batch cf)%nat -> (0 < c_shards cf')%nat -> (0 < c_batch cf')%nat ->
  0 <= c_lookback cf -> c_lookback cf' = c_lookback cf -> wf_window w -> Bin.noT < w_start w -> Trees.jok t ->
  Trees.jrun cf w t = Trees.jrun cf' w t.
Proof. exact Trees.jtree_independent_of_sharding_and_batching. Qed.
Print Assumptions C11_tree_independent_of_sharding_and_batching.

(* ... and their result does not depend on the order in which the storage returns the series of
   any selector (DistEquiv.jsim relates two plans that differ in the order of the (labels, samples)
   pairs of their leaves - and, for C10, in distributed forms of subexpressions): at every step the
   two plans return the same labelled samples, for any shard counts and batch sizes. *)
From Verif Require DistTree DistEquiv.
Theorem C11_tree_independent_of_series_order :
  forall cf w t t' ts, (0 < c_shards cf)%nat -> (0 < c_batch cf)%nat -> 0 <= c_lookback cf ->
  wf_window w -> Bin.noT < w_start w ->
  DistEquiv.jsim t t' -> Trees.jok t -> Trees.jok t' -> In ts (grid w) ->
  exists outs outs',
    Trees.jrun cf w t = inl outs /\ Trees.jrun cf w t' = inl outs' /\
    forall R, Trees.jref (c_lookback cf) t ts = Some R ->
      Permutation.Permutation (Bin.labelled Z (Trees.jseries t) (DistTree.step_of outs ts))
                              (Bin.labelled Z (Trees.jseries t') (DistTree.step_of outs' ts)).
Proof. exact DistEquiv.distributed_plan_equals_central. Qed.
Print Assumptions C11_tree_independent_of_series_order.

(* non-vacuity: the same join with the series of both selectors in another order *)
Example C11_series_order_example :
  let p := Trees.mkJP (fun x y => ((x + y)%Z, true)) (fun _ => 0%Z) true [1%N] [] Bin.OneToOne false true in
  let l1 := [[(0, 10); (1, 20)]; [(0, 10); (1, 21)]]%N in let d1 := [[mkS 990 (Some 2)]; [mkS 995 (Some 5)]] in
  let l2 := [[(0, 11); (1, 21)]; [(0, 11); (1, 20)]]%N in let d2 := [[mkS 980 (Some 100)]; [mkS 985 (Some 200)]] in
  DistEquiv.jsim (Trees.JJoin p (Trees.JLeaf l1 d1 0 None) (Trees.JLeaf l2 d2 0 None))
                 (Trees.JJoin p (Trees.JLeaf (rev l1) (rev d1) 0 None) (Trees.JLeaf (rev l2) (rev d2) 0 None)).
Proof.
  cbv zeta. apply DistEquiv.sim_join; apply DistEquiv.sim_leaf_order; try reflexivity; simpl; apply Permutation.perm_swap.
Qed.

(* histogram_quantile groups the samples of a step by output series and hands each group's buckets to
   bucketQuantile: on exact numbers the step's result is the same for every order in which the operand
   lists its samples (BucketProofs.v; on floats the counts of equal upper bounds are added in arrival order) *)
From Verif Require Bucket BucketProofs.
Theorem C11_histogram_quantile_independent_of_sample_order : forall (pinf ninf : Qcanon.Qc) nout idx q vec vec',
  Permutation.Permutation vec vec' ->
  Bucket.hist_step Qcanon.Qc BucketProofs.qcops pinf ninf nout idx q vec = Bucket.hist_step Qcanon.Qc BucketProofs.qcops pinf ninf nout idx q vec'.
Proof. exact BucketProofs.hist_step_order_independent. Qed.
Print Assumptions C11_histogram_quantile_independent_of_sample_order.

(* the quantile aggregation sorts the samples of a group: on exact numbers its value does not depend on the
   order in which the series arrive (QuantileProofs.v) *)
From Verif Require RangeArith QuantileProofs.
Theorem C11_quantile_independent_of_sample_order : forall (pinf ninf q : Qcanon.Qc) l l',
  Permutation.Permutation l l' ->
  RangeArith.gquantile Qcanon.Qc BucketProofs.qcops pinf ninf q l = RangeArith.gquantile Qcanon.Qc BucketProofs.qcops pinf ninf q l'.
Proof. exact QuantileProofs.quantile_order_independent. Qed.
Print Assumptions C11_quantile_independent_of_sample_order.

(* PARTIAL. Proved: independence of the shard count and of batching for every
   operator tree, with each operator's Next taken as atomic and the coalesce
   merging in operator order (as the code does since the fix recorded in
   known_findings.json); for the join, independence of the series order and
   numbering; for aggregations with commuting accumulators, independence of
   the order inside the step vectors; for whole operator trees, independence of the
   order in which the storage returns the series (as labelled samples: sample IDs are renamed).
   Not proved here: unrelated series in the storage (they never reach a leaf of the model:
   the leaves hold the matched series) and true goroutine interleavings inside an operator (not expressible in a
   functional model). Those are decided by the procs/perm oracles of the check. *)
