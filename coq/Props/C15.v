(* C15 Storage failures surface as query errors, never as partial results.
   Property theorems only; proofs in LifeProofs.v. *)
From Coq Require Import List ZArith NArith Bool.
From Verif Require Import Life LifeProofs.
Import ListNotations.

(* A successful outcome means that none of the executed storage callbacks
   failed or panicked: the execution skeleton (sequencing with error
   propagation, deferred Close, joined goroutines, recover boundaries) has no
   construct that swallows a failure. *)
Theorem C15_ok_means_no_fault : forall p faults k k' t,
  run p faults k = (k', t, SOk) -> k <= k' /\ forall j, k <= j < k' -> faults j = FNone.
Proof. exact ok_means_no_fault. Qed.
Print Assumptions C15_ok_means_no_fault.

Theorem C15_fault_reached_means_not_ok : forall p faults k k' t s j,
  run p faults k = (k', t, s) -> k <= j < k' -> faults j <> FNone -> s <> SOk.
Proof. exact fault_reached_means_not_ok. Qed.
Print Assumptions C15_fault_reached_means_not_ok.
