(* C02 Instant-vector selection honours lookback, staleness, offset and @.
   Property theorems only; proofs in SelectProofs.v, Shard.v, SelectorProofs.v, Grid.v, Lookback.v. *)
From Coq Require Import List ZArith NArith Bool Lia.
From Verif Require Import Base Grid Select SelectProofs Shard SelectorProofs Generated.
From Verif Require Lookback.
Import ListNotations.
Open Scope Z_scope.

(* What the specification [pick] says: the most recent sample at or before the
   reference time, provided its age does not exceed the lookback delta and it
   is not a staleness marker ([sv x = None]). *)
Theorem C02_pick_meaning : forall lb ss r v, sorted_ts ss ->
  (pick lb ss r = Some v <->
   exists x, In x ss /\ ts x <= r /\ (forall y, In y ss -> ts y <= r -> ts y <= ts x) /\
             r - lb <= ts x /\ sv x = Some v).
Proof. exact pick_meaning. Qed.
Print Assumptions C02_pick_meaning.

(* The engine's selector - N shards, each a stateful selector with one memoized
   iterator per series (delta = lookback), pulled batch after batch and merged
   by a coalesce operator with re-based sample IDs - emits, for every batch and
   every step t of it, exactly [pick lb (samples x) (t - off)] for each selected
   series x, under its index in the select order. For every shard count N >= 1,
   batch size B >= 1, window, lookback, offset and sample layout. *)
Theorem C02_sharded_selector : forall delta lb off N B w sers,
  (0 < N)%nat -> (0 < B)%nat -> wf_window w -> Forall sorted_ts sers -> 0 <= lb <= delta ->
  sharded_selector delta lb off N sers (selector_batches B w) =
  map (map (select_step lb off sers)) (selector_batches B w).
Proof. exact sharded_selector_spec. Qed.
Print Assumptions C02_sharded_selector.

(* ... and the batches are exactly the query's step grid, in order, each step once. *)
Theorem C02_batches_cover_grid : forall B w, (0 < B)%nat -> wf_window w ->
  concat (selector_batches B w) = grid w /\
  Forall (fun b => b <> [] /\ (length b <= B)%nat) (selector_batches B w).
Proof.
  intros B w HB Hw. split.
  - exact (selector_batches_cover_grid B w HB Hw).
  - exact (selector_batches_sized B w HB Hw).
Qed.
Print Assumptions C02_batches_cover_grid.

(* The @ modifier: setOffsetForAtModifier replaces the offset by
   orig + (evalTime - at); at the single step evalTime of the step-invariant
   evaluation the reference time is the pinned time minus the written offset. *)
Theorem C02_at_pin : forall eval_time at_ts orig, eval_time - (orig + (eval_time - at_ts)) = at_ts - orig.
Proof. intros; ring. Qed.
Print Assumptions C02_at_pin.

(* The engine's batch size satisfies the theorems' hypothesis. *)
Theorem C02_steps_batch_pos : (0 < steps_batch)%nat.
Proof. vm_compute. repeat constructor. Qed.
Print Assumptions C02_steps_batch_pos.

(* The lookback delta the selection is made with: the one the query's options
   set, and the engine's (the configured one, or five minutes when none is
   configured) when the query has no options or options that leave it unset. It
   is positive for every non-negative configuration. *)
Theorem C02_query_lookback_rule : forall configured opts,
  Lookback.query_lookback configured opts =
  match opts with
  | Some l => if 0 <? l then l else Lookback.engine_lookback configured
  | None => Lookback.engine_lookback configured
  end.
Proof. exact Lookback.query_lookback_rule. Qed.
Print Assumptions C02_query_lookback_rule.

Theorem C02_query_lookback_positive : forall configured opts,
  0 <= configured -> 0 < Lookback.query_lookback configured opts.
Proof. exact Lookback.query_lookback_pos. Qed.
Print Assumptions C02_query_lookback_positive.

(* non-vacuity: a layout with a stale marker, an old sample and a fresh one *)
Example C02_example :
  let ss := [mkS 100 (Some 7); mkS 200 None; mkS 300 (Some 9)] in
  sorted_ts ss /\
  map (pick 50 ss) [99; 100; 150; 151; 200; 250; 299; 300; 350; 351] =
  [None; Some 7; Some 7; None; None; None; None; Some 9; Some 9; None] /\
  sharded_selector 50 50 0 2 [ss; [mkS 120 (Some 1)]] (selector_batches 2 (mkW 100 160 20)) =
  map (map (select_step 50 0 [ss; [mkS 120 (Some 1)]])) (selector_batches 2 (mkW 100 160 20)).
Proof. repeat split; try (vm_compute; reflexivity); simpl; lia. Qed.
