(* C08 Every valid query is answered: unsupported constructs fall back, never degrade.
   This file contains the property theorems only; proofs are in PlanProofs.v. *)
From Coq Require Import List String ZArith NArith Bool.
From Verif Require Import Ast Generated Plan PlanProofs.
Import ListNotations.

(* Planning either succeeds or fails as unsupported / not implemented; it is a
   function of the expression alone (its only argument). *)
Theorem C08_plan_total : forall e, plan e <> Err POther.
Proof. exact plan_total. Qed.
Print Assumptions C08_plan_total.

(* A query is planned natively iff every node the planner reaches is a
   natively supported construct in a supported position: an unsupported node in
   any position makes the whole query non-native. *)
Theorem C08_plan_ok_iff_native : forall e, plan e = Ok tt <-> native e.
Proof. exact plan_ok_iff_native. Qed.
Print Assumptions C08_plan_ok_iff_native.

(* The only arguments the planner does not descend into are those of a call
   with a range-selector argument; every such native function has that selector
   as its single parameter (checked against the generated tables). *)
Theorem C08_range_call_has_one_parameter : forall f,
  In f engine_funcs ->
  exists ats v r, fn_info f = Some (ats, v, r) /\
                  (existsb is_TMatrix ats = true -> List.length ats = 1%nat /\ v = 0%Z).
Proof. exact native_range_call_has_one_parameter. Qed.
Print Assumptions C08_range_call_has_one_parameter.

Theorem C08_fallback_on : forall is_range ty e,
  rejected_by_type is_range ty = false ->
  (new_query true is_range ty e = O_Native /\ native e) \/
  (new_query true is_range ty e = O_Fallback /\ ~ native e).
Proof. exact new_query_fallback_on. Qed.
Print Assumptions C08_fallback_on.

Theorem C08_fallback_off : forall is_range ty e,
  rejected_by_type is_range ty = false ->
  (new_query false is_range ty e = O_Native /\ native e) \/
  (new_query false is_range ty e = O_ErrUnsupported /\ ~ native e).
Proof. exact new_query_fallback_off. Qed.
Print Assumptions C08_fallback_off.

Theorem C08_native_path_independent_of_fallback : forall is_range ty e,
  new_query true is_range ty e = O_Native <-> new_query false is_range ty e = O_Native.
Proof. exact native_path_independent_of_fallback. Qed.
Print Assumptions C08_native_path_independent_of_fallback.

(* Over every history of query creations on one engine, each counter equals the
   number of creations that took that path (with fallback disabled the
   "false" counter additionally counts the rejected creations, as the code does). *)
Theorem C08_counters_exact : forall fb cs s s' os,
  run_creations fb s cs = (s', os) ->
  es_true s' = (es_true s + count_outcome O_Fallback os)%nat /\
  es_false s' = (es_false s + count_outcome O_Native os + count_outcome O_ErrUnsupported os)%nat /\
  List.length os = List.length cs.
Proof. exact counters_exact. Qed.
Print Assumptions C08_counters_exact.

Theorem C08_counters_exact_fallback_on : forall cs s s' os,
  run_creations true s cs = (s', os) ->
  es_true s' = (es_true s + count_outcome O_Fallback os)%nat /\
  es_false s' = (es_false s + count_outcome O_Native os)%nat.
Proof. exact counters_exact_fallback_on. Qed.
Print Assumptions C08_counters_exact_fallback_on.
