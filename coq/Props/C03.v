(* C03 Range functions see exactly the window's samples and compute the reference value.
   Property theorems only; proofs in RangeProofs.v and WindowProofs.v. *)
From Coq Require Import List ZArith NArith Bool.
From Verif Require Import Base Select SelectProofs Range RangeProofs WindowProofs.
From Verif Require RangeOrd RangeFnsProofs.
Import ListNotations.
Open Scope Z_scope.

(* The specification window: exactly the non-stale samples with
   mint <= t <= maxt (both ends inclusive), in timestamp order. *)
Theorem C03_window_meaning : forall mint maxt ss t v,
  In (t, v) (win_points mint maxt ss) <->
  exists x, In x ss /\ ts x = t /\ sv x = Some v /\ mint <= t <= maxt.
Proof. exact win_points_meaning. Qed.
Print Assumptions C03_window_meaning.

Theorem C03_window_sorted : forall mint maxt ss, sorted_ts ss ->
  forall i j d, (i < j < length (win_points mint maxt ss))%nat ->
  fst (nth i (win_points mint maxt ss) d) < fst (nth j (win_points mint maxt ss) d).
Proof. exact win_points_sorted. Qed.
Print Assumptions C03_window_sorted.

(* The executable model Range.ms_scan mirrors scan.selectPoints (reuse of the
   previous step's points), BufferedSeriesIterator/sampleRing (Seek with its
   jump, the advance loop, eviction relative to the newest sample) and the
   ReduceDelta(min(range,step)) call; it is compared with the real engine on
   every run (count_over_time / last_over_time expose size and end of the
   window). For every sample layout (strictly increasing timestamps, staleness
   markers anywhere), every range >= 0, offset, step > 0, start and number of
   steps, the windows it hands to the range function are exactly the
   specification windows. *)
Theorem C03_incremental_windows : forall ss range off step t0 n,
  sorted_ts ss -> 0 <= range -> 0 < step ->
  snd (ms_scan range off step (ms_reset ss range) (zgrid t0 step n)) =
  map (window_at range off ss) (zgrid t0 step n).
Proof. exact ms_scan_windows. Qed.
Print Assumptions C03_incremental_windows.

Theorem C03_grid : forall t step n,
  zgrid t step n = map (fun k => t + Z.of_nat k * step) (seq 0 n).
Proof. exact zgrid_map. Qed.
Print Assumptions C03_grid.

(* non-vacuity: range > step, range < step, an offset, a staleness marker *)
Example C03_example :
  let ss := [mkS 100 (Some 1); mkS 130 None; mkS 160 (Some 2); mkS 200 (Some 3); mkS 260 (Some 4)] in
  and (sorted_ts ss)
      (snd (ms_scan 60 0 30 (ms_reset ss 60) (zgrid 200 30 6)) =
       [[(160, 2); (200, 3)]; [(200, 3)]; [(200, 3); (260, 4)]; [(260, 4)]; [(260, 4)]; []]).
Proof. split; [simpl; repeat split; reflexivity|vm_compute; reflexivity]. Qed.

(* The whole operator (matrix_selector.go, Next) under the coalesce operator: N shards, each
   scanning its series batch after batch with the incremental model above (the scanner state
   persists between batches), the function applied to every window. For every function, shard
   count, batch size, window (instant or range), range >= 0 and offset, each step vector is the
   function applied to the window's end and the specification window of every series (MatrixRun.v). *)
From Verif Require Grid Shard MatrixRun.
Theorem C03_matrix_selector_operator : forall (fn : Z -> list Range.point -> option Z) range off N B w sers,
  (0 < N)%nat -> (0 < B)%nat -> wf_window w -> 0 <= range -> Forall sorted_ts sers ->
  MatrixRun.sharded_matrix fn range off (w_step w) N sers (Grid.selector_batches B w) =
  map (map (fun t => Select.stepvec_of t (map (fun ss => fn (t - off) (window_at range off ss t)) sers))) (Grid.selector_batches B w).
Proof. exact MatrixRun.sharded_matrix_spec. Qed.
Print Assumptions C03_matrix_selector_operator.

(* ---- the kernels (RangeFns.v transcribes execution/function/functions.go and is
   compared with the real kernels on every run, on primitive floats) ----------- *)

(* max_over_time / min_over_time, for any comparison that behaves like IEEE <
   (false on NaN, irreflexive, transitive): the result is one of the window's
   values; it is NaN only if all of them are; otherwise it is a number and no
   number in the window is greater (for min_over_time: smaller). *)
Theorem C03_max_over_time :
  forall (V : Type) (lt : V -> V -> bool) (isnan : V -> bool),
  (forall a b, isnan b = true -> lt a b = false) ->
  (forall a, lt a a = false) ->
  (forall a b c, lt a b = true -> lt b c = true -> lt a c = true) ->
  forall first rest, RangeFnsProofs.is_max V lt isnan (RangeOrd.max_over V lt isnan first rest) (first :: rest).
Proof. exact RangeFnsProofs.max_over_spec. Qed.
Print Assumptions C03_max_over_time.

Theorem C03_min_is_max_reversed : forall V lt isnan first rest,
  RangeOrd.min_over V lt isnan first rest = RangeOrd.max_over V (fun a b => lt b a) isnan first rest.
Proof. exact RangeFnsProofs.min_is_max_flipped. Qed.
Print Assumptions C03_min_is_max_reversed.

(* resets / changes count the adjacent pairs of the window that decrease / differ
   (two NaN do not differ) *)
Theorem C03_resets : forall V lt prev rest,
  RangeOrd.resets_from V lt prev rest =
  length (filter (fun pv : V * V => lt (snd pv) (fst pv)) (RangeFnsProofs.adjacent prev rest)).
Proof. exact RangeFnsProofs.resets_spec. Qed.
Print Assumptions C03_resets.

Theorem C03_changes : forall V isnan eqb prev rest,
  RangeOrd.changes_from V isnan eqb prev rest =
  length (filter (fun pv : V * V => negb (eqb (snd pv) (fst pv)) && negb (isnan (snd pv) && isnan (fst pv)))
                 (RangeFnsProofs.adjacent prev rest)).
Proof. exact RangeFnsProofs.changes_spec. Qed.
Print Assumptions C03_changes.

(* The arithmetic kernels are generic in the number type (RangeArith.v); the float
   instance is what is compared with the real kernels bit for bit. On the
   rationals, where nothing is rounded, the compensated loops compute the sum,
   the mean, the population variance and the least-squares slope of the window. *)
From Coq Require QArith.
From Verif Require RangeArith RangeArithProofs.

Theorem C03_sum_over_time_exact : forall vs,
  QArith_base.Qeq (RangeArith.gsum_over QArith_base.Q RangeArithProofs.qops vs) (RangeArithProofs.qsum vs).
Proof. exact RangeArithProofs.gsum_over_exact. Qed.
Print Assumptions C03_sum_over_time_exact.

Theorem C03_avg_over_time_exact : forall vs, vs <> [] ->
  QArith_base.Qeq (RangeArith.gavg_over QArith_base.Q RangeArithProofs.qops vs) (RangeArithProofs.qmean vs).
Proof. exact RangeArithProofs.gavg_over_exact. Qed.
Print Assumptions C03_avg_over_time_exact.

(* stdvar_over_time; stddev_over_time is its square root *)
Theorem C03_stdvar_over_time_exact : forall vs, vs <> [] ->
  QArith_base.Qeq (RangeArith.gvariance_over QArith_base.Q RangeArithProofs.qops vs) (RangeArithProofs.qvar vs).
Proof. exact RangeArithProofs.gvariance_over_exact. Qed.
Print Assumptions C03_stdvar_over_time_exact.

(* deriv: 0 on a constant window, else covariance over variance of (seconds since the first point, value) *)
Theorem C03_deriv_exact : forall p0 rest,
  let ps := p0 :: rest in
  let xs := RangeArithProofs.xs_of (fst p0) ps in let ys := RangeArithProofs.ys_of ps in
  QArith_base.Qeq (RangeArith.gderiv QArith_base.Q RangeArithProofs.qops ps)
    (if forallb (fun p => QArith_base.Qeq_bool (snd p) (snd p0)) rest then QArith_base.Qmake 0 1
     else QArith_base.Qdiv
            (QArith_base.Qminus (RangeArithProofs.qdot xs ys)
               (QArith_base.Qdiv (QArith_base.Qmult (RangeArithProofs.qsum xs) (RangeArithProofs.qsum ys)) (RangeArithProofs.qlen xs)))
            (QArith_base.Qminus (RangeArithProofs.qdot xs xs)
               (QArith_base.Qdiv (QArith_base.Qmult (RangeArithProofs.qsum xs) (RangeArithProofs.qsum xs)) (RangeArithProofs.qlen xs)))).
Proof. exact RangeArithProofs.gderiv_exact. Qed.
Print Assumptions C03_deriv_exact.

(* non-vacuity: 1, 2, 4, 9 has mean 4 and variance 19/2 *)
Example C03_exact_example :
  let vs := [QArith_base.Qmake 1 1; QArith_base.Qmake 2 1; QArith_base.Qmake 4 1; QArith_base.Qmake 9 1] in
  QArith_base.Qeq (RangeArith.gavg_over QArith_base.Q RangeArithProofs.qops vs) (QArith_base.Qmake 4 1) /\
  QArith_base.Qeq (RangeArith.gvariance_over QArith_base.Q RangeArithProofs.qops vs) (QArith_base.Qmake 19 2).
Proof. split; vm_compute; reflexivity. Qed.

(* PARTIAL. With rounding, that the float kernels compute "the reference value"
   is the statement that the reference uses the same operations in the same
   order (bitwise correspondence with the real kernels, reference oracle on the
   real engine); extrapolatedRate and instantValue are their own definition. *)
