(* C03 Range functions see exactly the window's samples and compute the reference value.
   Property theorems only; proofs in RangeProofs.v. Partial: see the note below. *)
From Coq Require Import List ZArith NArith Bool.
From Verif Require Import Base Select Range RangeProofs.
Import ListNotations.
Open Scope Z_scope.

(* The specification window: exactly the non-stale samples with
   mint <= t <= maxt (both ends inclusive), in timestamp order. *)
Theorem C03_window_meaning : forall mint maxt ss t v,
  In (t, v) (win_points mint maxt ss) <->
  exists x, In x ss /\ ts x = t /\ sv x = Some v /\ mint <= t <= maxt.
Proof. exact win_points_meaning. Qed.
Print Assumptions C03_window_meaning.

Theorem C03_window_sorted : forall mint maxt ss, sorted_ts ss ->
  forall i j d, (i < j < length (win_points mint maxt ss))%nat ->
  fst (nth i (win_points mint maxt ss) d) < fst (nth j (win_points mint maxt ss) d).
Proof. exact win_points_sorted. Qed.
Print Assumptions C03_window_sorted.

(* PARTIAL. The executable model Range.ms_scan mirrors scan.selectPoints (reuse
   of the previous step's points), BufferedSeriesIterator/sampleRing and the
   ReduceDelta(min(range,step)) call; it is compared with the real engine on
   every run (count_over_time / last_over_time expose size and end of the
   window). The theorem [ms_scan ... = map (window_at ...)] for every (range,
   step, spacing) relation is not proved yet (invariants J1-J3 of DESIGN.md
   appendix B); RangeProofs.first_step_example evaluates it on a concrete
   layout with range > step, range < step, an offset and a staleness marker. *)
