(* C03 Range functions see exactly the window's samples and compute the reference value.
   Property theorems only; proofs in RangeProofs.v and WindowProofs.v. *)
From Coq Require Import List ZArith NArith Bool.
From Verif Require Import Base Select SelectProofs Range RangeProofs WindowProofs.
Import ListNotations.
Open Scope Z_scope.

(* The specification window: exactly the non-stale samples with
   mint <= t <= maxt (both ends inclusive), in timestamp order. *)
Theorem C03_window_meaning : forall mint maxt ss t v,
  In (t, v) (win_points mint maxt ss) <->
  exists x, In x ss /\ ts x = t /\ sv x = Some v /\ mint <= t <= maxt.
Proof. exact win_points_meaning. Qed.
Print Assumptions C03_window_meaning.

Theorem C03_window_sorted : forall mint maxt ss, sorted_ts ss ->
  forall i j d, (i < j < length (win_points mint maxt ss))%nat ->
  fst (nth i (win_points mint maxt ss) d) < fst (nth j (win_points mint maxt ss) d).
Proof. exact win_points_sorted. Qed.
Print Assumptions C03_window_sorted.

(* The executable model Range.ms_scan mirrors scan.selectPoints (reuse of the
   previous step's points), BufferedSeriesIterator/sampleRing (Seek with its
   jump, the advance loop, eviction relative to the newest sample) and the
   ReduceDelta(min(range,step)) call; it is compared with the real engine on
   every run (count_over_time / last_over_time expose size and end of the
   window). For every sample layout (strictly increasing timestamps, staleness
   markers anywhere), every range >= 0, offset, step > 0, start and number of
   steps, the windows it hands to the range function are exactly the
   specification windows. *)
Theorem C03_incremental_windows : forall ss range off step t0 n,
  sorted_ts ss -> 0 <= range -> 0 < step ->
  snd (ms_scan range off step (ms_reset ss range) (zgrid t0 step n)) =
  map (window_at range off ss) (zgrid t0 step n).
Proof. exact ms_scan_windows. Qed.
Print Assumptions C03_incremental_windows.

Theorem C03_grid : forall t step n,
  zgrid t step n = map (fun k => t + Z.of_nat k * step) (seq 0 n).
Proof. exact zgrid_map. Qed.
Print Assumptions C03_grid.

(* non-vacuity: range > step, range < step, an offset, a staleness marker *)
Example C03_example :
  let ss := [mkS 100 (Some 1); mkS 130 None; mkS 160 (Some 2); mkS 200 (Some 3); mkS 260 (Some 4)] in
  and (sorted_ts ss)
      (snd (ms_scan 60 0 30 (ms_reset ss 60) (zgrid 200 30 6)) =
       [[(160, 2); (200, 3)]; [(200, 3)]; [(200, 3); (260, 4)]; [(260, 4)]; [(260, 4)]; []]).
Proof. split; [simpl; repeat split; reflexivity|vm_compute; reflexivity]. Qed.
