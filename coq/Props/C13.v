(* C13 No query can crash the host process.
   Property theorems only; proofs in LifeProofs.v. Partial: see the note below. *)
From Coq Require Import List ZArith NArith Bool.
From Verif Require Import Life LifeProofs.
Import ListNotations.

(* If every goroutine the engine starts recovers, then for every fault pattern
   (a failure or a panic at any storage callback, any number of them) the
   process does not crash ... *)
Theorem C13_no_crash : forall p faults k, all_go_recover p = true -> snd (run p faults k) <> SCrash.
Proof. exact no_crash. Qed.
Print Assumptions C13_no_crash.

(* ... and Exec, which runs below a recover() boundary, returns a value or an error. *)
Theorem C13_exec_value_or_error : forall p faults,
  all_go_recover p = true -> status_of (Recover p) faults = SOk \/ status_of (Recover p) faults = SErr.
Proof. exact exec_value_or_error. Qed.
Print Assumptions C13_exec_value_or_error.

(* the engine's skeleton (coalesce loaders and pull goroutines recover) qualifies *)
Theorem C13_engine_skeleton_recovers : forall sels nsteps, all_go_recover (exec_prog true sels nsteps) = true.
Proof. exact exec_prog_recovers. Qed.
Print Assumptions C13_engine_skeleton_recovers.

(* PARTIAL. The skeleton lists the goroutine entry points by hand (concurrency
   pull, coalesce Next/loadSeries, binary initOutputs, workers) and says for each
   whether it recovers; that list and the parameter handling of topk/quantile are
   tied to the code by the panic-injection and extreme-parameter oracles of the
   check (child processes, every callback site), not by a translation. *)
