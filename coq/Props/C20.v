(* C20 No state leaks between queries; returned results stay untouched.
   Property theorems only; proofs in Hist.v. Partial: see the note below. *)
From Coq Require Import List ZArith NArith Bool.
From Verif Require Import Hist.
Import ListNotations.

(* One engine instance answering a history of queries interleaved with changes
   of the stored data returns, for every query, what a fresh engine returns on
   the data current at that point: the only state an engine carries from query
   to query are the two path counters. *)
Theorem C20_history_eq_fresh : forall (Q D R : Type) (eval : Q -> D -> R) (fb : Q -> bool) h e d,
  snd (run_history Q D R eval fb e d h) = fresh_answers Q D R eval d h.
Proof. exact history_eq_fresh. Qed.
Print Assumptions C20_history_eq_fresh.

Theorem C20_counters_exact_history : forall (Q D R : Type) (eval : Q -> D -> R) (fb : Q -> bool) h e d,
  let e' := fst (fst (run_history Q D R eval fb e d h)) in
  cnt_fallback e' = cnt_fallback e + count_queries Q D fb h /\
  cnt_native e' = cnt_native e + count_queries Q D (fun q => negb (fb q)) h.
Proof. exact counters_exact_history. Qed.
Print Assumptions C20_counters_exact_history.

(* PARTIAL. The model states which engine-level state exists (counters) and that
   evaluation is a function of query and data; that the code has no other
   engine-level or package-level mutable state, and that a returned result is
   never altered later (aliasing with pooled buffers), is decided by the history
   oracle (fresh engine comparison at every step, deep snapshots of all earlier
   results re-checked after every operation). *)
