(* C17 Queriers are always closed exactly once; storage-owned data is never modified.
   Property theorems only; proofs in LifeProofs.v. Partial: see the note below. *)
From Coq Require Import List ZArith NArith Bool.
From Verif Require Import Life LifeProofs.
Import ListNotations.

(* Unless the process crashed, when the execution returns every querier has been
   closed exactly as often as it was opened - on success, storage error, panic
   (and cancellation, which the skeleton sees as an error) alike. Queriers are
   opened only by "open; defer Close; body" ([WithQuerier]), as in
   seriesSelector.loadSeries. *)
Theorem C17_queriers_balanced : forall p faults k k' t s,
  run p faults k = (k', t, s) -> s <> SCrash -> forall id, count_open id t = count_close id t.
Proof. exact queriers_balanced. Qed.
Print Assumptions C17_queriers_balanced.

(* with all goroutines recovering there is no crash, hence always balance *)
Theorem C17_engine_balanced : forall sels nsteps faults id,
  count_open id (trace_of (exec_prog true sels nsteps) faults) =
  count_close id (trace_of (exec_prog true sels nsteps) faults).
Proof.
  intros. unfold trace_of.
  destruct (run (exec_prog true sels nsteps) faults 0) as [[k' t] s] eqn:E. simpl.
  apply (queriers_balanced _ _ _ _ _ _ E).
  pose proof (no_crash (exec_prog true sels nsteps) faults 0 (exec_prog_recovers sels nsteps)) as H.
  rewrite E in H. exact H.
Qed.
Print Assumptions C17_engine_balanced.

(* PARTIAL. "Closed no later than when Exec returns" relies on every goroutine
   being joined before its starter returns (the skeleton's Go is synchronous);
   "no querier for a query that is never executed" and "storage-owned label sets
   and samples are never modified" are not modelled: they are decided by the
   lifecycle oracle (open/close stamps at the moment Exec returns, zero callbacks
   between creation and Exec, canary-padded shared label slices, deep snapshots). *)
