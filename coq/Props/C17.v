(* C17 Queriers are always closed exactly once; storage-owned data is never modified.
   Property theorems only; proofs in LifeProofs.v and LifeOnce.v. Partial: see the note below. *)
From Coq Require Import List ZArith NArith Bool.
From Verif Require Import Life LifeProofs LifeOnce.
Import ListNotations.

(* Unless the process crashed, when the execution returns every querier has been
   closed exactly as often as it was opened - on success, storage error, panic
   (and cancellation, which the skeleton sees as an error) alike. Queriers are
   opened only by "open; defer Close; body" ([WithQuerier]), as in
   seriesSelector.loadSeries. *)
Theorem C17_queriers_balanced : forall p faults k k' t s,
  run p faults k = (k', t, s) -> s <> SCrash -> forall id, count_open id t = count_close id t.
Proof. exact queriers_balanced. Qed.
Print Assumptions C17_queriers_balanced.

(* with all goroutines recovering there is no crash, hence always balance *)
Theorem C17_engine_balanced : forall sels nsteps faults id,
  count_open id (trace_of (exec_prog true sels nsteps) faults) =
  count_close id (trace_of (exec_prog true sels nsteps) faults).
Proof.
  intros. unfold trace_of.
  destruct (run (exec_prog true sels nsteps) faults 0) as [[k' t] s] eqn:E. simpl.
  apply (queriers_balanced _ _ _ _ _ _ E).
  pose proof (no_crash (exec_prog true sels nsteps) faults 0 (exec_prog_recovers sels nsteps)) as H.
  rewrite E in H. exact H.
Qed.
Print Assumptions C17_engine_balanced.

(* "Exactly once". The selectors of one execution have queriers of their own
   (distinct names). Then, whatever faults are injected and wherever: a querier
   is opened at most once; when Exec returns it has been closed exactly as
   often as it was opened; at no moment of the execution has it been closed more
   often than opened (no Close ahead of the Open, no second Close); and when the
   execution succeeds every selector's querier was opened - hence closed -
   exactly once. *)
Theorem C17_engine_queriers_exactly_once : forall sels nsteps faults id,
  NoDup (map fst sels) ->
  let t := trace_of (exec_prog true sels nsteps) faults in
  count_open id t <= 1 /\
  count_close id t = count_open id t /\
  never_ahead t /\
  (status_of (exec_prog true sels nsteps) faults = SOk -> In id (map fst sels) -> count_open id t = 1).
Proof. exact engine_queriers_exactly_once. Qed.
Print Assumptions C17_engine_queriers_exactly_once.

(* the same two facts for every program of the skeleton, crashing ones included *)
Theorem C17_opened_at_most_once : forall p faults k k' t s id,
  NoDup (qids p) -> run p faults k = (k', t, s) -> count_open id t <= 1.
Proof. exact opened_at_most_once. Qed.
Print Assumptions C17_opened_at_most_once.

Theorem C17_never_closed_ahead_of_open : forall p faults k k' t s,
  run p faults k = (k', t, s) ->
  forall n id, count_close id (firstn n t) <= count_open id (firstn n t).
Proof. exact run_never_ahead. Qed.
Print Assumptions C17_never_closed_ahead_of_open.

(* PARTIAL. "Closed no later than when Exec returns" relies on every goroutine
   being joined before its starter returns (the skeleton's Go is synchronous);
   "no querier for a query that is never executed" and "storage-owned label sets
   and samples are never modified" are not modelled: they are decided by the
   lifecycle oracle (open/close stamps at the moment Exec returns, zero callbacks
   between creation and Exec, canary-padded shared label slices, deep snapshots). *)
