(* C04 Aggregations group, label and reduce exactly as the reference engine.
   Property theorems only; proofs in AggProofs.v and TopkProofs.v. Partial: see the note at the end. *)
From Coq Require Import List ZArith NArith Bool.
From Verif Require Import Base Agg AggProofs Topk TopkProofs.
From Verif Require Grid Compose AggEnd.
Import ListNotations.
Close Scope Z_scope.

(* The accumulator tables are reused from batch to batch: what a table held
   before does not influence the step's result (reset of every accumulator). *)
Theorem C04_table_reset_local : forall (V A : Type) (empty : V -> A) (add : A -> V -> A) inputs param (old old' : list (acc A)) vec,
  length old = length old' ->
  aggregate V A empty add inputs param old vec = aggregate V A empty add inputs param old' vec.
Proof. exact table_reset_local. Qed.
Print Assumptions C04_table_reset_local.

(* For every group: the accumulator after a step is the reduction, in arrival
   order and starting from the reset state for this step's parameter, of exactly
   the samples present at this step whose series belong to the group; the group
   has an output iff it has at least one member at this step. *)
Theorem C04_group_value : forall (V A : Type) (empty : V -> A) (add : A -> V -> A) inputs param (old : list (acc A)) vec g d,
  g < length old ->
  nth g (aggregate V A empty add inputs param old vec) d =
  match members V inputs g vec with
  | [] => mkAcc A false (empty param)
  | ms => mkAcc A true (fold_left add ms (empty param))
  end.
Proof. exact aggregate_group_value. Qed.
Print Assumptions C04_group_value.

(* Input series are assigned to output groups by their grouping key (labels kept
   by "by", labels left by "without" minus the metric name), groups being
   numbered by first appearance: series j belongs to the group whose label set
   is its key. *)
Theorem C04_assign_groups_sound : forall keys groups ids gs,
  assign_groups keys groups = (ids, gs) ->
  (exists ext, gs = groups ++ ext) /\ length ids = length keys /\
  forall j, j < length keys -> nth_error gs (nth j ids 0) = nth_error keys j.
Proof. exact assign_groups_sound. Qed.
Print Assumptions C04_assign_groups_sound.

Example C04_example :
  let l1 := [(0, 5); (1, 7); (2, 9)]%N in let l2 := [(0, 6); (1, 7)]%N in let l3 := [(1, 8); (2, 9)]%N in
  map (group_labels true [2%N]) [l1; l2; l3] = [[(1, 7)]; [(1, 7)]; [(1, 8)]]%N /\
  map (group_labels false [2%N; 3%N]) [l1; l2; l3] = [[(2, 9)]; []; [(2, 9)]]%N /\
  fst (assign_groups (map (group_labels true [2%N]) [l1; l2; l3]) []) = [0; 0; 1].
Proof. repeat split; vm_compute; reflexivity. Qed.

(* End to end for  count [by|without] (labels) (selector): for every shard
   count, batch size and window, the engine - sharded, batched selector feeding
   the aggregation's table, which is reused from step to step - produces one
   list of groups per grid step, and at every step the groups and their counts
   are exactly the reference's: one output per distinct grouping key among the
   samples present at the step, with the number of such samples. *)
Theorem C04_count_over_selector :
  forall (without : bool) (grouping : list N) (slabels : list labels) (sers : list (list sample)) (off : Z),
  length slabels = length sers ->
  forall (cf : Compose.cfg) (w : window),
  (0 < Compose.c_shards cf) -> (0 < Compose.c_batch cf) -> (0 <= Compose.c_lookback cf)%Z -> wf_window w ->
  Forall sorted_ts sers ->
  exists outs,
    AggEnd.engine_count without grouping slabels sers off cf w = outs /\ map fst outs = Grid.grid w /\
    forall t out, In (t, out) outs ->
      forall m n, In (m, n) out <->
                  In (m, n) (AggEnd.reference_count without grouping slabels sers off (Compose.c_lookback cf) t).
Proof. exact AggEnd.count_over_selector_matches_reference. Qed.
Print Assumptions C04_count_over_selector.

(* non-vacuity: count by (a) over three series, two shards, batches of two; 1 = a *)
Example C04_count_example :
  let slabels := [[(0, 10); (1, 20); (2, 31)]; [(0, 10); (1, 20); (2, 32)]; [(0, 10); (1, 21); (2, 31)]]%N in
  let sers := [[mkS 950 (Some 2); mkS 1040 (Some 3)]; [mkS 990 (Some 5)]; [mkS 1000 (Some 7)]]%Z in
  AggEnd.engine_count false [1%N] slabels sers 0%Z (Compose.mkCfg 2 2 60%Z) (mkW 1000 1090 30)%Z =
  [(1000%Z, [([(1, 20)]%N, 2); ([(1, 21)]%N, 1)]); (1030%Z, [([(1, 20)]%N, 1); ([(1, 21)]%N, 1)]);
   (1060%Z, [([(1, 20)]%N, 1); ([(1, 21)]%N, 1)]); (1090%Z, [([(1, 20)]%N, 1)])].
Proof. vm_compute. reflexivity. Qed.

(* topk / bottomk (Topk.v models kAggregate.aggregate; compared with the real
   operator on every run). For any comparison that is a strict weak order on
   the non-NaN values and false on NaN (IEEE <, or > for bottomk), any k >= 1
   and any samples of a group with distinct IDs: what the group emits is a
   sublist of its samples without repetition, min(k, n) of them, and no dropped
   sample is strictly better than an emitted one (NaN counts as worst). Which of
   several equal samples is kept is not determined (nor is it by the reference). *)
Theorem C04_topk_group :
  forall (V : Type) (lt : V -> V -> bool) (isnan : V -> bool),
  (forall a b, isnan b = true -> lt a b = false) ->
  (forall a, lt a a = false) ->
  (forall a b c, lt a b = true -> lt b c = true -> lt a c = true) ->
  (forall a b c, isnan c = false -> lt a b = true -> lt a c = true \/ lt c b = true) ->
  forall k samples, 1 <= k -> NoDup (map fst samples) ->
  incl (topk_group V lt isnan k samples) samples /\
  NoDup (map fst (topk_group V lt isnan k samples)) /\
  length (topk_group V lt isnan k samples) = Nat.min k (length samples) /\
  forall x y, In x (topk_group V lt isnan k samples) -> In y samples -> ~ In y (topk_group V lt isnan k samples) ->
              worse V lt isnan (snd x) (snd y) = false.
Proof. exact topk_group_spec. Qed.
Print Assumptions C04_topk_group.

(* End to end for  topk/bottomk [by|without] (labels) (k, selector): at every
   grid step the output is the concatenation, over the groups, of min(k, n) of
   the group's n samples present at the step, none strictly worse than a dropped
   one - for every shard count, batch size and window. *)
Theorem C04_topk_over_selector :
  forall (lt : Z -> Z -> bool) (isnan : Z -> bool),
  (forall a b, isnan b = true -> lt a b = false) ->
  (forall a, lt a a = false) ->
  (forall a b c, lt a b = true -> lt b c = true -> lt a c = true) ->
  (forall a b c, isnan c = false -> lt a b = true -> lt a c = true \/ lt c b = true) ->
  forall (without : bool) (grouping : list N) (slabels : list labels) (sers : list (list sample)) (off : Z) (k : nat)
         (cf : Compose.cfg) (w : window),
  (0 < Compose.c_shards cf) -> (0 < Compose.c_batch cf) -> (0 <= Compose.c_lookback cf)%Z -> wf_window w ->
  Forall sorted_ts sers -> 1 <= k ->
  exists outs,
    AggEnd.engine_topk lt isnan without grouping slabels sers off k cf w = outs /\ map fst outs = Grid.grid w /\
    forall t out, In (t, out) outs ->
      exists heaps, out = concat heaps /\ length heaps = length (AggEnd.groups without grouping slabels) /\
        forall g, g < length (AggEnd.groups without grouping slabels) ->
          let kept := nth g heaps [] in
          let present := AggEnd.group_samples without grouping slabels sers off (Compose.c_lookback cf) t g in
          incl kept present /\ NoDup (map fst kept) /\
          length kept = Nat.min k (length present) /\
          forall x y, In x kept -> In y present -> ~ In y kept -> worse Z lt isnan (snd x) (snd y) = false.
Proof. exact AggEnd.topk_over_selector. Qed.
Print Assumptions C04_topk_over_selector.

(* the hypotheses are satisfiable: integers with no NaN, topk and bottomk *)
Theorem C04_topk_group_Z : forall k samples, 1 <= k -> NoDup (map fst samples) ->
  length (topk_group Z Z.ltb (fun _ => false) k samples) = Nat.min k (length samples) /\
  (forall x y, In x (topk_group Z Z.ltb (fun _ => false) k samples) -> In y samples ->
               ~ In y (topk_group Z Z.ltb (fun _ => false) k samples) -> (snd y <= snd x)%Z) /\
  (forall x y, In x (topk_group Z (fun a b => Z.ltb b a) (fun _ => false) k samples) -> In y samples ->
               ~ In y (topk_group Z (fun a b => Z.ltb b a) (fun _ => false) k samples) -> (snd x <= snd y)%Z).
Proof. exact topk_group_Z. Qed.
Print Assumptions C04_topk_group_Z.

Example C04_topk_example :
  topk_group Z Z.ltb (fun _ => false) 2 [(0, 5%Z); (1, 9%Z); (2, 7%Z); (3, 1%Z)] = [(1, 9%Z); (2, 7%Z)] /\
  topk_step Z Z.ltb (fun _ => false) 1 [0; 1; 0; 1] 2 [(0, 5%Z); (1, 9%Z); (2, 7%Z); (3, 1%Z)] = [(2, 7%Z); (1, 9%Z)] /\
  topk_step Z Z.ltb (fun _ => false) 0 [0; 1; 0; 1] 2 [(0, 5%Z); (1, 9%Z)] = [].
Proof. repeat split; vm_compute; reflexivity. Qed.

(* topk / bottomk as a function of the step's samples: when no two samples of a group have the
   same value, the samples the heaps keep are exactly those with fewer than k strictly better
   samples in their group, whatever the order of arrival (TopkTree.v); with ties the choice among
   equal values is the heap's, and C04_topk_group bounds it. In operator trees (Trees.JTopk,
   C01_join_trees) the kept samples equal the reference's selection at every step. *)
From Coq Require Import Lia.
From Verif Require TopkTree Trees TreeOps.
Theorem C04_topk_is_rank_selection : forall (bottom : bool) (inputs : list nat) k ngroups (vec : list (nat * Z)),
  let lt := if bottom then (fun a b => Z.ltb b a) else Z.ltb in
  (1 <= k)%nat -> NoDup (map fst vec) ->
  (forall e, In e vec -> (TopkTree.group_of Z inputs e < ngroups)%nat) ->
  (forall g, NoDup (map snd (filter (TopkTree.in_group Z inputs g) vec))) ->
  Permutation.Permutation (topk_step Z lt (TopkTree.nonan Z) k inputs ngroups vec)
                          (filter (TopkTree.step_keep Z lt inputs k vec) vec).
Proof.
  intros bottom inputs k ngroups vec lt.
  exact (TopkTree.topk_step_rank Z (Trees.ltk bottom) (Trees.ltk_irrefl bottom) (Trees.ltk_trans bottom) (Trees.ltk_total bottom)
           Z.eq_dec inputs k ngroups vec).
Qed.
Print Assumptions C04_topk_is_rank_selection.

(* non-vacuity: bottomk by (b) (1, foo) over two steps, and the reference's selection at the first *)
Example C04_topk_tree_example :
  let foo := Trees.JLeaf [[(0, 10); (1, 20); (2, 31)]; [(0, 10); (1, 21); (2, 31)]; [(0, 10); (1, 22); (2, 32)]]%N
                         [[mkS 940 (Some 2); mkS 1040 (Some 9)]; [mkS 950 (Some 5)]; [mkS 1000 (Some 1)]]%Z 0%Z None in
  let t := Trees.JTopk true 1 false [2%N] foo in
  Trees.jok t /\
  Trees.jrun (Compose.mkCfg 2 10 300%Z) (mkW 1000 1050 50)%Z t = inl [(1000, [(0%nat, 2); (2%nat, 1)]); (1050, [(1%nat, 5); (2%nat, 1)])]%Z /\
  Trees.jref 300%Z t 1000%Z = Some [([(0, 10); (1, 20); (2, 31)]%N, 2%Z); ([(0, 10); (1, 22); (2, 32)]%N, 1%Z)].
Proof.
  cbv zeta. split; [|split; vm_compute; reflexivity].
  unfold Trees.jok. simpl. repeat split; auto. repeat constructor; simpl; lia.
Qed.

(* Aggregations inside operator trees (Trees.JAgg, any accumulator that takes its first value
   through [init] and the others through [add]; sum, max, min, group are instances: TreeOps.zagg_laws):
   the group's value does not depend on the order in which its members arrive; the end-to-end
   statement - groups, labels and values of every aggregation node of a tree over sharded,
   batched selectors equal the reference's at every step - is C01_join_trees. *)

Theorem C04_group_value_order_free : forall (init : Z -> Z) (add : Z -> Z -> Z),
  (forall a b, add (init a) b = add (init b) a) -> (forall x a b, add (add x a) b = add (add x b) a) ->
  forall l l', Permutation.Permutation l l' -> Trees.agg_fold init add l = Trees.agg_fold init add l'.
Proof. exact Trees.agg_fold_perm. Qed.
Print Assumptions C04_group_value_order_free.

Theorem C04_accumulators_satisfy_laws : forall code, In code [0; 1; 2; 3]%N ->
  (forall a b, TreeOps.zadd code (TreeOps.zinit code a) b = TreeOps.zadd code (TreeOps.zinit code b) a) /\
  (forall x a b, TreeOps.zadd code (TreeOps.zadd code x a) b = TreeOps.zadd code (TreeOps.zadd code x b) a).
Proof. exact TreeOps.zagg_laws. Qed.
Print Assumptions C04_accumulators_satisfy_laws.

(* avg and stddev/stdvar: the accumulators (generic in the number type, RangeArith.v;
   the float instance is compared with scalar_table.go on every run) compute,
   on the rationals where nothing is rounded, the mean and the population
   variance of the group's values. *)
From Coq Require QArith.
From Verif Require RangeArith RangeArithProofs.

Theorem C04_avg_exact : forall vs, vs <> [] ->
  QArith_base.Qeq (RangeArith.gacc_avg QArith_base.Q RangeArithProofs.qops vs) (RangeArithProofs.qmean vs).
Proof. exact RangeArithProofs.gacc_avg_exact. Qed.
Print Assumptions C04_avg_exact.

Theorem C04_stdvar_exact : forall vs, vs <> [] ->
  QArith_base.Qeq (RangeArith.gacc_variance QArith_base.Q RangeArithProofs.qops vs) (RangeArithProofs.qvar vs).
Proof. exact RangeArithProofs.gacc_variance_exact. Qed.
Print Assumptions C04_stdvar_exact.

(* quantile: the accumulator collects the group's samples and sorts them (RangeArith.gquantile, the kernel
   the correspondence compares with the real accumulator on floats). On exact numbers its value is a
   function of the multiset of the samples: the order in which the series arrive does not matter. *)
From Verif Require BucketProofs QuantileProofs.
Theorem C04_quantile_independent_of_sample_order : forall (pinf ninf q : Qcanon.Qc) l l',
  Permutation.Permutation l l' ->
  RangeArith.gquantile Qcanon.Qc BucketProofs.qcops pinf ninf q l = RangeArith.gquantile Qcanon.Qc BucketProofs.qcops pinf ninf q l'.
Proof. exact QuantileProofs.quantile_order_independent. Qed.
Print Assumptions C04_quantile_independent_of_sample_order.

Theorem C04_quantile_order_independent_generic : forall (V : Type) (o : RangeArith.ops V),
  (forall a, RangeArith.isnan o a = false) ->
  (forall a, RangeArith.ltb o a a = false) ->
  (forall a b c, RangeArith.ltb o a b = true -> RangeArith.ltb o b c = true -> RangeArith.ltb o a c = true) ->
  (forall a b, RangeArith.ltb o a b = false -> RangeArith.ltb o b a = false -> a = b) ->
  forall pinf ninf q l l', Permutation.Permutation l l' ->
  RangeArith.gquantile V o pinf ninf q l = RangeArith.gquantile V o pinf ninf q l'.
Proof. exact QuantileProofs.gquantile_perm. Qed.
Print Assumptions C04_quantile_order_independent_generic.

(* ... and, on the rationals, for 0 <= q <= 1 over a non-empty group it lies between two consecutive order
   statistics of the group - the sorted sample at the floor of the rank q * (n - 1) and its successor - hence
   between two of the group's samples *)
From Verif Require QuantileRange.
Theorem C04_quantile_between_order_statistics : forall (pinf ninf q : QArith_base.Q) (points : list QArith_base.Q),
  points <> [] -> QArith_base.Qle (QArith_base.inject_Z 0) q -> QArith_base.Qle q (QArith_base.inject_Z 1) ->
  let n := List.length points in
  let rank := QArith_base.Qmult q (QArith_base.Qminus (QArith_base.inject_Z (Z.of_nat n)) (QArith_base.inject_Z 1)) in
  let lo := RangeArith.gfloor_upto QArith_base.Q RangeArithProofs.qops n rank in
  let hi := Nat.min (n - 1) (lo + 1) in
  let r := RangeArith.gquantile QArith_base.Q RangeArithProofs.qops pinf ninf q points in
  (lo <= hi < n)%nat /\
  QArith_base.Qle (nth lo (RangeArith.gsort QArith_base.Q RangeArithProofs.qops points) (QArith_base.inject_Z 0)) r /\
  QArith_base.Qle r (nth hi (RangeArith.gsort QArith_base.Q RangeArithProofs.qops points) (QArith_base.inject_Z 0)).
Proof. exact QuantileRange.quantile_between_order_statistics. Qed.
Print Assumptions C04_quantile_between_order_statistics.

Theorem C04_quantile_between_samples : forall (pinf ninf q : QArith_base.Q) (points : list QArith_base.Q),
  points <> [] -> QArith_base.Qle (QArith_base.inject_Z 0) q -> QArith_base.Qle q (QArith_base.inject_Z 1) ->
  exists a b, In a points /\ In b points /\
    QArith_base.Qle a (RangeArith.gquantile QArith_base.Q RangeArithProofs.qops pinf ninf q points) /\
    QArith_base.Qle (RangeArith.gquantile QArith_base.Q RangeArithProofs.qops pinf ninf q points) b.
Proof. exact QuantileRange.quantile_between_samples. Qed.
Print Assumptions C04_quantile_between_samples.

(* PARTIAL. Proved for every accumulator (sum, min, max, avg, count, group,
   stddev, stdvar, quantile are instances of [empty]/[add]): grouping, per-step
   membership, reset locality, parameter taken per step; for topk/bottomk the
   selection per group. Not proved: equality of each accumulator's
   rounded floating-point value with the reference engine's (decided by the
   reference oracle; without rounding see C04_avg_exact, C04_stdvar_exact); the strict-weak-order hypotheses of C04_topk_group for IEEE doubles
   are assumed of the hardware comparison, not derived. *)
