(* C12 Concurrent queries on one engine are race-free and isolated.
   Property theorems only; proofs in Hist.v. Partial: see the note below. *)
From Coq Require Import List ZArith NArith Bool.
From Verif Require Import Hist.
Import ListNotations.

(* Queries whose small steps touch only their own state (operator tree,
   selector pool, vector pools are created per query; the storage and the
   engine's configuration are only read): under every interleaving each query
   ends in the state it reaches alone. *)
Theorem C12_interleaving_noninterference : forall (S : Type) (step : S -> S) sched sts i d,
  i < length sts ->
  nth i (run_schedule S step sts sched) d = iter S step (count_occ_nat i sched) (nth i sts d).
Proof. exact interleaving_noninterference. Qed.
Print Assumptions C12_interleaving_noninterference.

(* PARTIAL. Absence of unsynchronised conflicting memory accesses is a property
   of the Go memory model and of what the code shares by accident; no Gallina
   model exhibits it. It is decided by the race-detector build of the harness
   (K = 2, 8, 32 concurrent queries, native/fallback/distributed, Cancel racing
   Exec), each result compared with its solo run. *)
