(* C18 Every operator honours the stream contract its consumers rely on.
   Property theorems only; proofs in StreamWF.v. *)
From Coq Require Import List ZArith NArith Bool.
From Verif Require Import Base Grid Select Shard Exec Compose StreamWF Bin BinProofs.
Import ListNotations.
Open Scope Z_scope.

(* Every operator tree whose per-step functions keep the step timestamp and
   produce well-formed vectors emits a well-formed stream: batches of 1..B
   vectors, one vector per grid step in strictly increasing step order with no
   step repeated or skipped, IDs unique and indexing the series list, as many
   values as IDs. Staleness markers cannot be emitted (values are payloads of
   non-stale samples). *)
Theorem C18_run_wf_stream : forall c w p n,
  (0 < c_shards c)%nat -> (0 < c_batch c)%nat -> 0 <= c_lookback c -> wf_window w -> plan_wf p n ->
  wf_stream (c_batch c) w n (run c w p).
Proof. exact run_wf_stream. Qed.
Print Assumptions C18_run_wf_stream.

(* The selector leaf: its vectors are well-formed over the selected series. *)
Theorem C18_selector_vector_wf : forall lb off sers t,
  wf_stepvec (length sers) (select_step lb off sers t) /\ svT (select_step lb off sers t) = t.
Proof. intros. split; [apply select_step_wf|apply select_step_T]. Qed.
Print Assumptions C18_selector_vector_wf.

(* The generator operators cut the grid into the same batches, each step once. *)
Theorem C18_generators_agree : forall B w, (0 < B)%nat -> wf_window w ->
  concat (selector_batches B w) = grid w /\ concat (counter_batches B w) = grid w.
Proof.
  intros B w HB Hw. split.
  - exact (selector_batches_cover_grid B w HB Hw).
  - exact (counter_batches_cover_grid B w HB Hw).
Qed.
Print Assumptions C18_generators_agree.

(* The vector/vector binary operator: the sample IDs of every step vector it
   emits are pairwise distinct (the per-step pairing of Bin.v, which the real
   table computes at every step by C05_table_is_pairing). *)
Theorem C18_join_ids_unique :
  forall (V : Type) (op : V -> V -> V * bool) (b2v : bool -> V) (c : Bin.card) (return_bool : bool)
         (hidx : list (option nat)) (lidx : list (list nat)) (lhs rhs : list (nat * V)),
  NoDup (BinProofs.all_outs V (Bin.rhs_outs c hidx lidx) rhs) ->
  NoDup (map fst (Bin.pure_step V op b2v c return_bool hidx lidx lhs rhs)).
Proof. exact BinProofs.pure_step_ids_unique. Qed.
Print Assumptions C18_join_ids_unique.

(* The histogram_quantile operator: every output series occurs at most once in a step vector and every
   sample ID indexes the output series list, whatever the buckets and the number type. *)
From Verif Require RangeArith Bucket BucketProofs.
Theorem C18_histogram_ids_unique_and_in_range :
  forall (V : Type) (o : RangeArith.ops V) (pinf ninf : V) nout idx q vec,
  NoDup (map fst (Bucket.hist_step V o pinf ninf nout idx q vec)) /\
  forall e, In e (Bucket.hist_step V o pinf ninf nout idx q vec) -> (fst e < nout)%nat.
Proof. exact BucketProofs.hist_step_ids. Qed.
Print Assumptions C18_histogram_ids_unique_and_in_range.
