(* C19 Every successful result is a well-formed PromQL value.
   Property theorems only; proofs in StreamWF.v. Partial: see the note below. *)
From Coq Require Import List ZArith NArith Bool.
From Verif Require Import Base Grid Select Shard Exec Compose StreamWF.
Import ListNotations.
Open Scope Z_scope.

(* The points Exec collects for any series ID from a well-formed root stream
   have strictly increasing timestamps, all on the query's step grid. *)
Theorem C19_points_increasing_on_grid : forall B w n s i,
  0 < w_step w -> wf_stream B w n s ->
  increasing (map fst (points_of i s)) /\ Forall (fun t => In t (grid w)) (map fst (points_of i s)).
Proof. exact exec_points_on_grid. Qed.
Print Assumptions C19_points_increasing_on_grid.

(* Instant query: at most one point per series, stamped with the evaluation time. *)
Theorem C19_instant_points : forall B w n s i,
  w_step w = 0 -> wf_window w -> wf_stream B w n s ->
  Forall (fun t => t = w_start w) (map fst (points_of i s)) /\ (length (points_of i s) <= 1)%nat.
Proof. exact exec_points_instant. Qed.
Print Assumptions C19_instant_points.

(* The grid lies within [start, end]. *)
Theorem C19_grid_within_window : forall w, wf_window w ->
  Forall (fun t => w_start w <= t <= w_end w) (grid w).
Proof. intros w Hw. exact (grid_within 1%nat w ltac:(repeat constructor) Hw). Qed.
Print Assumptions C19_grid_within_window.

(* PARTIAL. Proved: per-series shape (strictly increasing, on-grid timestamps;
   instant stamping; no staleness marker by construction). Not proved: pairwise
   distinct label sets of the result - false of the pinned engine when name
   dropping makes distinct series collide (known findings F22a-c, F20) - and
   sortedness of label sets, which depend on the label functions of each
   operator. Those are decided by the result validator of the check. *)

(* histogram_quantile: the output series of the operator have pairwise distinct label sets - a bucket
   series joins the output series named by its labels without le and metric name if that one exists
   (two metrics whose buckets agree on all other labels feed one histogram; the operators that drop
   the metric name series by series do not merge, which is the recorded finding F22) *)
From Verif Require Bucket BucketProofs.
Theorem C19_histogram_output_series_distinct : forall (V : Type) le (ins : list (Base.labels * option (option V))),
  NoDup (fst (Bucket.load V le ins [])).
Proof. exact BucketProofs.hist_output_series_distinct. Qed.
Print Assumptions C19_histogram_output_series_distinct.

(* aggregations: the groups - the output series of count / sum / min / max / avg / group / stddev /
   stdvar / quantile nodes - are pairwise distinct label sets, whatever the operand's series *)
From Verif Require AggEnd Trees SeriesDistinct.
Theorem C19_aggregation_groups_distinct : forall without grouping (slabels : list Base.labels),
  NoDup (AggEnd.groups without grouping slabels).
Proof. exact SeriesDistinct.groups_distinct. Qed.
Print Assumptions C19_aggregation_groups_distinct.

Theorem C19_aggregation_nodes_have_distinct_series : forall t,
  match t with
  | Trees.JCount _ _ _ _ | Trees.JAgg _ _ _ _ _ => NoDup (Trees.jseries t)
  | _ => True
  end.
Proof. exact SeriesDistinct.aggregation_series_distinct. Qed.
Print Assumptions C19_aggregation_nodes_have_distinct_series.
