(* C07 A range query equals the sequence of instant queries on its step grid.
   Property theorems only; proofs in Compose.v (over Select/Shard/Grid proofs). *)
From Coq Require Import List ZArith NArith Bool.
From Verif Require Import Base Grid Select Shard Exec Compose Bin BinProofs.
From Verif Require Trees.
Import ListNotations.
Open Scope Z_scope.

(* Step locality: the stream of every operator tree (sharded selectors and
   literals under per-step operators) is the query's batch structure mapped by
   a per-step function that does not mention the window. *)
Theorem C07_step_local : forall c w p,
  (0 < c_shards c)%nat -> (0 < c_batch c)%nat -> 0 <= c_lookback c -> wf_window w -> plan_ok p ->
  run c w p = map (map (denote (c_lookback c) p)) (selector_batches (c_batch c) w).
Proof. exact run_step_local. Qed.
Print Assumptions C07_step_local.

(* The vectors a range query emits are exactly the per-step denotations at the
   grid timestamps start + k*step <= end, in order: no other points. *)
Theorem C07_range_covers_exactly_the_grid : forall c w p,
  (0 < c_shards c)%nat -> (0 < c_batch c)%nat -> 0 <= c_lookback c -> wf_window w -> plan_ok p ->
  concat (run c w p) = map (denote (c_lookback c) p) (grid w).
Proof. exact run_covers_grid. Qed.
Print Assumptions C07_range_covers_exactly_the_grid.

(* An instant query at t yields the single vector [denote p t], and that is the
   vector the range query has at t, for any two configurations (shard counts,
   batch sizes) with the same lookback. Hence the value at t does not depend on
   the window's start, length, step count or batch position. *)
Theorem C07_range_is_instants : forall c c' w p t,
  (0 < c_shards c)%nat -> (0 < c_batch c)%nat -> (0 < c_shards c')%nat -> (0 < c_batch c')%nat ->
  0 <= c_lookback c -> c_lookback c' = c_lookback c -> wf_window w -> plan_ok p ->
  concat (run c' (mkW t t 0) p) = [denote (c_lookback c) p t] /\
  (In t (grid w) -> In (denote (c_lookback c) p t) (concat (run c w p))).
Proof. exact range_is_instants. Qed.
Print Assumptions C07_range_is_instants.

(* The vector/vector binary operator keeps a table across steps (Bin.v); the
   operator trees above treat per-step operators as functions of the step. For
   the join this is a theorem: what a range query computes at a step is what
   the one-step query at that timestamp computes, whatever the reused table
   held before (any number of steps, any cardinality). *)
Theorem C07_join_range_is_instants :
  forall (V : Type) (dflt : V) (op : V -> V -> V * bool) (b2v : bool -> V) (on : bool) (ml incl : list N)
         (c : Bin.card) (return_bool op_drops_name : bool) (lhs_series rhs_series : list labels),
  BinProofs.one_side_unique on ml (BinProofs.one_side_series c lhs_series rhs_series) ->
  forall steps prev, (Bin.noT <= prev)%Z -> BinProofs.increasing V prev steps ->
  Forall (BinProofs.good_step V lhs_series rhs_series) steps ->
  forall s, In s steps ->
  exists out outs,
    Bin.run_operator V dflt op b2v on ml incl c return_bool op_drops_name lhs_series rhs_series [s] = inl [(fst (fst s), out)] /\
    Bin.run_operator V dflt op b2v on ml incl c return_bool op_drops_name lhs_series rhs_series steps = inl outs /\
    In (fst (fst s), out) outs.
Proof. exact BinProofs.join_range_is_instants. Qed.
Print Assumptions C07_join_range_is_instants.

(* ... and for whole operator trees (joins, per-sample operators, count
   aggregations over selectors; the composite model compared with the engine on
   every run): what a range query produces at a grid step is what the instant
   query at that timestamp produces, for any shard counts and batch sizes. *)
Theorem C07_tree_range_is_instants :
  forall (cf cf' : cfg) (w : window) (t : Trees.jtree) (ts : Z),
  (0 < c_shards cf)%nat -> (0 < c_batch cf)%nat -> (0 < c_shards cf')%nat -> (0 < c_batch cf')%nat ->
  0 <= c_lookback cf -> c_lookback cf' = c_lookback cf -> wf_window w -> Bin.noT < w_start w -> Trees.jok t ->
  In ts (grid w) ->
  exists outs,
    Trees.jrun cf w t = inl outs /\ In (ts, Trees.jdenote (c_lookback cf) t ts) outs /\
    Trees.jrun cf' (mkW ts ts 0) t = inl [(ts, Trees.jdenote (c_lookback cf) t ts)].
Proof. exact Trees.jtree_range_is_instants. Qed.
Print Assumptions C07_tree_range_is_instants.
