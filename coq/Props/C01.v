(* C01 Natively evaluated queries return what the reference Prometheus engine returns.
   Property theorems only; they assemble the per-construct results. Partial: see the note. *)
From Coq Require Import List String ZArith NArith Bool Lia.
From Verif Require TreeOps.
From Verif Require Import Base Grid Select SelectProofs Shard Exec Compose StreamWF Agg AggProofs.
From Verif Require Bin BinProofs EndToEnd Trees.
Import ListNotations.
Open Scope Z_scope.

(* The engine's evaluation of an operator tree over a window is, step by step
   and in grid order, the per-timestamp denotation of the tree - the shape of the
   reference engine's evaluation - for every shard count, batch size, window and
   lookback; the leaves denote the reference's instant selection [pick]. *)
Theorem C01_engine_is_per_step_denotation_partial : forall c w p,
  (0 < c_shards c)%nat -> (0 < c_batch c)%nat -> 0 <= c_lookback c -> wf_window w -> plan_ok p ->
  List.concat (run c w p) = map (denote (c_lookback c) p) (grid w).
Proof. exact run_covers_grid. Qed.
Print Assumptions C01_engine_is_per_step_denotation_partial.

Theorem C01_leaf_is_reference_selection : forall lb ss r v, sorted_ts ss ->
  (pick lb ss r = Some v <->
   exists x, In x ss /\ ts x <= r /\ (forall y, In y ss -> ts y <= r -> ts y <= ts x) /\
             r - lb <= ts x /\ sv x = Some v).
Proof. exact pick_meaning. Qed.
Print Assumptions C01_leaf_is_reference_selection.

(* what Exec returns for a series are the step values of that series, in order *)
Theorem C01_result_points_on_grid : forall B w n s i,
  0 < w_step w -> wf_stream B w n s ->
  increasing (map fst (points_of i s)) /\ Forall (fun t => In t (grid w)) (map fst (points_of i s)).
Proof. exact exec_points_on_grid. Qed.
Print Assumptions C01_result_points_on_grid.

(* End to end for the query shape  L op R  over two vector selectors (any
   arithmetic or comparison operator on value bits, on/ignoring, group_left /
   group_right with included labels, bool): for every shard count, batch size
   and window the engine (sharded, batched selectors feeding the join with its
   reused table) produces one vector of samples per grid step, and at every
   step at which the reference engine's VectorBinop succeeds on the reference
   instant selections the engine's samples are a permutation of the reference's
   (same label sets, same values, same multiplicities).
   Hypothesis: distinct signatures among the "one" side's series (F20 otherwise). *)
Theorem C01_binary_over_selectors :
  forall (op : Z -> Z -> Z * bool) (b2v : bool -> Z) (on : bool) (ml incl : list N) (c : Bin.card)
         (return_bool op_drops_name : bool) (llabels rlabels : list labels) (lsers rsers : list (list sample))
         (loff roff : Z) (cf : cfg) (w : window),
  (0 < c_shards cf)%nat -> (0 < c_batch cf)%nat -> 0 <= c_lookback cf -> wf_window w ->
  Forall sorted_ts lsers -> Forall sorted_ts rsers ->
  List.length llabels = List.length lsers -> List.length rlabels = List.length rsers ->
  Bin.noT < w_start w ->
  BinProofs.one_side_unique on ml (BinProofs.one_side_series c llabels rlabels) ->
  (Bin.is_one_to_one c = true -> incl = []) ->
  exists outs,
    EndToEnd.engine_binary op b2v on ml incl c return_bool op_drops_name llabels rlabels lsers rsers loff roff cf w = inl outs /\
    map fst outs = grid w /\
    forall t out, In (t, out) outs ->
      forall ref_out,
        EndToEnd.reference_binary op b2v on ml incl c return_bool op_drops_name llabels rlabels lsers rsers loff roff (c_lookback cf) t = Some ref_out ->
        Permutation.Permutation out ref_out.
Proof. exact EndToEnd.binary_over_selectors_matches_reference. Qed.
Print Assumptions C01_binary_over_selectors.

(* non-vacuity: foo{a,b} * on (a) group_left (c) bar{a,c} with two shards, batches of two,
   four steps, lookback 100; 0 = __name__, 1 = a, 2 = b, 3 = c *)
Example C01_binary_example :
  let mul (x y : Z) := ((x * y)%Z, true) in
  let b2z (b : bool) := if b then 1 else 0 in
  let llabels := [[(0, 10); (1, 20); (2, 31)]; [(0, 10); (1, 20); (2, 32)]; [(0, 10); (1, 21); (2, 31)]]%N in
  let rlabels := [[(0, 11); (1, 20); (3, 40)]; [(0, 11); (1, 22); (3, 41)]]%N in
  let lsers := [[mkS 950 (Some 2); mkS 1040 (Some 3)]; [mkS 990 (Some 5)]; [mkS 1000 (Some 7)]] in
  let rsers := [[mkS 980 (Some 10); mkS 1050 None]; [mkS 1000 (Some 1)]] in
  EndToEnd.engine_binary mul b2z true [1%N] [3%N] Bin.ManyToOne false true llabels rlabels lsers rsers 0 0
                         (mkCfg 2 2 100) (mkW 1000 1090 30) =
  inl [(1000, [([(1, 20); (2, 31); (3, 40)]%N, 20); ([(1, 20); (2, 32); (3, 40)]%N, 50)]);
       (1030, [([(1, 20); (2, 31); (3, 40)]%N, 20); ([(1, 20); (2, 32); (3, 40)]%N, 50)]);
       (1060, []); (1090, [])] /\
  EndToEnd.reference_binary mul b2z true [1%N] [3%N] Bin.ManyToOne false true llabels rlabels lsers rsers 0 0 100 1030 =
  Some [([(1, 20); (2, 31); (3, 40)]%N, 20); ([(1, 20); (2, 32); (3, 40)]%N, 50)].
Proof. cbv zeta. split; vm_compute; reflexivity. Qed.

(* ... and for arbitrary trees of vector/vector binary operators, per-sample
   operators (instant functions, unary minus, arithmetic and comparisons with a
   literal), aggregations (count; any accumulator with an order-free fold: sum, max, min, group;
   topk/bottomk with a literal k, the reference being defined where no two samples of a group tie)
   over selectors and over range functions of matrix selectors (any function of the window), e.g.
   sum by (z) (abs(a + on (x) b) * ignoring (y) group_left (max_over_time(c[5m] offset 1m) > 2)): every node's stream is its
   per-timestamp denotation (Trees.jdenote) mapped over the grid; its sample IDs are distinct and name series
   of the node; at every timestamp at which the reference evaluation of the
   node succeeds, the node's labelled samples are a permutation of the
   reference's. Hypothesis at every join: distinct signatures among the series
   of its "one" side (as the node below enumerates them). *)
Theorem C01_join_trees :
  forall (cf : cfg) (w : window),
  (0 < c_shards cf)%nat -> (0 < c_batch cf)%nat -> 0 <= c_lookback cf -> wf_window w -> Bin.noT < w_start w ->
  forall t, Trees.jok t ->
    Trees.jrun cf w t = inl (map (fun ts => (ts, Trees.jdenote (c_lookback cf) t ts)) (grid w)) /\
    forall ts, Trees.good_vec (List.length (Trees.jseries t)) (Trees.jdenote (c_lookback cf) t ts) /\
               forall R, Trees.jref (c_lookback cf) t ts = Some R ->
                         Permutation.Permutation (Bin.labelled Z (Trees.jseries t) (Trees.jdenote (c_lookback cf) t ts)) R.
Proof. exact Trees.jtree_matches_reference. Qed.
Print Assumptions C01_join_trees.

(* non-vacuity: (foo * on (a) group_left (c) bar) > bool on (a, b) baz *)
Example C01_join_tree_example :
  let mul (x y : Z) := ((x * y)%Z, true) in
  let gt (x y : Z) := (x, (x >? y)%Z) in
  let b2z (b : bool) := if b then 1 else 0 in
  let foo := Trees.JLeaf [[(0, 10); (1, 20); (2, 31)]; [(0, 10); (1, 20); (2, 32)]]%N
                            [[mkS 950 (Some 2); mkS 1040 (Some 3)]; [mkS 990 (Some 5)]] 0 None in
  let bar := Trees.JLeaf [[(0, 11); (1, 20); (3, 40)]]%N [[mkS 980 (Some 10)]] 0 None in
  let baz := Trees.JLeaf [[(0, 12); (1, 20); (2, 31)]; [(0, 12); (1, 20); (2, 32)]]%N
                            [[mkS 1000 (Some 25)]; [mkS 1000 (Some 25)]] 0 None in
  let inner := Trees.JJoin (Trees.mkJP mul b2z true [1%N] [3%N] Bin.ManyToOne false true) foo bar in
  let t := Trees.JJoin (Trees.mkJP gt b2z true [1%N; 2%N] [] Bin.OneToOne true false) inner baz in
  Trees.jok t /\
  Trees.jrun (mkCfg 2 2 100) (mkW 1000 1030 30) t =
    inl [(1000, [(0%nat, 0); (1%nat, 1)]); (1030, [(0%nat, 0); (1%nat, 1)])] /\
  Trees.jref 100 t 1000 = Some [([(1, 20); (2, 31)]%N, 0); ([(1, 20); (2, 32)]%N, 1)].
Proof.
  cbv zeta. split; [|split; vm_compute; reflexivity].
  simpl. repeat split; try reflexivity; try (repeat constructor; simpl; lia);
    try (intros i j Hi Hj _; simpl in Hi, Hj; lia); try discriminate.
  intros i j Hi Hj H. vm_compute in Hi, Hj.
  destruct i as [|[|i]]; destruct j as [|[|j]]; try lia; try reflexivity; vm_compute in H; discriminate.
Qed.

(* non-vacuity with a range function and an aggregation: sum by (b) (max_over_time(foo[60ms])) *)
Example C01_range_agg_tree_example :
  let foo_l := [[(0, 10); (1, 20); (2, 31)]; [(0, 10); (1, 21); (2, 31)]; [(0, 10); (1, 22); (2, 32)]]%N in
  let foo_s := [[mkS 940 (Some 2); mkS 990 (Some 7); mkS 1040 (Some 3)]; [mkS 950 (Some 5)]; [mkS 1000 (Some 1)]] in
  let t := Trees.JAgg (TreeOps.zinit 0) (TreeOps.zadd 0) false [2%N]
                      (Trees.JRange false (TreeOps.zrange 2) 60 foo_l foo_s 0 None) in
  Trees.jok t /\
  Trees.jrun (mkCfg 2 10 300) (mkW 1000 1100 50) t =
    inl [(1000, [(0%nat, 12); (1%nat, 1)]); (1050, [(0%nat, 7); (1%nat, 1)]); (1100, [(0%nat, 3)])] /\
  Trees.jseries t = [[(2, 31)]; [(2, 32)]]%N.
Proof.
  cbv zeta. split; [|split; vm_compute; reflexivity].
  simpl. repeat split; try (intros; lia); repeat constructor; simpl; lia.
Qed.

(* PARTIAL. The full statement (value equality with the reference for every
   native construct) is false of the pinned engine (known findings F02, F20,
   F22a-c, F30) and its floating-point kernels are not modelled. Proved: the
   evaluation skeleton (step locality, grid coverage, sharding/batching
   independence), the selection semantics of the leaves, the grouping and reset
   logic of aggregations (C04), hints (C16), optimizer soundness (C09), and, end to
   end, the query shape L op R over selectors (C01_binary_over_selectors) and
   arbitrary trees of such operators (C01_join_trees). The
   remaining obligation - per-construct value equality - is decided by the
   reference oracle on the full native vocabulary. *)
