(* C01 Natively evaluated queries return what the reference Prometheus engine returns.
   Property theorems only; they assemble the per-construct results. Partial: see the note. *)
From Coq Require Import List String ZArith NArith Bool.
From Verif Require Import Base Grid Select SelectProofs Shard Exec Compose StreamWF Agg AggProofs.
Import ListNotations.
Open Scope Z_scope.

(* The engine's evaluation of an operator tree over a window is, step by step
   and in grid order, the per-timestamp denotation of the tree - the shape of the
   reference engine's evaluation - for every shard count, batch size, window and
   lookback; the leaves denote the reference's instant selection [pick]. *)
Theorem C01_engine_is_per_step_denotation_partial : forall c w p,
  (0 < c_shards c)%nat -> (0 < c_batch c)%nat -> 0 <= c_lookback c -> wf_window w -> plan_ok p ->
  List.concat (run c w p) = map (denote (c_lookback c) p) (grid w).
Proof. exact run_covers_grid. Qed.
Print Assumptions C01_engine_is_per_step_denotation_partial.

Theorem C01_leaf_is_reference_selection : forall lb ss r v, sorted_ts ss ->
  (pick lb ss r = Some v <->
   exists x, In x ss /\ ts x <= r /\ (forall y, In y ss -> ts y <= r -> ts y <= ts x) /\
             r - lb <= ts x /\ sv x = Some v).
Proof. exact pick_meaning. Qed.
Print Assumptions C01_leaf_is_reference_selection.

(* what Exec returns for a series are the step values of that series, in order *)
Theorem C01_result_points_on_grid : forall B w n s i,
  0 < w_step w -> wf_stream B w n s ->
  increasing (map fst (points_of i s)) /\ Forall (fun t => In t (grid w)) (map fst (points_of i s)).
Proof. exact exec_points_on_grid. Qed.
Print Assumptions C01_result_points_on_grid.

(* PARTIAL. The full statement (value equality with the reference for every
   native construct) is false of the pinned engine (known findings F02, F20,
   F22a-c, F30) and its floating-point kernels are not modelled. Proved: the
   evaluation skeleton (step locality, grid coverage, sharding/batching
   independence), the selection semantics of the leaves, the grouping and reset
   logic of aggregations (C04), hints (C16), optimizer soundness (C09). The
   remaining obligation - per-construct value equality - is decided by the
   reference oracle on the full native vocabulary. *)
