(* The stream contract between operators (C18) and the shape of the result
   assembled by Exec (C19), proved for the operator trees of Compose.v. *)
From Coq Require Import List ZArith NArith Bool Lia Sorting.Sorted.
From Verif Require Import Base Grid Select SelectProofs Shard SelectorProofs Exec Compose.
Import ListNotations.
Open Scope Z_scope.

(* one step vector: IDs duplicate-free and indexing the series list, as many values as IDs *)
Definition wf_stepvec (n : nat) (sv : stepvec) : Prop :=
  NoDup (svIDs sv) /\ Forall (fun i => (i < n)%nat) (svIDs sv) /\ length (svIDs sv) = length (svVals sv).

(* a stream over window w with n series and batch size B: non-empty batches of
   at most B vectors, one vector per grid step in order (none repeated or
   skipped), every vector well-formed. (A staleness marker cannot occur: values
   are the [Some] payloads of samples.) *)
Definition wf_stream (B : nat) (w : window) (n : nat) (s : list batch) : Prop :=
  Forall (fun b => b <> [] /\ (length b <= B)%nat) s /\
  map svT (concat s) = grid w /\
  Forall (wf_stepvec n) (concat s).

(* ---- the IDs produced by [collect] ------------------------------------ *)

Lemma collect_ids_range i col :
  Forall (fun k => (i <= k < i + length col)%nat) (fst (collect i col)).
Proof.
  revert i. induction col as [|c col IH]; intros i; simpl; [constructor|].
  specialize (IH (S i)). destruct (collect (S i) col) as [ids vs]. simpl in IH.
  assert (H : Forall (fun k => (i <= k < i + S (length col))%nat) ids).
  { eapply Forall_impl; [|exact IH]. simpl. intros; lia. }
  destruct c; simpl; [constructor; [lia|exact H]|exact H].
Qed.

Lemma collect_ids_nodup i col : NoDup (fst (collect i col)).
Proof.
  revert i. induction col as [|c col IH]; intros i; simpl; [constructor|].
  pose proof (collect_ids_range (S i) col) as Hr. specialize (IH (S i)).
  destruct (collect (S i) col) as [ids vs]. simpl in *.
  destruct c; simpl; [|exact IH]. constructor; [|exact IH].
  intros Hin. rewrite Forall_forall in Hr. specialize (Hr i Hin). lia.
Qed.

Lemma select_step_wf lb off sers t : wf_stepvec (length sers) (select_step lb off sers t).
Proof.
  unfold select_step, stepvec_of, wf_stepvec.
  pose proof (collect_ids_nodup 0 (map (fun ss => pick lb ss (t - off)) sers)) as Hn.
  pose proof (collect_ids_range 0 (map (fun ss => pick lb ss (t - off)) sers)) as Hr.
  pose proof (collect_length 0 (map (fun ss => pick lb ss (t - off)) sers)) as Hl.
  destruct (collect 0 _) as [ids vs]. simpl in *. rewrite map_length in Hr.
  repeat split; auto. eapply Forall_impl; [|exact Hr]. simpl; intros; lia.
Qed.

Lemma select_step_T lb off sers t : svT (select_step lb off sers t) = t.
Proof. unfold select_step, stepvec_of. destruct (collect 0 _). reflexivity. Qed.

(* ---- operator trees ---------------------------------------------------- *)

(* the number of series an operator announces, and the requirement that every
   per-step function keeps the step's timestamp and produces a well-formed
   vector over its own series list *)
Inductive plan_wf : plan -> nat -> Prop :=
| WSelect sers off : Forall sorted_ts sers -> plan_wf (PSelect sers off) (length sers)
| WLiteral v : plan_wf (PLiteral v) 1
| WMap f q n m : plan_wf q n ->
    (forall sv, wf_stepvec n sv -> wf_stepvec m (f sv) /\ svT (f sv) = svT sv) ->
    plan_wf (PMap f q) m
| WZip f q r n1 n2 m : plan_wf q n1 -> plan_wf r n2 ->
    (forall a b, wf_stepvec n1 a -> wf_stepvec n2 b -> svT a = svT b ->
                 wf_stepvec m (f a b) /\ svT (f a b) = svT a) ->
    plan_wf (PZip f q r) m.

Lemma plan_wf_ok p n : plan_wf p n -> plan_ok p.
Proof. induction 1; simpl; auto. Qed.

Lemma denote_wf lb p n t : plan_wf p n -> wf_stepvec n (denote lb p t) /\ svT (denote lb p t) = t.
Proof.
  induction 1 as [sers off Hs|v|f q n m Hq IH Hf|f q r n1 n2 m Hq IHq Hr IHr Hf]; simpl.
  - split; [apply select_step_wf|apply select_step_T].
  - split; [|reflexivity]. unfold wf_stepvec; simpl. repeat split; auto.
    + constructor; [intros []|constructor].
  - destruct IH as [Hw Ht]. destruct (Hf _ Hw) as [Hw' Ht']. split; [assumption|congruence].
  - destruct IHq as [Hwq Htq], IHr as [Hwr Htr].
    destruct (Hf _ _ Hwq Hwr ltac:(congruence)) as [Hw' Ht']. split; [assumption|congruence].
Qed.

(* C18 for operator trees: every edge carries a well-formed stream *)
Theorem run_wf_stream c w p n :
  (0 < c_shards c)%nat -> (0 < c_batch c)%nat -> 0 <= c_lookback c -> wf_window w -> plan_wf p n ->
  wf_stream (c_batch c) w n (run c w p).
Proof.
  intros HN HB Hlb Hw Hp. pose proof (plan_wf_ok p n Hp) as Hok.
  unfold wf_stream. rewrite run_step_local by assumption. repeat split.
  - pose proof (selector_batches_sized (c_batch c) w HB Hw) as Hs.
    induction Hs as [|b bs [Hne Hlen] _ IH]; simpl; constructor; auto.
    split; [destruct b; [congruence|discriminate]|rewrite map_length; assumption].
  - rewrite <- concat_map, map_map. rewrite (selector_batches_cover_grid (c_batch c) w HB Hw).
    rewrite <- (map_id (grid w)) at 2. apply map_ext. intros t. apply denote_wf with (n := n). assumption.
  - rewrite <- concat_map. apply Forall_forall. intros sv Hin. apply in_map_iff in Hin.
    destruct Hin as [t [<- _]]. apply denote_wf. assumption.
Qed.

(* ---- Exec: the points of one result series (C19) ----------------------- *)

Fixpoint increasing (l : list Z) : Prop :=
  match l with
  | [] => True
  | x :: rest => Forall (fun y => x < y) rest /\ increasing rest
  end.

Lemma grid_increasing_list w : 0 < w_step w -> increasing (grid w).
Proof.
  intros Hst. unfold grid. generalize (Z.to_nat (total_steps w)) as n. generalize 0%nat as k.
  intros k n. revert k. induction n as [|n IH]; intros k; simpl; [exact I|].
  split; [|apply IH]. apply Forall_forall. intros y Hy. apply in_map_iff in Hy.
  destruct Hy as [j [<- Hj]]. apply in_seq in Hj. unfold grid_at. nia.
Qed.

Lemma points_of_times i (vs : list stepvec) :
  exists keep : list bool, length keep = length vs /\
  map fst (flat_map (fun sv => match lookup_id i (svIDs sv) (svVals sv) with
                               | Some v => [(svT sv, v)] | None => [] end) vs) =
  map fst (filter snd (combine (map svT vs) keep)).
Proof.
  induction vs as [|sv vs [keep [Hl IH]]]; simpl.
  - exists []. split; reflexivity.
  - destruct (lookup_id i (svIDs sv) (svVals sv)) as [v|].
    + exists (true :: keep). simpl. split; [lia|]. f_equal. exact IH.
    + exists (false :: keep). simpl. split; [lia|]. exact IH.
Qed.

Lemma increasing_filter_combine (ts : list Z) : increasing ts -> forall keep,
  increasing (map fst (filter snd (combine ts keep))) /\
  Forall (fun t => In t ts) (map fst (filter snd (combine ts keep))).
Proof.
  induction ts as [|t ts IH]; intros Hinc keep; simpl; [split; [exact I|constructor]|].
  destruct keep as [|k keep]; simpl; [split; [exact I|constructor]|].
  destruct Hinc as [Hlt Hinc]. destruct (IH Hinc keep) as [I1 I2].
  assert (I2' : Forall (fun t0 => t = t0 \/ In t0 ts) (map fst (filter snd (combine ts keep)))).
  { eapply Forall_impl; [|exact I2]. simpl; auto. }
  destruct k; simpl.
  - split; [split; [|exact I1]|constructor; auto].
    rewrite Forall_forall in *. intros y Hy. apply Hlt. apply I2. assumption.
  - split; assumption.
Qed.

(* every series of the assembled result has strictly increasing timestamps
   that lie on the query's step grid *)
Theorem exec_points_on_grid B w n s i :
  0 < w_step w -> wf_stream B w n s ->
  increasing (map fst (points_of i s)) /\ Forall (fun t => In t (grid w)) (map fst (points_of i s)).
Proof.
  intros Hst [_ [HT _]]. unfold points_of.
  destruct (points_of_times i (concat s)) as [keep [_ Heq]]. rewrite Heq, HT.
  apply increasing_filter_combine. apply grid_increasing_list. assumption.
Qed.

(* instant query: exactly the evaluation time *)
Theorem exec_points_instant B w n s i :
  w_step w = 0 -> wf_window w -> wf_stream B w n s ->
  Forall (fun t => t = w_start w) (map fst (points_of i s)) /\ (length (points_of i s) <= 1)%nat.
Proof.
  intros Hst Hw [_ [HT _]]. unfold points_of.
  assert (Hg : grid w = [w_start w]).
  { unfold grid, total_steps. rewrite Hst. simpl. unfold grid_at. rewrite Hst. f_equal. lia. }
  rewrite Hg in HT.
  destruct (concat s) as [|sv [|sv2 rest]]; simpl in *; try discriminate.
  inversion HT as [HsvT]. destruct (lookup_id i (svIDs sv) (svVals sv)); simpl; split; auto.
Qed.
