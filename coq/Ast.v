(* The expression language shared by all AST-level models: the pinned parser's
   node kinds after PreprocessExpr, plus the engine's own logical nodes
   (FilteredSelector is folded into the selector record; Coalesce;
   RemoteExecution). Label names and values are N identifiers whose order is
   the byte-wise string order (harness/astdump.go); name 0 is "__name__" and
   value 0 is the empty string. *)
From Coq Require Import List String ZArith NArith Bool.
Import ListNotations.

Inductive vtype := TScalar | TVector | TMatrix | TString | TNone.

Definition vtype_eqb (a b : vtype) : bool :=
  match a, b with
  | TScalar, TScalar | TVector, TVector | TMatrix, TMatrix | TString, TString | TNone, TNone => true
  | _, _ => false
  end.

Lemma vtype_eqb_eq a b : vtype_eqb a b = true <-> a = b.
Proof. destruct a, b; simpl; split; intros H; try reflexivity; try discriminate. Qed.

Inductive mtype := MEq | MNeq | MRe | MNre.

Definition mtype_eqb (a b : mtype) : bool :=
  match a, b with
  | MEq, MEq | MNeq, MNeq | MRe, MRe | MNre, MNre => true
  | _, _ => false
  end.

Lemma mtype_eqb_eq a b : mtype_eqb a b = true <-> a = b.
Proof. destruct a, b; simpl; split; intros H; try reflexivity; try discriminate. Qed.

Record matcher := mkM { mname : N; mty : mtype; mval : N }.

Definition matcher_eqb (a b : matcher) : bool :=
  N.eqb (mname a) (mname b) && mtype_eqb (mty a) (mty b) && N.eqb (mval a) (mval b).

Lemma matcher_eqb_eq a b : matcher_eqb a b = true <-> a = b.
Proof.
  destruct a as [n1 t1 v1], b as [n2 t2 v2]; unfold matcher_eqb; simpl.
  rewrite !andb_true_iff, !N.eqb_eq, mtype_eqb_eq. split.
  - intros [[-> ->] ->]; reflexivity.
  - intros H; inversion H; auto.
Qed.

Inductive card := OneToOne | ManyToOne | OneToMany | ManyToMany.

Definition card_eqb (a b : card) : bool :=
  match a, b with
  | OneToOne, OneToOne | ManyToOne, ManyToOne | OneToMany, OneToMany | ManyToMany, ManyToMany => true
  | _, _ => false
  end.

(* A vector selector. [vflt = Some fs] is the engine's FilteredSelector: the
   storage select uses [vms], the in-engine filter [fs]. [vorig] is the offset
   written in the query, [voff] the offset used for evaluation (after the @
   adjustment of setOffsetForAtModifier), [vat] the resolved @ timestamp. *)
Record vsel := mkVS {
  vms : list matcher; vorig : Z; voff : Z; vat : option Z; vflt : option (list matcher);
  vsyn : N }.   (* the selector's syntactic metric name (parser's Name field): 0 when written as a matcher *)

Inductive expr :=
| ENum (bits : Z)
| EStr
| EVec (v : vsel)
| EMat (v : vsel) (rng : Z)
| ESubq (e : expr)
| ECall (f : string) (args : list expr)
| EAgg (op : string) (without : bool) (grp : list N) (param : option expr) (e : expr)
| EBin (op : string) (rbool : bool) (cd : card) (on : bool) (ml incl : list N) (l r : expr)
| EUn (neg : bool) (e : expr)
| EParen (e : expr)
| EStepInv (e : expr)
| ECoalesce (es : list expr)
| ERemote (eng : N) (q : expr).

(* Induction principle that descends into the argument lists. *)
Section ExprInd.
  Variable P : expr -> Prop.
  Hypothesis HNum : forall b, P (ENum b).
  Hypothesis HStr : P EStr.
  Hypothesis HVec : forall v, P (EVec v).
  Hypothesis HMat : forall v r, P (EMat v r).
  Hypothesis HSubq : forall e, P e -> P (ESubq e).
  Hypothesis HCall : forall f args, Forall P args -> P (ECall f args).
  Hypothesis HAgg : forall op w g p e, (forall pe, p = Some pe -> P pe) -> P e -> P (EAgg op w g p e).
  Hypothesis HBin : forall op b c on ml incl l r, P l -> P r -> P (EBin op b c on ml incl l r).
  Hypothesis HUn : forall n e, P e -> P (EUn n e).
  Hypothesis HParen : forall e, P e -> P (EParen e).
  Hypothesis HStepInv : forall e, P e -> P (EStepInv e).
  Hypothesis HCoalesce : forall es, Forall P es -> P (ECoalesce es).
  Hypothesis HRemote : forall n q, P q -> P (ERemote n q).

  Fixpoint expr_ind' (e : expr) : P e :=
    match e with
    | ENum b => HNum b
    | EStr => HStr
    | EVec v => HVec v
    | EMat v r => HMat v r
    | ESubq e => HSubq e (expr_ind' e)
    | ECall f args =>
        HCall f args ((fix go (l : list expr) : Forall P l :=
                         match l with
                         | [] => Forall_nil P
                         | x :: xs => Forall_cons x (expr_ind' x) (go xs)
                         end) args)
    | EAgg op w g p e =>
        HAgg op w g p e
          (match p as p0 return (forall pe, p0 = Some pe -> P pe) with
           | Some pe => fun pe' H => match H in (_ = o) return (match o with Some x => P x | None => True end) with eq_refl => expr_ind' pe end
           | None => fun pe' H => match H in (_ = o) return (match o with Some x => P x | None => True end) with eq_refl => I end
           end)
          (expr_ind' e)
    | EBin op b c on ml incl l r => HBin op b c on ml incl l r (expr_ind' l) (expr_ind' r)
    | EUn n e => HUn n e (expr_ind' e)
    | EParen e => HParen e (expr_ind' e)
    | EStepInv e => HStepInv e (expr_ind' e)
    | ECoalesce es =>
        HCoalesce es ((fix go (l : list expr) : Forall P l :=
                         match l with
                         | [] => Forall_nil P
                         | x :: xs => Forall_cons x (expr_ind' x) (go xs)
                         end) es)
    | ERemote n q => HRemote n q (expr_ind' q)
    end.
End ExprInd.

Definition mem_str (s : string) (l : list string) : bool :=
  existsb (String.eqb s) l.

Lemma mem_str_In s l : mem_str s l = true <-> In s l.
Proof.
  unfold mem_str. rewrite existsb_exists. split.
  - intros [x [Hx He]]. apply String.eqb_eq in He. subst; auto.
  - intros H. exists s. split; auto. apply String.eqb_refl.
Qed.
