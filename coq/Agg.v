(* Aggregation (property C04): grouping keys and output labels (hashMetric),
   assignment of input series to output groups by first appearance
   (initializeScalarTables), and the per-step scalar table with accumulators
   that are reset and reused (scalarTable.aggregate / toVector). *)
From Coq Require Import List ZArith NArith Bool Lia.
From Verif Require Import Base.
Import ListNotations.
Close Scope Z_scope.

(* ---- grouping key / output labels -------------------------------------- *)

Definition mem_n (n : N) (l : list N) : bool := existsb (N.eqb n) l.

(* by: keep the grouping labels; without: drop them and the metric name (0) *)
Definition group_labels (without : bool) (grouping : list N) (l : labels) : labels :=
  if without then filter (fun kv => negb (mem_n (fst kv) grouping) && negb (N.eqb (fst kv) 0)) l
  else filter (fun kv => mem_n (fst kv) grouping) l.

Fixpoint labels_eqb (a b : labels) : bool :=
  match a, b with
  | [], [] => true
  | (k, v) :: r, (k', v') :: r' => N.eqb k k' && N.eqb v v' && labels_eqb r r'
  | _, _ => false
  end.

Fixpoint index_of (key : labels) (groups : list labels) : option nat :=
  match groups with
  | [] => None
  | g :: rest => if labels_eqb key g then Some 0 else option_map S (index_of key rest)
  end.

(* input series -> group id, groups numbered by first appearance *)
Fixpoint assign_groups (keys : list labels) (groups : list labels) : list nat * list labels :=
  match keys with
  | [] => ([], groups)
  | k :: rest =>
      match index_of k groups with
      | Some i => let '(ids, gs) := assign_groups rest groups in (i :: ids, gs)
      | None => let '(ids, gs) := assign_groups rest (groups ++ [k]) in (length groups :: ids, gs)
      end
  end.

(* ---- the scalar table --------------------------------------------------- *)

Section Table.
  Variable V A : Type.
  Variable empty : V -> A.          (* Reset(param) *)
  Variable add : A -> V -> A.       (* AddFunc *)

  Record acc := mkAcc { a_has : bool; a_st : A }.

  Definition reset (param : V) (_ : acc) : acc := mkAcc false (empty param).

  Fixpoint upd_nth (t : list acc) (i : nat) (f : acc -> acc) : list acc :=
    match t, i with
    | [], _ => []
    | x :: r, O => f x :: r
    | x :: r, S j => x :: upd_nth r j f
    end.

  Definition add_sample (inputs : list nat) (t : list acc) (iv : nat * V) : list acc :=
    upd_nth t (nth (fst iv) inputs 0) (fun a => mkAcc true (add (a_st a) (snd iv))).

  (* scalarTable.aggregate on a table that still holds the previous batch's state *)
  Definition aggregate (inputs : list nat) (param : V) (old : list acc) (vec : list (nat * V)) : list acc :=
    fold_left (add_sample inputs) vec (map (reset param) old).

  (* the members of group g in the step vector, in arrival order *)
  Definition members (inputs : list nat) (g : nat) (vec : list (nat * V)) : list V :=
    map snd (filter (fun iv => Nat.eqb (nth (fst iv) inputs 0) g) vec).
End Table.
