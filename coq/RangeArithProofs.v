(* The generic arithmetic kernels (RangeArith.v) on the rationals: without
   rounding, the compensated loops compute the sum, the mean, the population
   variance and the least-squares slope of the window. The same definitions,
   instantiated on floats, are what the correspondence check compares with
   execution/function/functions.go bit for bit. *)
From Coq Require Import List ZArith QArith Qabs Bool Lia Lqa.
From Verif Require Import RangeArith.
Import ListNotations.
Open Scope Q_scope.

Definition qops : ops Q :=
  mkOps Q 0 1 Qplus Qminus Qmult Qdiv Qabs Qle_bool
        (fun a b => negb (Qle_bool b a)) Qeq_bool (fun _ => false) (fun _ => false) inject_Z 1000 0.

Definition qsum (l : list Q) : Q := fold_right Qplus 0 l.
Definition qlen (l : list Q) : Q := inject_Z (Z.of_nat (length l)).
Definition qmean (l : list Q) : Q := qsum l / qlen l.
Definition qvar (l : list Q) : Q := qsum (map (fun v => (v - qmean l) * (v - qmean l)) l) / qlen l.

Lemma qsum_app l x : qsum (l ++ [x]) == qsum l + x.
Proof. induction l as [|y l IH]; simpl; [ring|rewrite IH; ring]. Qed.

Lemma qlen_app l x : qlen (l ++ [x]) == qlen l + 1.
Proof.
  unfold qlen. rewrite app_length. simpl.
  replace (Z.of_nat (length l + 1)) with (Z.of_nat (length l) + 1)%Z by lia.
  rewrite inject_Z_plus. reflexivity.
Qed.

Lemma qlen_nonneg l : 0 <= qlen l.
Proof. unfold qlen. change 0 with (inject_Z 0). rewrite <- Zle_Qle. lia. Qed.

Lemma qlen_pos l : l <> [] -> 0 < qlen l.
Proof.
  intros H. unfold qlen. change 0 with (inject_Z 0). rewrite <- Zlt_Qlt.
  destruct l; [congruence|simpl; lia].
Qed.

(* fold_left with an invariant over the consumed prefix *)
Lemma fold_left_prefix_inv {A B} (f : A -> B -> A) (P : list B -> A -> Prop) :
  forall l init, P [] init ->
  (forall pre x st, P pre st -> P (pre ++ [x]) (f st x)) ->
  P l (fold_left f l init).
Proof.
  intros l init H0 Hstep.
  assert (G : forall l pre st, P pre st -> P (pre ++ l) (fold_left f l st)).
  { clear l init H0. induction l as [|x l IH]; intros pre st H; simpl.
    - rewrite app_nil_r. exact H.
    - replace (pre ++ x :: l) with ((pre ++ [x]) ++ l) by (rewrite <- app_assoc; reflexivity).
      apply IH, Hstep, H. }
  exact (G l [] init H0).
Qed.

(* ---- Kahan's step without rounding: the running total moves by inc, the
   compensation term by nothing ----------------------------------------------------- *)

Lemma gkahan_exact inc sum c :
  fst (gkahan Q qops inc sum c) == sum + inc /\ snd (gkahan Q qops inc sum c) == c.
Proof.
  unfold gkahan; cbn. destruct (Qle_bool (Qabs inc) (Qabs sum)); cbn; split; ring.
Qed.

Theorem gsum_over_exact vs : gsum_over Q qops vs == qsum vs.
Proof.
  unfold gsum_over. cbn.
  pose (P := fun (pre : list Q) (sc : Q * Q) => fst sc == qsum pre /\ snd sc == 0).
  assert (H : P vs (fold_left (fun sc v => gkahan Q qops v (fst sc) (snd sc)) vs (0, 0))).
  { apply fold_left_prefix_inv.
    - split; reflexivity.
    - intros pre x [s c] [Hs Hc]. cbn [fst snd] in *.
      destruct (gkahan_exact x s c) as [H1 H2]. split.
      + rewrite H1, Hs, qsum_app. reflexivity.
      + rewrite H2. exact Hc. }
  destruct (fold_left _ vs (0, 0)) as [s c]. destruct H as [Hs Hc]. cbn [fst snd] in *.
  rewrite Hs, Hc. ring.
Qed.

(* ---- the running mean ------------------------------------------------------------------ *)

Theorem gavg_over_exact vs : vs <> [] -> gavg_over Q qops vs == qmean vs.
Proof.
  intros Hne. unfold gavg_over. cbn.
  pose (P := fun (pre : list Q) (st : Q * Q * Q) =>
               let '(mean, count, c) := st in
               count == qlen pre /\ c == 0 /\ mean * qlen pre == qsum pre).
  assert (H : P vs (fold_left (gavg_step Q qops) vs (0, 0, 0))).
  { apply fold_left_prefix_inv.
    - cbn. repeat split; try reflexivity.
    - intros pre x [[mean count] c] (Hn & Hc & Hm). unfold gavg_step. cbn.
      destruct (gkahan_exact (x / (count + 1) - mean / (count + 1)) mean c) as [H1 H2].
      destruct (gkahan Q qops _ mean c) as [m' c'] eqn:E. cbn [fst snd] in *.
      assert (Hpos : 0 <= qlen pre) by apply qlen_nonneg.
      repeat split.
      + rewrite Hn, qlen_app. reflexivity.
      + rewrite H2. exact Hc.
      + rewrite H1, qlen_app, qsum_app, <- Hm, Hn. field. lra. }
  destruct (fold_left _ vs (0, 0, 0)) as [[mean count] c]. destruct H as (Hn & Hc & Hm).
  unfold qmean. rewrite Hc, <- Hm. pose proof (qlen_pos vs Hne). field. lra.
Qed.

(* ---- Welford's recurrence --------------------------------------------------------------- *)

Definition qsumsq (l : list Q) : Q := qsum (map (fun v => v * v) l).

Lemma qsumsq_app l x : qsumsq (l ++ [x]) == qsumsq l + x * x.
Proof. unfold qsumsq. rewrite map_app. simpl map. apply qsum_app. Qed.

Lemma qsum_dev l m :
  qsum (map (fun v => (v - m) * (v - m)) l) == qsumsq l - (2 # 1) * m * qsum l + qlen l * m * m.
Proof.
  induction l as [|x l IH].
  - unfold qsumsq, qlen. simpl. ring.
  - change (x :: l) with ([x] ++ l) at 4. unfold qsumsq in *. simpl map. simpl qsum.
    rewrite IH. unfold qlen. simpl length.
    replace (Z.of_nat (S (length l))) with (Z.of_nat (length l) + 1)%Z by lia.
    rewrite inject_Z_plus. ring.
Qed.

(* the population variance is the mean of the squares minus the square of the mean *)
Lemma qvar_alt l : l <> [] -> qvar l == qsumsq l / qlen l - qmean l * qmean l.
Proof.
  intros Hne. unfold qvar. rewrite qsum_dev. unfold qmean.
  pose proof (qlen_pos l Hne). field. lra.
Qed.

(* the state after a prefix: total mean M = mean + cMean, total A = aux + cAux *)
Definition welford_inv (pre : list Q) (st : Q * Q * Q * Q * Q) : Prop :=
  let '(count, mean, cmean, aux, caux) := st in
  count == qlen pre /\
  (mean + cmean) * qlen pre == qsum pre /\
  (aux + caux) * qlen pre == qsumsq pre * qlen pre - qsum pre * qsum pre /\
  (pre = [] -> mean == 0 /\ cmean == 0 /\ aux + caux == 0).

Lemma welford_update (k M A S Qs x : Q) :
  0 <= k ->
  M * k == S -> A * k == Qs * k - S * S -> (k == 0 -> M == 0 /\ A == 0 /\ S == 0 /\ Qs == 0) ->
  let M' := M + (x - M) / (k + 1) in
  let A' := A + (x - M) * (x - M') in
  M' * (k + 1) == S + x /\ A' * (k + 1) == (Qs + x * x) * (k + 1) - (S + x) * (S + x).
Proof.
  intros Hk HM HA H0 M' A'. subst M' A'.
  destruct (Qeq_dec k 0) as [Hz|Hnz].
  - destruct (H0 Hz) as (HM0 & HA0 & HS0 & HQ0). rewrite Hz, HM0, HA0, HS0, HQ0. split; field.
  - assert (HM' : M == S / k) by (rewrite <- HM; field; exact Hnz).
    assert (HA' : A == Qs - S * S / k).
    { assert (A == (A * k) / k) as -> by (field; exact Hnz). rewrite HA. field. exact Hnz. }
    rewrite HM', HA'. split; field; lra.
Qed.

Lemma welford_step_inv pre x st :
  welford_inv pre st -> welford_inv (pre ++ [x]) (gwelford_step Q qops st x).
Proof.
  destruct st as [[[[count mean] cmean] aux] caux]. intros (Hn & HM & HA & H0).
  unfold gwelford_step. cbn.
  destruct (gkahan_exact ((x - (mean + cmean)) / (count + 1)) mean cmean) as [H1 H2].
  destruct (gkahan Q qops _ mean cmean) as [m' cm'] eqn:E1. cbn [fst snd] in *.
  destruct (gkahan_exact ((x - (mean + cmean)) * (x - (m' + cm'))) aux caux) as [H3 H4].
  destruct (gkahan Q qops _ aux caux) as [a' ca'] eqn:E2. cbn [fst snd] in *.
  assert (Hz : qlen pre == 0 -> mean + cmean == 0 /\ aux + caux == 0 /\ qsum pre == 0 /\ qsumsq pre == 0).
  { intros Hq. assert (pre = []) as ->.
    { destruct pre; [reflexivity|]. exfalso. assert (0 < qlen (q :: pre)) by (apply qlen_pos; discriminate). lra. }
    destruct (H0 eq_refl) as (Hm0 & Hc0 & Ha0). repeat split; try assumption; try reflexivity. rewrite Hm0, Hc0. ring. }
  pose proof (welford_update (qlen pre) (mean + cmean) (aux + caux) (qsum pre) (qsumsq pre) x
                             (qlen_nonneg pre) HM HA Hz) as [U1 U2]. cbv zeta in U1, U2.
  assert (Em : m' + cm' == mean + cmean + (x - (mean + cmean)) / (qlen pre + 1)).
  { rewrite H1, H2, Hn. ring. }
  split; [|split; [|split]].
  - rewrite Hn, qlen_app. reflexivity.
  - rewrite qlen_app, qsum_app, Em. exact U1.
  - rewrite qlen_app, qsum_app, qsumsq_app.
    assert (Ea : a' + ca' == aux + caux + (x - (mean + cmean)) * (x - (mean + cmean + (x - (mean + cmean)) / (qlen pre + 1)))).
    { rewrite H3, H4, Em. ring. }
    rewrite Ea. exact U2.
  - intros Habs. destruct pre; discriminate.
Qed.

Lemma variance_of_inv vs count mean cmean aux caux :
  vs <> [] -> welford_inv vs (count, mean, cmean, aux, caux) -> (aux + caux) / count == qvar vs.
Proof.
  intros Hne (Hn & HM & HA & _). rewrite qvar_alt by exact Hne. unfold qmean.
  pose proof (qlen_pos vs Hne) as Hp. rewrite Hn.
  assert (E : aux + caux == (qsumsq vs * qlen vs - qsum vs * qsum vs) / qlen vs).
  { rewrite <- HA. field. lra. }
  rewrite E. field. lra.
Qed.

Theorem gvariance_over_exact vs : vs <> [] -> gvariance_over Q qops vs == qvar vs.
Proof.
  intros Hne. unfold gvariance_over. cbn.
  assert (H : welford_inv vs (fold_left (gwelford_step Q qops) vs (0, 0, 0, 0, 0))).
  { apply fold_left_prefix_inv.
    - cbn. repeat split; try reflexivity; ring.
    - intros pre x st. apply welford_step_inv. }
  destruct (fold_left _ vs _) as [[[[count mean] cmean] aux] caux].
  apply (variance_of_inv vs count mean cmean aux caux); assumption.
Qed.

(* the aggregation's accumulator stores the first value directly; the invariant is the same *)
Lemma acc_welford_step_inv pre x st :
  welford_inv pre st -> welford_inv (pre ++ [x]) (gacc_welford_step Q qops st x).
Proof.
  intros Hinv.
  destruct st as [[[[count mean] cmean] aux] caux].
  unfold gacc_welford_step. cbn.
  destruct (Qeq_bool (count + 1) 1) eqn:E.
  - (* the first value *)
    destruct Hinv as (Hn & HM & HA & H0). apply Qeq_bool_iff in E.
    assert (pre = []) as ->.
    { destruct pre; [reflexivity|]. exfalso. assert (0 < qlen (q :: pre)) by (apply qlen_pos; discriminate). lra. }
    destruct (H0 eq_refl) as (HM0 & HC0 & HA0).
    cbn. unfold qlen, qsumsq; cbn. split; [|split; [|split]].
    + rewrite Hn. reflexivity.
    + rewrite HC0. ring.
    + rewrite HA0. ring.
    + intros Habs; discriminate.
  - exact (welford_step_inv pre x (count, mean, cmean, aux, caux) Hinv).
Qed.

Theorem gacc_variance_exact vs : vs <> [] -> gacc_variance Q qops vs == qvar vs.
Proof.
  intros Hne. unfold gacc_variance. cbn.
  assert (H : welford_inv vs (fold_left (gacc_welford_step Q qops) vs (0, 0, 0, 0, 0))).
  { apply fold_left_prefix_inv.
    - cbn. repeat split; try reflexivity; ring.
    - intros pre x st. apply acc_welford_step_inv. }
  destruct (fold_left _ vs _) as [[[[count mean] cmean] aux] caux].
  apply (variance_of_inv vs count mean cmean aux caux); assumption.
Qed.

Theorem gacc_avg_exact vs : vs <> [] -> gacc_avg Q qops vs == qmean vs.
Proof.
  intros Hne. unfold gacc_avg. cbn.
  pose (P := fun (pre : list Q) (cs : Q * Q) => fst cs == qlen pre /\ snd cs == qsum pre).
  assert (H : P vs (fold_left (gacc_avg_step Q qops) vs (0, 0))).
  { apply fold_left_prefix_inv.
    - split; reflexivity.
    - intros pre x [c s] [Hc Hs]. unfold P, gacc_avg_step. cbn in *. split.
      + rewrite Hc, qlen_app. reflexivity.
      + rewrite Hs, qsum_app. reflexivity. }
  destruct (fold_left _ vs (0, 0)) as [c s]. destruct H as [Hc Hs]. cbn [fst snd] in *.
  unfold qmean. rewrite Hc, Hs. reflexivity.
Qed.

(* ---- linear regression (deriv) ------------------------------------------------------------ *)

Definition xs_of (t0 : Z) (ps : list (Z * Q)) : list Q := map (fun p => inject_Z (fst p - t0) / 1000) ps.
Definition ys_of (ps : list (Z * Q)) : list Q := map snd ps.
Definition qdot (a b : list Q) : Q := qsum (map (fun ab => fst ab * snd ab) (combine a b)).

Lemma combine_app_one {A B} (a : list A) (b : list B) x y :
  length a = length b -> combine (a ++ [x]) (b ++ [y]) = combine a b ++ [(x, y)].
Proof.
  revert b; induction a as [|u a IH]; intros [|v b] Hl; simpl in *; try discriminate; [reflexivity|].
  f_equal. apply IH. congruence.
Qed.

Lemma qdot_app a b x y : length a = length b -> qdot (a ++ [x]) (b ++ [y]) == qdot a b + x * y.
Proof.
  intros Hl. unfold qdot. rewrite combine_app_one by exact Hl. rewrite map_app. simpl. apply qsum_app.
Qed.

Definition deriv_inv (t0 : Z) (y0 : Q) (pre : list (Z * Q))
           (st : Q * Q * Q * Q * Q * Q * Q * Q * Q * bool * bool) : Prop :=
  let '(n, sx, cx, sy, cy, sxy, cxy, sx2, cx2, const_y, first) := st in
  let xs := xs_of t0 pre in let ys := ys_of pre in
  n == qlen xs /\ sx + cx == qsum xs /\ sy + cy == qsum ys /\ sxy + cxy == qdot xs ys /\ sx2 + cx2 == qdot xs xs /\
  const_y = forallb (fun p => Qeq_bool (snd p) y0) (tl pre) /\
  first = match pre with [] => true | _ => false end.

Lemma kahan_total inc sum c :
  fst (gkahan Q qops inc sum c) + snd (gkahan Q qops inc sum c) == sum + c + inc.
Proof. destruct (gkahan_exact inc sum c) as [H1 H2]. rewrite H1, H2. ring. Qed.

Lemma deriv_step_inv t0 y0 pre p st :
  deriv_inv t0 y0 pre st -> deriv_inv t0 y0 (pre ++ [p]) (gderiv_step Q qops t0 y0 st p).
Proof.
  destruct st as [[[[[[[[[[n sx] cx] sy] cy] sxy] cxy] sx2] cx2] const_y] first].
  intros (Hn & Hx & Hy & Hxy & Hx2 & Hc & Hf).
  unfold gderiv_step. cbn.
  set (x := inject_Z (fst p - t0) / 1000).
  pose proof (kahan_total x sx cx) as K1. destruct (gkahan Q qops x sx cx) as [sx' cx'].
  pose proof (kahan_total (snd p) sy cy) as K2. destruct (gkahan Q qops (snd p) sy cy) as [sy' cy'].
  pose proof (kahan_total (x * snd p) sxy cxy) as K3. destruct (gkahan Q qops (x * snd p) sxy cxy) as [sxy' cxy'].
  pose proof (kahan_total (x * x) sx2 cx2) as K4. destruct (gkahan Q qops (x * x) sx2 cx2) as [sx2' cx2'].
  cbn [fst snd] in *.
  assert (Ex : xs_of t0 (pre ++ [p]) = xs_of t0 pre ++ [x]) by (unfold xs_of; rewrite map_app; reflexivity).
  assert (Ey : ys_of (pre ++ [p]) = ys_of pre ++ [snd p]) by (unfold ys_of; rewrite map_app; reflexivity).
  assert (Hl : length (xs_of t0 pre) = length (ys_of pre)) by (unfold xs_of, ys_of; rewrite !map_length; reflexivity).
  unfold deriv_inv. rewrite Ex, Ey.
  split; [|split; [|split; [|split; [|split; [|split]]]]].
  - rewrite Hn, qlen_app. reflexivity.
  - rewrite K1, qsum_app, <- Hx. ring.
  - rewrite K2, qsum_app, <- Hy. ring.
  - rewrite K3, qdot_app by exact Hl. rewrite <- Hxy. ring.
  - rewrite K4, qdot_app by reflexivity. rewrite <- Hx2. ring.
  - destruct pre as [|q pre].
    + simpl in *. subst. reflexivity.
    + simpl tl in *. simpl app. simpl tl. rewrite forallb_app. simpl forallb. subst first const_y.
      simpl negb. rewrite andb_true_r, andb_true_r.
      destruct (forallb _ pre); simpl; [destruct (Qeq_bool (snd p) y0); reflexivity|reflexivity].
  - destruct pre; reflexivity.
Qed.

Theorem gderiv_exact p0 rest :
  let ps := p0 :: rest in
  let xs := xs_of (fst p0) ps in let ys := ys_of ps in
  gderiv Q qops ps ==
  if forallb (fun p => Qeq_bool (snd p) (snd p0)) rest then 0
  else (qdot xs ys - qsum xs * qsum ys / qlen xs) / (qdot xs xs - qsum xs * qsum xs / qlen xs).
Proof.
  intros ps xs ys. unfold gderiv. cbn -[fold_left forallb].
  assert (H : deriv_inv (fst p0) (snd p0) ps
                (fold_left (gderiv_step Q qops (fst p0) (snd p0)) ps (0, 0, 0, 0, 0, 0, 0, 0, 0, true, true))).
  { apply fold_left_prefix_inv.
    - cbn. unfold qdot, qlen. cbn. repeat split; reflexivity.
    - intros pre x st. apply deriv_step_inv. }
  fold ps.
  destruct (fold_left _ ps _) as [[[[[[[[[[n sx] cx] sy] cy] sxy] cxy] sx2] cx2] const_y] first].
  destruct H as (Hn & Hx & Hy & Hxy & Hx2 & Hc & _). simpl tl in Hc. rewrite <- Hc.
  destruct const_y; [reflexivity|].
  fold xs ys in Hn, Hx, Hy, Hxy, Hx2. rewrite Hn, Hx, Hy, Hxy, Hx2. reflexivity.
Qed.
