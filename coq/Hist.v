(* Engine-level state across queries (C12, C20). The engine instance holds two
   counters and read-only configuration; every query owns its operator tree,
   selector pool and vector pools (created by New*Query). The storage is only
   read. Models: a history of queries and data changes on one engine, and the
   interleaved execution of several queries whose steps touch only their own state. *)
From Coq Require Import List ZArith NArith Bool Lia.
Import ListNotations.

Section History.
  Variables Q D R : Type.
  (* what a freshly constructed engine returns for a query on given data *)
  Variable eval : Q -> D -> R.
  (* the path a query takes, decided from the query alone (see Plan.v) *)
  Variable falls_back : Q -> bool.

  Inductive op := OQuery (q : Q) | OChange (f : D -> D).

  Record engine := mkEngine { cnt_native : nat; cnt_fallback : nat }.

  (* one engine instance, one storage: queries run against the current data *)
  Fixpoint run_history (e : engine) (d : D) (h : list op) : engine * D * list R :=
    match h with
    | [] => (e, d, [])
    | OQuery q :: rest =>
        let e' := if falls_back q then mkEngine (cnt_native e) (S (cnt_fallback e))
                  else mkEngine (S (cnt_native e)) (cnt_fallback e) in
        let '(e2, d2, rs) := run_history e' d rest in (e2, d2, eval q d :: rs)
    | OChange f :: rest => run_history e (f d) rest
    end.

  (* the same history answered by a fresh engine for every query *)
  Fixpoint fresh_answers (d : D) (h : list op) : list R :=
    match h with
    | [] => []
    | OQuery q :: rest => eval q d :: fresh_answers d rest
    | OChange f :: rest => fresh_answers (f d) rest
    end.

  Theorem history_eq_fresh : forall h e d, snd (run_history e d h) = fresh_answers d h.
  Proof.
    induction h as [|o h IH]; intros e d; simpl; [reflexivity|].
    destruct o as [q|f].
    - specialize (IH (if falls_back q then mkEngine (cnt_native e) (S (cnt_fallback e))
                      else mkEngine (S (cnt_native e)) (cnt_fallback e)) d).
      destruct (run_history _ d h) as [[e2 d2] rs]. simpl in *. rewrite IH. reflexivity.
    - apply IH.
  Qed.

  Definition count_queries (p : Q -> bool) (h : list op) : nat :=
    length (filter (fun o => match o with OQuery q => p q | OChange _ => false end) h).

  Theorem counters_exact_history : forall h e d,
    let e' := fst (fst (run_history e d h)) in
    cnt_fallback e' = cnt_fallback e + count_queries falls_back h /\
    cnt_native e' = cnt_native e + count_queries (fun q => negb (falls_back q)) h.
  Proof.
    induction h as [|o h IH]; intros e d; simpl; [unfold count_queries; simpl; lia|].
    destruct o as [q|f].
    - specialize (IH (if falls_back q then mkEngine (cnt_native e) (S (cnt_fallback e))
                      else mkEngine (S (cnt_native e)) (cnt_fallback e)) d).
      destruct (run_history _ d h) as [[e2 d2] rs]. simpl in *.
      unfold count_queries in *. simpl. destruct (falls_back q); simpl in *; lia.
    - specialize (IH e (f d)). unfold count_queries in *. simpl. exact IH.
  Qed.
End History.

(* ---- interleaved execution of queries with private state --------------- *)

Section Interleaving.
  Variable S : Type.                 (* the private state of one query *)
  Variable step : S -> S.            (* one small step of that query (reads shared data only) *)

  Fixpoint upd (l : list S) (i : nat) (f : S -> S) : list S :=
    match l, i with
    | [], _ => []
    | x :: r, O => f x :: r
    | x :: r, Datatypes.S j => x :: upd r j f
    end.

  (* a schedule is the sequence of query indices that take a step *)
  Fixpoint run_schedule (sts : list S) (sched : list nat) : list S :=
    match sched with
    | [] => sts
    | i :: rest => run_schedule (upd sts i step) rest
    end.

  Fixpoint iter (n : nat) (s : S) : S := match n with O => s | Datatypes.S m => iter m (step s) end.

  Definition count_occ_nat (i : nat) (l : list nat) : nat := length (filter (Nat.eqb i) l).

  Lemma nth_upd_same l i f d : i < length l -> nth i (upd l i f) d = f (nth i l d).
  Proof.
    revert i. induction l as [|x l IH]; intros i Hi; simpl in *; [lia|].
    destruct i; simpl; [reflexivity|]. apply IH. lia.
  Qed.

  Lemma nth_upd_other l i j f d : i <> j -> nth j (upd l i f) d = nth j l d.
  Proof.
    revert i j. induction l as [|x l IH]; intros i j Hij; simpl; [reflexivity|].
    destruct i, j; simpl; try reflexivity; try lia. apply IH. lia.
  Qed.

  Lemma upd_length l i f : length (upd l i f) = length l.
  Proof. revert i. induction l as [|x l IH]; intros i; simpl; [reflexivity|]. destruct i; simpl; auto. Qed.

  (* whatever the interleaving, every query ends in the state it reaches when
     it takes the same number of steps alone *)
  Theorem interleaving_noninterference : forall sched sts i d,
    i < length sts ->
    nth i (run_schedule sts sched) d = iter (count_occ_nat i sched) (nth i sts d).
  Proof.
    induction sched as [|j sched IH]; intros sts i d Hi; simpl; [reflexivity|].
    rewrite IH by (rewrite upd_length; assumption).
    unfold count_occ_nat. simpl. destruct (Nat.eqb_spec i j) as [->|Hne]; simpl.
    - rewrite nth_upd_same by assumption. reflexivity.
    - rewrite nth_upd_other by lia. reflexivity.
  Qed.
End Interleaving.
