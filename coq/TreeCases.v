(* Evaluation of the composite model Trees.jrun on whole queries recorded from the
   real engine (correspondence check of C01). Sample values are multiples of 1/4,
   carried as integers (4 * value). *)
From Coq Require Import List ZArith NArith Bool Lia.
From Verif Require Import Base Grid Range RangeOrd Agg Func Bin BinCases Compose EndToEnd Trees.
From Verif Require Export TreeOps.
Import ListNotations.
Open Scope Z_scope.

(* vector/vector operators on 4*value: + - and the comparisons (value of the left-hand side) *)
Definition zop (code : N) (a b : Z) : Z * bool :=
  match code with
  | 0%N => (a + b, true)
  | 1%N => (a - b, true)
  | 4%N => (a, a =? b)
  | 5%N => (a, negb (a =? b))
  | 6%N => (a, b <? a)
  | 7%N => (a, a <? b)
  | 8%N => (a, b <=? a)
  | _ => (a, a <=? b)
  end.

Definition zb2v (b : bool) : Z := if b then 4 else 0.

(* per-sample operators: 0 unary minus, 1 abs, 2 vector op literal, 3 literal op vector *)
Definition zmap (kind code : N) (rbool : bool) (lit : Z) (v : Z) : option Z :=
  match kind with
  | 0%N => Some (- v)
  | 1%N => Some (Z.abs v)
  | _ =>
      let l := if N.eqb kind 2 then v else lit in
      let r := if N.eqb kind 2 then lit else v in
      match code with
      | 0%N => Some (l + r)
      | 1%N => Some (l - r)
      | _ => let keep := snd (zop code l r) in
             if rbool then Some (zb2v keep) else if keep then Some v else None
      end
  end.

Record tree_case := mkTrC {
  trc_id : N; trc_shards : nat; trc_window : window; trc_lb : Z; trc_tree : jtree;
  trc_expected : option (list (Z * list (labels * Z))) }.

Definition lz_eqb (a b : labels * Z) : bool :=
  labels_eqb (canon_labels (fst a)) (canon_labels (fst b)) && Z.eqb (snd a) (snd b).

Fixpoint zsteps_eqb (a b : list (Z * list (labels * Z))) : bool :=
  match a, b with
  | [], [] => true
  | (t, x) :: r, (t', y) :: r' => Z.eqb t t' && multiset_eqb lz_eqb x y && zsteps_eqb r r'
  | _, _ => false
  end.

Definition tree_case_ok (c : tree_case) : bool :=
  match jrun (mkCfg (trc_shards c) 10 (trc_lb c)) (trc_window c) (trc_tree c), trc_expected c with
  | inl outs, Some exp =>
      zsteps_eqb (map (fun tv => (fst tv, labelled Z (jseries (trc_tree c)) (snd tv))) outs) exp
  | inr _, None => true
  | _, _ => false
  end.

Definition tree_mismatches (cs : list tree_case) : list N :=
  map trc_id (filter (fun c => negb (tree_case_ok c)) cs).
