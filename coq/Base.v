(* Base types of the evaluation models: labels, samples, series, storage,
   evaluation windows and step vectors. Sample values are carried as their
   IEEE-754 bit patterns (Z); the staleness marker is [None]. *)
From Coq Require Import List ZArith NArith Bool Lia.
Import ListNotations.
Open Scope Z_scope.

Definition labels := list (N * N).          (* sorted by name; name 0 = __name__ *)

Record sample := mkS { ts : Z; sv : option Z }.

Record series := mkSer { slab : labels; ssamples : list sample }.

Definition storage := list series.          (* in the order the storage returns them *)

(* Evaluation window in milliseconds; [w_step = 0] is an instant query. *)
Record window := mkW { w_start : Z; w_end : Z; w_step : Z }.

Definition wf_window (w : window) : Prop :=
  w_start w <= w_end w /\ 0 <= w_step w /\ (w_step w = 0 -> w_end w = w_start w).

(* A step vector as emitted by an operator: timestamp, sample IDs, values. *)
Record stepvec := mkSV { svT : Z; svIDs : list nat; svVals : list Z }.

Definition batch := list stepvec.

Fixpoint sorted_ts (l : list sample) : Prop :=
  match l with
  | [] => True
  | x :: rest => (match rest with [] => True | y :: _ => ts x < ts y end) /\ sorted_ts rest
  end.

Lemma sorted_ts_tail x l : sorted_ts (x :: l) -> sorted_ts l.
Proof. simpl. tauto. Qed.

Lemma sorted_ts_lt x l : sorted_ts (x :: l) -> Forall (fun y => ts x < ts y) l.
Proof.
  revert x. induction l as [|y l IH]; intros x H; constructor.
  - simpl in H. tauto.
  - simpl in H. destruct H as [Hxy Hrest].
    specialize (IH y Hrest).
    eapply Forall_impl; [|exact IH]. simpl. intros a Ha. lia.
Qed.
