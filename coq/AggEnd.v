(* End to end for  count [by|without] (labels) (selector)  (properties C01, C04):
   the sharded, batched selector of Compose.v feeds the aggregation's table
   (Agg.v), which is reused from step to step; at every step of the window the
   groups and their counts are those of the reference: one output per distinct
   grouping key among the samples present at the step, with the number of such
   samples. *)
From Coq Require Import List ZArith NArith Bool Lia.
From Verif Require Import Base Grid Select SelectProofs Shard SelectorProofs Exec Compose StreamWF Agg AggProofs.
Import ListNotations.
Open Scope Z_scope.

Definition labels_dec : forall a b : labels, {a = b} + {a <> b}.
Proof. decide equality. decide equality; apply N.eq_dec. Defined.

(* ---- group numbering ---------------------------------------------------------- *)

Lemma index_of_none key groups : index_of key groups = None -> ~ In key groups.
Proof.
  induction groups as [|g groups IH]; simpl; intros H; [tauto|].
  destruct (labels_eqb key g) eqn:E; [discriminate|].
  destruct (index_of key groups); [discriminate|].
  intros [->|Hin]; [|exact (IH eq_refl Hin)].
  assert (labels_eqb key key = true) by (apply labels_eqb_eq; reflexivity). congruence.
Qed.

Lemma assign_groups_nodup : forall keys groups ids gs,
  assign_groups keys groups = (ids, gs) -> NoDup groups -> NoDup gs.
Proof.
  induction keys as [|k keys IH]; intros groups ids gs H Hnd; simpl in H.
  - inversion H; subst. assumption.
  - destruct (index_of k groups) as [i|] eqn:Ei.
    + destruct (assign_groups keys groups) as [ids' gs'] eqn:Ea. inversion H; subst. eapply IH; eauto.
    + destruct (assign_groups keys (groups ++ [k])) as [ids' gs'] eqn:Ea. inversion H; subst.
      eapply IH; eauto. apply NoDup_Add with (a := k) (l := groups).
      * rewrite <- (app_nil_r groups) at 1. apply Add_app.
      * split; [assumption|apply index_of_none; assumption].
Qed.

Section CountOverSelector.
  Variable without : bool.
  Variable grouping : list N.
  Variable slabels : list labels.            (* the selector's series: labels *)
  Variable sers : list (list sample).        (* ... and samples *)
  Variable off : Z.

  Definition keys : list labels := map (group_labels without grouping) slabels.
  Definition inputs : list nat := fst (assign_groups keys []).
  Definition groups : list labels := snd (assign_groups keys []).

  Notation cacc := (acc nat).
  Definition dacc : cacc := mkAcc nat false 0%nat.

  Definition count_step (tbl : list cacc) (sv : stepvec) : list cacc :=
    aggregate unit nat (fun _ => 0%nat) (fun a _ => S a) inputs tt tbl (map (fun i => (i, tt)) (svIDs sv)).

  Definition emit_groups (tbl : list cacc) : list (labels * nat) :=
    flat_map (fun g => let a := nth g tbl dacc in if a_has nat a then [(nth g groups [], a_st nat a)] else [])
             (seq 0 (length groups)).

  (* hashAggregate.Next over the stream; the table lives across steps *)
  Fixpoint count_run (tbl : list cacc) (stream : list stepvec) : list (Z * list (labels * nat)) :=
    match stream with
    | [] => []
    | sv :: r => let t' := count_step tbl sv in (svT sv, emit_groups t') :: count_run t' r
    end.

  Definition engine_count (cf : cfg) (w : window) : list (Z * list (labels * nat)) :=
    count_run (repeat dacc (length groups)) (concat (run cf w (PSelect sers off))).

  (* the reference at one timestamp: the grouping keys of the samples present,
     each with the number of samples that have it *)
  Definition present_keys (lb t : Z) : list labels :=
    map (fun i => nth i keys []) (svIDs (select_step lb off sers t)).

  Definition reference_count (lb t : Z) : list (labels * nat) :=
    map (fun k => (k, count_occ labels_dec (present_keys lb t) k)) (nodup labels_dec (present_keys lb t)).

  (* ---- the table ------------------------------------------------------------- *)

  Lemma count_step_length tbl sv : length (count_step tbl sv) = length tbl.
  Proof.
    unfold count_step, aggregate.
    assert (H : forall vec (t : list cacc), length (fold_left (add_sample unit nat (fun a _ => S a) inputs) vec t) = length t).
    { induction vec as [|iv vec IH]; intros t; simpl; [reflexivity|]. rewrite IH. unfold add_sample. apply upd_nth_length. }
    rewrite H. apply map_length.
  Qed.

  Lemma count_run_fresh : forall stream tbl, length tbl = length groups ->
    count_run tbl stream =
    map (fun sv => (svT sv, emit_groups (count_step (repeat dacc (length groups)) sv))) stream.
  Proof.
    induction stream as [|sv r IH]; intros tbl Hl; simpl; [reflexivity|].
    assert (E : count_step tbl sv = count_step (repeat dacc (length groups)) sv).
    { unfold count_step. apply table_reset_local. rewrite repeat_length. assumption. }
    rewrite E. f_equal. apply IH. rewrite count_step_length, repeat_length. reflexivity.
  Qed.

  Hypothesis Hlen : length slabels = length sers.

  Lemma keys_length : length keys = length sers.
  Proof. unfold keys. rewrite map_length. assumption. Qed.

  Lemma groups_spec :
    NoDup groups /\ length inputs = length keys /\
    forall j, (j < length keys)%nat -> nth_error groups (nth j inputs 0%nat) = nth_error keys j.
  Proof.
    unfold groups, inputs. destruct (assign_groups keys []) as [ids gs] eqn:E. simpl.
    destruct (assign_groups_sound _ _ _ _ E) as [_ [Hl Hn]].
    split; [eapply assign_groups_nodup; eauto; constructor|]. split; assumption.
  Qed.

  (* the series of group g present in a step vector *)
  Definition members_of (g : nat) (ids : list nat) : list nat :=
    filter (fun i => Nat.eqb (nth i inputs 0%nat) g) ids.

  Lemma members_count g ids :
    members unit inputs g (map (fun i => (i, tt)) ids) = map (fun _ => tt) (members_of g ids).
  Proof.
    unfold members, members_of. induction ids as [|i ids IH]; simpl; [reflexivity|].
    destruct (Nat.eqb (nth i inputs 0%nat) g); simpl; rewrite IH; reflexivity.
  Qed.

  Lemma fold_count (l : list unit) n : fold_left (fun a (_ : unit) => S a) l n = (n + length l)%nat.
  Proof. revert n. induction l as [|x l IH]; intros n; simpl; [lia|]. rewrite IH. lia. Qed.

  Lemma slot_value sv g : (g < length groups)%nat ->
    nth g (count_step (repeat dacc (length groups)) sv) dacc =
    match members_of g (svIDs sv) with
    | [] => dacc
    | ms => mkAcc nat true (length ms)
    end.
  Proof.
    intros Hg. unfold count_step.
    rewrite (aggregate_group_value unit nat (fun _ => 0%nat) (fun a _ => S a) inputs tt _ _ g dacc) by (rewrite repeat_length; assumption).
    rewrite members_count. destruct (members_of g (svIDs sv)) as [|m ms]; simpl; [reflexivity|].
    rewrite fold_count. rewrite map_length. reflexivity.
  Qed.

  (* a present series belongs to group g iff its key is the g-th group's label set *)
  Lemma member_iff_key g i : (g < length groups)%nat -> (i < length keys)%nat ->
    (nth i inputs 0%nat = g <-> nth i keys [] = nth g groups []).
  Proof.
    intros Hg Hi. destruct groups_spec as [Hnd [Hl Hn]]. specialize (Hn i Hi).
    assert (Hk : nth_error keys i = Some (nth i keys [])) by (apply nth_error_nth'; assumption).
    rewrite Hk in Hn. split.
    - intros <-. symmetry. apply nth_error_nth with (d := []) in Hn. exact Hn.
    - intros E. assert (Hgi : (nth i inputs 0 < length groups)%nat) by (apply nth_error_Some; rewrite Hn; discriminate).
      apply (proj1 (NoDup_nth groups [] ) Hnd); [assumption|assumption|].
      apply nth_error_nth with (d := []) in Hn. congruence.
  Qed.

  Lemma count_occ_map_filter (ids : list nat) (k : labels) :
    count_occ labels_dec (map (fun i => nth i keys []) ids) k =
    length (filter (fun i => if labels_dec (nth i keys []) k then true else false) ids).
  Proof.
    induction ids as [|i ids IH]; simpl; [reflexivity|].
    destruct (labels_dec (nth i keys []) k); simpl; rewrite IH; reflexivity.
  Qed.

  Lemma members_length g ids : (g < length groups)%nat -> Forall (fun i => (i < length keys)%nat) ids ->
    length (members_of g ids) = count_occ labels_dec (map (fun i => nth i keys []) ids) (nth g groups []).
  Proof.
    intros Hg Hr. rewrite count_occ_map_filter. unfold members_of. f_equal.
    apply filter_ext_in. intros i Hi. rewrite Forall_forall in Hr. specialize (Hr i Hi).
    destruct (labels_dec (nth i keys []) (nth g groups [])) as [E|NE].
    - apply Nat.eqb_eq. apply member_iff_key; assumption.
    - apply Nat.eqb_neq. intros E. apply NE. apply member_iff_key; assumption.
  Qed.

  (* C01 / C04 for count over a selector: for every shard count, batch size and
     window the engine produces one list of groups per grid step, and at every
     step the groups and counts are exactly the reference's. *)
  Theorem count_over_selector_matches_reference cf w :
    (0 < c_shards cf)%nat -> (0 < c_batch cf)%nat -> 0 <= c_lookback cf -> wf_window w ->
    Forall sorted_ts sers ->
    exists outs,
      engine_count cf w = outs /\ map fst outs = grid w /\
      forall t out, In (t, out) outs ->
        forall m n, In (m, n) out <-> In (m, n) (reference_count (c_lookback cf) t).
  Proof.
    intros HN HB Hlb Hw Hs. unfold engine_count.
    rewrite (run_covers_grid cf w (PSelect sers off) HN HB Hlb Hw Hs). simpl denote.
    rewrite count_run_fresh by apply repeat_length. rewrite map_map.
    eexists. split; [reflexivity|]. split.
    - rewrite map_map. simpl. erewrite map_ext; [apply map_id|]. intros t. apply select_step_T.
    - intros t out Hin m n. apply in_map_iff in Hin. destruct Hin as [t' [Heq _]].
      rewrite select_step_T in Heq. inversion Heq; subst t out. clear Heq.
      set (sv := select_step (c_lookback cf) off sers t').
      destruct (select_step_wf (c_lookback cf) off sers t') as [Hnd [Hr _]]. fold sv in Hnd, Hr.
      assert (Hr' : Forall (fun i => (i < length keys)%nat) (svIDs sv)) by (rewrite keys_length; exact Hr).
      unfold emit_groups, reference_count, present_keys. fold sv.
      rewrite in_flat_map, in_map_iff. split.
      + intros [g [Hg Hin]]. apply in_seq in Hg. rewrite slot_value in Hin by lia.
        destruct (members_of g (svIDs sv)) as [|i0 ms] eqn:Em; [destruct Hin|].
        simpl in Hin. destruct Hin as [Heq|[]]. inversion Heq; subst m n. clear Heq.
        exists (nth g groups []). split.
        * f_equal. rewrite <- members_length by (assumption || lia). rewrite Em. reflexivity.
        * apply nodup_In. assert (Hi0 : In i0 (members_of g (svIDs sv))) by (rewrite Em; left; reflexivity).
          unfold members_of in Hi0. apply filter_In in Hi0. destruct Hi0 as [Hi0 He]. apply Nat.eqb_eq in He.
          apply in_map_iff. exists i0. split; [|assumption].
          apply member_iff_key; [lia| |assumption]. rewrite Forall_forall in Hr'. apply Hr'. assumption.
      + intros [k [Heq Hk]]. inversion Heq; subst m n. clear Heq.
        apply nodup_In in Hk. apply in_map_iff in Hk. destruct Hk as [i [Hki Hi]].
        rewrite Forall_forall in Hr'. pose proof (Hr' i Hi) as Hil.
        destruct groups_spec as [_ [_ Hn]]. specialize (Hn i Hil).
        assert (Hg : (nth i inputs 0 < length groups)%nat).
        { apply nth_error_Some. rewrite Hn. apply nth_error_Some. assumption. }
        exists (nth i inputs 0%nat). split; [apply in_seq; lia|].
        rewrite slot_value by assumption.
        assert (Hmem : In i (members_of (nth i inputs 0%nat) (svIDs sv))).
        { unfold members_of. apply filter_In. split; [assumption|apply Nat.eqb_refl]. }
        assert (Hkey : nth (nth i inputs 0%nat) groups [] = k).
        { rewrite <- Hki. symmetry. apply member_iff_key; [assumption|assumption|reflexivity]. }
        destruct (members_of (nth i inputs 0%nat) (svIDs sv)) as [|i0 ms] eqn:Em; [destruct Hmem|].
        simpl. left. rewrite Hkey. f_equal. rewrite <- Hkey, <- members_length; [rewrite Em; reflexivity|assumption|].
        apply Forall_forall. assumption.
  Qed.
End CountOverSelector.

(* ---- topk / bottomk over a selector -------------------------------------------- *)

From Verif Require Import Topk TopkProofs EndToEnd.

Section TopkOverSelector.
  Variable lt : Z -> Z -> bool.          (* on value bits: < for topk, > for bottomk *)
  Variable isnan : Z -> bool.
  Hypothesis lt_nan_r : forall a b, isnan b = true -> lt a b = false.
  Hypothesis lt_irrefl : forall a, lt a a = false.
  Hypothesis lt_trans : forall a b c, lt a b = true -> lt b c = true -> lt a c = true.
  Hypothesis lt_negtrans : forall a b c, isnan c = false -> lt a b = true -> lt a c = true \/ lt c b = true.

  Variable without : bool.
  Variable grouping : list N.
  Variable slabels : list labels.
  Variable sers : list (list sample).
  Variable off : Z.
  Variable k : nat.

  Notation inputs := (inputs without grouping slabels).
  Notation groups := (groups without grouping slabels).

  (* kAggregate.Next over the stream: the heaps are emptied after every step *)
  Definition engine_topk (cf : cfg) (w : window) : list (Z * list (nat * Z)) :=
    map (fun sv => (svT sv, topk_step Z lt isnan k inputs (length groups) (vec_of sv)))
        (concat (run cf w (PSelect sers off))).

  (* the samples of group g present at t *)
  Definition group_samples (lb t : Z) (g : nat) : list (nat * Z) :=
    filter (fun e => Nat.eqb (nth (fst e) inputs 0%nat) g) (vec_of (select_step lb off sers t)).

  (* C04 for topk over a selector: at every grid step the output is the
     concatenation, over the groups, of min(k, n) of the group's n present
     samples, none of them strictly worse than a dropped one *)
  Theorem topk_over_selector cf w :
    (0 < c_shards cf)%nat -> (0 < c_batch cf)%nat -> 0 <= c_lookback cf -> wf_window w ->
    Forall sorted_ts sers -> (1 <= k)%nat ->
    exists outs,
      engine_topk cf w = outs /\ map fst outs = grid w /\
      forall t out, In (t, out) outs ->
        exists heaps, out = concat heaps /\ length heaps = length groups /\
          forall g, (g < length groups)%nat ->
            let kept := nth g heaps [] in
            let present := group_samples (c_lookback cf) t g in
            incl kept present /\ NoDup (map fst kept) /\
            length kept = Nat.min k (length present) /\
            forall x y, In x kept -> In y present -> ~ In y kept -> worse Z lt isnan (snd x) (snd y) = false.
  Proof.
    intros HN HB Hlb Hw Hs Hk. unfold engine_topk.
    rewrite (run_covers_grid cf w (PSelect sers off) HN HB Hlb Hw Hs). simpl denote. rewrite map_map.
    eexists. split; [reflexivity|]. split.
    - rewrite map_map. simpl. erewrite map_ext; [apply map_id|]. intros t. apply select_step_T.
    - intros t out Hin. apply in_map_iff in Hin. destruct Hin as [t' [Heq _]].
      rewrite select_step_T in Heq. inversion Heq; subst t out. clear Heq.
      unfold topk_step. destruct (Nat.ltb_spec k 1) as [Hlt|_]; [lia|].
      eexists. split; [reflexivity|]. split.
      + assert (Hl : forall (vec : list (nat * Z)) hs,
                  length (fold_left (fun hs e => set_group Z hs (nth (fst e) inputs 0%nat) (fun h => offer Z lt isnan k h e)) vec hs) = length hs).
        { induction vec as [|e vec IH]; intros hs; simpl; [reflexivity|]. rewrite IH. apply set_group_length. }
        rewrite Hl. apply repeat_length.
      + intros g Hg. cbv zeta. rewrite (topk_step_group Z lt isnan k inputs (length groups) _ g Hk Hg).
        apply (topk_group_spec Z lt isnan lt_nan_r lt_irrefl lt_trans lt_negtrans k); [assumption|].
        unfold group_samples.
        destruct (vec_of_good _ _ (select_step_wf (c_lookback cf) off sers t')) as [_ Hnd].
        clear -Hnd. induction (vec_of (select_step (c_lookback cf) off sers t')) as [|e l IH]; simpl; [constructor|].
        simpl in Hnd. inversion Hnd as [|? ? Hn Hnd']; subst.
        destruct (Nat.eqb (nth (fst e) inputs 0%nat) g); simpl; [|apply IH; assumption].
        constructor; [|apply IH; assumption]. intros Hin. apply Hn. apply in_map_iff in Hin.
        destruct Hin as [x [Ex Hx]]. apply filter_In in Hx. rewrite <- Ex. apply in_map. tauto.
  Qed.
End TopkOverSelector.
