(* Proofs about the order-based kernels of RangeFns.v (property C03): generic in
   the value type, for any comparison that behaves like IEEE < (false on NaN,
   irreflexive, transitive). *)
From Coq Require Import List ZArith NArith Bool Lia.
From Verif Require Import RangeOrd.
Import ListNotations.

Section OrderProofs.
  Variable V : Type.
  Variable lt : V -> V -> bool.
  Variable isnan : V -> bool.
  Hypothesis lt_nan_l : forall a b, isnan a = true -> lt a b = false.
  Hypothesis lt_nan_r : forall a b, isnan b = true -> lt a b = false.
  Hypothesis lt_irrefl : forall a, lt a a = false.
  Hypothesis lt_trans : forall a b c, lt a b = true -> lt b c = true -> lt a c = true.

  (* the candidate after having seen [seen]: one of them; a number as soon as a
     number has been seen, and then no number seen is greater *)
  Definition is_max (m : V) (seen : list V) : Prop :=
    In m seen /\
    ((forall x, In x seen -> isnan x = true) \/
     (isnan m = false /\ forall x, In x seen -> isnan x = false -> lt m x = false)).

  Lemma max_step m seen v : is_max m seen -> is_max (if lt m v || isnan m then v else m) (seen ++ [v]).
  Proof.
    intros [Hin Hc]. destruct (isnan m) eqn:Nm.
    - rewrite orb_true_r. cbv iota. split; [apply in_or_app; right; left; reflexivity|].
      destruct Hc as [Hall|[Hn _]]; [|congruence].
      destruct (isnan v) eqn:Nv.
      + left. intros x Hx. apply in_app_or in Hx. destruct Hx as [Hx|[<-|[]]]; auto.
      + right. split; [reflexivity|]. intros x Hx Nx. apply in_app_or in Hx. destruct Hx as [Hx|[<-|[]]].
        * rewrite (Hall x Hx) in Nx. discriminate.
        * apply lt_irrefl.
    - rewrite orb_false_r. destruct Hc as [Hall|[_ Hmax]]; [rewrite (Hall m Hin) in Nm; discriminate|].
      destruct (lt m v) eqn:Lmv; cbv iota.
      + assert (Nv : isnan v = false).
        { destruct (isnan v) eqn:E; [|reflexivity]. rewrite lt_nan_r in Lmv by assumption. discriminate. }
        split; [apply in_or_app; right; left; reflexivity|]. right. split; [assumption|].
        intros x Hx Nx. apply in_app_or in Hx. destruct Hx as [Hx|[<-|[]]]; [|apply lt_irrefl].
        destruct (lt v x) eqn:E; [|reflexivity]. pose proof (Hmax x Hx Nx) as H1. rewrite (lt_trans _ _ _ Lmv E) in H1. discriminate.
      + split; [apply in_or_app; left; assumption|]. right. split; [assumption|].
        intros x Hx Nx. apply in_app_or in Hx. destruct Hx as [Hx|[<-|[]]]; [apply Hmax; assumption|assumption].
  Qed.

  (* max_over_time: the result is one of the values; it is NaN only if all are;
     otherwise no value that is a number is greater *)
  Theorem max_over_spec first rest :
    is_max (max_over V lt isnan first rest) (first :: rest).
  Proof.
    unfold max_over.
    assert (H : forall rest m seen, is_max m seen ->
                is_max (fold_left (fun m v => if lt m v || isnan m then v else m) rest m) (seen ++ rest)).
    { induction rest0 as [|v r IH]; intros m seen Hm; simpl; [rewrite app_nil_r; assumption|].
      replace (seen ++ v :: r) with ((seen ++ [v]) ++ r) by (rewrite <- app_assoc; reflexivity).
      apply IH. apply max_step. assumption. }
    apply (H rest first [first]). split; [left; reflexivity|].
    destruct (isnan first) eqn:Nf.
    - left. intros x [<-|[]]. assumption.
    - right. split; [reflexivity|]. intros x [<-|[]] _. apply lt_irrefl.
  Qed.
End OrderProofs.

(* min_over_time is max_over_time for the reversed comparison *)
Lemma min_is_max_flipped V lt isnan first rest :
  min_over V lt isnan first rest = max_over V (fun a b => lt b a) isnan first rest.
Proof. reflexivity. Qed.

(* resets counts the adjacent pairs that decrease; changes those that differ *)
Fixpoint adjacent {A} (prev : A) (rest : list A) : list (A * A) :=
  match rest with
  | [] => []
  | v :: r => (prev, v) :: adjacent v r
  end.

Lemma resets_spec V lt prev rest :
  resets_from V lt prev rest = length (filter (fun pv : V * V => lt (snd pv) (fst pv)) (adjacent prev rest)).
Proof.
  revert prev. induction rest as [|v r IH]; intros prev; simpl; [reflexivity|].
  rewrite IH. destruct (lt v prev); reflexivity.
Qed.

Lemma changes_spec V isnan eqb prev rest :
  changes_from V isnan eqb prev rest =
  length (filter (fun pv : V * V => negb (eqb (snd pv) (fst pv)) && negb (isnan (snd pv) && isnan (fst pv))) (adjacent prev rest)).
Proof.
  revert prev. induction rest as [|v r IH]; intros prev; simpl; [reflexivity|].
  rewrite IH. destruct (negb (eqb v prev) && negb (isnan v && isnan prev)); reflexivity.
Qed.
