(* Proofs about Agg.v (property C04). *)
From Coq Require Import List ZArith NArith Bool Lia.
From Verif Require Import Base Agg.
Import ListNotations.
Close Scope Z_scope.

Section TableProofs.
  Variable V A : Type.
  Variable empty : V -> A.
  Variable add : A -> V -> A.

  Notation acc := (acc A).

  (* the table's previous contents are irrelevant: only its size matters *)
  Theorem table_reset_local inputs param (old old' : list acc) vec :
    length old = length old' ->
    aggregate V A empty add inputs param old vec = aggregate V A empty add inputs param old' vec.
  Proof.
    intros Hl. unfold aggregate. f_equal.
    revert old' Hl. induction old as [|x old IH]; intros [|y old'] Hl; simpl in *; try lia; [reflexivity|].
    f_equal. apply IH. lia.
  Qed.

  Lemma nth_upd_nth_same (t : list acc) i f d : i < length t -> nth i (upd_nth A t i f) d = f (nth i t d).
  Proof.
    revert i. induction t as [|x t IH]; intros i Hi; simpl in *; [lia|].
    destruct i; simpl; [reflexivity|]. apply IH. lia.
  Qed.

  Lemma nth_upd_nth_other (t : list acc) i j f d : i <> j -> nth j (upd_nth A t i f) d = nth j t d.
  Proof.
    revert i j. induction t as [|x t IH]; intros i j Hij; simpl; [reflexivity|].
    destruct i, j; simpl; try reflexivity; try lia. apply IH. lia.
  Qed.

  Lemma upd_nth_length (t : list acc) i f : length (upd_nth A t i f) = length t.
  Proof. revert i. induction t as [|x t IH]; intros i; simpl; [reflexivity|]. destruct i; simpl; auto. Qed.

  (* each group's accumulator is the fold of AddFunc over exactly the group's
     members present at this step, in arrival order; it has a value iff there
     is at least one member *)
  Lemma fold_add_sample_spec inputs g : forall vec (t : list acc) d,
    g < length t ->
    nth g (fold_left (add_sample V A add inputs) vec t) d =
    match members V inputs g vec with
    | [] => nth g t d
    | ms => mkAcc A true (fold_left add ms (a_st A (nth g t d)))
    end.
  Proof.
    induction vec as [|[i v] vec IH]; intros t d Hg; simpl; [reflexivity|].
    rewrite IH by (unfold add_sample; rewrite upd_nth_length; assumption).
    unfold members. simpl. unfold add_sample at 1 2. simpl.
    destruct (Nat.eqb_spec (nth i inputs 0) g) as [He|Hne]; simpl.
    - rewrite He, nth_upd_nth_same by assumption. simpl.
      destruct (map snd (filter _ vec)); reflexivity.
    - rewrite nth_upd_nth_other by assumption. reflexivity.
  Qed.

  Theorem aggregate_group_value inputs param (old : list acc) vec g d :
    g < length old ->
    nth g (aggregate V A empty add inputs param old vec) d =
    match members V inputs g vec with
    | [] => mkAcc A false (empty param)
    | ms => mkAcc A true (fold_left add ms (empty param))
    end.
  Proof.
    intros Hg. unfold aggregate.
    rewrite fold_add_sample_spec by (rewrite map_length; assumption).
    assert (Hn : nth g (map (reset V A empty param) old) d = mkAcc A false (empty param)).
    { rewrite (nth_indep _ d (reset V A empty param d)) by (rewrite map_length; assumption).
      rewrite map_nth. reflexivity. }
    rewrite Hn. reflexivity.
  Qed.
End TableProofs.

(* ---- group assignment ---------------------------------------------------- *)

Lemma labels_eqb_eq a b : labels_eqb a b = true <-> a = b.
Proof.
  revert b. induction a as [|[k v] a IH]; intros [|[k' v'] b]; simpl; split; intros H;
    try reflexivity; try discriminate.
  - apply andb_true_iff in H. destruct H as [H1 H3]. apply andb_true_iff in H1. destruct H1 as [H1 H2].
    apply N.eqb_eq in H1, H2. apply IH in H3. subst. reflexivity.
  - inversion H; subst. rewrite !N.eqb_refl. simpl. apply IH. reflexivity.
Qed.

Lemma index_of_some key groups i : index_of key groups = Some i -> nth_error groups i = Some key.
Proof.
  revert i. induction groups as [|g groups IH]; intros i H; simpl in H; [discriminate|].
  destruct (labels_eqb key g) eqn:E.
  - inversion H; subst. apply labels_eqb_eq in E. subst. reflexivity.
  - destruct (index_of key groups) as [j|]; simpl in H; [|discriminate].
    inversion H; subst. simpl. apply IH. reflexivity.
Qed.

(* every input series is assigned the group whose labels are its grouping key;
   existing groups keep their numbers *)
Theorem assign_groups_sound : forall keys groups ids gs,
  assign_groups keys groups = (ids, gs) ->
  (exists ext, gs = groups ++ ext) /\
  length ids = length keys /\
  forall j, j < length keys -> nth_error gs (nth j ids 0) = nth_error keys j.
Proof.
  induction keys as [|k keys IH]; intros groups ids gs H; simpl in H.
  - inversion H; subst. split; [exists []; rewrite app_nil_r; reflexivity|]. split; [reflexivity|].
    intros j Hj. simpl in Hj. lia.
  - destruct (index_of k groups) as [i|] eqn:Ei.
    + destruct (assign_groups keys groups) as [ids' gs'] eqn:Ea. inversion H; subst.
      destruct (IH _ _ _ Ea) as [[ext Hext] [Hl Hn]].
      split; [exists ext; assumption|]. split; [simpl; lia|].
      intros [|j] Hj; simpl.
      * rewrite Hext. apply index_of_some in Ei. rewrite nth_error_app1; [assumption|].
        apply nth_error_Some. congruence.
      * apply Hn. simpl in Hj. lia.
    + destruct (assign_groups keys (groups ++ [k])) as [ids' gs'] eqn:Ea. inversion H; subst.
      destruct (IH _ _ _ Ea) as [[ext Hext] [Hl Hn]].
      split; [exists ([k] ++ ext); rewrite Hext, app_assoc; reflexivity|]. split; [simpl; lia|].
      intros [|j] Hj; simpl.
      * rewrite Hext. rewrite nth_error_app1 by (rewrite app_length; simpl; lia).
        rewrite nth_error_app2 by lia. rewrite Nat.sub_diag. reflexivity.
      * apply Hn. simpl in Hj. lia.
Qed.

(* ---- C11: the order of the samples inside a step vector ----------------------- *)

From Coq Require Import Permutation.

Section TableOrder.
  Variable V A : Type.
  Variable empty : V -> A.
  Variable add : A -> V -> A.
  (* adding two samples in either order gives the same accumulator: true of count,
     group, min and max exactly; of the floating-point sums only up to rounding *)
  Hypothesis add_comm : forall a x y, add (add a x) y = add (add a y) x.

  Notation acc := (acc A).

  Lemma upd_nth_upd_nth_same (t : list acc) i f g :
    upd_nth A (upd_nth A t i f) i g = upd_nth A t i (fun a => g (f a)).
  Proof. revert i. induction t as [|x t IH]; intros i; simpl; [reflexivity|]. destruct i; simpl; [reflexivity|]. rewrite IH. reflexivity. Qed.

  Lemma upd_nth_ext (t : list acc) i f g : (forall a, f a = g a) -> upd_nth A t i f = upd_nth A t i g.
  Proof.
    intros H. revert i. induction t as [|x t IH]; intros i; simpl; [reflexivity|].
    destruct i; simpl; [rewrite H; reflexivity|rewrite IH; reflexivity].
  Qed.

  Lemma upd_nth_comm (t : list acc) i j f g : i <> j ->
    upd_nth A (upd_nth A t i f) j g = upd_nth A (upd_nth A t j g) i f.
  Proof.
    revert i j. induction t as [|x t IH]; intros i j Hne; simpl; [reflexivity|].
    destruct i, j; simpl; try reflexivity; try lia. rewrite IH by lia. reflexivity.
  Qed.

  Lemma add_sample_comm inputs (t : list acc) iv jv :
    add_sample V A add inputs (add_sample V A add inputs t iv) jv =
    add_sample V A add inputs (add_sample V A add inputs t jv) iv.
  Proof.
    unfold add_sample. destruct (Nat.eq_dec (nth (fst iv) inputs 0) (nth (fst jv) inputs 0)) as [E|NE].
    - rewrite E, !upd_nth_upd_nth_same. apply upd_nth_ext. intros a. simpl. rewrite add_comm. reflexivity.
    - apply upd_nth_comm. assumption.
  Qed.

  (* the table after a step does not depend on the order of the step vector's samples *)
  Theorem aggregate_order_independent inputs param (old : list acc) vec vec' :
    Permutation vec vec' ->
    aggregate V A empty add inputs param old vec = aggregate V A empty add inputs param old vec'.
  Proof.
    intros HP. unfold aggregate. generalize (map (reset V A empty param) old). induction HP; intros t; simpl.
    - reflexivity.
    - apply IHHP.
    - rewrite add_sample_comm. reflexivity.
    - rewrite IHHP1. apply IHHP2.
  Qed.
End TableOrder.
