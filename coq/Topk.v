(* topk / bottomk (property C04): kAggregate.aggregate of
   execution/aggregate/khashaggregate.go. Per group the operator keeps at most k
   entries in a heap whose root is a least entry under samplesHeap.Less (NaN
   sorts lowest); a sample replaces the root when the heap is full and the root
   compares below it or is NaN. The model keeps the entries in arrival order
   and takes as "root" an entry no other entry is Less than; among several such
   entries (equal values, several NaN) the real heap's choice depends on its
   layout, which is not modelled: the theorems hold for any such choice, the
   correspondence check uses inputs without ties. *)
From Coq Require Import List ZArith NArith Bool Lia.
Import ListNotations.

Section TopK.
  Variable V : Type.
  Variable lt : V -> V -> bool.       (* compare: topk f < s, bottomk s < f *)
  Variable isnan : V -> bool.

  Definition entry := (nat * V)%type.     (* sample ID, value *)

  (* samplesHeap.Less *)
  Definition less (a b : V) : bool := isnan a || lt a b.

  (* a least entry of a non-empty list: the last of the candidates met *)
  Fixpoint min_entry (m : entry) (l : list entry) : entry :=
    match l with
    | [] => m
    | x :: r => if less (snd x) (snd m) then min_entry x r else min_entry m r
    end.

  Fixpoint remove_id (id : nat) (l : list entry) : list entry :=
    match l with
    | [] => []
    | x :: r => if Nat.eqb (fst x) id then r else x :: remove_id id r
    end.

  (* one sample offered to its group's heap, k >= 1 *)
  Definition offer (k : nat) (h : list entry) (e : entry) : list entry :=
    match h with
    | [] => [e]
    | x :: r =>
        if Nat.ltb (length h) k then h ++ [e]
        else let m := min_entry x r in
             if lt (snd m) (snd e) || isnan (snd m) then remove_id (fst m) h ++ [e] else h
    end.

  Definition topk_group (k : nat) (samples : list entry) : list entry :=
    fold_left (offer k) samples [].

  (* the whole step: [inputs] maps a series ID to its group, all groups are
     emitted in one step vector; k < 1 gives an empty vector *)
  Fixpoint set_group (hs : list (list entry)) (g : nat) (f : list entry -> list entry) : list (list entry) :=
    match hs, g with
    | [], _ => []
    | h :: r, O => f h :: r
    | h :: r, S g' => h :: set_group r g' f
    end.

  Definition topk_step (k : nat) (inputs : list nat) (ngroups : nat) (vec : list entry) : list entry :=
    if Nat.ltb k 1 then []
    else concat (fold_left (fun hs e => set_group hs (nth (fst e) inputs 0) (fun h => offer k h e))
                           vec (repeat [] ngroups)).
End TopK.
