(* The accumulators of aggregate/scalar_table.go on primitive floats, as
   instances of the generic table of Agg.v (correspondence check of C04). *)
From Coq Require Import List ZArith NArith Bool Floats.
From Verif Require Import Base Agg Bin BinCases RangeFns.
Import ListNotations.
Close Scope Z_scope.
Local Open Scope float_scope.

(* the state of one accumulator: five floats are enough for all of them *)
Record fstate := mkFS { f1 : float; f2 : float; f3 : float; f4 : float; f5 : float; fhas : bool }.

Definition fs0 : fstate := mkFS 0 0 0 0 0 false.

(* AddFunc, by aggregation code: 0 sum 1 max 2 min 3 count 4 avg 5 group 6 stddev 7 stdvar *)
Definition facc_add (code : N) (s : fstate) (v : float) : fstate :=
  match code with
  | 0%N => mkFS (f1 s + v) 0 0 0 0 true
  | 1%N => mkFS (if negb (fhas s) || PrimFloat.ltb (f1 s) v || PrimFloat.is_nan (f1 s) then v else f1 s) 0 0 0 0 true
  | 2%N => mkFS (if negb (fhas s) || PrimFloat.ltb v (f1 s) || PrimFloat.is_nan (f1 s) then v else f1 s) 0 0 0 0 true
  | 3%N => mkFS (f1 s + 1) 0 0 0 0 true
  | 4%N => mkFS (f1 s + 1) (f2 s + v) 0 0 0 true                 (* count, sum *)
  | 5%N => mkFS 0 0 0 0 0 true
  | _ =>                                                          (* count, mean, cMean, aux, cAux *)
      let count := f1 s + 1 in
      if PrimFloat.eqb count 1 then mkFS count v (f3 s) (f4 s) (f5 s) true
      else
        let delta := v - (f2 s + f3 s) in
        let '(mean, cmean) := kahan (delta / count) (f2 s) (f3 s) in
        let '(aux, caux) := kahan (delta * (v - (mean + cmean))) (f4 s) (f5 s) in
        mkFS count mean cmean aux caux true
  end.

(* ValueFunc *)
Definition facc_value (code : N) (s : fstate) : float :=
  match code with
  | 0%N | 1%N | 2%N | 3%N => f1 s
  | 4%N => f2 s / f1 s
  | 5%N => 1
  | 6%N => PrimFloat.sqrt ((f4 s + f5 s) / f1 s)
  | _ => (f4 s + f5 s) / f1 s
  end.

Record aggval_case := mkAVC {
  avc_id : N; avc_fn : N; avc_without : bool; avc_grouping : list N;
  avc_series : list labels;
  avc_steps : list (Z * list (nat * float));
  avc_expected : list (Z * list (labels * float)) }.

(* hashAggregate over the operand stream: the tables are reused from step to step *)
Fixpoint aggval_run (code : N) (inputs : list nat) (groups : list labels) (tbl : list (acc fstate))
         (steps : list (Z * list (nat * float))) : list (Z * list (labels * float)) :=
  match steps with
  | [] => []
  | (t, vec) :: r =>
      let tbl' := aggregate float fstate (fun _ => fs0) (facc_add code) inputs 0 tbl vec in
      (t, flat_map (fun g => let a := nth g tbl' (mkAcc fstate false fs0) in
                             if a_has fstate a then [(nth g groups [], facc_value code (a_st fstate a))] else [])
                   (seq 0 (length groups)))
      :: aggval_run code inputs groups tbl' r
  end.

Definition aggval_model (c : aggval_case) : list (Z * list (labels * float)) :=
  let keys := map (group_labels (avc_without c) (avc_grouping c)) (avc_series c) in
  let '(inputs, groups) := assign_groups keys [] in
  aggval_run (avc_fn c) inputs groups (repeat (mkAcc fstate false fs0) (length groups)) (avc_steps c).

Definition aggval_case_ok (c : aggval_case) : bool := steps_eqb (aggval_model c) (avc_expected c).

Definition aggval_mismatches (cs : list aggval_case) : list N :=
  map avc_id (filter (fun c => negb (aggval_case_ok c)) cs).
