(* The accumulators of aggregate/scalar_table.go on primitive floats, as
   instances of the generic table of Agg.v (correspondence check of C04). *)
From Coq Require Import List ZArith NArith Bool Floats.
From Verif Require Import Base Agg Bin BinCases RangeFns.
Import ListNotations.
Close Scope Z_scope.
Local Open Scope float_scope.

(* the state of one accumulator: five floats are enough for all of them *)
Record fstate := mkFS { f1 : float; f2 : float; f3 : float; f4 : float; f5 : float; fhas : bool; fpts : list float }.

Definition fs0 : fstate := mkFS 0 0 0 0 0 false [].

(* Reset(arg): quantile keeps its argument *)
Definition fs_reset (arg : float) : fstate := mkFS arg 0 0 0 0 false [].

(* quantile(q, points) of scalar_table.go: the generic kernel of RangeArith.v (sort.Float64s with NaN
   first, the floor of the rank, the interpolation) on floats *)
Definition fsort (l : list float) : list float := gsort float fops l.
Definition fquantile (q : float) (points : list float) : float := gquantile float fops infinity neg_infinity q points.

(* AddFunc, by aggregation code: 0 sum 1 max 2 min 3 count 4 avg 5 group 6 stddev 7 stdvar 8 quantile *)
Definition facc_add (code : N) (s : fstate) (v : float) : fstate :=
  match code with
  | 0%N => mkFS (if fhas s then f1 s + v else v) 0 0 0 0 true []                  (* the first value as it is: 0 + (-0) = 0 *)
  | 1%N => mkFS (if negb (fhas s) || PrimFloat.ltb (f1 s) v || PrimFloat.is_nan (f1 s) then v else f1 s) 0 0 0 0 true []
  | 2%N => mkFS (if negb (fhas s) || PrimFloat.ltb v (f1 s) || PrimFloat.is_nan (f1 s) then v else f1 s) 0 0 0 0 true []
  | 3%N => mkFS (f1 s + 1) 0 0 0 0 true []
  | 4%N => let '(count, sum) := gacc_avg_step float fops (f1 s, f2 s) v in mkFS count (if fhas s then sum else v) 0 0 0 true []
  | 5%N => mkFS 0 0 0 0 0 true []
  | 8%N => mkFS (f1 s) 0 0 0 0 true (fpts s ++ [v])                (* quantile: argument, points *)
  | _ =>                                                          (* count, mean, cMean, aux, cAux *)
      let '(count, mean, cmean, aux, caux) := gacc_welford_step float fops (f1 s, f2 s, f3 s, f4 s, f5 s) v in
      mkFS count mean cmean aux caux true []
  end.

(* ValueFunc *)
Definition facc_value (code : N) (s : fstate) : float :=
  match code with
  | 0%N | 1%N | 2%N | 3%N => f1 s
  | 4%N => f2 s / f1 s
  | 5%N => 1
  | 6%N => PrimFloat.sqrt ((f4 s + f5 s) / f1 s)
  | 7%N => (f4 s + f5 s) / f1 s
  | _ => fquantile (f1 s) (fpts s)
  end.

Record aggval_case := mkAVC {
  avc_id : N; avc_fn : N; avc_param : float; avc_without : bool; avc_grouping : list N;
  avc_series : list labels;
  avc_steps : list (Z * list (nat * float));
  avc_expected : list (Z * list (labels * float)) }.

(* hashAggregate over the operand stream: the tables are reused from step to step *)
Fixpoint aggval_run (code : N) (param : float) (inputs : list nat) (groups : list labels) (tbl : list (acc fstate))
         (steps : list (Z * list (nat * float))) : list (Z * list (labels * float)) :=
  match steps with
  | [] => []
  | (t, vec) :: r =>
      let tbl' := aggregate float fstate fs_reset (facc_add code) inputs param tbl vec in
      (t, flat_map (fun g => let a := nth g tbl' (mkAcc fstate false fs0) in
                             if a_has fstate a then [(nth g groups [], facc_value code (a_st fstate a))] else [])
                   (seq 0 (length groups)))
      :: aggval_run code param inputs groups tbl' r
  end.

Definition aggval_model (c : aggval_case) : list (Z * list (labels * float)) :=
  let keys := map (group_labels (avc_without c) (avc_grouping c)) (avc_series c) in
  let '(inputs, groups) := assign_groups keys [] in
  aggval_run (avc_fn c) (avc_param c) inputs groups (repeat (mkAcc fstate false fs0) (length groups)) (avc_steps c).

Definition aggval_case_ok (c : aggval_case) : bool := steps_eqb (aggval_model c) (avc_expected c).

Definition aggval_mismatches (cs : list aggval_case) : list N :=
  map avc_id (filter (fun c => negb (aggval_case_ok c)) cs).
