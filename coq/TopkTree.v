(* topk / bottomk as a function of the step's samples (C04, for the operator trees of
   Trees.v): when no two samples of a group have the same value, the samples the
   engine's heaps keep (Topk.topk_step) are exactly those with fewer than k strictly
   better samples in their group - a description that does not mention the order in
   which the samples arrive. *)
From Coq Require Import List ZArith NArith Bool Lia Permutation.
From Verif Require Import Topk TopkProofs.
Import ListNotations.

Section RankTopK.
  Variable V : Type.
  Variable lt : V -> V -> bool.
  Hypothesis lt_irrefl : forall a, lt a a = false.
  Hypothesis lt_trans : forall a b c, lt a b = true -> lt b c = true -> lt a c = true.
  Hypothesis lt_total : forall a b, a <> b -> lt a b = true \/ lt b a = true.
  Hypothesis V_eq_dec : forall a b : V, {a = b} + {a <> b}.

  Definition nonan : V -> bool := fun _ => false.
  Notation entry := (nat * V)%type.

  (* the samples strictly better than x *)
  Definition better (S : list entry) (x : entry) : list entry := filter (fun y => lt (snd x) (snd y)) S.
  Definition rank_keep (k : nat) (S : list entry) (x : entry) : bool := Nat.ltb (length (better S x)) k.

  Lemma entry_dec : forall a b : entry, {a = b} + {a <> b}.
  Proof. decide equality; try apply V_eq_dec; apply Nat.eq_dec. Qed.

  Lemma lt_negtrans a b c : nonan c = false -> lt a b = true -> lt a c = true \/ lt c b = true.
  Proof.
    intros _ H. destruct (V_eq_dec c b) as [->|Hcb]; [left; exact H|].
    destruct (lt_total c b Hcb) as [H1|H1]; [right; exact H1|left; exact (lt_trans a b c H H1)].
  Qed.

  Lemma distinct_values (S : list entry) x y : NoDup (map snd S) -> In x S -> In y S -> x <> y -> snd x <> snd y.
  Proof.
    induction S as [|z S IH]; intros Hnd Hx Hy Hne; [destruct Hx|].
    simpl in Hnd. inversion Hnd as [|? ? Hn Hnd']; subst.
    destruct Hx as [->|Hx], Hy as [->|Hy].
    - congruence.
    - intros E. apply Hn. rewrite E. apply in_map. assumption.
    - intros E. apply Hn. rewrite <- E. apply in_map. assumption.
    - apply IH; assumption.
  Qed.

  (* a top-k selection of samples with distinct values is the selection by rank *)
  Lemma topk_iff_rank k S K : NoDup (map fst S) -> NoDup (map snd S) ->
    is_topk V lt nonan k K S -> forall x, In x S -> (In x K <-> rank_keep k S x = true).
  Proof.
    intros Hid Hval (Hincl & HndK & Hlen & Hworse) x Hx.
    assert (HS : NoDup S) by (apply (NoDup_map_inv fst); assumption).
    assert (HK : NoDup K) by (apply (NoDup_map_inv fst); assumption).
    unfold rank_keep. split.
    - intros HxK. apply Nat.ltb_lt.
      assert (Hb : incl (x :: better S x) K).
      { intros y [<-|Hy]; [assumption|]. unfold better in Hy. apply filter_In in Hy. destruct Hy as [Hy Hlt].
        destruct (in_dec entry_dec y K) as [|Hn]; [assumption|].
        specialize (Hworse x y HxK Hy Hn). unfold worse, nonan in Hworse. simpl in Hworse. congruence. }
      assert (Hnb : NoDup (x :: better S x)).
      { constructor; [|apply NoDup_filter; assumption].
        unfold better. intros Hin. apply filter_In in Hin. destruct Hin as [_ Hlt]. rewrite lt_irrefl in Hlt. discriminate. }
      pose proof (NoDup_incl_length Hnb Hb) as Hle. simpl in Hle. unfold Topk.entry in *. lia.
    - intros Hr. apply Nat.ltb_lt in Hr.
      destruct (in_dec entry_dec x K) as [|Hn]; [assumption|exfalso].
      assert (Hb : incl K (better S x)).
      { intros z Hz. unfold better. apply filter_In. split; [apply Hincl; assumption|].
        pose proof (Hworse z x Hz Hx Hn) as Hw. unfold worse, nonan in Hw. simpl in Hw.
        assert (Hzx : z <> x) by (intros ->; contradiction).
        pose proof (distinct_values S z x Hval (Hincl z Hz) Hx Hzx) as Hv.
        destruct (lt_total (snd z) (snd x) Hv) as [H1|H1]; [congruence|exact H1]. }
      pose proof (NoDup_incl_length HK Hb) as Hle. unfold Topk.entry in *.
      assert (HlenS : length S <= length K) by lia.
      pose proof (NoDup_length_incl HK HlenS Hincl) as Hall. apply Hn. apply Hall. assumption.
  Qed.

  Notation topk_group := (topk_group V lt nonan).

  Theorem topk_group_rank k S : 1 <= k -> NoDup (map fst S) -> NoDup (map snd S) ->
    Permutation (topk_group k S) (filter (rank_keep k S) S).
  Proof.
    intros Hk Hid Hval.
    pose proof (topk_group_is_topk V lt nonan (fun _ _ H => False_ind _ (Bool.diff_false_true H))
                  lt_irrefl lt_trans lt_negtrans k S Hk Hid) as Htop.
    assert (HS : NoDup S) by (apply (NoDup_map_inv fst); assumption).
    apply NoDup_Permutation.
    - apply (NoDup_map_inv fst). destruct Htop as (_ & H & _). exact H.
    - apply NoDup_filter. assumption.
    - intros x. rewrite filter_In. split.
      + intros Hx. assert (HxS : In x S) by (destruct Htop as (Hi & _); apply Hi; assumption).
        split; [assumption|]. apply (topk_iff_rank k S _ Hid Hval Htop x HxS). assumption.
      + intros [HxS Hr]. apply (topk_iff_rank k S _ Hid Hval Htop x HxS). assumption.
  Qed.

  (* ---- all groups of a step --------------------------------------------------------- *)

  Variable inputs : list nat.
  Definition group_of (e : entry) : nat := nth (fst e) inputs 0.
  Definition in_group (g : nat) (e : entry) : bool := Nat.eqb (group_of e) g.

  (* x is kept iff fewer than k samples of its group are strictly better *)
  Definition step_keep (k : nat) (vec : list entry) (x : entry) : bool :=
    rank_keep k (filter (in_group (group_of x)) vec) x.

  Lemma filter_lt_split (L : list entry) n :
    Permutation (filter (fun e => Nat.ltb (group_of e) n) L ++ filter (in_group n) L)
                (filter (fun e => Nat.ltb (group_of e) (S n)) L).
  Proof.
    induction L as [|e L IH]; simpl; [constructor|]. unfold in_group at 1.
    destruct (Nat.ltb_spec (group_of e) n) as [H1|H1]; destruct (Nat.eqb_spec (group_of e) n) as [H2|H2];
      destruct (Nat.ltb_spec (group_of e) (S n)) as [H3|H3]; try lia; simpl.
    - constructor. exact IH.
    - eapply Permutation_trans; [apply Permutation_sym, Permutation_middle|]. constructor. exact IH.
    - exact IH.
  Qed.

  Lemma partition_by_group (L : list entry) n :
    Permutation (concat (map (fun g => filter (in_group g) L) (seq 0 n))) (filter (fun e => Nat.ltb (group_of e) n) L).
  Proof.
    induction n as [|n IH].
    - simpl. induction L as [|e L IHL]; simpl; [constructor|exact IHL].
    - rewrite seq_S, map_app, concat_app. simpl. rewrite app_nil_r.
      eapply Permutation_trans; [apply Permutation_app_tail; exact IH|]. apply filter_lt_split.
  Qed.

  Lemma filter_all {A} (p : A -> bool) (l : list A) : (forall x, In x l -> p x = true) -> filter p l = l.
  Proof.
    induction l as [|a l IH]; intros H; simpl; [reflexivity|].
    rewrite (H a (or_introl eq_refl)). f_equal. apply IH. intros x Hx. apply H. right. assumption.
  Qed.

  Lemma Permutation_concat_map {A B} (f g : A -> list B) (l : list A) :
    (forall a, In a l -> Permutation (f a) (g a)) -> Permutation (concat (map f l)) (concat (map g l)).
  Proof.
    induction l as [|a l IH]; intros H; simpl; [constructor|].
    apply Permutation_app; [apply H; left; reflexivity|apply IH; intros b Hb; apply H; right; assumption].
  Qed.

  Notation topk_step := (topk_step V lt nonan).

  Lemma NoDup_map_fst_filter (p : entry -> bool) (l : list entry) : NoDup (map fst l) -> NoDup (map fst (filter p l)).
  Proof.
    induction l as [|a l IH]; simpl; intros H; [constructor|]. inversion H as [|? ? Hn Hnd]; subst.
    destruct (p a); simpl; [|apply IH; assumption]. constructor; [|apply IH; assumption].
    intros Hin. apply Hn. apply in_map_iff in Hin. destruct Hin as [x [Ex Hx]]. apply filter_In in Hx.
    rewrite <- Ex. apply in_map. tauto.
  Qed.

  Lemma keep_in_group k vec g : forall vec',
    filter (rank_keep k (filter (in_group g) vec)) (filter (in_group g) vec') =
    filter (in_group g) (filter (step_keep k vec) vec').
  Proof.
    induction vec' as [|e vec' IH]; simpl; [reflexivity|].
    destruct (in_group g e) eqn:Eg; simpl.
    - assert (E : step_keep k vec e = rank_keep k (filter (in_group g) vec) e).
      { unfold step_keep. unfold in_group in Eg. apply Nat.eqb_eq in Eg. rewrite Eg. reflexivity. }
      rewrite E. destruct (rank_keep k (filter (in_group g) vec) e); simpl.
      + rewrite Eg. f_equal. exact IH.
      + exact IH.
    - destruct (step_keep k vec e); simpl; [rewrite Eg|]; exact IH.
  Qed.


  Theorem topk_step_rank k ngroups vec : 1 <= k ->
    NoDup (map fst vec) -> (forall e, In e vec -> group_of e < ngroups) ->
    (forall g, NoDup (map snd (filter (in_group g) vec))) ->
    Permutation (topk_step k inputs ngroups vec) (filter (step_keep k vec) vec).
  Proof.
    intros Hk Hid Hrange Hties. unfold Topk.topk_step.
    destruct (Nat.ltb_spec k 1) as [Hlt|_]; [lia|].
    set (F := fun (hs : list (list entry)) (e : entry) => set_group V hs (nth (fst e) inputs 0) (fun h => offer V lt nonan k h e)).
    assert (G : forall (v : list entry) (h : list (list entry)), length (fold_left F v h) = length h).
    { induction v as [|e v IH]; intros h; simpl; [reflexivity|]. rewrite IH. unfold F. apply set_group_length. }
    set (hs := fold_left F vec (repeat [] ngroups)).
    assert (Hlen : length hs = ngroups) by (unfold hs; rewrite G, repeat_length; reflexivity).
    assert (Hhs : hs = map (fun g => Topk.topk_group V lt nonan k (filter (in_group g) vec)) (seq 0 ngroups)).
    { apply nth_ext with (d := []) (d' := []).
      - rewrite map_length, seq_length. exact Hlen.
      - intros n Hn. rewrite Hlen in Hn.
        set (f := fun g => Topk.topk_group V lt nonan k (filter (in_group g) vec)).
        rewrite (nth_indep (map f (seq 0 ngroups)) [] (f 0)) by (rewrite map_length, seq_length; exact Hn).
        rewrite map_nth, seq_nth by exact Hn. unfold f. simpl.
        unfold hs, F. apply (topk_step_group V lt nonan k inputs ngroups vec n Hk Hn). }
    change (Permutation (concat hs) (filter (step_keep k vec) vec)). rewrite Hhs.
    eapply Permutation_trans.
    { apply Permutation_concat_map. intros g _.
      apply (topk_group_rank k (filter (in_group g) vec) Hk); [apply NoDup_map_fst_filter; exact Hid|apply Hties]. }
    erewrite map_ext; [|intros g; apply (keep_in_group k vec g vec)].
    eapply Permutation_trans; [apply partition_by_group|].
    rewrite filter_all; [apply Permutation_refl|].
    intros x Hx. apply filter_In in Hx. apply Nat.ltb_lt. apply Hrange. tauto.
  Qed.
End RankTopK.

(* ---- shape of a step's output: samples of the input, every ID at most once ------------- *)

Lemma NoDup_app_disjoint {A} (a b : list A) :
  NoDup a -> NoDup b -> (forall x, In x a -> In x b -> False) -> NoDup (a ++ b).
Proof.
  induction a as [|x a IH]; intros Ha Hb Hd; simpl; [assumption|].
  inversion Ha as [|? ? Hn Ha']; subst. constructor.
  - intros Hin. apply in_app_or in Hin. destruct Hin as [Hin|Hin]; [contradiction|].
    apply (Hd x); [left; reflexivity|assumption].
  - apply IH; [assumption|assumption|]. intros y Hy. apply Hd. right. assumption.
Qed.

Section StepShape.
  Variable V : Type.
  Variable lt : V -> V -> bool.
  Hypothesis lt_irrefl : forall a, lt a a = false.
  Hypothesis lt_trans : forall a b c, lt a b = true -> lt b c = true -> lt a c = true.
  Hypothesis lt_total : forall a b, a <> b -> lt a b = true \/ lt b a = true.
  Hypothesis V_eq_dec : forall a b : V, {a = b} + {a <> b}.
  Variable inputs : list nat.
  Notation entry := (nat * V)%type.

  Lemma topk_step_shape k ngroups (vec : list entry) : NoDup (map fst vec) ->
    incl (topk_step V lt (nonan V) k inputs ngroups vec) vec /\
    NoDup (map fst (topk_step V lt (nonan V) k inputs ngroups vec)).
  Proof.
    intros Hid. unfold Topk.topk_step.
    destruct (Nat.ltb_spec k 1) as [Hlt|Hk]; [split; [intros x []|constructor]|].
    set (F := fun (hs : list (list entry)) (e : entry) => set_group V hs (nth (fst e) inputs 0) (fun h => offer V lt (nonan V) k h e)).
    assert (G : forall (v : list entry) (h : list (list entry)), length (fold_left F v h) = length h).
    { induction v as [|e v IH]; intros h; simpl; [reflexivity|]. rewrite IH. unfold F. apply set_group_length. }
    set (hs := fold_left F vec (repeat [] ngroups)).
    change (incl (concat hs) vec /\ NoDup (map fst (concat hs))).
    assert (Hlen : length hs = ngroups) by (unfold hs; rewrite G, repeat_length; reflexivity).
    set (f := fun g => Topk.topk_group V lt (nonan V) k (filter (in_group V inputs g) vec)).
    assert (Hhs : hs = map f (seq 0 ngroups)).
    { apply nth_ext with (d := []) (d' := []).
      - rewrite map_length, seq_length. exact Hlen.
      - intros n Hn. rewrite Hlen in Hn.
        rewrite (nth_indep (map f (seq 0 ngroups)) [] (f 0)) by (rewrite map_length, seq_length; exact Hn).
        rewrite map_nth, seq_nth by exact Hn. unfold f. simpl.
        unfold hs, F. apply (topk_step_group V lt (nonan V) k inputs ngroups vec n Hk Hn). }
    rewrite Hhs. clear Hhs Hlen hs G F.
    assert (Hspec : forall g, incl (f g) (filter (in_group V inputs g) vec) /\ NoDup (map fst (f g))).
    { intros g. unfold f.
      destruct (topk_group_spec V lt (nonan V) (fun _ _ H => False_ind _ (Bool.diff_false_true H))
                  lt_irrefl lt_trans (lt_negtrans V lt lt_trans lt_total V_eq_dec) k
                  (filter (in_group V inputs g) vec) Hk (NoDup_map_fst_filter V _ _ Hid)) as [H1 [H2 _]].
      split; assumption. }
    induction ngroups as [|n IH].
    - simpl. split; [intros x []|constructor].
    - rewrite seq_S, map_app, concat_app. simpl. rewrite app_nil_r. destruct IH as [IH1 IH2]. split.
      + apply incl_app; [exact IH1|]. intros x Hx. destruct (Hspec n) as [Hi _]. apply Hi in Hx. apply filter_In in Hx. tauto.
      + rewrite map_app. apply NoDup_app_disjoint; [exact IH2|destruct (Hspec n); assumption|].
        intros i Hi1 Hi2. apply in_map_iff in Hi1. destruct Hi1 as [x [Ex Hx]]. apply in_map_iff in Hi2. destruct Hi2 as [y [Ey Hy]].
        apply in_concat in Hx. destruct Hx as [l [Hl Hx]]. apply in_map_iff in Hl. destruct Hl as [g [<- Hg]]. apply in_seq in Hg.
        destruct (Hspec g) as [Hig _]. destruct (Hspec n) as [Hin _].
        apply Hig in Hx. apply Hin in Hy. apply filter_In in Hx. apply filter_In in Hy.
        destruct Hx as [Hxv Hxg], Hy as [Hyv Hyg].
        assert (x = y) by (apply (nodup_fst_eq V vec x y Hid Hxv Hyv); congruence). subst y.
        unfold in_group in *. apply Nat.eqb_eq in Hxg, Hyg. lia.
  Qed.
End StepShape.
