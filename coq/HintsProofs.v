(* Proofs about Hints.v (property C16). *)
From Coq Require Import List String ZArith NArith Bool Lia.
From Verif Require Import Ast Generated Plan PlanProofs Base Hints.
Import ListNotations.
Open Scope Z_scope.

(* the hints value carried by the engine agrees with the reference's path *)
Definition R (h : hints) (p : list pnode) : Prop :=
  h_func h = func_of_path p /\ (h_grp h, h_by h) = groups_of_path p.

Lemma R_call f p : R (mkH f [] false) (KCall f :: p).
Proof. split; reflexivity. Qed.

Lemma R_agg op grp b p : R (mkH op grp b) (KAgg op grp b :: p).
Proof. split; reflexivity. Qed.

Lemma R_bin p : R (mkH "" [] false) (KBin :: p).
Proof. split; reflexivity. Qed.

Lemma R_other h p : R h p -> R (clear_grouping h) (KOther :: p).
Proof. intros [Hf _]. split; simpl; auto. Qed.

Lemma mk_sel_ref w lb v r h p : R h p -> mk_sel w lb v r h = ref_sel w lb v r p.
Proof.
  intros [Hf Hg]. unfold mk_sel, ref_sel. destruct (sel_range w lb v r) as [s e].
  destruct (groups_of_path p) as [g b]. inversion Hg; subst. rewrite Hf. reflexivity.
Qed.

(* calls with a range-selector argument have exactly that argument (follows from
   type-correctness and C08_range_call_has_one_parameter for native functions) *)
Fixpoint mat_calls_unary (e : expr) : bool :=
  match e with
  | ECall f args =>
      (if existsb is_mat args then match args with [EMat _ _] => true | _ => false end else true)
      && forallb mat_calls_unary args
  | EAgg _ _ _ param e1 => mat_calls_unary e1 && match param with Some p => mat_calls_unary p | None => true end
  | EBin _ _ _ _ _ _ l r => mat_calls_unary l && mat_calls_unary r
  | EParen e1 | EUn _ e1 | EStepInv e1 | ESubq e1 => mat_calls_unary e1
  | _ => true
  end.

(* selectors that carry an @ timestamp do not look at the window's start/end *)
Lemma sel_range_pinned w1 w2 lb v r : vat v <> None -> sel_range w1 lb v r = sel_range w2 lb v r.
Proof. unfold sel_range. destruct (vat v); [reflexivity|congruence]. Qed.

Lemma flat_map_ext_in {A B} (f g : A -> list B) l :
  (forall a, In a l -> f a = g a) -> flat_map f l = flat_map g l.
Proof.
  induction l as [|a l IH]; intros H; simpl; [reflexivity|].
  rewrite (H a (or_introl eq_refl)), IH; [reflexivity|]. intros b Hb. apply H. right; assumption.
Qed.

Lemma first_mat_pinned args : forallb pinned args = true ->
  forall v r, first_mat args = Some (v, r) -> vat v <> None.
Proof.
  induction args as [|a args IH]; simpl; intros Hp v r Hf; [discriminate|].
  apply andb_true_iff in Hp. destruct Hp as [Ha Hp].
  destruct a; try (apply (IH Hp v r Hf)).
  inversion Hf; subst. simpl in Ha. destruct (vat v); [discriminate|discriminate].
Qed.

Lemma eng_selects_pinned : forall e w1 w2 lb hh,
  w_step w1 = w_step w2 -> pinned e = true -> eng_selects w1 lb hh e = eng_selects w2 lb hh e.
Proof.
  induction e using expr_ind'; intros w1 w2 lb hh Hst Hp; simpl in *; try reflexivity.
  - (* vec *)
    unfold mk_sel. rewrite (sel_range_pinned w1 w2) by (destruct (vat v); [discriminate|discriminate]).
    rewrite Hst. reflexivity.
  - (* call *)
    assert (Hargs : forall h', flat_map (eng_selects w1 lb h') args = flat_map (eng_selects w2 lb h') args).
    { intros h'. apply flat_map_ext_in. intros a Ha. rewrite Forall_forall in H.
      apply H; auto. rewrite forallb_forall in Hp. auto. }
    destruct (String.eqb f "histogram_quantile"); [apply Hargs|].
    destruct (first_mat args) as [[v r]|] eqn:Ef; [|apply Hargs].
    unfold mk_sel. rewrite (sel_range_pinned w1 w2) by (eapply first_mat_pinned; eauto).
    rewrite Hst. reflexivity.
  - (* agg *)
    apply andb_true_iff in Hp. destruct Hp as [H1 H2].
    rewrite (IHe w1 w2) by assumption. f_equal.
    destruct p as [pe|]; [|reflexivity]. apply (H pe eq_refl); assumption.
  - apply andb_true_iff in Hp. destruct Hp as [H1 H2].
    rewrite (IHe1 w1 w2), (IHe2 w1 w2) by assumption. reflexivity.
  - apply IHe; assumption.
  - apply IHe; assumption.
  - (* step invariant *)
    destruct e; try reflexivity; apply IHe; simpl; auto.
Qed.

Lemma first_mat_singleton args : existsb is_mat args = true ->
  (match args with [EMat _ _] => true | _ => false end) = true ->
  exists v r, args = [EMat v r] /\ first_mat args = Some (v, r).
Proof.
  intros _ H. destruct args as [|a [|b rest]]; try discriminate.
  - destruct a; try discriminate. eexists _, _. split; reflexivity.
  - destruct a; discriminate.
Qed.

Lemma first_mat_none args : existsb is_mat args = false -> first_mat args = None.
Proof.
  induction args as [|a args IH]; simpl; [reflexivity|].
  intros H. apply orb_false_iff in H. destruct H as [Ha Hr].
  destruct a; simpl in Ha; try discriminate; auto.
Qed.

Theorem selects_eq_reference : forall e win lb hh pp,
  native e -> stepinv_ok e = true -> mat_calls_unary e = true -> R hh pp ->
  eng_selects win lb hh e = ref_selects win lb pp e.
Proof.
  induction e using expr_ind'; intros win lb hh pp Hn Hs Hm HR; simpl in *;
    try (inversion Hn; fail); try reflexivity.
  - (* vec *) rewrite (mk_sel_ref win lb v 0 hh pp HR). reflexivity.
  - (* call *)
    apply andb_true_iff in Hm. destruct Hm as [Hm1 Hm2].
    assert (Hargs : Forall native args ->
                    flat_map (eng_selects win lb (mkH f [] false)) args = flat_map (ref_selects win lb (KCall f :: pp)) args).
    { intros Hna. apply flat_map_ext_in. intros a Ha. rewrite Forall_forall in H, Hna.
      apply H; auto.
      - rewrite forallb_forall in Hs. auto.
      - rewrite forallb_forall in Hm2. auto.
      - apply R_call. }
    inversion Hn; subst.
    + (* histogram_quantile *) simpl. apply Hargs. assumption.
    + (* a range function *)
      match goal with Hq : f <> hq |- _ => apply String.eqb_neq in Hq; unfold hq in Hq; rewrite Hq end.
      match goal with He : existsb is_mat args = true |- _ => rewrite He in Hm1;
        destruct (first_mat_singleton args He Hm1) as [v [r [-> Hf]]] end.
      rewrite Hf. simpl. rewrite ?app_nil_r.
      rewrite (mk_sel_ref win lb v r (mkH f [] false) (KOther :: KCall f :: pp)); [reflexivity|].
      split; reflexivity.
    + match goal with Hq : f <> hq |- _ => apply String.eqb_neq in Hq; unfold hq in Hq; rewrite Hq end.
      match goal with He : existsb is_mat args = false |- _ => rewrite (first_mat_none args He) end.
      apply Hargs. assumption.
  - (* agg *)
    inversion Hn; subst.
    apply andb_true_iff in Hs. destruct Hs as [Hs1 Hs2].
    apply andb_true_iff in Hm. destruct Hm as [Hm1 Hm2].
    rewrite (IHe win lb (mkH op g (negb w)) (KAgg op g (negb w) :: pp)); auto using R_agg.
    f_equal. destruct p as [pe|]; [|reflexivity].
    apply (H pe eq_refl); auto using R_agg.
  - (* bin *)
    inversion Hn; subst.
    apply andb_true_iff in Hs. destruct Hs as [Hs1 Hs2].
    apply andb_true_iff in Hm. destruct Hm as [Hm1 Hm2].
    rewrite (IHe1 win lb (mkH "" [] false) (KBin :: pp)), (IHe2 win lb (mkH "" [] false) (KBin :: pp)); auto using R_bin.
  - (* unary *) inversion Hn; subst. apply IHe; auto using R_other.
  - (* paren *) inversion Hn; subst. apply IHe; auto using R_other.
  - (* step invariant: evaluated on the one-step window; the selects are the
       same because every selector below is pinned *)
    inversion Hn; subst. apply andb_true_iff in Hs. destruct Hs as [Hp Hs].
    assert (Hgen : eng_selects (mkW (w_start win) (w_start win) (w_step win)) lb (clear_grouping hh) e =
                   ref_selects win lb (KOther :: pp) e).
    { rewrite (eng_selects_pinned e _ win lb (clear_grouping hh)) by (auto; reflexivity).
      apply IHe; auto using R_other. }
    destruct e; try exact Hgen; reflexivity.
Qed.

Lemma R_top : R (mkH "" [] false) [].
Proof. split; reflexivity. Qed.

(* ---- sufficiency of the hinted range for instant selection ------------- *)
From Verif Require Import Select SelectProofs.

(* dropping every sample outside [ref - lb, ref] does not change the selection *)
Definition clip (lo hi : Z) (ss : list sample) : list sample :=
  filter (fun x => (lo <=? ts x) && (ts x <=? hi)) ss.

Lemma last_le_none_of_all_after l r : Forall (fun x => r < ts x) l -> last_le l r = None.
Proof.
  destruct l as [|a l]; intros H; simpl; [reflexivity|].
  inversion H; subst. destruct (Z.leb_spec (ts a) r); [lia|reflexivity].
Qed.

Lemma last_le_clip ss r lo hi : sorted_ts ss -> lo <= r <= hi ->
  match last_le ss r with
  | Some x => if lo <=? ts x then last_le (clip lo hi ss) r = Some x else True
  | None => last_le (clip lo hi ss) r = None
  end.
Proof.
  intros Hs Hr. induction ss as [|a ss IH]; simpl; [reflexivity|].
  pose proof (sorted_ts_tail _ _ Hs) as Hs'. specialize (IH Hs').
  pose proof (sorted_ts_lt _ _ Hs) as Hlt. rewrite Forall_forall in Hlt.
  destruct (Z.leb_spec (ts a) r) as [Har|Har].
  - destruct (last_le ss r) as [y|] eqn:El.
    + destruct (Z.leb_spec lo (ts y)) as [Hy|Hy]; [|exact I].
      destruct (Z.leb_spec lo (ts a)), (Z.leb_spec (ts a) hi); simpl;
        try (destruct (Z.leb_spec (ts a) r); [|lia]); rewrite ?IH; auto.
    + destruct (Z.leb_spec lo (ts a)) as [Ha|Ha]; [|exact I].
      destruct (Z.leb_spec (ts a) hi); [|lia]. simpl.
      destruct (Z.leb_spec (ts a) r); [|lia]. rewrite IH. reflexivity.
  - (* a is after r: so is everything else *)
    assert (Hnone : last_le (clip lo hi ss) r = None).
    { apply last_le_none_of_all_after. apply Forall_forall. intros x Hx.
      unfold clip in Hx. apply filter_In in Hx. destruct Hx as [Hx _].
      specialize (Hlt x Hx). lia. }
    destruct ((lo <=? ts a) && (ts a <=? hi)); simpl; [|exact Hnone].
    destruct (Z.leb_spec (ts a) r); [lia|reflexivity].
Qed.

Theorem pick_clip lb ss r lo hi : sorted_ts ss -> 0 <= lb -> lo <= r - lb -> r <= hi ->
  pick lb (clip lo hi ss) r = pick lb ss r.
Proof.
  intros Hs Hlb Hlo Hhi. unfold pick.
  pose proof (last_le_clip ss r lo hi Hs ltac:(lia)) as H.
  destruct (last_le ss r) as [x|] eqn:El.
  - destruct (Z.leb_spec lo (ts x)) as [Hx|Hx].
    + rewrite H. reflexivity.
    + (* x is older than lo <= r - lb: rejected either way *)
      destruct (Z.ltb_spec (ts x) (r - lb)); [|lia].
      destruct (last_le (clip lo hi ss) r) as [y|] eqn:Ec; [|reflexivity].
      (* y would be a sample of ss at or before r, hence not newer than x *)
      assert (Hy : In y ss /\ ts y <= r /\ lo <= ts y).
      { clear - Ec. unfold clip in Ec. induction ss as [|a ss IH]; simpl in Ec; [discriminate|].
        destruct ((lo <=? ts a) && (ts a <=? hi)) eqn:Ea.
        - simpl in Ec. destruct (Z.leb_spec (ts a) r); [|discriminate].
          destruct (last_le (filter _ ss) r) eqn:E2.
          + inversion Ec; subst. destruct (IH eq_refl) as [? [? ?]]. repeat split; auto. right; assumption.
          + inversion Ec; subst. apply andb_true_iff in Ea. destruct Ea as [E1 _].
            apply Z.leb_le in E1. repeat split; auto. left; reflexivity.
        - destruct (IH Ec) as [? [? ?]]. repeat split; auto. right; assumption. }
      destruct Hy as [Hyin [Hyr Hylo]].
      apply (last_le_some ss r x Hs) in El. destruct El as [_ [_ Hmax]].
      specialize (Hmax y Hyin Hyr). lia.
  - rewrite H. reflexivity.
Qed.
