(* The quantile aggregation (RangeArith.gquantile, transcribed from scalar_table.go and compared with
   the real accumulator on floats) on exact numbers: its value is a function of the multiset of the
   group's samples - sorting makes the order in which the series arrive irrelevant. Proved for every
   number type without NaN whose order is a strict total order; instantiated on the rationals. *)
From Coq Require Import List ZArith Bool Lia Permutation.
From Verif Require Import RangeArith.
Import ListNotations.

Section Order.
  Variable V : Type.
  Variable o : ops V.
  Hypothesis no_nan : forall a, isnan o a = false.
  Hypothesis lt_irr : forall a, ltb o a a = false.
  Hypothesis lt_trans : forall a b c, ltb o a b = true -> ltb o b c = true -> ltb o a c = true.
  Hypothesis lt_tot : forall a b, ltb o a b = false -> ltb o b a = false -> a = b.

  Lemma gless_lt x y : gless V o x y = ltb o x y.
  Proof. unfold gless. rewrite (no_nan x). simpl. apply orb_false_r. Qed.

  Lemma lt_asym a b : ltb o a b = true -> ltb o b a = false.
  Proof. intros H. destruct (ltb o b a) eqn:E; [|reflexivity]. pose proof (lt_trans _ _ _ H E) as C. rewrite lt_irr in C. discriminate. Qed.

  (* not (z < y) and z < x: y < x *)
  Lemma le_lt_trans y z x : ltb o z y = false -> ltb o z x = true -> ltb o y x = true.
  Proof.
    intros H1 H2. destruct (ltb o y z) eqn:E; [apply (lt_trans _ _ _ E H2)|].
    rewrite (lt_tot _ _ E H1). exact H2.
  Qed.

  Lemma ginsert_comm x y : forall l, ginsert V o x (ginsert V o y l) = ginsert V o y (ginsert V o x l).
  Proof.
    induction l as [|z r IH]; cbn [ginsert]; rewrite ?gless_lt.
    - destruct (ltb o y x) eqn:A, (ltb o x y) eqn:B; try reflexivity.
      + rewrite (lt_asym _ _ A) in B. discriminate.
      + rewrite (lt_tot _ _ A B). reflexivity.
    - destruct (ltb o z y) eqn:Zy, (ltb o z x) eqn:Zx; cbn [ginsert]; rewrite ?gless_lt, ?Zy, ?Zx.
      + rewrite IH. reflexivity.
      + (* x <= z < y *)
        rewrite (le_lt_trans x z y Zx Zy). cbn [ginsert]. rewrite ?gless_lt, ?Zy. reflexivity.
      + rewrite (le_lt_trans y z x Zy Zx). cbn [ginsert]. rewrite ?gless_lt, ?Zx. reflexivity.
      + destruct (ltb o y x) eqn:A, (ltb o x y) eqn:B; cbn [ginsert]; rewrite ?gless_lt, ?Zy, ?Zx; try reflexivity.
        * rewrite (lt_asym _ _ A) in B. discriminate.
        * rewrite (lt_tot _ _ A B). reflexivity.
  Qed.

  Theorem gsort_perm l l' : Permutation l l' -> gsort V o l = gsort V o l'.
  Proof.
    unfold gsort. induction 1 as [|x l l' _ IH|x y l|l l' l'' _ IH1 _ IH2]; simpl.
    - reflexivity.
    - rewrite IH. reflexivity.
    - apply ginsert_comm.
    - rewrite IH1. exact IH2.
  Qed.

  (* the quantile of a group does not depend on the order of its samples *)
  Theorem gquantile_perm pinf ninf q l l' : Permutation l l' ->
    gquantile V o pinf ninf q l = gquantile V o pinf ninf q l'.
  Proof.
    intros HP. unfold gquantile.
    rewrite (gsort_perm l l' HP), (Permutation_length HP).
    destruct l as [|a l], l' as [|a' l'']; try reflexivity.
    - apply Permutation_nil in HP. discriminate.
    - apply Permutation_sym, Permutation_nil in HP. discriminate.
  Qed.
End Order.

From Coq Require Import QArith Qcanon.
From Verif Require Import BucketProofs.

Theorem quantile_order_independent (pinf ninf q : Qc) l l' : Permutation l l' ->
  gquantile Qc qcops pinf ninf q l = gquantile Qc qcops pinf ninf q l'.
Proof. apply (gquantile_perm Qc qcops (fun _ => eq_refl) qc_lt_irr qc_lt_trans qc_lt_tot). Qed.

(* the median of 4, 1, 3 in two orders: rank 1, the middle value 3 *)
Example quantile_example :
  let n := fun z => Q2Qc (inject_Z z) in
  gquantile Qc qcops (n 0%Z) (n 0%Z) (Q2Qc (1 # 2)) [n 4%Z; n 1%Z; n 3%Z] = n 3%Z /\
  gquantile Qc qcops (n 0%Z) (n 0%Z) (Q2Qc (1 # 2)) [n 3%Z; n 4%Z; n 1%Z] = n 3%Z.
Proof. cbv zeta. split; apply Qc_is_canon; vm_compute; reflexivity. Qed.
