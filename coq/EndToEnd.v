(* End to end for the query shape  L op R  over two vector selectors (property
   C01): the sharded, batched selectors of Compose.v feed the vector/vector
   operator of Bin.v; at every step of the window the samples are those of the
   reference engine's VectorBinop applied to the reference instant selections
   (Select.select_step, see C01_leaf_is_reference_selection). *)
From Coq Require Import List ZArith NArith Bool Lia Permutation.
From Verif Require Import Base Grid Select SelectProofs Shard SelectorProofs Exec Compose StreamWF Agg Func Bin BinProofs.
Import ListNotations.
Open Scope Z_scope.

(* a step vector as the (ID, value) list the join consumes *)
Definition vec_of (sv : stepvec) : list (nat * Z) := combine (svIDs sv) (svVals sv).

Fixpoint zip_steps (l r : list stepvec) : list (Z * list (nat * Z) * list (nat * Z)) :=
  match l, r with
  | a :: l', b :: r' => (svT a, vec_of a, vec_of b) :: zip_steps l' r'
  | _, _ => []
  end.

Lemma map_fst_combine {A B} : forall (l : list A) (l' : list B),
  length l = length l' -> map fst (combine l l') = l.
Proof.
  induction l as [|a l IH]; intros l' H; simpl; [reflexivity|].
  destruct l' as [|b l']; simpl in H; [discriminate|]. simpl. f_equal. apply IH. congruence.
Qed.

Section BinaryOverSelectors.
  Variable op : Z -> Z -> Z * bool.       (* on value bits *)
  Variable b2v : bool -> Z.
  Variable on : bool.
  Variable ml incl : list N.
  Variable c : card.
  Variable return_bool op_drops_name : bool.
  (* the two selectors: labels and samples of their series, offsets *)
  Variable llabels rlabels : list labels.
  Variable lsers rsers : list (list sample).
  Variable loff roff : Z.

  (* the engine: both selectors run sharded and batched, the join consumes the two streams *)
  Definition engine_binary (cf : cfg) (w : window) : list (Z * list (labels * Z)) + step_err :=
    run_operator Z 0 op b2v on ml incl c return_bool op_drops_name llabels rlabels
      (zip_steps (concat (run cf w (PSelect lsers loff))) (concat (run cf w (PSelect rsers roff)))).

  (* the reference at one timestamp *)
  Definition reference_binary (lb : Z) (t : Z) : option (list (labels * Z)) :=
    ref_operator_step Z op b2v on ml incl c return_bool op_drops_name llabels rlabels
      (vec_of (select_step lb loff lsers t)) (vec_of (select_step lb roff rsers t)).

  Definition step_at (lb t : Z) : Z * list (nat * Z) * list (nat * Z) :=
    (t, vec_of (select_step lb loff lsers t), vec_of (select_step lb roff rsers t)).

  Lemma zip_steps_map lb (ts : list Z) :
    zip_steps (map (select_step lb loff lsers) ts) (map (select_step lb roff rsers) ts) = map (step_at lb) ts.
  Proof.
    induction ts as [|t ts IH]; simpl; [reflexivity|]. rewrite IH. unfold step_at. rewrite select_step_T. reflexivity.
  Qed.

  Lemma vec_of_good n sv : wf_stepvec n sv ->
    (forall iv, In iv (vec_of sv) -> (fst iv < n)%nat) /\ NoDup (map fst (vec_of sv)).
  Proof.
    intros [Hnd [Hr Hl]]. unfold vec_of. split.
    - intros iv Hin. destruct iv as [i v]. apply in_combine_l in Hin. rewrite Forall_forall in Hr. apply Hr. exact Hin.
    - rewrite map_fst_combine by assumption. exact Hnd.
  Qed.

  Lemma step_at_good lb t : length llabels = length lsers -> length rlabels = length rsers ->
    good_step Z llabels rlabels (step_at lb t).
  Proof.
    intros Hl Hr. unfold good_step, step_at. simpl.
    destruct (vec_of_good _ _ (select_step_wf lb loff lsers t)) as [A1 A2].
    destruct (vec_of_good _ _ (select_step_wf lb roff rsers t)) as [B1 B2].
    rewrite Hl, Hr. repeat split; assumption.
  Qed.

  Lemma increasing_of_list prev ts lb : StreamWF.increasing ts -> Forall (fun t => prev < t) ts ->
    BinProofs.increasing Z prev (map (step_at lb) ts).
  Proof.
    revert prev. induction ts as [|t ts IH]; intros prev Hi Hp; simpl; [exact I|].
    destruct Hi as [Hlt Hi]. inversion Hp; subst. split; [assumption|]. apply IH; assumption.
  Qed.

  (* C01 for L op R over selectors: for every shard count, batch size and window,
     the engine produces one vector of samples per grid step, and at every step at
     which the reference engine's VectorBinop succeeds on the reference instant
     selections, the engine's samples are a permutation of the reference's. *)
  Theorem binary_over_selectors_matches_reference cf w :
    (0 < c_shards cf)%nat -> (0 < c_batch cf)%nat -> 0 <= c_lookback cf -> wf_window w ->
    Forall sorted_ts lsers -> Forall sorted_ts rsers ->
    length llabels = length lsers -> length rlabels = length rsers ->
    noT < w_start w ->
    one_side_unique on ml (one_side_series c llabels rlabels) ->
    (is_one_to_one c = true -> incl = []) ->
    exists outs,
      engine_binary cf w = inl outs /\
      map fst outs = grid w /\
      forall t out, In (t, out) outs ->
        forall ref_out, reference_binary (c_lookback cf) t = Some ref_out ->
        Permutation out ref_out.
  Proof.
    intros HN HB Hlb Hw Hsl Hsr Hll Hlr Hstart HA Hincl.
    unfold engine_binary.
    rewrite (run_covers_grid cf w (PSelect lsers loff) HN HB Hlb Hw Hsl).
    rewrite (run_covers_grid cf w (PSelect rsers roff) HN HB Hlb Hw Hsr).
    simpl denote. rewrite zip_steps_map.
    assert (Hgood : Forall (good_step Z llabels rlabels) (map (step_at (c_lookback cf)) (grid w))).
    { apply Forall_forall. intros s Hs. apply in_map_iff in Hs. destruct Hs as [t [<- _]]. apply step_at_good; assumption. }
    assert (Hinc : BinProofs.increasing Z (w_start w - 1) (map (step_at (c_lookback cf)) (grid w))).
    { apply increasing_of_list.
      - destruct (Z.eq_dec (w_step w) 0) as [E0|NE0].
        + rewrite (grid_instant (c_batch cf) w HB E0). simpl. split; [constructor|exact I].
        + apply grid_increasing_list. unfold wf_window in Hw. lia.
      - apply Forall_forall. intros t Ht. unfold grid in Ht. apply in_map_iff in Ht. destruct Ht as [k [<- _]].
        unfold grid_at. unfold wf_window in Hw. nia. }
    rewrite (run_is_pairing_any Z 0 op b2v on ml incl c return_bool op_drops_name llabels rlabels HA _ (w_start w - 1)
               ltac:(lia) Hinc Hgood).
    eexists. split; [reflexivity|]. split.
    - rewrite !map_map. simpl. rewrite map_id. reflexivity.
    - intros t out Hin ref_out Href. rewrite map_map in Hin. apply in_map_iff in Hin.
      destruct Hin as [t' [Heq _]]. simpl in Heq. inversion Heq; subst t out. clear Heq.
      apply (join_step_permutation Z op b2v on ml incl c return_bool op_drops_name 0 llabels rlabels HA Hincl
               (step_at (c_lookback cf) t') ref_out).
      + apply step_at_good; assumption.
      + exact Href.
  Qed.
End BinaryOverSelectors.
