(* Evaluation of Func.v on operand streams recorded from the real engine
   (correspondence check of C06). Values are primitive floats. *)
From Coq Require Import List ZArith NArith Bool Floats.
From Verif Require Import Base Agg Func Bin BinCases.
Import ListNotations.
Close Scope Z_scope.

Record func_case := mkFC {
  fc_id : N;
  fc_kind : N;          (* 0 abs 1 sqrt 2 neg 3 clamp 4 clamp_min 5 clamp_max 6 vector/scalar binop 7 scalar() *)
  fc_a : float; fc_b : float;   (* literal arguments *)
  fc_op : N; fc_scalar_left : bool; fc_bool : bool; fc_drops_name : bool;
  fc_series : list labels;
  fc_steps : list (Z * list (nat * float));
  fc_expected : list (Z * list (labels * float)) }.

(* math.Max / math.Min: an infinity of the right sign wins even over NaN; of two
   zeros Max returns the positive one if there is one, Min the negative one *)
Definition fneg_zero (x : float) : bool := PrimFloat.eqb x 0 && PrimFloat.ltb (1 / x) 0.
Definition fmax (x y : float) : float :=
  if PrimFloat.eqb x infinity || PrimFloat.eqb y infinity then infinity
  else if PrimFloat.is_nan x || PrimFloat.is_nan y then nan
  else if PrimFloat.eqb x 0 && PrimFloat.eqb y 0 then (if fneg_zero x then y else x)
  else if PrimFloat.ltb x y then y else x.
Definition fmin (x y : float) : float :=
  if PrimFloat.eqb x neg_infinity || PrimFloat.eqb y neg_infinity then neg_infinity
  else if PrimFloat.is_nan x || PrimFloat.is_nan y then nan
  else if PrimFloat.eqb x 0 && PrimFloat.eqb y 0 then (if fneg_zero x then x else y)
  else if PrimFloat.ltb y x then y else x.

(* binary/scalar.go: the value of a comparison is the vector operand's *)
Definition sop (code : N) (vec_left : bool) (l r : float) : float * bool :=
  let v := if vec_left then l else r in
  match code with
  | 0%N => ((l + r)%float, true)
  | 1%N => ((l - r)%float, true)
  | 2%N => ((l * r)%float, true)
  | 3%N => ((l / r)%float, true)
  | 4%N => (v, PrimFloat.eqb l r)
  | 5%N => (v, negb (PrimFloat.eqb l r))
  | 6%N => (v, PrimFloat.ltb r l)
  | 7%N => (v, PrimFloat.ltb l r)
  | 8%N => (v, PrimFloat.leb r l)
  | _ => (v, PrimFloat.leb l r)
  end.

Definition func_model_step (c : func_case) (vec : list (nat * float)) : list (nat * float) :=
  match fc_kind c with
  | 0%N => func_step float (fun v => Some (PrimFloat.abs v)) vec
  | 1%N => func_step float (fun v => Some (PrimFloat.sqrt v)) vec
  | 2%N => func_step float (fun v => Some (PrimFloat.opp v)) vec
  | 3%N => func_step float (clamp_fn float PrimFloat.ltb fmax fmin (fc_a c) (fc_b c)) vec
  | 4%N => func_step float (fun v => Some (fmax (fc_a c) v)) vec
  | 5%N => func_step float (fun v => Some (fmin (fc_a c) v)) vec
  | 6%N => scalar_binop_step float (sop (fc_op c) (negb (fc_scalar_left c))) (fc_bool c) fb2v (fc_scalar_left c) (fc_a c) vec
  | _ => scalar_step float nan vec
  end.

Definition func_model (c : func_case) : list (Z * list (labels * float)) :=
  map (fun s => (fst s,
                 map (fun e : nat * float =>
                        (match fc_kind c with
                         | 7%N => []
                         | _ => let l := nth (fst e) (fc_series c) [] in if fc_drops_name c then del_name l else l
                         end, snd e))
                     (func_model_step c (snd s))))
      (fc_steps c).

Definition func_case_ok (c : func_case) : bool := steps_eqb (func_model c) (fc_expected c).

Definition func_mismatches (cs : list func_case) : list N :=
  map fc_id (filter (fun c => negb (func_case_ok c)) cs).
