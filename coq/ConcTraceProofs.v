(* The labelled system of ConcTrace.v refines the transition system of Conc.v:
   every step is a log entry or cancel bookkeeping (the underlying state does
   not move) or a step of Conc.steps, and every underlying state it reaches is
   among the states explored - and proved safe - in ConcProofs. Exhaustive, 0..6
   child batches. *)
From Coq Require Import List ZArith NArith Bool.
From Verif Require Import Conc ConcProofs ConcTrace.
Import ListNotations.

Theorem labelled_system_refines : forallb (refinement_ok true) totals = true.
Proof. vm_compute. reflexivity. Qed.

(* a complete run of two batches, and a log that is not a trace: the consumer
   cannot see the end of the stream before the child has reported it *)
Example trace_examples :
  accepts true 2 [LChildCall; LChildData; LChildCall; LKData; LChildData; LKData; LChildCall; LChildNil; LKDone; LKOk;
                  LCancelBegin; LCancelEnd] = true /\
  accepts true 2 [LChildCall; LChildData; LKData; LKDone] = false /\
  accepts true 2 [LChildCall; LCancelBegin; LChildErr; LCancelEnd; LKErr] = true /\
  accepts true 1 [LChildCall; LChildData; LKData; LKData] = false.
Proof. repeat split; vm_compute; reflexivity. Qed.
