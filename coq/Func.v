(* Per-step semantics of the function operator (function/operator.go),
   scalar(), and vector/scalar and vector/vector binary steps (binary/scalar.go,
   binary/table.go, binary/vector.go signature), over an abstract value type. *)
From Coq Require Import List String ZArith NArith Bool Lia.
From Verif Require Import Base Agg.
Import ListNotations.
Close Scope Z_scope.

Section Steps.
  Variable V : Type.
  Variable nan : V.

  (* functionOperator.Next on one step vector: the function is applied to every
     sample; samples for which it has no result are dropped, IDs are kept *)
  Definition func_step (f : V -> option V) (vec : list (nat * V)) : list (nat * V) :=
    flat_map (fun iv => match f (snd iv) with Some v => [(fst iv, v)] | None => [] end) vec.

  (* clamp(v, min, max): nothing when max < min *)
  Definition clamp_fn (ltb : V -> V -> bool) (vmax vmin : V -> V -> V) (lo hi : V) (v : V) : option V :=
    if ltb hi lo then None else Some (vmax lo (vmin hi v)).

  (* scalar(v): the single series ID 0 at every step; the value of the only
     sample, NaN for any other sample count *)
  Definition scalar_step (vec : list (nat * V)) : list (nat * V) :=
    match vec with
    | [(_, v)] => [(0, v)]
    | _ => [(0, nan)]
    end.

  (* scalarOperator.Next on one step: [keep] is the comparison outcome, [val] the value *)
  Definition scalar_binop_step (op : V -> V -> V * bool) (return_bool : bool) (b2v : bool -> V)
             (scalar_left : bool) (s : V) (vec : list (nat * V)) : list (nat * V) :=
    flat_map (fun iv =>
                let '(val, keep) := if scalar_left then op s (snd iv) else op (snd iv) s in
                if return_bool then [(fst iv, b2v keep)]
                else if keep then [(fst iv, val)] else []) vec.
End Steps.

(* ---- matching signature of the vector/vector operator ------------------- *)

(* on(labels): the listed labels; ignoring(labels): all but the listed and the metric name *)
Definition signature (on : bool) (ml : list N) (l : labels) : labels :=
  if on then filter (fun kv => mem_n (fst kv) ml) l
  else filter (fun kv => negb (mem_n (fst kv) ml) && negb (N.eqb (fst kv) 0)) l.

(* the metric name is dropped for arithmetic operators and for every operator
   used with bool (shouldDropMetricName of both engines) *)
Definition drops_name (op : string) (return_bool : bool) : bool :=
  existsb (String.eqb op) ["+"; "-"; "*"; "/"; "^"; "%"]%string || return_bool.
