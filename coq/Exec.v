(* The consumer side: compatibilityQuery.Exec (engine.go) accumulates the root
   operator's batches into one point list per series ID, and the step-invariant
   operator replicates a pinned vector over the grid. *)
From Coq Require Import List ZArith NArith Bool Lia.
From Verif Require Import Base Grid Select Shard.
Import ListNotations.
Open Scope Z_scope.

Fixpoint lookup_id (i : nat) (ids : list nat) (vals : list Z) : option Z :=
  match ids, vals with
  | j :: ids', v :: vals' => if Nat.eqb i j then Some v else lookup_id i ids' vals'
  | _, _ => None
  end.

(* the points Exec appends to series i while draining the stream *)
Definition points_of (i : nat) (stream : list batch) : list (Z * Z) :=
  flat_map (fun sv => match lookup_id i (svIDs sv) (svVals sv) with
                      | Some v => [(svT sv, v)]
                      | None => []
                      end) (concat stream).

Definition matrix_of (n : nat) (stream : list batch) : list (list (Z * Z)) :=
  map (fun i => points_of i stream) (seq 0 n).

(* stepInvariantOperator.Next: the child's first vector (evaluated on the
   one-step window [start,start]) re-stamped with every step of the grid *)
Definition step_invariant_run (B : nat) (w : window) (child : list batch) : list batch :=
  let cached := match child with (sv :: _) :: _ => sv | _ => empty_sv end in
  map (map (fun t => mkSV t (svIDs cached) (svVals cached))) (counter_batches B w).

Definition pinned_window (w : window) : window := mkW (w_start w) (w_start w) (w_step w).
