(* The matrix-selector operator (execution/scan/matrix_selector.go, Next): per
   shard, every series is scanned over the steps of the batch with the
   incremental window model of Range.v (the scanner state persists from batch
   to batch), the range function is applied to each window, and the shards'
   step vectors are merged by the coalesce operator (Shard.v). For every shard
   count, batch size and window, each step vector is the per-step specification:
   the function applied to the specification window of every series. *)
From Coq Require Import List ZArith NArith Bool Lia.
From Verif Require Import Base Grid Select SelectProofs Shard SelectorProofs Range RangeProofs WindowProofs Exec Compose StreamWF.
Import ListNotations.
Open Scope Z_scope.

Section MX.
  (* the range function: the window's end (step time - offset) and its points; None = no sample *)
  Variable fn : Z -> list point -> option Z.
  Variables range off step : Z.

  (* one series over the steps of a batch *)
  Fixpoint mx_scan_steps (s : mscan) (steps : list Z) : mscan * list (option Z) :=
    match steps with
    | [] => (s, [])
    | t :: rest =>
        let '(s1, pts) := ms_step range off step s t in
        let '(s2, vs) := mx_scan_steps s1 rest in
        (s2, fn (t - off) pts :: vs)
    end.

  (* one call of Next over the batch timestamps [steps] *)
  Definition mx_next (sts : list mscan) (steps : list Z) : list mscan * batch :=
    let res := map (fun s => mx_scan_steps s steps) sts in
    (map fst res,
     map (fun j => stepvec_of (nth j steps 0) (column (map snd res) j)) (seq 0 (length steps))).

  Fixpoint mx_run (sts : list mscan) (batches : list (list Z)) : list batch :=
    match batches with
    | [] => []
    | b :: rest =>
        let '(sts', out) := mx_next sts b in
        out :: mx_run sts' rest
    end.

  (* the stateless description of the operator's output at one step *)
  Definition range_value (ss : list sample) (t : Z) : option Z := fn (t - off) (window_at range off ss t).

  Definition range_step (sers : list (list sample)) (t : Z) : stepvec :=
    stepvec_of t (map (fun ss => range_value ss t) sers).

  (* N matrix selectors over the shards of the selected series under a coalesce operator *)
  Definition sharded_matrix (N : nat) (sers : list (list sample)) (times : list (list Z)) : list batch :=
    let parts := shards sers N in
    co_run (offsets_from 0 parts)
           (map (fun p => mx_run (map (fun ss => ms_reset ss range) p) times) parts) times.

  (* ---- scanning ---------------------------------------------------------------- *)

  Lemma ms_scan_app s l1 l2 :
    ms_scan range off step s (l1 ++ l2) =
    (fst (ms_scan range off step (fst (ms_scan range off step s l1)) l2),
     snd (ms_scan range off step s l1) ++ snd (ms_scan range off step (fst (ms_scan range off step s l1)) l2)).
  Proof.
    revert s. induction l1 as [|t l1 IH]; intros s; simpl.
    - destruct (ms_scan range off step s l2); reflexivity.
    - destruct (ms_step range off step s t) as [s1 w]. rewrite IH.
      destruct (ms_scan range off step s1 l1) as [s2 ws]. simpl.
      destruct (ms_scan range off step s2 l2); reflexivity.
  Qed.

  Lemma ms_scan_length s l : length (snd (ms_scan range off step s l)) = length l.
  Proof.
    revert s. induction l as [|t l IH]; intros s; simpl; [reflexivity|].
    destruct (ms_step range off step s t) as [s1 w]. specialize (IH s1).
    destruct (ms_scan range off step s1 l). simpl in *. lia.
  Qed.

  Lemma mx_scan_ms s steps :
    mx_scan_steps s steps =
    (fst (ms_scan range off step s steps),
     map (fun tw => fn (fst tw - off) (snd tw)) (combine steps (snd (ms_scan range off step s steps)))).
  Proof.
    revert s. induction steps as [|t rest IH]; intros s; simpl; [reflexivity|].
    destruct (ms_step range off step s t) as [s1 w]. rewrite IH.
    destruct (ms_scan range off step s1 rest) as [s2 ws]. reflexivity.
  Qed.

  Lemma combine_map_same {A B C} (f : A -> B -> C) (g : A -> B) (l : list A) :
    map (fun tw => f (fst tw) (snd tw)) (combine l (map g l)) = map (fun t => f t (g t)) l.
  Proof. induction l as [|a l IH]; simpl; [reflexivity|]. rewrite IH. reflexivity. Qed.

  Lemma app_eq_by_length {A} (a b c d : list A) : a ++ b = c ++ d -> length a = length c -> a = c /\ b = d.
  Proof.
    revert c. induction a as [|x a IH]; intros [|y c] H Hl; simpl in *; try discriminate.
    - split; [reflexivity|assumption].
    - inversion H; subst. destruct (IH c H2 ltac:(lia)) as [-> ->]. split; reflexivity.
  Qed.

  (* ---- one series, batch after batch --------------------------------------------- *)

  (* [scans_as_windows ss whole]: scanning any contiguous part of the step list
     [whole], from the state reached after the steps before it, hands out the
     specification windows *)
  Definition scans_as_windows (ss : list sample) (whole : list Z) : Prop :=
    forall pre b suf, pre ++ b ++ suf = whole ->
      snd (ms_scan range off step (fst (ms_scan range off step (ms_reset ss range) pre)) b) =
      map (window_at range off ss) b.

  Lemma scans_of_whole ss whole :
    snd (ms_scan range off step (ms_reset ss range) whole) = map (window_at range off ss) whole ->
    scans_as_windows ss whole.
  Proof.
    intros H pre b suf E. subst whole.
    rewrite ms_scan_app in H. cbn [snd] in H. rewrite map_app in H.
    apply app_eq_by_length in H; [|rewrite ms_scan_length, map_length; reflexivity].
    destruct H as [_ H]. rewrite ms_scan_app in H. cbn [snd] in H. rewrite map_app in H.
    apply app_eq_by_length in H; [|rewrite ms_scan_length, map_length; reflexivity].
    exact (proj1 H).
  Qed.

  Lemma mx_rows sers whole pre b suf :
    Forall (fun ss => scans_as_windows ss whole) sers -> pre ++ b ++ suf = whole ->
    map snd (map (fun s => mx_scan_steps s b)
                 (map (fun ss => fst (ms_scan range off step (ms_reset ss range) pre)) sers)) =
    map (fun ss => map (range_value ss) b) sers /\
    map fst (map (fun s => mx_scan_steps s b)
                 (map (fun ss => fst (ms_scan range off step (ms_reset ss range) pre)) sers)) =
    map (fun ss => fst (ms_scan range off step (ms_reset ss range) (pre ++ b))) sers.
  Proof.
    intros Hall E. rewrite !map_map. split.
    - apply map_ext_in. intros ss Hin. rewrite Forall_forall in Hall.
      rewrite mx_scan_ms. cbn [snd]. rewrite (Hall ss Hin pre b suf E).
      apply (combine_map_same (fun t => fn (t - off))).
    - apply map_ext. intros ss. rewrite mx_scan_ms. cbn [fst]. rewrite ms_scan_app. reflexivity.
  Qed.

  Lemma mx_run_spec sers whole : Forall (fun ss => scans_as_windows ss whole) sers ->
    forall batches pre, pre ++ concat batches = whole ->
    mx_run (map (fun ss => fst (ms_scan range off step (ms_reset ss range) pre)) sers) batches =
    map (map (range_step sers)) batches.
  Proof.
    intros Hall. induction batches as [|b rest IH]; intros pre E; [reflexivity|].
    simpl concat in E. destruct (mx_rows sers whole pre b (concat rest) Hall E) as [Hrows Hsts].
    cbn [mx_run]. unfold mx_next. rewrite Hrows, Hsts. cbn [map]. f_equal.
    - rewrite <- (map_nth_seq (range_step sers) b 0).
      apply map_ext_in. intros j Hj. apply in_seq in Hj.
      unfold range_step. f_equal. unfold column. rewrite map_map.
      apply map_ext. intros ss.
      rewrite (nth_indep _ None (range_value ss 0)) by (rewrite map_length; lia).
      rewrite (map_nth (range_value ss) b 0 j). reflexivity.
    - apply IH. rewrite <- app_assoc. exact E.
  Qed.

  (* ---- merging the shards ------------------------------------------------------------ *)

  Lemma merge_step_gen (g : list sample -> option Z) t : forall (parts : list (list (list sample))) o,
    let whole := stepvec_of t (map g (concat parts)) in
    merge_step t (offsets_from o parts) (map (fun p => stepvec_of t (map g p)) parts) =
    mkSV t (map (fun k => (o + k)%nat) (svIDs whole)) (svVals whole).
  Proof.
    induction parts as [|p parts IH]; intros o; simpl.
    - reflexivity.
    - rewrite (IH (o + length p)%nat). unfold stepvec_of. simpl.
      rewrite map_app, collect_app, map_length.
      destruct (collect 0 (map g p)) as [ids1 vs1] eqn:E1.
      rewrite (collect_shift (0 + length p)).
      destruct (collect 0 (map g (concat parts))) as [ids2 vs2] eqn:E2.
      simpl. f_equal. rewrite map_app, !map_map. f_equal. apply map_ext. intros; lia.
  Qed.

  Lemma merge_step_gen_0 (g : list sample -> option Z) t parts :
    merge_step t (offsets_from 0 parts) (map (fun p => stepvec_of t (map g p)) parts) =
    stepvec_of t (map g (concat parts)).
  Proof.
    rewrite merge_step_gen. unfold stepvec_of.
    destruct (collect 0 _) as [ids vs]. simpl. f_equal.
    rewrite <- (map_id ids) at 2. apply map_ext. intros; lia.
  Qed.

  Theorem sharded_matrix_of_windows N sers times :
    (0 < N)%nat -> Forall (fun ss => scans_as_windows ss (concat times)) sers ->
    sharded_matrix N sers times = map (map (range_step sers)) times.
  Proof.
    intros HN Hall. unfold sharded_matrix.
    set (parts := shards sers N).
    assert (Hparts : concat parts = sers) by (apply shards_partition; assumption).
    assert (Hps : Forall (Forall (fun ss => scans_as_windows ss (concat times))) parts).
    { apply Forall_concat_parts. rewrite Hparts. assumption. }
    assert (Hch : map (fun p => mx_run (map (fun ss => ms_reset ss range) p) times) parts =
                  map (fun p => map (map (range_step p)) times) parts).
    { apply map_ext_in. intros p Hin. rewrite Forall_forall in Hps.
      apply (mx_run_spec p (concat times) (Hps p Hin) times []). reflexivity. }
    rewrite Hch. unfold co_run.
    rewrite <- (map_nth_seq (map (range_step sers)) times []).
    apply map_ext_in. intros k Hk. apply in_seq in Hk.
    cbv zeta.
    rewrite <- (map_nth_seq (range_step sers) (nth k times []) 0).
    apply map_ext_in. intros j Hj. apply in_seq in Hj.
    rewrite map_map.
    assert (Hin : map (fun p => nth j (nth k (map (map (range_step p)) times) []) empty_sv) parts =
                  map (fun p => range_step p (nth j (nth k times []) 0)) parts).
    { apply map_ext. intros p.
      change (@nil stepvec) with (map (range_step p) []).
      rewrite (nth_map_default (map (range_step p)) times [] k).
      rewrite (nth_indep _ empty_sv (range_step p 0)) by (rewrite map_length; lia).
      apply (nth_map_default (range_step p)). }
    rewrite Hin. unfold range_step.
    rewrite (merge_step_gen_0 (fun ss => range_value ss (nth j (nth k times []) 0))).
    rewrite Hparts. reflexivity.
  Qed.
End MX.

(* ---- on the query's step grid ------------------------------------------------------------ *)

Lemma grid_is_zgrid w : grid w = zgrid (w_start w) (w_step w) (Z.to_nat (total_steps w)).
Proof. unfold grid. rewrite zgrid_map. apply map_ext. intros k. reflexivity. Qed.

Lemma ms_step_window_indep range off step step' s t :
  snd (ms_step range off step s t) = snd (ms_step range off step' s t).
Proof. unfold ms_step. destruct (select_points _ _ _ _) as [b' pts]. reflexivity. Qed.

(* the operator's own step: the query's; instant queries run with 0 (one step only) *)
Theorem sharded_matrix_spec fn range off N B w sers :
  (0 < N)%nat -> (0 < B)%nat -> wf_window w -> 0 <= range -> Forall sorted_ts sers ->
  sharded_matrix fn range off (w_step w) N sers (selector_batches B w) =
  map (map (range_step fn range off sers)) (selector_batches B w).
Proof.
  intros HN HB Hw Hr Hs. apply sharded_matrix_of_windows; [assumption|].
  rewrite selector_batches_cover_grid by assumption.
  apply Forall_forall. intros ss Hin. rewrite Forall_forall in Hs. specialize (Hs ss Hin).
  apply scans_of_whole.
  destruct Hw as [Hse [Hst Hinst]].
  destruct (Z.eq_dec (w_step w) 0) as [E0|NE0].
  - rewrite (grid_instant B w HB E0).
    cbn [ms_scan map].
    pose proof (ms_scan_windows ss range off 1 (w_start w) 1 Hs Hr ltac:(lia)) as H1.
    cbn [zgrid ms_scan map] in H1.
    pose proof (ms_step_window_indep range off (w_step w) 1 (ms_reset ss range) (w_start w)) as Hi.
    destruct (ms_step range off (w_step w) (ms_reset ss range) (w_start w)) as [s1 p1].
    destruct (ms_step range off 1 (ms_reset ss range) (w_start w)) as [s1' p1']. cbn [snd] in *.
    subst p1'. exact H1.
  - rewrite grid_is_zgrid. apply ms_scan_windows; [assumption|assumption|lia].
Qed.

(* ---- shape and labelling of a step vector built from per-series results -------------------- *)

Lemma stepvec_of_wf t (col : list (option Z)) : wf_stepvec (length col) (stepvec_of t col).
Proof.
  unfold stepvec_of, wf_stepvec.
  pose proof (collect_ids_nodup 0 col) as Hn.
  pose proof (collect_ids_range 0 col) as Hr.
  pose proof (collect_length 0 col) as Hl.
  destruct (collect 0 col) as [ids vs]. simpl in *.
  repeat split; auto. eapply Forall_impl; [|exact Hr]. simpl; intros; lia.
Qed.

Lemma stepvec_of_T t col : svT (stepvec_of t col) = t.
Proof. unfold stepvec_of. destruct (collect 0 col). reflexivity. Qed.

Lemma range_step_wf fn range off sers t : wf_stepvec (length sers) (range_step fn range off sers t).
Proof. unfold range_step. rewrite <- (map_length (fun ss => range_value fn range off ss t) sers). apply stepvec_of_wf. Qed.

Lemma range_step_T fn range off sers t : svT (range_step fn range off sers t) = t.
Proof. apply stepvec_of_T. Qed.

(* the samples of a step with their series' labels: one per series that has a value *)
Definition present_with_labels (ls : list labels) (col : list (option Z)) : list (labels * Z) :=
  flat_map (fun lc => match snd lc with Some v => [(fst lc, v)] | None => [] end) (combine ls col).

Lemma labelled_collect : forall (col : list (option Z)) (ls pre : list labels),
  length ls = length col ->
  map (fun iv : nat * Z => (nth (fst iv) (pre ++ ls) [], snd iv))
      (combine (fst (collect (length pre) col)) (snd (collect (length pre) col))) =
  present_with_labels ls col.
Proof.
  induction col as [|c col IH]; intros ls pre Hl.
  - destruct ls; [reflexivity|discriminate].
  - destruct ls as [|l ls]; [discriminate|]. simpl in Hl.
    specialize (IH ls (pre ++ [l]) ltac:(lia)).
    rewrite app_length in IH. simpl in IH. rewrite Nat.add_1_r in IH.
    rewrite <- app_assoc in IH. simpl in IH.
    cbn [collect]. destruct (collect (S (length pre)) col) as [ids vs]. cbn [fst snd] in *.
    unfold present_with_labels in *. cbn [combine flat_map snd fst].
    destruct c as [v|]; cbn [fst snd combine map app].
    + rewrite IH. f_equal. f_equal. rewrite app_nth2 by lia. rewrite Nat.sub_diag. reflexivity.
    + exact IH.
Qed.

Lemma labelled_stepvec (ls : list labels) t col : length ls = length col ->
  map (fun iv : nat * Z => (nth (fst iv) ls [], snd iv))
      (combine (svIDs (stepvec_of t col)) (svVals (stepvec_of t col))) = present_with_labels ls col.
Proof.
  intros Hl. pose proof (labelled_collect col ls [] Hl) as H. simpl in H.
  unfold stepvec_of. destruct (collect 0 col) as [ids vs]. exact H.
Qed.
