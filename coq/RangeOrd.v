(* The order-based kernels of the range functions (maxOverTime, minOverTime,
   changes, resets of execution/function/functions.go), generic in the value
   type. RangeFns.v instantiates them on primitive floats for the correspondence
   check; the theorems of RangeFnsProofs.v are about these definitions. *)
From Coq Require Import List ZArith NArith Bool.
Import ListNotations.

(* ---- order-based kernels, generic ------------------------------------------------ *)

Section Order.
  Variable V : Type.
  Variable lt : V -> V -> bool.      (* IEEE < *)
  Variable isnan : V -> bool.

  (* maxOverTime: a later value replaces the candidate if it is greater or the candidate is NaN *)
  Definition max_over (first : V) (rest : list V) : V :=
    fold_left (fun m v => if lt m v || isnan m then v else m) rest first.
  Definition min_over (first : V) (rest : list V) : V :=
    fold_left (fun m v => if lt v m || isnan m then v else m) rest first.

  (* changes: consecutive values that differ, two NaN counting as equal *)
  Variable eqb : V -> V -> bool.     (* IEEE == *)
  Fixpoint changes_from (prev : V) (rest : list V) : nat :=
    match rest with
    | [] => 0
    | v :: r => (if negb (eqb v prev) && negb (isnan v && isnan prev) then 1 else 0) + changes_from v r
    end.

  Fixpoint resets_from (prev : V) (rest : list V) : nat :=
    match rest with
    | [] => 0
    | v :: r => (if lt v prev then 1 else 0) + resets_from v r
    end.
End Order.

