(* The selector pool (execution/storage/pool.go): selectors are shared between the
   operators of one query, keyed by hashMatchers(matchers, mint, maxt, hints.Step,
   hints.Func, hints.Grouping, hints.By). hints.Range and the remaining fields of a
   select are not part of the key, so sharing is transparent - every operator reads
   through a selector that issues exactly the select the operator asked for - as
   long as the requests of one query that agree on the key agree on the whole
   select. [keys_determine] is that condition; it is evaluated on the select list
   of every recorded query in the hints correspondence (CasesLib.hint_case_ok).
   (xxhash collisions are outside the model: the key is the hashed tuple itself.) *)
From Coq Require Import List String ZArith NArith Bool.
From Verif Require Import Ast Base Hints.
Import ListNotations.

Fixpoint ms_eqb (a b : list matcher) : bool :=
  match a, b with
  | [], [] => true
  | x :: r, y :: r' => matcher_eqb x y && ms_eqb r r'
  | _, _ => false
  end.

Fixpoint ns_eqb (a b : list N) : bool :=
  match a, b with
  | [], [] => true
  | x :: r, y :: r' => N.eqb x y && ns_eqb r r'
  | _, _ => false
  end.

Lemma ms_eqb_eq a b : ms_eqb a b = true <-> a = b.
Proof.
  revert b. induction a as [|x a IH]; intros [|y b]; simpl; try (split; [discriminate|discriminate]); [tauto|].
  rewrite andb_true_iff, matcher_eqb_eq, IH. split; [intros [-> ->]; reflexivity|intros H; inversion H; auto].
Qed.

Lemma ns_eqb_eq a b : ns_eqb a b = true <-> a = b.
Proof.
  revert b. induction a as [|x a IH]; intros [|y b]; simpl; try (split; [discriminate|discriminate]); [tauto|].
  rewrite andb_true_iff, N.eqb_eq, IH. split; [intros [-> ->]; reflexivity|intros H; inversion H; auto].
Qed.

(* two requests have the same pool key *)
Definition key_eqb (a b : sel) : bool :=
  ms_eqb (s_ms a) (s_ms b) && Z.eqb (s_start a) (s_start b) && Z.eqb (s_end a) (s_end b)
  && Z.eqb (s_step a) (s_step b) && String.eqb (s_func a) (s_func b) && ns_eqb (s_grp a) (s_grp b)
  && Bool.eqb (s_by a) (s_by b).

(* two requests ask for the same select *)
Definition select_eqb (a b : sel) : bool := key_eqb a b && Z.eqb (s_range a) (s_range b).

Lemma select_eqb_eq a b : select_eqb a b = true <-> a = b.
Proof.
  unfold select_eqb, key_eqb. rewrite !andb_true_iff, ms_eqb_eq, !Z.eqb_eq, String.eqb_eq, ns_eqb_eq, Bool.eqb_true_iff.
  destruct a, b; simpl. split.
  - intros [[[[[[[-> ->] ->] ->] ->] ->] ->] ->]. reflexivity.
  - intros H. inversion H. repeat split; reflexivity.
Qed.

(* GetSelector / GetFilteredSelector: the pool is the list of the requests that created a selector *)
Definition pool_get (p : list sel) (r : sel) : list sel * sel :=
  match find (key_eqb r) p with
  | Some r0 => (p, r0)            (* the selector created for r0 is handed out *)
  | None => (p ++ [r], r)
  end.

Fixpoint pool_run (p : list sel) (rs : list sel) : list sel :=
  match rs with
  | [] => []
  | r :: rest => let '(p', got) := pool_get p r in got :: pool_run p' rest
  end.

Definition keys_determine (rs : list sel) : bool :=
  forallb (fun a => forallb (fun b => implb (key_eqb a b) (select_eqb a b)) rs) rs.

Lemma key_eqb_sym a b : key_eqb a b = key_eqb b a.
Proof.
  unfold key_eqb.
  assert (M : forall x y, ms_eqb x y = ms_eqb y x).
  { induction x as [|u x IH]; intros [|v y]; simpl; try reflexivity. rewrite IH. f_equal.
    destruct (matcher_eqb u v) eqn:E, (matcher_eqb v u) eqn:E'; try reflexivity.
    - apply matcher_eqb_eq in E. subst. assert (matcher_eqb v v = true) by (apply matcher_eqb_eq; reflexivity). congruence.
    - apply matcher_eqb_eq in E'. subst. assert (matcher_eqb u u = true) by (apply matcher_eqb_eq; reflexivity). congruence. }
  assert (Nn : forall x y, ns_eqb x y = ns_eqb y x).
  { induction x as [|u x IH]; intros [|v y]; simpl; try reflexivity. rewrite IH, (N.eqb_sym u v). reflexivity. }
  rewrite (M (s_ms a)), (Z.eqb_sym (s_start a)), (Z.eqb_sym (s_end a)), (Z.eqb_sym (s_step a)),
          (String.eqb_sym (s_func a)), (Nn (s_grp a)).
  destruct (s_by a), (s_by b); reflexivity.
Qed.

(* the pool is transparent: every request is answered with a selector that issues the very
   select that was requested *)
Theorem pool_transparent rs : keys_determine rs = true ->
  forall p, (forall x, In x p -> In x rs) -> pool_run p rs = rs.
Proof.
  intros Hk.
  assert (G : forall todo p, (forall x, In x todo -> In x rs) -> (forall x, In x p -> In x rs) -> pool_run p todo = todo).
  { induction todo as [|r rest IH]; intros p Ht Hp; simpl; [reflexivity|].
    unfold pool_get. destruct (find (key_eqb r) p) as [r0|] eqn:F.
    - apply find_some in F. destruct F as [Hin Hke].
      assert (E : r0 = r).
      { unfold keys_determine in Hk. rewrite forallb_forall in Hk.
        pose proof (Hk r (Ht r (or_introl eq_refl))) as H1. rewrite forallb_forall in H1.
        specialize (H1 r0 (Hp r0 Hin)). rewrite Hke in H1. simpl in H1. apply select_eqb_eq in H1. congruence. }
      rewrite E. f_equal. apply IH; [intros x Hx; apply Ht; right; assumption|assumption].
    - f_equal. apply IH; [intros x Hx; apply Ht; right; assumption|].
      intros x Hx. apply in_app_or in Hx. destruct Hx as [Hx|[<-|[]]]; [apply Hp; assumption|apply Ht; left; reflexivity]. }
  intros p Hp. apply G; [auto|assumption].
Qed.

(* ... and without the condition it is not: two matrix selectors that differ only in hints.Range
   (which a query cannot produce: the range is mint's distance from the window) would share *)
Example pool_needs_the_condition :
  let a := mkSel [] 0 10 1 5 "rate" [] false in
  let b := mkSel [] 0 10 1 7 "rate" [] false in
  keys_determine [a; b] = false /\ pool_run [] [a; b] = [a; a].
Proof. split; vm_compute; reflexivity. Qed.
