(* Plans that use a distributed topk / bottomk below other operators (C10). The distributed form of a
   tie-free topk equals the central one only at steps at which no two samples of a group of the union
   have the same value, so the plan relation is indexed by the lookback and the step: [jsim_at lb ts]
   contains [jsim] (per-series expressions, sum / max / min / count / group, series order), the
   distributed topk at a tie-free step, and is closed under the operators. Related plans give the same
   labelled samples at that step, through every operator above. *)
From Coq Require Import List ZArith NArith Bool Lia Permutation.
From Verif Require Import Base Grid Select SelectProofs Shard Exec Compose StreamWF Range MatrixRun Agg AggProofs Func Bin BinProofs
                          EndToEnd AggEnd Remote Trees DistTree DistGroup DistEquiv TopkDist.
Import ListNotations.
Open Scope Z_scope.

Inductive jsim_at (lb ts : Z) : jtree -> jtree -> Prop :=
| sat_base t t' : jsim t t' -> jsim_at lb ts t t'
| sat_topk bottom k without grouping s p ps : sok s -> part_ok p -> Forall part_ok ps ->
    ties_free without grouping (concat (map (fun q => pref lb s (fst q) (snd q) ts) (p :: ps))) = true ->
    jsim_at lb ts (JTopk bottom k without grouping (inst s (concat (map fst (p :: ps))) (concat (map snd (p :: ps)))))
                  (JTopk bottom k without grouping
                         (jcoalesce (remote_topk bottom k without grouping s p) (map (remote_topk bottom k without grouping s) ps)))
| sat_map drops f t t' : jsim_at lb ts t t' -> jsim_at lb ts (JMap drops f t) (JMap drops f t')
| sat_join p l l' r r' : jsim_at lb ts l l' -> jsim_at lb ts r r' -> jsim_at lb ts (JJoin p l r) (JJoin p l' r')
| sat_aggc init add without grouping t t' :
    (forall a b, add (init a) b = add (init b) a) -> (forall x a b, add (add x a) b = add (add x b) a) ->
    jsim_at lb ts t t' -> jsim_at lb ts (JAgg init add without grouping t) (JAgg init add without grouping t')
| sat_countc conv without grouping t t' : jsim_at lb ts t t' -> jsim_at lb ts (JCount conv without grouping t) (JCount conv without grouping t')
| sat_topkc bottom k without grouping t t' : jsim_at lb ts t t' -> jsim_at lb ts (JTopk bottom k without grouping t) (JTopk bottom k without grouping t')
| sat_invc t t' : jsim_at lb ts t t' -> jsim_at lb ts (JInvariant t) (JInvariant t')
| sat_concatc l l' r r' : jsim_at lb ts l l' -> jsim_at lb ts r r' -> jsim_at lb ts (JConcat l r) (JConcat l' r')
| sat_remotec t t' : jsim_at lb ts t t' -> jsim_at lb ts (JRemote t) (JRemote t').

Theorem jsim_at_oequiv lb ts t t' : jsim_at lb ts t t' -> oequiv (jref lb t ts) (jref lb t' ts).
Proof.
  induction 1 as [t t' Hs|bottom k without grouping s p ps Hs Hp Hps Ht|drops f t t' _ IH|p l l' r r' _ IHl _ IHr
                 |init add without grouping t t' L1 L2 _ IH|conv without grouping t t' _ IH|bottom k without grouping t t' _ IH
                 |t t' _ IH|l l' r r' _ IHl _ IHr|t t' _ IH].
  - exact (jsim_requiv lb t t' Hs ts).
  - set (Xs := map (fun q => pref lb s (fst q) (snd q) ts) (p :: ps)) in *.
    destruct (ksel_distributes bottom k without grouping Xs Ht) as [HtV PK].
    assert (Rc : jref lb (JTopk bottom k without grouping (inst s (concat (map fst (p :: ps))) (concat (map snd (p :: ps))))) ts
                 = Some (ksel bottom k without grouping (concat Xs))).
    { cbn [jref]. rewrite jref_inst, (pref_concat s Hs lb (p :: ps) ts (Forall_cons p Hp Hps)). fold Xs. unfold ref_topk. rewrite Ht. reflexivity. }
    assert (Rd : jref lb (JTopk bottom k without grouping
                            (jcoalesce (remote_topk bottom k without grouping s p) (map (remote_topk bottom k without grouping s) ps))) ts
                 = Some (ksel bottom k without grouping (concat (map (ksel bottom k without grouping) Xs)))).
    { cbn [jref]. rewrite (jref_coalesce_topk bottom k without grouping s lb p ps ts Ht).
      unfold ref_topk. unfold Xs in HtV. rewrite map_map in HtV. rewrite HtV. unfold Xs. rewrite map_map. reflexivity. }
    rewrite Rc, Rd. exact PK.
  - cbn [jref]. destruct (jref lb t ts), (jref lb t' ts); simpl in *; try tauto. apply flat_map_perm. exact IH.
  - cbn [jref].
    destruct (jref lb l ts) as [L|], (jref lb l' ts) as [L'|]; simpl in IHl; try tauto;
      destruct (jref lb r ts) as [R|], (jref lb r' ts) as [R'|]; simpl in IHr; try tauto; try exact I.
    apply ref_step_oequiv; assumption.
  - cbn [jref]. destruct (jref lb t ts), (jref lb t' ts); simpl in *; try tauto. apply ref_agg_perm; assumption.
  - cbn [jref]. destruct (jref lb t ts), (jref lb t' ts); simpl in *; try tauto. apply (ref_count_perm conv without grouping). exact IH.
  - cbn [jref]. destruct (jref lb t ts), (jref lb t' ts); simpl in *; try tauto. apply ref_topk_perm. exact IH.
  - exact IH.
  - cbn [jref].
    destruct (jref lb l ts), (jref lb l' ts); simpl in IHl; try tauto; destruct (jref lb r ts), (jref lb r' ts); simpl in IHr; try tauto; try exact I.
    simpl. apply Permutation_app; assumption.
  - exact IH.
Qed.

(* C10: the central plan and a plan in which, anywhere below the other operators, tie-free topk /
   bottomk and the forms of [jsim] are distributed give the same labelled samples at the step *)
Theorem distributed_plan_with_topk_equals_central cf w t t' ts :
  (0 < c_shards cf)%nat -> (0 < c_batch cf)%nat -> 0 <= c_lookback cf -> wf_window w -> noT < w_start w ->
  jsim_at (c_lookback cf) ts t t' -> jok t -> jok t' -> In ts (grid w) ->
  exists outs outs',
    jrun cf w t = inl outs /\ jrun cf w t' = inl outs' /\
    forall R, jref (c_lookback cf) t ts = Some R ->
      Permutation (labelled Z (jseries t) (step_of outs ts)) (labelled Z (jseries t') (step_of outs' ts)).
Proof.
  intros HN HB Hlb Hw Hs Hsim Hok Hok' Hts.
  destruct (jtree_matches_reference cf w HN HB Hlb Hw Hs t Hok) as [E P].
  destruct (jtree_matches_reference cf w HN HB Hlb Hw Hs t' Hok') as [E' P'].
  eexists. eexists. split; [exact E|]. split; [exact E'|].
  intros R HR. rewrite !step_of_map by assumption.
  pose proof (jsim_at_oequiv (c_lookback cf) ts t t' Hsim) as Q. rewrite HR in Q.
  destruct (jref (c_lookback cf) t' ts) as [R'|] eqn:HR'; simpl in Q; [|destruct Q].
  destruct (P ts) as [_ Pr]. destruct (P' ts) as [_ Pr'].
  eapply Permutation_trans; [apply Pr; exact HR|].
  eapply Permutation_trans; [exact Q|]. apply Permutation_sym. apply Pr'. exact HR'.
Qed.
