(* Bucket.v on exact numbers: histogram_quantile does not depend on the order in which the
   bucket series arrive (sorting, merging of equal upper bounds and the monotonicity repair
   produce a canonical histogram), and for a well-formed histogram the result lies in the
   bucket in which the cumulative count crosses the rank. The first is proved for every number
   type whose order is a strict total order and whose addition is associative and commutative
   (the rationals; not the floats, where the merged counts of equal upper bounds are rounded in
   arrival order), the second for the rationals. *)
From Coq Require Import List ZArith NArith Bool Arith Lia Permutation.
From Verif Require Import Base RangeArith Agg Bin Bucket.
Import ListNotations.

Section Order.
  Variable V : Type.
  Variable o : ops V.
  Variables pinf ninf : V.
  Hypothesis lt_irr : forall a, ltb o a a = false.
  Hypothesis lt_trans : forall a b c, ltb o a b = true -> ltb o b c = true -> ltb o a c = true.
  Hypothesis lt_tot : forall a b, ltb o a b = false -> ltb o b a = false -> a = b.
  Hypothesis eqb_eq : forall a b, eqb o a b = true <-> a = b.
  Hypothesis add_comm : forall a b, add o a b = add o b a.
  Hypothesis add_assoc : forall a b c, add o (add o a b) c = add o a (add o b c).

  Notation bucket := (bucket V).
  Notation ub := (ub V).
  Notation cnt := (cnt V).
  Notation mkB := (mkB V).
  Notation klt := (ub_ltb V o).
  Notation keq := (ub_eqb V o).

  Lemma klt_irr k : klt k k = false.
  Proof. destruct k; simpl; [apply lt_irr|reflexivity]. Qed.

  Lemma klt_trans a b c : klt a b = true -> klt b c = true -> klt a c = true.
  Proof. destruct a, b, c; simpl; try discriminate; try reflexivity. apply lt_trans. Qed.

  Lemma klt_tot a b : klt a b = false -> klt b a = false -> a = b.
  Proof. destruct a, b; simpl; try discriminate; try reflexivity. intros H1 H2. f_equal. apply lt_tot; assumption. Qed.

  Lemma keq_eq a b : keq a b = true <-> a = b.
  Proof.
    destruct a, b; simpl; try (split; [discriminate|discriminate]); [|tauto].
    rewrite eqb_eq. split; [intros ->; reflexivity|intros H; inversion H; reflexivity].
  Qed.

  Lemma keq_refl k : keq k k = true.
  Proof. apply keq_eq. reflexivity. Qed.

  Lemma klt_asym a b : klt a b = true -> klt b a = false.
  Proof. intros H. destruct (klt b a) eqn:E; [|reflexivity]. pose proof (klt_trans _ _ _ H E) as C. rewrite klt_irr in C. discriminate. Qed.

  Lemma klt_neq a b : klt a b = true -> keq a b = false.
  Proof. intros H. destruct (keq a b) eqn:E; [|reflexivity]. apply keq_eq in E. subst. rewrite klt_irr in H. discriminate. Qed.

  Lemma klt_neq' a b : klt a b = true -> keq b a = false.
  Proof. intros H. destruct (keq b a) eqn:E; [|reflexivity]. apply keq_eq in E. subst. rewrite klt_irr in H. discriminate. Qed.

  (* not (b < a) for every later b / a < b for every later b *)
  Fixpoint wsorted (l : list bucket) : Prop :=
    match l with [] => True | x :: r => (forall y, In y r -> klt (ub y) (ub x) = false) /\ wsorted r end.
  Fixpoint ssorted (l : list bucket) : Prop :=
    match l with [] => True | x :: r => (forall y, In y r -> klt (ub x) (ub y) = true) /\ ssorted r end.

  Lemma insert_b_in x l y : In y (insert_b V o x l) <-> x = y \/ In y l.
  Proof.
    induction l as [|z l IH]; simpl; [tauto|].
    destruct (klt (ub z) (ub x)); simpl; [rewrite IH|]; tauto.
  Qed.

  Lemma insert_b_wsorted x l : wsorted l -> wsorted (insert_b V o x l).
  Proof.
    induction l as [|z l IH]; simpl; intros Hs; [split; [intros y []|exact I]|].
    destruct Hs as [Hz Hs]. destruct (klt (ub z) (ub x)) eqn:E; simpl.
    - split; [|apply IH; assumption]. intros y Hy. apply insert_b_in in Hy. destruct Hy as [<-|Hy]; [apply klt_asym; assumption|apply Hz; assumption].
    - split; [|split; assumption]. intros y [<-|Hy]; [exact E|].
      destruct (klt (ub y) (ub x)) eqn:E2; [|reflexivity].
      (* y < x and not z < x, with not y < z: z <= y < x *)
      pose proof (Hz y Hy) as Hyz.
      destruct (klt (ub z) (ub y)) eqn:E3.
      + rewrite (klt_trans _ _ _ E3 E2) in E. discriminate.
      + pose proof (klt_tot _ _ Hyz E3) as Eq. rewrite Eq in E2. rewrite E2 in E. discriminate.
  Qed.

  Lemma sort_b_wsorted l : wsorted (sort_b V o l).
  Proof. induction l as [|x l IH]; simpl; [exact I|apply insert_b_wsorted; exact IH]. Qed.

  (* ---- coalesce_from, head and tail ------------------------------------------------------- *)

  Fixpoint run_sum (k : option V) (acc : V) (r : list bucket) : V :=
    match r with
    | b :: r' => if keq (ub b) k then run_sum k (add o acc (cnt b)) r' else acc
    | [] => acc
    end.
  Fixpoint run_rest (k : option V) (r : list bucket) : list bucket :=
    match r with
    | b :: r' => if keq (ub b) k then run_rest k r' else r
    | [] => []
    end.

  Lemma coalesce_from_eq r : forall last,
    coalesce_from V o last r = mkB (ub last) (run_sum (ub last) (cnt last) r) :: coalesce V o (run_rest (ub last) r).
  Proof.
    induction r as [|b r IH]; intros [k c]; simpl; [reflexivity|].
    destruct (keq (ub b) k) eqn:E.
    - rewrite IH. reflexivity.
    - destruct b as [kb cb]. reflexivity.
  Qed.

  Lemma run_sum_shift k r : forall a x, run_sum k (add o a x) r = add o (run_sum k a r) x.
  Proof.
    induction r as [|b r IH]; intros a x; simpl; [reflexivity|].
    destruct (keq (ub b) k); [|reflexivity].
    rewrite <- IH. f_equal. rewrite !add_assoc. f_equal. apply add_comm.
  Qed.

  Lemma run_rest_length k r : length (run_rest k r) <= length r.
  Proof. induction r as [|b r IH]; simpl; [lia|]. destruct (keq (ub b) k); simpl; lia. Qed.

  Lemma run_rest_wsorted k r : wsorted r -> wsorted (run_rest k r).
  Proof. induction r as [|b r IH]; simpl; intros H; [exact I|]. destruct (keq (ub b) k); [apply IH; tauto|exact H]. Qed.

  (* an element inserted above the run's key lands behind the run *)
  Lemma run_insert k x r a : klt k (ub x) = true -> wsorted r -> (forall y, In y r -> klt (ub y) k = false) ->
    run_sum k a (insert_b V o x r) = run_sum k a r /\ run_rest k (insert_b V o x r) = insert_b V o x (run_rest k r).
  Proof.
    intros Hkx. revert a. induction r as [|z r IH]; intros a Hs Hk; simpl.
    - rewrite (klt_neq' _ _ Hkx). split; reflexivity.
    - destruct Hs as [Hz Hs]. destruct (klt (ub z) (ub x)) eqn:E; simpl.
      + destruct (keq (ub z) k) eqn:E2.
        * apply IH; [assumption|]. intros y Hy. apply Hk. right. assumption.
        * cbn [insert_b]. rewrite E. split; reflexivity.
      + rewrite (klt_neq' _ _ Hkx).
        assert (E2 : keq (ub z) k = false).
        { destruct (keq (ub z) k) eqn:E2; [|reflexivity]. apply keq_eq in E2. rewrite E2 in E. rewrite Hkx in E. discriminate. }
        rewrite E2. cbn [insert_b]. rewrite E. split; reflexivity.
  Qed.

  (* ---- insertion into the merged list ----------------------------------------------------- *)

  Fixpoint cinsert (x : bucket) (c : list bucket) : list bucket :=
    match c with
    | [] => [x]
    | y :: r => if klt (ub y) (ub x) then y :: cinsert x r
                else if keq (ub y) (ub x) then mkB (ub y) (add o (cnt y) (cnt x)) :: r
                else x :: y :: r
    end.

  Lemma coalesce_insert n : forall s x, length s <= n -> wsorted s ->
    coalesce V o (insert_b V o x s) = cinsert x (coalesce V o s).
  Proof.
    induction n as [|n IH]; intros s x Hn Hs.
    - destruct s; [destruct x; reflexivity|simpl in Hn; lia].
    - destruct s as [|y r]; [destruct x; reflexivity|].
      destruct Hs as [Hy Hs]. simpl in Hn.
      cbn [insert_b]. destruct (klt (ub y) (ub x)) eqn:E.
      + cbn [coalesce]. rewrite !coalesce_from_eq.
        destruct (run_insert (ub y) x r (cnt y) E Hs Hy) as [R1 R2]. rewrite R1, R2.
        cbn [cinsert Bucket.ub]. rewrite E. f_equal.
        apply IH; [pose proof (run_rest_length (ub y) r); lia|apply run_rest_wsorted; assumption].
      + cbn [coalesce]. rewrite !coalesce_from_eq. cbn [cinsert Bucket.ub]. rewrite E.
        cbn [run_sum run_rest]. destruct (keq (ub y) (ub x)) eqn:E2.
        * apply keq_eq in E2. rewrite <- E2. f_equal. f_equal.
          rewrite (add_comm (cnt x) (cnt y)). apply run_sum_shift.
        * cbn [coalesce]. rewrite coalesce_from_eq. destruct x as [kx cx]. reflexivity.
  Qed.

  Lemma coalesce_sort l : coalesce V o (sort_b V o l) = fold_right cinsert [] l.
  Proof.
    induction l as [|x l IH]; [reflexivity|]. simpl.
    rewrite (coalesce_insert (length (sort_b V o l)) _ x (le_n _) (sort_b_wsorted l)), IH. reflexivity.
  Qed.

  Lemma cinsert_in x c y : In y (cinsert x c) -> ub y = ub x \/ In y c.
  Proof.
    induction c as [|z c IH]; simpl; [intros [<-|[]]; left; reflexivity|].
    destruct (klt (ub z) (ub x)); [intros [<-|H]; [right; left; reflexivity|destruct (IH H); tauto]|].
    destruct (keq (ub z) (ub x)) eqn:E.
    - intros [<-|H]; [left; simpl; apply keq_eq; assumption|right; right; assumption].
    - intros [<-|[<-|H]]; tauto.
  Qed.

  Lemma cinsert_ssorted x c : ssorted c -> ssorted (cinsert x c).
  Proof.
    induction c as [|z c IH]; simpl; intros Hs; [split; [intros y []|exact I]|].
    destruct Hs as [Hz Hs]. destruct (klt (ub z) (ub x)) eqn:E.
    - split; [|apply IH; assumption]. intros y Hy. destruct (cinsert_in _ _ _ Hy) as [->|Hy']; [assumption|apply Hz; assumption].
    - destruct (keq (ub z) (ub x)) eqn:E2.
      + split; [exact Hz|exact Hs].
      + assert (Hxz : klt (ub x) (ub z) = true).
        { destruct (klt (ub x) (ub z)) eqn:E3; [reflexivity|]. pose proof (klt_tot _ _ E E3) as Eq. rewrite Eq, keq_refl in E2. discriminate. }
        split; [|split; assumption]. intros y [<-|Hy]; [assumption|]. apply (klt_trans _ _ _ Hxz). apply Hz. assumption.
  Qed.

  Lemma fold_cinsert_ssorted l : ssorted (fold_right cinsert [] l).
  Proof. induction l as [|x l IH]; simpl; [exact I|apply cinsert_ssorted; exact IH]. Qed.

  Ltac kcontra :=
    repeat match goal with
           | H : keq _ _ = true |- _ => apply keq_eq in H
           end;
    subst;
    repeat match goal with
           | H : klt ?a ?a = true |- _ => rewrite klt_irr in H; discriminate
           | H1 : klt ?a ?b = true, H2 : klt ?b ?a = true |- _ => rewrite (klt_asym _ _ H1) in H2; discriminate
           | H1 : klt ?a ?b = true, H2 : klt ?b ?a = false |- _ => clear H2
           end.

  Lemma cinsert_comm x y c : ssorted c -> cinsert x (cinsert y c) = cinsert y (cinsert x c).
  Proof.
    induction c as [|z c IH]; intros Hs.
    - cbn [cinsert].
      destruct (klt (ub y) (ub x)) eqn:A, (klt (ub x) (ub y)) eqn:B.
      + exfalso. rewrite (klt_asym _ _ A) in B. discriminate.
      + rewrite ?(klt_neq _ _ A), ?(klt_neq' _ _ A). reflexivity.
      + rewrite ?(klt_neq _ _ B), ?(klt_neq' _ _ B). reflexivity.
      + pose proof (klt_tot _ _ A B) as Eq. rewrite Eq, keq_refl. destruct x as [kx cx], y as [ky cy]. simpl in *. subst. f_equal. f_equal. apply add_comm.
    - destruct Hs as [Hz Hs]. cbn [cinsert].
      destruct (klt (ub z) (ub y)) eqn:Zy, (klt (ub z) (ub x)) eqn:Zx; cbn [cinsert]; rewrite ?Zy, ?Zx.
      + f_equal. apply IH. assumption.
      + destruct (keq (ub z) (ub x)) eqn:Ex; cbn [cinsert Bucket.ub]; rewrite ?Zy, ?Zx, ?Ex; try reflexivity.
        (* x < z < y *)
        assert (Hxz : klt (ub x) (ub z) = true).
        { destruct (klt (ub x) (ub z)) eqn:E3; [reflexivity|]. pose proof (klt_tot _ _ Zx E3) as Eq. rewrite Eq, keq_refl in Ex. discriminate. }
        pose proof (klt_trans _ _ _ Hxz Zy) as Hxy. rewrite Hxy. reflexivity.
      + destruct (keq (ub z) (ub y)) eqn:Ey; cbn [cinsert Bucket.ub]; rewrite ?Zy, ?Zx, ?Ey; try reflexivity.
        assert (Hyz : klt (ub y) (ub z) = true).
        { destruct (klt (ub y) (ub z)) eqn:E3; [reflexivity|]. pose proof (klt_tot _ _ Zy E3) as Eq. rewrite Eq, keq_refl in Ey. discriminate. }
        pose proof (klt_trans _ _ _ Hyz Zx) as Hyx. rewrite Hyx. reflexivity.
      + destruct (keq (ub z) (ub y)) eqn:Ey, (keq (ub z) (ub x)) eqn:Ex; cbn [cinsert Bucket.ub]; rewrite ?Zy, ?Zx, ?Ey, ?Ex.
        * cbn [Bucket.cnt]. f_equal. f_equal. rewrite !add_assoc. f_equal. apply add_comm.
        * (* z = y, x < z *)
          assert (Hxz : klt (ub x) (ub z) = true).
          { destruct (klt (ub x) (ub z)) eqn:E3; [reflexivity|]. pose proof (klt_tot _ _ Zx E3) as Eq. rewrite Eq, keq_refl in Ex. discriminate. }
          apply keq_eq in Ey. rewrite <- Ey. rewrite Hxz. reflexivity.
        * assert (Hyz : klt (ub y) (ub z) = true).
          { destruct (klt (ub y) (ub z)) eqn:E3; [reflexivity|]. pose proof (klt_tot _ _ Zy E3) as Eq. rewrite Eq, keq_refl in Ey. discriminate. }
          apply keq_eq in Ex. rewrite <- Ex. rewrite Hyz. reflexivity.
        * destruct (klt (ub y) (ub x)) eqn:A, (klt (ub x) (ub y)) eqn:B.
          -- exfalso. rewrite (klt_asym _ _ A) in B. discriminate.
          -- rewrite ?(klt_neq _ _ A), ?(klt_neq' _ _ A). reflexivity.
          -- rewrite ?(klt_neq _ _ B), ?(klt_neq' _ _ B). reflexivity.
          -- pose proof (klt_tot _ _ A B) as Eq. rewrite Eq, keq_refl. destruct x as [kx cx], y as [ky cy]. simpl in *. subst. f_equal. f_equal. apply add_comm.
  Qed.

  Lemma fold_cinsert_perm l l' : Permutation l l' -> fold_right cinsert [] l = fold_right cinsert [] l'.
  Proof.
    induction 1 as [|x l l' _ IH|x y l|l l' l'' _ IH1 _ IH2]; simpl.
    - reflexivity.
    - rewrite IH. reflexivity.
    - apply cinsert_comm. apply fold_cinsert_ssorted.
    - rewrite IH1. exact IH2.
  Qed.

  (* the merged, sorted histogram is a function of the multiset of buckets *)
  Theorem coalesce_sort_perm l l' : Permutation l l' -> coalesce V o (sort_b V o l) = coalesce V o (sort_b V o l').
  Proof. intros H. rewrite !coalesce_sort. apply fold_cinsert_perm. exact H. Qed.

  Lemma coalesce_from_nonempty r : forall b, coalesce_from V o b r <> [].
  Proof. induction r as [|b' r IH]; intros b; simpl; [discriminate|]. destruct (keq (ub b') (ub b)); [apply IH|discriminate]. Qed.

  Lemma last_coalesce_from d r : forall b, ub (last (coalesce_from V o b r) d) = ub (last (b :: r) d).
  Proof.
    induction r as [|b' r IH]; intros b; [reflexivity|]. cbn [coalesce_from].
    destruct (keq (ub b') (ub b)) eqn:E.
    - rewrite IH. destruct r as [|b'' r]; [simpl; symmetry; apply keq_eq; exact E|reflexivity].
    - pose proof (coalesce_from_nonempty r b') as Hne. pose proof (IH b') as H'.
      destruct (coalesce_from V o b' r) as [|c0 cs] eqn:Ec; [contradiction|].
      change (last (b :: c0 :: cs) d) with (last (c0 :: cs) d).
      change (last (b :: b' :: r) d) with (last (b' :: r) d). exact H'.
  Qed.

  Lemma last_coalesce d s : ub (last (coalesce V o s) d) = ub (last s d).
  Proof. destruct s as [|b r]; [reflexivity|]. apply last_coalesce_from. Qed.

  Lemma sort_b_nil l : sort_b V o l = [] -> l = [].
  Proof.
    destruct l as [|x l]; [reflexivity|]. simpl. intros H. exfalso.
    assert (Hin : In x (insert_b V o x (sort_b V o l))) by (apply insert_b_in; left; reflexivity).
    rewrite H in Hin. destruct Hin.
  Qed.

  (* histogram_quantile does not depend on the order of the buckets *)
  Theorem bucket_quantile_perm q l l' : Permutation l l' ->
    bucket_quantile V o pinf ninf q l = bucket_quantile V o pinf ninf q l'.
  Proof.
    intros HP. unfold bucket_quantile.
    destruct (isnan o q); [reflexivity|]. destruct (ltb o q (zero o)); [reflexivity|]. destruct (ltb o (one o) q); [reflexivity|].
    pose proof (coalesce_sort_perm l l' HP) as E1.
    assert (E2 : ub (last (sort_b V o l) (dflt V o)) = ub (last (sort_b V o l') (dflt V o))).
    { rewrite <- (last_coalesce (dflt V o) (sort_b V o l)), <- (last_coalesce (dflt V o) (sort_b V o l')), E1. reflexivity. }
    rewrite E2, E1.
    destruct (sort_b V o l) as [|a s] eqn:Es, (sort_b V o l') as [|a' s'] eqn:Es'.
    - destruct (ub (last [] (dflt V o))); reflexivity.
    - apply sort_b_nil in Es. subst l. apply Permutation_nil in HP. subst l'. discriminate.
    - apply sort_b_nil in Es'. subst l'. apply Permutation_sym, Permutation_nil in HP. subst l. discriminate.
    - reflexivity.
  Qed.
End Order.

(* ---- the operator: the step's result does not depend on the order of the operand's samples ---- *)

Section OperatorOrder.
  Variable V : Type.
  Variable o : ops V.
  Variables pinf ninf : V.
  Hypothesis lt_irr : forall a, ltb o a a = false.
  Hypothesis lt_trans : forall a b c, ltb o a b = true -> ltb o b c = true -> ltb o a c = true.
  Hypothesis lt_tot : forall a b, ltb o a b = false -> ltb o b a = false -> a = b.
  Hypothesis eqb_eq : forall a b, eqb o a b = true <-> a = b.
  Hypothesis add_comm : forall a b, add o a b = add o b a.
  Hypothesis add_assoc : forall a b c, add o (add o a b) c = add o a (add o b c).

  Lemma step_buckets_perm idx g vec vec' : Permutation vec vec' ->
    Permutation (step_buckets V idx g vec) (step_buckets V idx g vec').
  Proof.
    intros HP. unfold step_buckets.
    induction HP as [|x l l' _ IH|x y l|l l' l'' _ IH1 _ IH2]; simpl.
    - constructor.
    - apply Permutation_app_head. exact IH.
    - rewrite !app_assoc. apply Permutation_app_tail. apply Permutation_app_comm.
    - eapply Permutation_trans; eassumption.
  Qed.

  (* histogram_quantile at one step is a function of the set of samples of the step, not of the
     order in which the operand lists them (the order of the bucket series in the storage, of the
     shards, of the partitions of a distributed query) *)
  Theorem hist_step_perm nout idx q vec vec' : Permutation vec vec' ->
    hist_step V o pinf ninf nout idx q vec = hist_step V o pinf ninf nout idx q vec'.
  Proof.
    intros HP. unfold hist_step.
    apply flat_map_ext. intros g.
    pose proof (step_buckets_perm idx g vec vec' HP) as P.
    destruct (step_buckets V idx g vec) as [|b1 bs] eqn:E1.
    - apply Permutation_nil in P. rewrite P. reflexivity.
    - destruct (step_buckets V idx g vec') as [|c1 cs] eqn:E2.
      + apply Permutation_sym, Permutation_nil in P. discriminate.
      + destruct q as [qv|]; [|reflexivity]. f_equal. f_equal.
        apply (bucket_quantile_perm V o pinf ninf lt_irr lt_trans lt_tot eqb_eq add_comm add_assoc). exact P.
  Qed.
End OperatorOrder.

(* ---- the rationals (canonical representatives: equality is Leibniz) satisfy the hypotheses --------- *)
From Coq Require Import QArith Qcanon.

Definition qcops : ops Qc :=
  mkOps Qc 0%Qc 1%Qc Qcplus Qcminus Qcmult Qcdiv (fun a => if Qclt_le_dec a 0%Qc then Qcopp a else a)
        (fun a b => if Qclt_le_dec b a then false else true)
        (fun a b => if Qclt_le_dec a b then true else false)
        (fun a b => if Qc_eq_dec a b then true else false)
        (fun _ => false) (fun _ => false) (fun z => Q2Qc (inject_Z z)) (Q2Qc 1000) 0%Qc.

Lemma qc_lt_irr a : RangeArith.ltb qcops a a = false.
Proof. simpl. destruct (Qclt_le_dec a a) as [H|H]; [exfalso; exact (Qclt_not_eq _ _ H eq_refl)|reflexivity]. Qed.

Lemma qc_lt_trans a b c : RangeArith.ltb qcops a b = true -> RangeArith.ltb qcops b c = true -> RangeArith.ltb qcops a c = true.
Proof.
  simpl. destruct (Qclt_le_dec a b) as [H1|]; [|discriminate]. destruct (Qclt_le_dec b c) as [H2|]; [|discriminate].
  intros _ _. destruct (Qclt_le_dec a c) as [|H3]; [reflexivity|].
  exfalso. exact (Qclt_not_le _ _ (Qclt_trans _ _ _ H1 H2) H3).
Qed.

Lemma qc_lt_tot a b : RangeArith.ltb qcops a b = false -> RangeArith.ltb qcops b a = false -> a = b.
Proof.
  simpl. destruct (Qclt_le_dec a b) as [|H1]; [discriminate|]. destruct (Qclt_le_dec b a) as [|H2]; [discriminate|].
  intros _ _. apply Qcle_antisym; assumption.
Qed.

Lemma qc_eqb_eq a b : RangeArith.eqb qcops a b = true <-> a = b.
Proof. simpl. destruct (Qc_eq_dec a b); split; congruence. Qed.

Lemma qc_add_comm a b : RangeArith.add qcops a b = RangeArith.add qcops b a.
Proof. apply Qcplus_comm. Qed.

Lemma qc_add_assoc a b c : RangeArith.add qcops (RangeArith.add qcops a b) c = RangeArith.add qcops a (RangeArith.add qcops b c).
Proof. simpl. symmetry. apply Qcplus_assoc. Qed.

Theorem bucket_quantile_order_independent (pinf ninf q : Qc) l l' : Permutation l l' ->
  bucket_quantile Qc qcops pinf ninf q l = bucket_quantile Qc qcops pinf ninf q l'.
Proof. apply (bucket_quantile_perm Qc qcops pinf ninf qc_lt_irr qc_lt_trans qc_lt_tot qc_eqb_eq qc_add_comm qc_add_assoc). Qed.

Theorem hist_step_order_independent (pinf ninf : Qc) nout idx q vec vec' : Permutation vec vec' ->
  hist_step Qc qcops pinf ninf nout idx q vec = hist_step Qc qcops pinf ninf nout idx q vec'.
Proof. apply (hist_step_perm Qc qcops pinf ninf qc_lt_irr qc_lt_trans qc_lt_tot qc_eqb_eq qc_add_comm qc_add_assoc). Qed.

(* ---- the operator's step vectors are well formed (C18): every output series at most once, IDs index
   the output series list -------------------------------------------------------------------------- *)
Lemma hist_step_ids (V : Type) (o : ops V) (pinf ninf : V) nout idx q vec :
  NoDup (map fst (hist_step V o pinf ninf nout idx q vec)) /\
  forall e, In e (hist_step V o pinf ninf nout idx q vec) -> (fst e < nout)%nat.
Proof.
  unfold hist_step.
  assert (G : forall l, NoDup l ->
            NoDup (map fst (flat_map (fun g => match step_buckets V idx g vec with
                                               | [] => []
                                               | bs => [(g, match q with Some qv => bucket_quantile V o pinf ninf qv bs | None => nanv o end)]
                                               end) l)) /\
            forall e, In e (flat_map (fun g => match step_buckets V idx g vec with
                                               | [] => []
                                               | bs => [(g, match q with Some qv => bucket_quantile V o pinf ninf qv bs | None => nanv o end)]
                                               end) l) -> In (fst e) l).
  { induction l as [|g l IH]; intros Hnd; simpl; [split; [constructor|intros e []]|].
    inversion Hnd as [|? ? Hn Hnd']; subst. destruct (IH Hnd') as [IH1 IH2].
    destruct (step_buckets V idx g vec) as [|b1 bs]; simpl.
    - split; [exact IH1|]. intros e He. right. apply IH2. exact He.
    - split.
      + constructor; [|exact IH1]. intros Hin. apply in_map_iff in Hin. destruct Hin as [e [Ee He]]. apply IH2 in He. rewrite Ee in He. contradiction.
      + intros e [<-|He]; [left; reflexivity|right; apply IH2; exact He]. }
  destruct (G (seq 0 nout) (seq_NoDup nout 0)) as [G1 G2]. split; [exact G1|].
  intros e He. apply G2 in He. apply in_seq in He. lia.
Qed.

(* ---- the operator's output series have pairwise distinct label sets (C19): a bucket series joins an
   existing output series whenever its labels without le and metric name are already there ----------- *)
From Verif Require Import AggProofs AggEnd.

Lemma NoDup_app_disjoint_single {A} (l : list A) x : NoDup l -> ~ In x l -> NoDup (l ++ [x]).
Proof.
  induction l as [|a l IH]; intros Hnd Hn; simpl; [constructor; [intros []|constructor]|].
  inversion Hnd as [|? ? Ha Hl]; subst. constructor.
  - intros Hin. apply in_app_or in Hin. destruct Hin as [Hin|[<-|[]]]; [contradiction|apply Hn; left; reflexivity].
  - apply IH; [assumption|intros H; apply Hn; right; assumption].
Qed.

Lemma load_nodup (V : Type) le : forall (ins : list (labels * option (option V))) outs,
  NoDup outs -> NoDup (fst (load V le ins outs)).
Proof.
  induction ins as [|[l [u|]] ins IH]; intros outs Hnd; cbn [load].
  - exact Hnd.
  - destruct (Agg.index_of (del_name (ldel l le)) outs) as [g|] eqn:E.
    + specialize (IH outs Hnd). destruct (load V le ins outs) as [outs' idx]. exact IH.
    + assert (Hnd' : NoDup (outs ++ [del_name (ldel l le)])).
      { apply NoDup_app_disjoint_single; [exact Hnd|apply index_of_none; exact E]. }
      specialize (IH _ Hnd'). destruct (load V le ins (outs ++ [del_name (ldel l le)])) as [outs' idx]. exact IH.
  - specialize (IH outs Hnd). destruct (load V le ins outs) as [outs' idx]. exact IH.
Qed.

Theorem hist_output_series_distinct (V : Type) le (ins : list (labels * option (option V))) :
  NoDup (fst (load V le ins [])).
Proof. apply load_nodup. constructor. Qed.
