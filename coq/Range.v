(* Range-vector selection: storage.BufferedSeriesIterator with its sampleRing
   (behavioural model of the Prometheus library types), scan.selectPoints with
   its reuse of the previous step's points, the ReduceDelta(min(range,step))
   call, and the series-major loop of matrixSelector.Next. The specification is
   [window]: the non-stale samples with mint <= t <= maxt. *)
From Coq Require Import List ZArith NArith Bool Lia.
From Verif Require Import Base Select.
Import ListNotations.
Open Scope Z_scope.

(* ---- specification ---------------------------------------------------- *)

Definition point := (Z * Z)%type.             (* timestamp, value bits *)

Fixpoint win_points (mint maxt : Z) (ss : list sample) : list point :=
  match ss with
  | [] => []
  | x :: rest =>
      match sv x with
      | Some v => if (mint <=? ts x) && (ts x <=? maxt) then (ts x, v) :: win_points mint maxt rest
                  else win_points mint maxt rest
      | None => win_points mint maxt rest
      end
  end.

(* ---- BufferedSeriesIterator ------------------------------------------- *)

Record bit := mkBit { bcur : list sample; blast : option Z; bbuf : list sample; bdelta : Z }.

Definition bit_reset (ss : list sample) (delta : Z) : bit := mkBit ss None [] delta.

(* sampleRing.add: append, then evict from the head relative to the added sample *)
Definition ring_add (delta : Z) (buf : list sample) (s : sample) : list sample :=
  drop_lt (ts s - delta) (buf ++ [s]).

Definition bit_next (b : bit) : bit :=
  match bcur b with
  | [] => b
  | x :: rest =>
      mkBit rest (match rest with y :: _ => Some (ts y) | [] => blast b end)
            (ring_add (bdelta b) (bbuf b) x) (bdelta b)
  end.

Fixpoint bit_advance (fuel : nat) (t : Z) (b : bit) : bit :=
  match fuel with
  | O => b
  | S f =>
      match bcur b with
      | [] => b
      | _ :: _ =>
          let b' := bit_next b in
          match bcur b' with
          | [] => b'
          | y :: _ => if ts y >=? t then b' else bit_advance f t b'
          end
      end
  end.

Definition blast_ge (b : bit) (t : Z) : bool :=
  match blast b with Some l => l >=? t | None => false end.

(* BufferedSeriesIterator.Seek *)
Definition bit_seek (b : bit) (t : Z) : bit :=
  let t0 := t - bdelta b in
  let jump := match bcur b with
              | [] => false
              | _ => match blast b with None => true | Some l => t0 >? l end
              end in
  let b1 :=
    if jump then
      let c := drop_lt t0 (bcur b) in
      mkBit c (match c with y :: _ => Some (ts y) | [] => blast b end) [] (bdelta b)
    else b in
  match bcur b1 with
  | [] => b1
  | _ => if blast_ge b1 t then b1 else bit_advance (length (bcur b1)) t b1
  end.

(* sampleRing.reduceDelta *)
Definition bit_reduce_delta (b : bit) (d : Z) : bit :=
  if d >? bdelta b then b
  else mkBit (bcur b) (blast b)
             (match rev (bbuf b) with
              | [] => []
              | newest :: _ => drop_lt (ts newest - d) (bbuf b)
              end) d.

(* ---- scan.selectPoints ------------------------------------------------ *)

Fixpoint drop_points_lt (t : Z) (out : list point) : list point :=
  match out with
  | [] => []
  | p :: rest => if fst p <? t then drop_points_lt t rest else out
  end.

Definition last_point_t (out : list point) : option Z :=
  match rev out with [] => None | p :: _ => Some (fst p) end.

Fixpoint ring_points (mint : Z) (buf : list sample) : list point :=
  match buf with
  | [] => []
  | x :: rest =>
      match sv x with
      | Some v => if ts x >=? mint then (ts x, v) :: ring_points mint rest else ring_points mint rest
      | None => ring_points mint rest
      end
  end.

Definition select_points (b : bit) (mint maxt : Z) (out : list point) : bit * list point :=
  let '(out1, mint1) :=
    match last_point_t out with
    | Some lt => if lt >=? mint then (drop_points_lt mint out, lt + 1) else ([], mint)
    | None => ([], mint)
    end in
  let b' := bit_seek b maxt in
  let out2 := out1 ++ ring_points mint1 (bbuf b') in
  let out3 :=
    match bcur b' with
    | x :: _ => match sv x with
                | Some v => if ts x =? maxt then out2 ++ [(ts x, v)] else out2
                | None => out2
                end
    | [] => out2
    end in
  (b', out3).

(* ---- matrixSelector.Next, one series ---------------------------------- *)

Record mscan := mkMScan { ms_it : bit; ms_prev : list point }.

Definition ms_reset (ss : list sample) (range : Z) : mscan := mkMScan (bit_reset ss range) [].

(* one step: the window handed to the function, and the new scanner state *)
Definition ms_step (range off step : Z) (s : mscan) (t : Z) : mscan * list point :=
  let maxt := t - off in
  let mint := maxt - range in
  let '(b', pts) := select_points (ms_it s) mint maxt (ms_prev s) in
  let step_range := if range >? step then step else range in
  (mkMScan (bit_reduce_delta b' step_range) pts, pts).

Fixpoint ms_scan (range off step : Z) (s : mscan) (steps : list Z) : mscan * list (list point) :=
  match steps with
  | [] => (s, [])
  | t :: rest =>
      let '(s1, w) := ms_step range off step s t in
      let '(s2, ws) := ms_scan range off step s1 rest in
      (s2, w :: ws)
  end.

(* the stateless description *)
Definition window_at (range off : Z) (ss : list sample) (t : Z) : list point :=
  win_points (t - off - range) (t - off) ss.
