(* Proofs about Select.v: the incremental, stateful selection of the engine
   equals the stateless specification [pick] at every step, for every sample
   layout, lookback, offset and step grid. *)
From Coq Require Import List ZArith NArith Bool Lia.
From Verif Require Import Base Select.
Import ListNotations.
Open Scope Z_scope.

Fixpoint take_lt (t : Z) (l : list sample) : list sample :=
  match l with
  | [] => []
  | x :: rest => if ts x <? t then x :: take_lt t rest else []
  end.

Fixpoint olast {A} (l : list A) : option A :=
  match l with
  | [] => None
  | x :: rest => match olast rest with Some y => Some y | None => Some x end
  end.

Lemma take_drop_lt t l : take_lt t l ++ drop_lt t l = l.
Proof. induction l as [|x l IH]; simpl; [reflexivity|]. destruct (ts x <? t); simpl; congruence. Qed.

Lemma take_lt_all t l : Forall (fun x => ts x < t) (take_lt t l).
Proof.
  induction l as [|x l IH]; simpl; [constructor|].
  destruct (Z.ltb_spec (ts x) t); constructor; auto.
Qed.

Lemma sorted_ts_Forall_ge x l : sorted_ts (x :: l) -> Forall (fun y => ts x <= ts y) (x :: l).
Proof.
  intros H. constructor; [lia|]. apply sorted_ts_lt in H.
  eapply Forall_impl; [|exact H]. simpl. intros; lia.
Qed.

Lemma drop_lt_sorted t l : sorted_ts l -> sorted_ts (drop_lt t l).
Proof.
  induction l as [|x l IH]; intros H; simpl; [exact I|].
  destruct (ts x <? t); [apply IH; eapply sorted_ts_tail; eauto|exact H].
Qed.

(* all elements of the dropped suffix are >= t *)
Lemma drop_lt_ge t l : sorted_ts l -> Forall (fun y => t <= ts y) (drop_lt t l).
Proof.
  induction l as [|x l IH]; intros H; simpl; [constructor|].
  destruct (Z.ltb_spec (ts x) t).
  - apply IH. eapply sorted_ts_tail; eauto.
  - pose proof (sorted_ts_Forall_ge x l H) as Hge.
    eapply Forall_impl; [|exact Hge]. simpl. intros; lia.
Qed.

Lemma drop_lt_id t l : Forall (fun y => t <= ts y) l -> drop_lt t l = l.
Proof.
  destruct l as [|x l]; intros H; simpl; [reflexivity|].
  inversion H; subst. destruct (Z.ltb_spec (ts x) t); [lia|reflexivity].
Qed.

Lemma take_lt_nil t l : Forall (fun y => t <= ts y) l -> take_lt t l = [].
Proof.
  destruct l as [|x l]; intros H; simpl; [reflexivity|].
  inversion H; subst. destruct (Z.ltb_spec (ts x) t); [lia|reflexivity].
Qed.

Lemma drop_lt_app_lt t pre l :
  Forall (fun x => ts x < t) pre -> drop_lt t (pre ++ l) = drop_lt t l.
Proof.
  induction 1 as [|x pre Hx _ IH]; simpl; [reflexivity|].
  destruct (Z.ltb_spec (ts x) t); [exact IH|lia].
Qed.

Lemma take_lt_app_lt t pre l :
  Forall (fun x => ts x < t) pre -> take_lt t (pre ++ l) = pre ++ take_lt t l.
Proof.
  induction 1 as [|x pre Hx _ IH]; simpl; [reflexivity|].
  destruct (Z.ltb_spec (ts x) t); [f_equal; exact IH|lia].
Qed.

Lemma drop_lt_mono t t' l : sorted_ts l -> t' <= t -> drop_lt t (drop_lt t' l) = drop_lt t l.
Proof.
  intros Hs Hle.
  rewrite <- (take_drop_lt t' l) at 2.
  rewrite drop_lt_app_lt; [reflexivity|].
  eapply Forall_impl; [|apply take_lt_all]. simpl. intros; lia.
Qed.

Lemma take_lt_mono t t' l : sorted_ts l -> t' <= t ->
  take_lt t l = take_lt t' l ++ take_lt t (drop_lt t' l).
Proof.
  intros Hs Hle.
  rewrite <- (take_drop_lt t' l) at 1.
  apply take_lt_app_lt.
  eapply Forall_impl; [|apply take_lt_all]. simpl. intros; lia.
Qed.

Lemma olast_app {A} (l1 l2 : list A) :
  olast (l1 ++ l2) = match olast l2 with Some y => Some y | None => olast l1 end.
Proof.
  induction l1 as [|x l1 IH]; simpl.
  - destruct (olast l2); reflexivity.
  - rewrite IH. destruct (olast l2); [reflexivity|]. reflexivity.
Qed.

Lemma olast_None {A} (l : list A) : olast l = None -> l = [].
Proof. destruct l as [|x l]; [reflexivity|]. simpl. destruct (olast l); discriminate. Qed.

Lemma olast_In {A} (l : list A) y : olast l = Some y -> In y l.
Proof.
  induction l as [|x l IH]; simpl; [discriminate|].
  destruct (olast l) eqn:E; intros H; inversion H; subst; auto.
Qed.

(* ---- the specification in terms of take/drop -------------------------- *)

Lemma last_le_spec ss r : sorted_ts ss ->
  last_le ss r =
  match drop_lt r ss with
  | x :: _ => if ts x =? r then Some x else olast (take_lt r ss)
  | [] => olast (take_lt r ss)
  end.
Proof.
  induction ss as [|x ss IH]; intros Hs; simpl; [reflexivity|].
  pose proof (sorted_ts_tail _ _ Hs) as Hs'.
  destruct (Z.ltb_spec (ts x) r) as [Hlt|Hge].
  - destruct (Z.leb_spec (ts x) r); [|lia].
    rewrite IH by assumption. simpl.
    destruct (drop_lt r ss) as [|y rest].
    + destruct (olast (take_lt r ss)); reflexivity.
    + destruct (ts y =? r); [reflexivity|]. destruct (olast (take_lt r ss)); reflexivity.
  - simpl. destruct (Z.eqb_spec (ts x) r) as [He|Hne].
    + destruct (Z.leb_spec (ts x) r); [|lia].
      (* every later sample is > r *)
      assert (Hnone : last_le ss r = None).
      { destruct ss as [|y ss']; [reflexivity|]. simpl in Hs. destruct Hs as [Hxy _].
        simpl. destruct (Z.leb_spec (ts y) r); [lia|reflexivity]. }
      rewrite Hnone. reflexivity.
    + destruct (Z.leb_spec (ts x) r); [lia|reflexivity].
Qed.

(* ---- the iterator invariant ------------------------------------------- *)

Lemma mit_seek_reset_cons delta x rest r :
  mit_seek delta (mit_reset (x :: rest)) r =
  let c := drop_lt (r - delta) (x :: rest) in
  let m1 := mkMit c (match c with y :: _ => Some (ts y) | [] => None end) None in
  match mcur m1 with
  | [] => m1
  | _ => if last_ge m1 r then m1 else mit_advance (length (mcur m1)) r m1
  end.
Proof. reflexivity. Qed.

Section Inv.
  Variable ss : list sample.
  Variable delta : Z.
  Hypothesis Hsorted : sorted_ts ss.
  Hypothesis Hdelta : 0 <= delta.

  Definition prev_ok (r : Z) (m : mit) : Prop :=
    match mprev m with
    | Some p => olast (take_lt r ss) = Some p
    | None => forall p, olast (take_lt r ss) = Some p -> ts p < r - delta
    end.

  Definition good (r : Z) (m : mit) : Prop :=
    mcur m = drop_lt r ss /\
    (forall x rest, mcur m = x :: rest -> mlast m = Some (ts x)) /\
    prev_ok r m.

  (* the advance loop on a state whose current sample is before t *)
  Lemma advance_spec t : forall fuel m x rest,
    mcur m = x :: rest -> sorted_ts (x :: rest) -> ts x < t ->
    (length (x :: rest) <= fuel)%nat ->
    let m' := mit_advance fuel t m in
    mcur m' = drop_lt t (x :: rest) /\
    (forall y r', mcur m' = y :: r' -> mlast m' = Some (ts y)) /\
    mprev m' = olast (take_lt t (x :: rest)).
  Proof.
    induction fuel as [|f IH]; intros m x rest Hc Hs Hx Hf; [simpl in Hf; lia|].
    simpl mit_advance. rewrite Hc. unfold mit_next. rewrite Hc. simpl mcur.
    simpl drop_lt. simpl take_lt.
    destruct (Z.ltb_spec (ts x) t); [|lia].
    destruct rest as [|y rest'].
    - simpl. repeat split; auto. intros; discriminate.
    - destruct (Z.geb_spec (ts y) t) as [Hge|Hlt].
      + simpl. destruct (Z.ltb_spec (ts y) t); [lia|]. simpl.
        repeat split; auto. intros y0 r0 Heq. inversion Heq; subst. reflexivity.
      + pose proof (sorted_ts_tail _ _ Hs) as Hs'.
        specialize (IH (mkMit (y :: rest') (Some (ts y)) (Some x)) y rest' eq_refl Hs' ltac:(lia)).
        simpl in Hf. specialize (IH ltac:(simpl; lia)).
        destruct IH as [I1 [I2 I3]]. repeat split; auto.
        rewrite I3. simpl take_lt. destruct (Z.ltb_spec (ts y) t); [|lia].
        simpl. destruct (olast (take_lt t rest')); reflexivity.
  Qed.

  (* Seek from a good state (or from the reset state) re-establishes [good] *)
  Ltac nil_cons := let H := fresh in intros ? ? H; simpl in H; try discriminate H.

  Lemma ge_all_of_sorted x rest t : sorted_ts (x :: rest) -> t <= ts x -> Forall (fun y => t <= ts y) (x :: rest).
  Proof.
    intros Hs Hx. pose proof (sorted_ts_Forall_ge x rest Hs) as Hf.
    eapply Forall_impl; [|exact Hf]. simpl; intros; lia.
  Qed.

  (* common core: from a state whose cursor list is [drop_lt q ss] for some
     q <= r with prev information valid relative to q, finish the seek to r *)
  Lemma finish_seek q r m :
    q <= r ->
    mcur m = drop_lt q ss ->
    (forall x rest, mcur m = x :: rest -> mlast m = Some (ts x)) ->
    (match mprev m with
     | Some p => olast (take_lt q ss) = Some p
     | None => forall p, olast (take_lt q ss) = Some p -> ts p < r - delta
     end) ->
    good r (match mcur m with
            | [] => m
            | _ => if last_ge m r then m else mit_advance (length (mcur m)) r m
            end).
  Proof.
    intros Hle Hcur Hlast Hprev.
    destruct (mcur m) as [|x rest] eqn:Ec; rewrite ?Ec in Hcur.
    - assert (Hd : drop_lt r ss = []).
      { rewrite <- (drop_lt_mono r q ss Hsorted Hle), <- Hcur. reflexivity. }
      assert (Ht : take_lt r ss = take_lt q ss).
      { rewrite (take_lt_mono r q ss Hsorted Hle), <- Hcur. simpl. apply app_nil_r. }
      unfold good. split; [|split].
      + rewrite Ec, Hd. reflexivity.
      + rewrite Ec. nil_cons.
      + unfold prev_ok. rewrite Ht. destruct (mprev m); [assumption|]. exact Hprev.
    - pose proof (Hlast x rest eq_refl) as Hl.
      assert (Hsx : sorted_ts (x :: rest)) by (rewrite Hcur; apply drop_lt_sorted; assumption).
      unfold last_ge. rewrite Hl.
      destruct (Z.geb_spec (ts x) r) as [Hxr|Hxr].
      + assert (Hall : Forall (fun y => r <= ts y) (x :: rest)) by (apply ge_all_of_sorted; [assumption|lia]).
        assert (Hd : drop_lt r ss = x :: rest).
        { rewrite <- (drop_lt_mono r q ss Hsorted Hle), <- Hcur. exact (drop_lt_id _ _ Hall). }
        assert (Ht : take_lt r ss = take_lt q ss).
        { rewrite (take_lt_mono r q ss Hsorted Hle), <- Hcur.
          rewrite (take_lt_nil r (x :: rest) Hall). apply app_nil_r. }
        unfold good. split; [|split].
        * rewrite Ec, Hd. reflexivity.
        * rewrite Ec. exact Hlast.
        * unfold prev_ok. rewrite Ht. destruct (mprev m); [assumption|]. exact Hprev.
      + pose proof (advance_spec r (length (x :: rest)) m x rest Ec Hsx ltac:(lia) ltac:(lia)) as [A1 [A2 A3]].
        unfold good. split; [|split].
        * rewrite A1. rewrite Hcur. apply drop_lt_mono; assumption.
        * exact A2.
        * unfold prev_ok. rewrite A3.
          rewrite (take_lt_mono r q ss Hsorted Hle), <- Hcur. rewrite olast_app.
          simpl take_lt. destruct (Z.ltb_spec (ts x) r); [|lia].
          simpl. destruct (olast (take_lt r rest)); reflexivity.
  Qed.

  Lemma prev_none_after_jump r : forall p, olast (take_lt (r - delta) ss) = Some p -> ts p < r - delta.
  Proof.
    intros p Hp. apply olast_In in Hp.
    pose proof (take_lt_all (r - delta) ss) as Ha. rewrite Forall_forall in Ha. auto.
  Qed.

  Lemma seek_good_from_good r0 r m :
    good r0 m -> r0 <= r -> good r (mit_seek delta m r).
  Proof.
    intros [Hcur [Hlast Hprev]] Hle.
    assert (Hprev' : match mprev m with
                     | Some p => olast (take_lt r0 ss) = Some p
                     | None => forall p, olast (take_lt r0 ss) = Some p -> ts p < r - delta
                     end).
    { unfold prev_ok in Hprev. destruct (mprev m); [assumption|].
      intros p Hp. specialize (Hprev p Hp). lia. }
    pose proof (finish_seek r0 r m Hle Hcur Hlast Hprev') as F.
    assert (Hge0 : Forall (fun y => r0 <= ts y) (mcur m)) by (rewrite Hcur; apply drop_lt_ge; assumption).
    assert (Hmono : forall t, r0 <= t -> drop_lt t (mcur m) = drop_lt t ss).
    { intros t Ht. rewrite Hcur. apply drop_lt_mono; assumption. }
    unfold mit_seek.
    destruct (mcur m) as [|x rest] eqn:Ec.
    - rewrite Ec. exact F.
    - pose proof (Hlast x rest eq_refl) as Hl. rewrite Hl.
      assert (Hgex : r0 <= ts x) by (inversion Hge0; assumption).
      destruct (Z.gtb_spec (r - delta) (ts x)) as [Hjump|Hnojump].
      + (* the seek jumps by more than delta: prev is forgotten *)
        set (c := drop_lt (r - delta) (x :: rest)).
        assert (Hc : c = drop_lt (r - delta) ss) by (apply Hmono; lia).
        set (m1 := mkMit c (match c with y :: _ => Some (ts y) | [] => Some (ts x) end) None).
        apply (finish_seek (r - delta) r m1); [lia|exact Hc| |].
        * intros y r' Hy. simpl in Hy. simpl. rewrite Hy. reflexivity.
        * simpl. apply prev_none_after_jump.
      + rewrite Ec. exact F.
  Qed.

  Lemma seek_good_from_reset r : good r (mit_seek delta (mit_reset ss) r).
  Proof.
    assert (Hcase : ss = [] \/ exists x rest, ss = x :: rest) by (destruct ss; [left|right]; eauto).
    destruct Hcase as [E | [x [rest E]]].
    - unfold good, prev_ok, mit_seek, mit_reset. simpl mcur. simpl mlast. rewrite E. simpl.
      split; [reflexivity|split].
      + nil_cons.
      + intros p Hp. discriminate Hp.
    - replace (mit_reset ss) with (mit_reset (x :: rest)) by (rewrite E; reflexivity).
      rewrite mit_seek_reset_cons. rewrite <- E.
      set (c := drop_lt (r - delta) ss).
      set (m1 := mkMit c (match c with y :: _ => Some (ts y) | [] => None end) None).
      apply (finish_seek (r - delta) r m1); [lia|reflexivity| |].
      + intros y r' Hy. simpl in Hy. simpl. rewrite Hy. reflexivity.
      + simpl. apply prev_none_after_jump.
  Qed.

  (* the value selectPoint reads off a good state is the specification *)
  Lemma good_value lb off t m :
    0 <= lb -> lb <= delta -> good (t - off) m ->
    (match mcur m with
     | x :: _ => if ts x >? t - off then
                   match mprev m with Some p => if ts p <? t - off - lb then None else sv p | None => None end
                 else sv x
     | [] => match mprev m with Some p => if ts p <? t - off - lb then None else sv p | None => None end
     end) = pick lb ss (t - off).
  Proof.
    intros Hlb0 Hlb [Hcur [_ Hprev]]. set (r := t - off) in *.
    unfold pick. rewrite last_le_spec by assumption. rewrite <- Hcur.
    assert (Hfrom : match mprev m with Some p => if ts p <? r - lb then None else sv p | None => None end =
                    match olast (take_lt r ss) with Some x => if ts x <? r - lb then None else sv x | None => None end).
    { unfold prev_ok in Hprev. destruct (mprev m) as [p|].
      - rewrite Hprev. reflexivity.
      - destruct (olast (take_lt r ss)) as [p|]; [|reflexivity].
        specialize (Hprev p eq_refl). destruct (Z.ltb_spec (ts p) (r - lb)); [reflexivity|lia]. }
    destruct (mcur m) as [|x rest] eqn:Ec; [exact Hfrom|].
    assert (Hge : r <= ts x).
    { pose proof (drop_lt_ge r ss Hsorted) as Hg. rewrite <- Hcur in Hg. inversion Hg; assumption. }
    destruct (Z.gtb_spec (ts x) r) as [Hgt|Hle].
    - destruct (Z.eqb_spec (ts x) r); [lia|]. exact Hfrom.
    - destruct (Z.eqb_spec (ts x) r); [|lia].
      destruct (Z.ltb_spec (ts x) (r - lb)); [|reflexivity].
      (* ts x = r and lb >= 0 is not assumed: the engine returns the sample at r *)
      lia.
  Qed.
End Inv.

(* ---- one series over a non-decreasing sequence of steps ---------------- *)

Fixpoint nondecr_from (lo : Z) (steps : list Z) : Prop :=
  match steps with
  | [] => True
  | t :: rest => lo <= t /\ nondecr_from t rest
  end.

Definition last_or (lo : Z) (steps : list Z) : Z := last steps lo.

Lemma last_cons_indep {A} (l : list A) a d d' : last (a :: l) d = last (a :: l) d'.
Proof.
  revert a. induction l as [|b l IH]; intros a; [reflexivity|].
  change (last (a :: b :: l) d) with (last (b :: l) d).
  change (last (a :: b :: l) d') with (last (b :: l) d'). apply IH.
Qed.

Lemma nondecr_from_app lo l1 l2 :
  nondecr_from lo (l1 ++ l2) <-> nondecr_from lo l1 /\ nondecr_from (last_or lo l1) l2.
Proof.
  revert lo. induction l1 as [|t l1 IH]; intros lo.
  - unfold last_or; simpl. tauto.
  - change ((t :: l1) ++ l2) with (t :: (l1 ++ l2)).
    cbn [nondecr_from]. rewrite IH.
    assert (Hl : last_or lo (t :: l1) = last_or t l1).
    { unfold last_or. destruct l1 as [|t' l1']; [reflexivity|].
      change (last (t :: t' :: l1') lo) with (last (t' :: l1') lo).
      apply last_cons_indep. }
    rewrite Hl. tauto.
Qed.

Lemma nondecr_from_weaken lo lo' l : lo' <= lo -> nondecr_from lo l -> nondecr_from lo' l.
Proof. destruct l; simpl; intros; [auto|split; [lia|tauto]]. Qed.

Section Series.
  Variable ss : list sample.
  Variables delta lb off : Z.
  Hypothesis Hsorted : sorted_ts ss.
  Hypothesis Hlb : 0 <= lb <= delta.

  (* the iterator is usable for every step time >= lo *)
  Definition ok_state (lo : Z) (m : mit) : Prop :=
    m = mit_reset ss \/ exists r0, good ss delta r0 m /\ r0 <= lo - off.

  Lemma select_point_spec lo t m :
    ok_state lo m -> lo <= t ->
    snd (select_point delta lb off m t) = pick lb ss (t - off) /\
    ok_state t (fst (select_point delta lb off m t)).
  Proof.
    intros Hok Hle.
    assert (Hg : good ss delta (t - off) (mit_seek delta m (t - off))).
    { destruct Hok as [->|[r0 [Hg0 Hr0]]].
      - apply seek_good_from_reset; [assumption|lia].
      - eapply seek_good_from_good; eauto; lia. }
    unfold select_point. simpl. split.
    - apply (good_value ss delta Hsorted lb off t _ ltac:(lia) ltac:(lia) Hg).
    - right. exists (t - off). split; [assumption|lia].
  Qed.

  Lemma scan_steps_spec : forall steps lo m,
    ok_state lo m -> nondecr_from lo steps ->
    snd (scan_steps delta lb off m steps) = map (fun t => pick lb ss (t - off)) steps /\
    ok_state (last_or lo steps) (fst (scan_steps delta lb off m steps)).
  Proof.
    induction steps as [|t rest IH]; intros lo m Hok Hnd.
    - simpl. split; [reflexivity|exact Hok].
    - simpl in Hnd. destruct Hnd as [Hle Hnd].
      pose proof (select_point_spec lo t m Hok Hle) as [Hv Hok'].
      cbn [scan_steps].
      destruct (select_point delta lb off m t) as [m1 v] eqn:Esp. simpl in Hv, Hok'.
      specialize (IH t m1 Hok' Hnd).
      destruct (scan_steps delta lb off m1 rest) as [m2 vs] eqn:Esc. simpl in IH.
      destruct IH as [IHv IHok]. simpl. split; [rewrite Hv, IHv; reflexivity|].
      unfold last_or in *. destruct rest as [|z rest']; [exact IHok|].
      change (last (t :: z :: rest') lo) with (last (z :: rest') lo).
      rewrite (last_cons_indep rest' z lo t). exact IHok.
  Qed.
End Series.

(* ---- the operator: all series, batch after batch ----------------------- *)

Lemma collect_length i col : length (fst (collect i col)) = length (snd (collect i col)).
Proof.
  revert i. induction col as [|c col IH]; intros i; simpl; [reflexivity|].
  specialize (IH (S i)). destruct (collect (S i) col) as [ids vs]. simpl in IH.
  destruct c; simpl; lia.
Qed.

Lemma map_nth_seq {A B} (g : A -> B) (l : list A) (d : A) :
  map (fun j => g (nth j l d)) (seq 0 (length l)) = map g l.
Proof.
  induction l as [|x l IH]; simpl; [reflexivity|].
  f_equal. rewrite <- seq_shift, map_map. exact IH.
Qed.

Section Operator.
  Variables delta lb off : Z.
  Hypothesis Hlb : 0 <= lb <= delta.

  Definition ok_states (sers : list (list sample)) (lo : Z) (sts : list mit) : Prop :=
    Forall2 (fun ss m => ok_state ss delta off lo m) sers sts.

  Lemma vs_next_spec sers : Forall sorted_ts sers -> forall sts lo steps,
    ok_states sers lo sts -> nondecr_from lo steps ->
    snd (vs_next delta lb off sts steps) = map (select_step lb off sers) steps /\
    ok_states sers (last_or lo steps) (fst (vs_next delta lb off sts steps)).
  Proof.
    intros Hs sts lo steps Hok Hnd. unfold vs_next. simpl.
    assert (Hrows : map snd (map (fun m => scan_steps delta lb off m steps) sts) =
                    map (fun ss => map (fun t => pick lb ss (t - off)) steps) sers /\
                    ok_states sers (last_or lo steps) (map fst (map (fun m => scan_steps delta lb off m steps) sts))).
    { unfold ok_states in *. revert Hs. induction Hok as [|ss m sers' sts' Hm _ IH]; intros Hs.
      - simpl. split; [reflexivity|constructor].
      - inversion Hs; subst.
        pose proof (scan_steps_spec ss delta lb off ltac:(assumption) Hlb steps lo m Hm Hnd) as [Hv Hk].
        destruct (IH ltac:(assumption)) as [IH1 IH2].
        simpl. split; [rewrite Hv, IH1; reflexivity|constructor; assumption]. }
    destruct Hrows as [Hrows Hsts]. split; [|exact Hsts].
    rewrite Hrows.
    rewrite <- (map_nth_seq (select_step lb off sers) steps 0).
    apply map_ext_in. intros j Hj. apply in_seq in Hj.
    unfold select_step. f_equal. unfold column. rewrite map_map.
    apply map_ext. intros ss.
    rewrite (nth_indep _ None (pick lb ss (0 - off))) by (rewrite map_length; lia).
    rewrite (map_nth (fun t => pick lb ss (t - off)) steps 0 j). reflexivity.
  Qed.

  Theorem vs_run_spec sers : Forall sorted_ts sers -> forall batches sts lo,
    ok_states sers lo sts -> nondecr_from lo (concat batches) ->
    vs_run delta lb off sts batches = map (map (select_step lb off sers)) batches.
  Proof.
    intros Hs. induction batches as [|b rest IH]; intros sts lo Hok Hnd; [reflexivity|].
    simpl concat in Hnd. apply nondecr_from_app in Hnd. destruct Hnd as [Hb Hrest].
    pose proof (vs_next_spec sers Hs sts lo b Hok Hb) as [Hout Hok'].
    cbn [vs_run]. destruct (vs_next delta lb off sts b) as [sts' out]. cbn [fst snd] in Hout, Hok'.
    cbn [map]. rewrite Hout. f_equal. eapply IH; eauto.
  Qed.

  Lemma ok_states_reset sers lo : ok_states sers lo (map mit_reset sers).
  Proof.
    unfold ok_states. induction sers as [|ss sers IH]; simpl; constructor; [left; reflexivity|exact IH].
  Qed.
End Operator.

(* ---- what [pick] means ------------------------------------------------- *)

Lemma last_le_some ss r x : sorted_ts ss ->
  last_le ss r = Some x <->
  In x ss /\ ts x <= r /\ (forall y, In y ss -> ts y <= r -> ts y <= ts x).
Proof.
  revert x. induction ss as [|a ss IH]; intros x Hs; simpl.
  - split; [discriminate|tauto].
  - pose proof (sorted_ts_tail _ _ Hs) as Hs'. pose proof (sorted_ts_lt _ _ Hs) as Hlt.
    rewrite Forall_forall in Hlt.
    destruct (Z.leb_spec (ts a) r) as [Hle|Hgt].
    + destruct (last_le ss r) as [y|] eqn:El.
      * pose proof (proj1 (IH y Hs') eq_refl) as [Hin [Hyr Hmax]].
        split.
        -- intros H; inversion H; subst. repeat split; auto.
           intros z [->|Hz] Hzr; [specialize (Hlt x Hin); lia|auto].
        -- intros [[->|Hin'] [Hxr Hmax']].
           ++ specialize (Hmax' y (or_intror Hin) Hyr). specialize (Hlt y Hin). lia.
           ++ apply (IH x Hs'). repeat split; auto.
      * split.
        -- intros H; inversion H; subst. repeat split; auto.
           intros z [->|Hz] Hzr; [lia|].
           exfalso. assert (Hn : last_le ss r = Some z -> False) by (rewrite El; discriminate).
           (* some element <= r exists in ss, so last_le cannot be None *)
           clear - Hz Hzr El Hs'. induction ss as [|b ss IHs]; [inversion Hz|].
           simpl in El. pose proof (sorted_ts_lt _ _ Hs') as Hl. rewrite Forall_forall in Hl.
           destruct (Z.leb_spec (ts b) r).
           ++ destruct (last_le ss r); discriminate.
           ++ destruct Hz as [->|Hz]; [lia|]. specialize (Hl z Hz). lia.
        -- intros [[->|Hin'] [Hxr Hmax']]; [reflexivity|].
           exfalso. clear - Hin' Hxr El Hs'. induction ss as [|b ss IHs]; [inversion Hin'|].
           simpl in El. pose proof (sorted_ts_lt _ _ Hs') as Hl. rewrite Forall_forall in Hl.
           destruct (Z.leb_spec (ts b) r).
           ++ destruct (last_le ss r); discriminate.
           ++ destruct Hin' as [->|Hz]; [lia|]. specialize (Hl x Hz). lia.
    + split; [discriminate|].
      intros [[->|Hin] [Hxr _]]; [lia|]. specialize (Hlt x Hin). lia.
Qed.

Theorem pick_meaning lb ss r v : sorted_ts ss ->
  pick lb ss r = Some v <->
  exists x, In x ss /\ ts x <= r /\ (forall y, In y ss -> ts y <= r -> ts y <= ts x) /\
            r - lb <= ts x /\ sv x = Some v.
Proof.
  intros Hs. unfold pick. destruct (last_le ss r) as [x|] eqn:El.
  - apply (last_le_some ss r x Hs) in El. destruct El as [Hin [Hxr Hmax]].
    destruct (Z.ltb_spec (ts x) (r - lb)).
    + split; [discriminate|]. intros [y [Hy [Hyr [Hymax [Hlb _]]]]].
      specialize (Hmax y Hy Hyr). lia.
    + split.
      * intros Hv. exists x. repeat split; auto.
      * intros [y [Hy [Hyr [Hymax [Hlb Hv]]]]].
        assert (ts y = ts x) by (specialize (Hmax y Hy Hyr); specialize (Hymax x Hin Hxr); lia).
        assert (y = x).
        { clear - Hs Hy Hin H0. induction ss as [|a ss IH]; [inversion Hy|].
          pose proof (sorted_ts_lt _ _ Hs) as Hl. rewrite Forall_forall in Hl.
          destruct Hy as [->|Hy], Hin as [->|Hin]; auto.
          - specialize (Hl x Hin). lia.
          - specialize (Hl y Hy). lia.
          - apply IH; auto. eapply sorted_ts_tail; eauto. }
        subst. assumption.
  - split; [discriminate|]. intros [x [Hin [Hxr [Hmax _]]]].
    assert (last_le ss r = Some x) by (apply last_le_some; auto). congruence.
Qed.
